(** * Ws/WsSysProofs.v — C08 stage 3: the joined system (WsSys.v) refines both stages.

    - [ystep_erases] / [yrun_erases]: every step (run) of the joined system is a run of stage 2 on its
      configuration, so every reachable configuration of the joined system is a reachable
      configuration of stage 2 and the theorems of WsActorsProofs.v apply to it.
    - [sys_refines]: in every reachable state of the joined system, with [ls] the labels committed so
      far: the dispatcher state is stage 1's [final ls]; goroutine i serves the i-th source of that
      state, its Stop() counter is that source's, and the frames it has handed to [sendMessage]
      followed by what it still has in hand ([gor_pending]: the data frame of an event it has taken,
      the complete it owes) are exactly the frames stage 1's sequential trace [trace ls] attributes
      to its operation; for every other owner (connection-level frames, queries, mutations, failed
      subscribes) the frames the read loop has handed to [sendMessage], followed by its remaining
      program, are exactly what [trace ls] attributes to that owner (a tail is lost only when the ack
      or first ka could not be queued because the write loop had exited); HandleClose has run iff
      stage 1 is closed.
    Proof: one invariant ([SysInv]) over all steps, by position in the table of sources. *)
From Coq Require Import List NArith ZArith Bool Arith Lia.
From ApiFu Require Import Ws.WsTypes Ws.WsSpec Ws.WsModel Ws.WsProofs Ws.WsTheorems Ws.WsActors Ws.WsActorsProofs Ws.WsSys.
Import ListNotations.

(** ** lists by position *)
Lemma upd_nth_same {A} (f : A -> A) : forall i l x, nth_error l i = Some x -> nth_error (upd i f l) i = Some (f x).
Proof. induction i as [|i IH]; intros [|y l] x H; simpl in *; try discriminate; [now injection H as ->|auto]. Qed.
Lemma upd_nth_other {A} (f : A -> A) : forall i j l, i <> j -> nth_error (upd i f l) j = nth_error l j.
Proof.
  induction i as [|i IH]; intros [|j] [|y l] H; simpl; try reflexivity; try congruence.
  apply IH. congruence.
Qed.
Lemma upd_split {A} (f : A -> A) : forall l1 x l2, upd (List.length l1) f (l1 ++ x :: l2) = l1 ++ f x :: l2.
Proof. induction l1 as [|y l1 IH]; intros x l2; simpl; [reflexivity|]. now rewrite IH. Qed.
Lemma nth_split {A} : forall (l1 : list A) x l2, nth_error (l1 ++ x :: l2) (List.length l1) = Some x.
Proof. induction l1 as [|y l1 IH]; intros; simpl; auto. Qed.

(** the source of operation n is at one position only *)
Lemma src_index_first n : forall l1 x l2, s_op x = n -> (forall y, In y l1 -> s_op y <> n) ->
  src_index n (l1 ++ x :: l2) = Some (List.length l1).
Proof.
  induction l1 as [|y l1 IH]; intros x l2 E H; simpl.
  - rewrite E, Nat.eqb_refl. reflexivity.
  - destruct (Nat.eqb (s_op y) n) eqn:Q; [apply Nat.eqb_eq in Q; exfalso; apply (H y); [now left|exact Q]|].
    rewrite IH; auto. intros z Hz. apply H. now right.
Qed.

Lemma nodup_nth_op (l : list src) : NoDup (map s_op l) ->
  forall i j x y, nth_error l i = Some x -> nth_error l j = Some y -> s_op x = s_op y -> i = j.
Proof.
  intros ND i j x y Hi Hj E.
  assert (Hi' : nth_error (map s_op l) i = Some (s_op x)) by (rewrite nth_error_map, Hi; reflexivity).
  assert (Hj' : nth_error (map s_op l) j = Some (s_op x)) by (rewrite nth_error_map, Hj, E; reflexivity).
  rewrite NoDup_nth_error in ND. apply ND; [apply nth_error_Some; congruence|congruence].
Qed.

(** decomposition of the table at the position of x *)
Lemma split_at (l : list src) i x : NoDup (map s_op l) -> nth_error l i = Some x ->
  exists l1 l2, l = l1 ++ x :: l2 /\ List.length l1 = i /\ (forall y, In y l1 -> s_op y <> s_op x).
Proof.
  intros ND H. destruct (nth_error_split l i H) as (l1 & l2 & -> & L). exists l1, l2. split; [reflexivity|]. split; [exact L|].
  intros y Hy E. apply In_nth_error in Hy as (j & Hj).
  assert (Hj' : nth_error (l1 ++ x :: l2) j = Some y).
  { rewrite nth_error_app1; [exact Hj|]. apply nth_error_Some. congruence. }
  assert (j = i) by (eapply (nodup_nth_op _ ND); eauto).
  assert (j < List.length l1) by (apply nth_error_Some; congruence). lia.
Qed.

Lemma stop_src_at l i x : NoDup (map s_op l) -> nth_error l i = Some x ->
  stop_src (s_op x) l = (upd i bump l, VStop (s_op x) :: complete_if_live x) /\ src_index (s_op x) l = Some i.
Proof.
  intros ND H. destruct (split_at l i x ND H) as (l1 & l2 & -> & <- & Hl1).
  destruct (stop_src_some (s_op x) (l1 ++ x :: l2)) as (k1 & x' & k2 & E & Ex & Hk1 & S).
  { exists x. split; [apply in_or_app; right; now left|reflexivity]. }
  assert (x' = x).
  { apply (nodup_op_eq (l1 ++ x :: l2)); auto; [rewrite E|]; apply in_or_app; right; now left. }
  subst x'.
  assert (k1 = l1 /\ k2 = l2) as [-> ->].
  { assert (Lk : List.length k1 = List.length l1).
    { apply (nodup_nth_op _ ND _ _ x x); [rewrite E; apply nth_split|apply nth_split|reflexivity]. }
    clear - E Lk. revert l1 E Lk. induction k1 as [|a k1 IH]; intros [|b l1] E Lk; simpl in *; try discriminate.
    - now injection E as ->.
    - injection E as -> E. injection Lk as Lk. destruct (IH _ E Lk) as [-> ->]. auto. }
  rewrite S, upd_split. split; [reflexivity|]. now apply src_index_first.
Qed.

Lemma emit_src_at l i x : NoDup (map s_op l) -> nth_error l i = Some x ->
  emit_src (s_op x) l = if live x then (upd i more l, [VSend (SData (s_id x) (CEv (s_op x) (S (s_events x)))) (Some (s_op x))])
                        else (l, []).
Proof.
  intros ND H. destruct (split_at l i x ND H) as (l1 & l2 & -> & <- & Hl1).
  destruct (emit_src_some (s_op x) (l1 ++ x :: l2)) as (k1 & x' & k2 & E & Ex & Hk1 & S).
  { exists x. split; [apply in_or_app; right; now left|reflexivity]. }
  assert (x' = x).
  { apply (nodup_op_eq (l1 ++ x :: l2)); auto; [rewrite E|]; apply in_or_app; right; now left. }
  subst x'.
  assert (k1 = l1 /\ k2 = l2) as [-> ->].
  { assert (Lk : List.length k1 = List.length l1).
    { apply (nodup_nth_op _ ND _ _ x x); [rewrite E; apply nth_split|apply nth_split|reflexivity]. }
    clear - E Lk. revert l1 E Lk. induction k1 as [|a k1 IH]; intros [|b l1] E Lk; simpl in *; try discriminate.
    - now injection E as ->.
    - injection E as -> E. injection Lk as Lk. destruct (IH _ E Lk) as [-> ->]. auto. }
  rewrite S, upd_split. reflexivity.
Qed.

Lemma end_src_at l i x : NoDup (map s_op l) -> nth_error l i = Some x ->
  end_src (s_op x) l = if s_ended x then (l, [])
                       else (upd i finish l, VSrcEnd (s_op x) :: complete_if_live x).
Proof.
  intros ND H. destruct (split_at l i x ND H) as (l1 & l2 & -> & <- & Hl1).
  destruct (end_src_some (s_op x) (l1 ++ x :: l2)) as (k1 & x' & k2 & E & Ex & Hk1 & S).
  { exists x. split; [apply in_or_app; right; now left|reflexivity]. }
  assert (x' = x).
  { apply (nodup_op_eq (l1 ++ x :: l2)); auto; [rewrite E|]; apply in_or_app; right; now left. }
  subst x'.
  assert (k1 = l1 /\ k2 = l2) as [-> ->].
  { assert (Lk : List.length k1 = List.length l1).
    { apply (nodup_nth_op _ ND _ _ x x); [rewrite E; apply nth_split|apply nth_split|reflexivity]. }
    clear - E Lk. revert l1 E Lk. induction k1 as [|a k1 IH]; intros [|b l1] E Lk; simpl in *; try discriminate.
    - now injection E as ->.
    - injection E as -> E. injection Lk as Lk. destruct (IH _ E Lk) as [-> ->]. auto. }
  rewrite S, upd_split. reflexivity.
Qed.

(** ** Stop() changes nothing but the Stop counter *)
Definition same_core (x y : src) : Prop :=
  s_op x = s_op y /\ s_id x = s_id y /\ s_ended x = s_ended y /\ s_events x = s_events y.
Lemma same_core_refl l : Forall2 same_core l l.
Proof. induction l; constructor; auto. repeat split. Qed.
Lemma same_core_trans a b c : Forall2 same_core a b -> Forall2 same_core b c -> Forall2 same_core a c.
Proof.
  intro H. revert c. induction H as [|x y a b (A1 & A2 & A3 & A4) H IH]; intros c Hc; inversion Hc as [|? z ? c' (B1 & B2 & B3 & B4) Hc']; subst; constructor; auto.
  repeat split; congruence.
Qed.
Lemma stop_src_core n l : Forall2 same_core l (fst (stop_src n l)).
Proof.
  induction l as [|x l IH]; simpl; [constructor|].
  destruct (Nat.eqb (s_op x) n); simpl.
  - constructor; [repeat split|apply same_core_refl].
  - destruct (stop_src n l) as [r o]. simpl in *. constructor; [repeat split|exact IH].
Qed.
Lemma stop_all_core m : forall l, Forall2 same_core l (fst (stop_all m l)).
Proof.
  induction m as [|[id n] m IH]; intro l; simpl; [apply same_core_refl|].
  pose proof (stop_src_core n l) as A. destruct (stop_src n l) as [l1 o1]. simpl in A.
  pose proof (IH l1) as B. destruct (stop_all m l1) as [l2 o2]. simpl in *. eapply same_core_trans; eauto.
Qed.
Lemma same_core_ops a b : Forall2 same_core a b -> map s_op a = map s_op b.
Proof. induction 1 as [|x y a b (A & _) H IH]; simpl; congruence. Qed.
Lemma same_core_nth a b : Forall2 same_core a b -> forall i x, nth_error a i = Some x ->
  exists y, nth_error b i = Some y /\ same_core x y.
Proof.
  induction 1 as [|x y a b C H IH]; intros [|i] z Hz; simpl in *; try discriminate.
  - injection Hz as <-. eauto.
  - eauto.
Qed.
Lemma same_core_length a b : Forall2 same_core a b -> List.length a = List.length b.
Proof. induction 1; simpl; congruence. Qed.

(** ** what the goroutines' side of stage 1 sends is owned by operations that have a source *)
Definition src_owned (l : list src) (o : list ev) : Prop :=
  forall f ow, In (VSend f ow) o -> is_src_op l ow = true.
Lemma is_src_op_ops l l' ow : map s_op l = map s_op l' -> is_src_op l ow = is_src_op l' ow.
Proof.
  destruct ow as [n|]; [|reflexivity]. simpl. revert l'. induction l as [|x l IH]; intros [|y l'] E; simpl in *; try discriminate; [reflexivity|].
  injection E as -> E. f_equal. now apply IH.
Qed.
Lemma is_src_op_in l x : In x l -> is_src_op l (Some (s_op x)) = true.
Proof. intro H. simpl. apply existsb_exists. exists x. split; [exact H|apply Nat.eqb_refl]. Qed.
Lemma stop_src_owned n l : src_owned l (snd (stop_src n l)).
Proof.
  intros f ow H. destruct (op_dec n l) as [Ex|Nx].
  - destruct (stop_src_some n l Ex) as (l1 & x & l2 & -> & En & _ & S). rewrite S in H. simpl in H.
    destruct H as [H|H]; [discriminate|]. unfold complete_if_live in H. destruct (live x); [|destruct H].
    destruct H as [H|[]]. injection H as _ <-. apply is_src_op_in. apply in_or_app. right. now left.
  - rewrite (stop_src_none n l Nx) in H. destruct H.
Qed.
Lemma stop_all_owned m : forall l, src_owned l (snd (stop_all m l)).
Proof.
  induction m as [|[id n] m IH]; intros l f ow H; simpl in H; [destruct H|].
  pose proof (stop_src_owned n l) as A. pose proof (stop_src_core n l) as C.
  destruct (stop_src n l) as [l1 o1]. simpl in A, C.
  pose proof (IH l1) as B. destruct (stop_all m l1) as [l2 o2]. simpl in *.
  apply in_app_or in H as [H|H]; [exact (A f ow H)|].
  rewrite (is_src_op_ops l l1); [exact (B f ow H)|now apply same_core_ops].
Qed.
Lemma emit_src_owned n l : src_owned l (snd (emit_src n l)).
Proof.
  intros f ow H. destruct (op_dec n l) as [Ex|Nx].
  - destruct (emit_src_some n l Ex) as (l1 & x & l2 & -> & En & _ & S). rewrite S in H.
    destruct (live x); simpl in H; [|destruct H]. destruct H as [H|[]]. injection H as _ <-. rewrite <- En.
    apply is_src_op_in. apply in_or_app. right. now left.
  - rewrite (emit_src_none n l Nx) in H. destruct H.
Qed.
Lemma end_src_owned n l : src_owned l (snd (end_src n l)).
Proof.
  intros f ow H. destruct (op_dec n l) as [Ex|Nx].
  - destruct (end_src_some n l Ex) as (l1 & x & l2 & -> & En & _ & S). rewrite S in H.
    destruct (s_ended x); simpl in H; [destruct H|]. destruct H as [H|H]; [discriminate|].
    unfold complete_if_live in H. destruct (live x); [|destruct H].
    destruct H as [H|[]]. injection H as _ <-. apply is_src_op_in. apply in_or_app. right. now left.
  - rewrite (end_src_none n l Nx) in H. destruct H.
Qed.

(** ** projections *)
Lemma sent_to_app ow a b : sent_to ow (a ++ b) = sent_to ow a ++ sent_to ow b.
Proof. unfold sent_to. apply flat_map_app. Qed.
Lemma osends_to_app ow a b : osends_to ow (a ++ b) = osends_to ow a ++ osends_to ow b.
Proof. unfold osends_to. apply flat_map_app. Qed.
Lemma sent_to_owned n t : sent_to (Some n) t = owned n t.
Proof.
  unfold sent_to, owned. induction t as [|e t IH]; simpl; [reflexivity|]. f_equal; [|exact IH].
  destruct e as [| f [m|] | | | | | | | | | | |]; simpl; try reflexivity. rewrite Nat.eqb_sym. reflexivity.
Qed.
Lemma sent_to_cons ow e t :
  sent_to ow (e :: t) = (match e with VSend f w => if oeqb ow w then [f] else [] | _ => [] end) ++ sent_to ow t.
Proof. reflexivity. Qed.
Lemma oeqb_eq a b : oeqb a b = true -> a = b.
Proof. destruct a, b; simpl; intro E; try discriminate; [apply Nat.eqb_eq in E; now subst|reflexivity]. Qed.
Lemma sent_to_src_owned l ow o : src_owned l o -> is_src_op l ow = false -> sent_to ow o = [].
Proof.
  intros H N. induction o as [|e o IH]; [reflexivity|].
  rewrite sent_to_cons, IH; [|intros f w Hw; apply (H f w); now right]. rewrite app_nil_r.
  destruct e as [| f w | | | | | | | | | | |]; try reflexivity.
  destruct (oeqb ow w) eqn:E; [|reflexivity]. exfalso. apply oeqb_eq in E. subst w.
  rewrite (H f ow) in N; [discriminate|now left].
Qed.
(** what the read loop is given to send is all a frame's output has for the owners it serves *)
Lemma reader_sends_proj l ow o : is_src_op l ow = false -> osends_to ow (reader_sends l o) = sent_to ow o.
Proof.
  intro N. induction o as [|e o IH]; [reflexivity|].
  rewrite sent_to_cons, <- IH. change (reader_sends l (e :: o)) with
    ((match e with VSend f w => if is_src_op l w then [] else [(f, w)] | _ => [] end) ++ reader_sends l o).
  rewrite osends_to_app. f_equal.
  destruct e as [| f w | | | | | | | | | | |]; try reflexivity.
  destruct (is_src_op l w) eqn:Q; simpl.
  - destruct (oeqb ow w) eqn:E; [|reflexivity]. exfalso. apply oeqb_eq in E. subst. congruence.
  - rewrite app_nil_r. reflexivity.
Qed.

(** ** what one client frame does to the table of sources (stage 1), by position *)
Definition fresh_src (n : nat) (id : N) : src := {| s_op := n; s_id := id; s_stops := 0; s_ended := false; s_events := 0 |}.

Lemma stops_of_app a b : stops_of (a ++ b) = stops_of a ++ stops_of b.
Proof. unfold stops_of. apply flat_map_app. Qed.
Lemma spawns_app a b : spawns (a ++ b) = spawns a || spawns b.
Proof. unfold spawns. apply existsb_app. Qed.
Lemma complete_if_live_quiet x : stops_of (complete_if_live x) = [] /\ spawns (complete_if_live x) = false.
Proof. unfold complete_if_live. destruct (live x); auto. Qed.

Inductive stop_eff (l : list src) (o : list ev) : list src -> Prop :=
| se_none : stops_of o = [] -> stop_eff l o l
| se_one i x : stops_of o = [s_op x] -> nth_error l i = Some x -> s_stops x = 0 -> stop_eff l o (upd i bump l).
Inductive spawn_eff (n : nat) (o : list ev) : list src -> Prop :=
| sp_none : spawns o = false -> spawn_eff n o []
| sp_one id : spawns o = true -> spawn_eff n o [fresh_src n id].

Lemma stop_eff_ext l o o' L : stop_eff l o L -> stops_of o' = stops_of o -> stop_eff l o' L.
Proof. intros H E. destruct H as [Z|i x Z1 Z2 Z3]; [constructor; congruence|eapply se_one; eauto; congruence]. Qed.

Lemma handle_stop_effect s id s' o t :
  Inv s t -> handle_stop s id = (s', o) ->
  stop_eff (srcs s) o (srcs s') /\ spawns o = false /\ closed s' = closed s /\ clock s' = clock s /\
  (lookup id (subs s) <> None -> stops_of o <> []).
Proof.
  intros I H. unfold handle_stop in H. destruct (lookup id (subs s)) as [n|] eqn:L.
  - destruct (lookup_some _ _ _ L) as (m1 & m2 & E & _).
    destruct (i_subs _ _ _ _ I id n) as (x & Hx & <- & _ & St); [rewrite E; apply in_or_app; right; now left|].
    apply In_nth_error in Hx as (i & Hi).
    destruct (stop_src_at _ i x (i_nodup _ _ _ _ I) Hi) as [S _]. rewrite S in H. injection H as <- <-. simpl.
    destruct (complete_if_live_quiet x) as [A B]. repeat split; auto.
    + eapply se_one; eauto. simpl. now rewrite A.
    + intros _. simpl. discriminate.
  - injection H as <- <-. repeat split; auto. now constructor.
Qed.

Lemma frame_effect p s f s' o t :
  Inv s t -> closed s = false -> step false false false p s (LFrame f) = (s', o) ->
  exists L1 nw, srcs s' = L1 ++ nw /\ stop_eff (srcs s) o L1 /\ spawn_eff (clock s) o nw /\ closed s' = false.
Proof.
  intros I Cl St. unfold step, react in St. rewrite Cl in St.
  destruct (handle false false p s f) as [s2 o2] eqn:H. injection St as <- <-.
  change (srcs (tick s2)) with (srcs s2). change (closed (tick s2)) with (closed s2).
  assert (Q : forall s3 o3, srcs s3 = srcs s -> closed s3 = closed s -> stops_of o3 = [] -> spawns o3 = false ->
              exists L1 nw, srcs s3 = L1 ++ nw /\ stop_eff (srcs s) (VRecv f :: o3) L1 /\ spawn_eff (clock s) (VRecv f :: o3) nw /\ closed s3 = false).
  { intros s3 o3 A B C D. exists (srcs s), []. rewrite app_nil_r. repeat split; auto; [now constructor|now constructor|congruence]. }
  destruct (handle_shape _ _ _ _ _ _ _ H) as [A B C D E|A B C D E G|bc A B C D E G|A B C D E|id d A B C|id A B C].
  - assert (X : closed s2 = closed s).
    { destruct (handle_cases _ _ _ _ _ _ _ H) as [(_ & _ & _ & X & _)|[(i & d & _ & HS)|(i & _ & HS)]]; auto.
      - now apply handle_start_out in HS as [X _].
      - now apply handle_stop_out in HS as [X _]. }
    apply Q; auto; destruct D as [->|(c & ->)]; reflexivity.
  - assert (X : closed s2 = closed s).
    { destruct (handle_cases _ _ _ _ _ _ _ H) as [(_ & _ & _ & X & _)|[(i & d & _ & HS)|(i & _ & HS)]]; auto.
      - now apply handle_start_out in HS as [X _].
      - now apply handle_stop_out in HS as [X _]. }
    subst o2. apply Q; auto; destruct p; reflexivity.
  - assert (X : closed s2 = closed s).
    { destruct (handle_cases _ _ _ _ _ _ _ H) as [(_ & _ & _ & X & _)|[(i & d & _ & HS)|(i & _ & HS)]]; auto.
      - now apply handle_start_out in HS as [X _].
      - now apply handle_stop_out in HS as [X _]. }
    subst o2. apply Q; auto; destruct p, D as [->|(c & ->)]; reflexivity.
  - assert (X : closed s2 = closed s).
    { destruct (handle_cases _ _ _ _ _ _ _ H) as [(_ & _ & _ & X & _)|[(i & d & _ & HS)|(i & _ & HS)]]; auto.
      - now apply handle_start_out in HS as [X _].
      - now apply handle_stop_out in HS as [X _]. }
    subst o2. apply Q; auto.
  - (* HandleStart *)
    assert (R : forall s1 o1, release_ended false s id = (s1, o1) ->
                stop_eff (srcs s) o1 (srcs s1) /\ spawns o1 = false /\ closed s1 = closed s /\ clock s1 = clock s).
    { intros s1 o1 E. destruct (release_ended_cases _ _ _ _ _ E) as [[-> ->]|(HS & _)].
      - repeat split. now constructor.
      - destruct (handle_stop_effect _ _ _ _ _ I HS) as (X1 & X2 & X3 & X4 & _). auto. }
    unfold handle_start in B. destruct d.
    + injection B as <- <-. apply Q; auto.
    + injection B as <- <-. apply Q; auto.
    + destruct (release_ended false s id) as [s1 o1] eqn:E. destruct (R _ _ eq_refl) as (R1 & R2 & R3 & R4).
      destruct (lookup id (subs s1)); injection B as <- <-; simpl.
      * exists (srcs s1), []. rewrite app_nil_r. repeat split; [| |congruence].
        -- eapply stop_eff_ext; [exact R1|reflexivity].
        -- constructor. simpl. exact R2.
      * exists (srcs s1), [fresh_src (clock s) id]. repeat split; [| |congruence].
        -- eapply stop_eff_ext; [exact R1|]. simpl. rewrite stops_of_app. simpl. now rewrite app_nil_r.
        -- apply sp_one. simpl. rewrite spawns_app. simpl. apply orb_true_r.
    + destruct (release_ended false s id) as [s1 o1] eqn:E. destruct (R _ _ eq_refl) as (R1 & R2 & R3 & R4).
      destruct (lookup id (subs s1)); injection B as <- <-; simpl.
      * exists (srcs s1), []. rewrite app_nil_r. repeat split; [| |congruence].
        -- eapply stop_eff_ext; [exact R1|reflexivity].
        -- constructor. simpl. exact R2.
      * exists (srcs s1), []. rewrite app_nil_r. repeat split; [| |congruence].
        -- eapply stop_eff_ext; [exact R1|]. simpl. rewrite stops_of_app. simpl. now rewrite app_nil_r.
        -- constructor. simpl. rewrite spawns_app, R2. reflexivity.
    + injection B as <- <-. apply Q; auto.
  - destruct (handle_stop_effect _ _ _ _ _ I B) as (X1 & X2 & X3 & X4 & _).
    exists (srcs s2), []. rewrite app_nil_r. repeat split; [| |congruence].
    + eapply stop_eff_ext; [exact X1|reflexivity].
    + constructor. simpl. exact X2.
Qed.

(** ** the stage-2 steps of taking a frame *)
Section FrameRun.
  Variable cap : nat.

  Definition stop_all_at (is : list nat) (g : list gor) : list gor := fold_left (fun g i => upd i stop_gor g) is g.

  Lemma arun_stops : forall is c rest ls,
    rd c = RBusy (map RStop is ++ rest) ->
    arun cap true c (map (fun _ => IRStop) is ++ ls) =
    arun cap true (with_rd (RBusy rest) (with_gs (stop_all_at is (gs c)) c)) ls.
  Proof.
    induction is as [|i is IH]; intros c rest ls H.
    - simpl in *. destruct c; simpl in *; subst; reflexivity.
    - cbn [map app] in *. cbn [arun].
      assert (E : astep cap true c IRStop =
                  Some (with_rd (RBusy (map RStop is ++ rest)) (with_gs (upd i stop_gor (gs c)) c))).
      { unfold astep. rewrite H. reflexivity. }
      rewrite E. rewrite (IH _ rest); reflexivity.
  Qed.

  Lemma arun_frame is sp rs bc c :
    rd c = RIdle -> conn_closed c || pending_close c || dropped c = false ->
    arun cap true c (EFrame (frame_prog is sp rs bc) :: frame_head is sp) =
    Some (with_rd (RBusy (map send_kind rs ++ (if bc then [RBegin] else [])))
                  (with_gs (stop_all_at is (gs c) ++ (if sp then [new_gor] else [])) c)).
  Proof.
    intros R G. unfold frame_prog, frame_head. cbn [arun astep]. rewrite R, G.
    rewrite arun_stops with (rest := (if sp then [RSpawn] else []) ++ map send_kind rs ++ (if bc then [RBegin] else [])); [|reflexivity].
    destruct sp; simpl.
    - reflexivity.
    - rewrite app_nil_r. reflexivity.
  Qed.
End FrameRun.

(** ** what a step of stage 2 leaves alone *)
Lemma bc_gs c : gs (begin_closing c) = gs c.
Proof. unfold begin_closing. destruct (closing c); reflexivity. Qed.
Lemma bc_fin c : finished (begin_closing c) = finished c.
Proof. unfold begin_closing. destruct (closing c); reflexivity. Qed.
Lemma bc_rd c : rd (begin_closing c) = rd c.
Proof. unfold begin_closing. destruct (closing c); reflexivity. Qed.
Lemma bc_wr c : wr (begin_closing c) = wr c.
Proof. unfold begin_closing. destruct (closing c); reflexivity. Qed.
Lemma fo_rd c : rd (finish_once c) = rd c.
Proof. unfold finish_once. destruct (finished c); reflexivity. Qed.
Lemma fo_wr c : wr (finish_once c) = wr c.
Proof. unfold finish_once. destruct (finished c); reflexivity. Qed.
Lemma fo_fin c : finished (finish_once c) = true.
Proof. unfold finish_once. destruct (finished c) eqn:F; [exact F|reflexivity]. Qed.
Lemma fo_gs c : gs (finish_once c) = if finished c then gs c else map stop_gor (gs c).
Proof. unfold finish_once. destruct (finished c); reflexivity. Qed.

Ltac break_match H :=
  repeat match type of H with
         | context [match ?x with _ => _ end] => destruct x eqn:?; try discriminate H
         | context [if ?x then _ else _] => destruct x eqn:?; try discriminate H
         end.

Section F.
  Variable cap : nat.
  Definition is_gor_label (l : alabel) : bool :=
    match l with
    | EEmit _ | ESrcEnd _ | IGCancel _ | IGEnd _ | IGDataOk _ | IGDataFail _ | IGCompleteOk _ | IGCompleteFail _ => true
    | _ => false
    end.
  Definition is_reader_label (l : alabel) : bool :=
    match l with
    | EFrame _ | IReadFail | IRSendOk | IRSendFail | IRBegin | IRSpawn | IRStop | IRReturn | IRCancelled => true
    | _ => false
    end.
  Definition is_finish_label (l : alabel) : bool := match l with IWFinish | IAFinish => true | _ => false end.

  Lemma astep_facts c l c' : astep cap true c l = Some c' ->
    (writer_done c = true -> writer_done c' = true) /\
    (is_reader_label l = false -> rd c' = rd c) /\
    (is_gor_label l = false -> is_finish_label l = false -> l <> IRSpawn -> l <> IRStop -> gs c' = gs c) /\
    (is_finish_label l = false -> finished c' = finished c).
  Proof.
    intro H.
    destruct l; simpl in H; unfold on_gor in H; break_match H; injection H as <-;
      unfold writer_done, writer_out, writer_exit, with_rd, with_gs, with_wr, with_ac, with_queue in *; simpl;
      rewrite ?bc_gs, ?bc_fin, ?bc_rd, ?bc_wr, ?fo_rd, ?fo_wr; simpl; repeat split; auto; try discriminate; try congruence;
      try (intro W; rewrite ?Heqw in W; auto; discriminate).
  Qed.
End F.

(** ** the invariant that joins the two stages *)
Definition gor_rel (g : gor) (x : src) (cl : list sframe) : Prop :=
  match g_phase g with
  | GRun => s_ended x = false /\ cl = evs (s_id x) (s_op x) (s_events x)
  | GData => s_ended x = false /\ 1 <= s_events x /\ cl = evs (s_id x) (s_op x) (s_events x - 1)
  | GComplete => (s_ended x = true \/ g_cancelled g = true) /\ cl = evs (s_id x) (s_op x) (s_events x)
  | GDone => (s_ended x = true \/ g_cancelled g = true) /\
             cl = evs (s_id x) (s_op x) (s_events x) ++ [SComplete (s_id x)]
  end.

Lemma gor_rel_core g g' x x' cl :
  same_core x x' -> g_phase g' = g_phase g -> (g_cancelled g = true -> g_cancelled g' = true) ->
  gor_rel g x cl -> gor_rel g' x' cl.
Proof.
  intros (A & B & C & D) P K. unfold gor_rel. rewrite P, <- A, <- B, <- C, <- D.
  destruct (g_phase g); auto; intros [[E|E] F]; auto.
Qed.

Section Refine.
  Variable cap : nat.
  Variable p : proto.
  Notation fin := (final false false false p).
  Notation tr := (trace false false false p).

  Definition rel3 (P : gor -> src -> list sframe -> Prop) (G : list gor) (L : list src) (gc : list (list sframe)) : Prop :=
    forall i g x cl, nth_error G i = Some g -> nth_error L i = Some x -> nth_error gc i = Some cl -> P g x cl.

  Definition gor_inv (fd : bool) (g : gor) (x : src) (cl : list sframe) : Prop :=
    (fd = false -> g_stops g = s_stops x) /\ gor_rel g x cl.

  Record CoreInv (s : st) (G : list gor) (fd : bool) (gc : list (list sframe)) (h : list label) : Prop := {
    k_fin : s = fin h;
    k_len1 : List.length G = List.length (srcs s);
    k_len2 : List.length gc = List.length (srcs s);
    k_closed : closed s = fd;
    k_rel : rel3 (gor_inv fd) G (srcs s) gc
  }.

  Record ReaderInv (s : st) (r : rstate) (wd : bool) (rprog rcalls lost : list osend) (h : list label) : Prop := {
    r_rd : match r with
           | RBusy prog => exists tl, prog = map send_kind rprog ++ tl /\ (tl = [] \/ tl = [RBegin])
           | _ => rprog = []
           end;
    r_sends : forall ow, is_src_op (srcs s) ow = false -> osends_to ow (rcalls ++ rprog ++ lost) = sent_to ow (tr h);
    r_lost : lost = [] \/ wd = true
  }.

  Definition SysInv (y : sys) : Prop :=
    reachable cap true (y_c y) /\
    CoreInv (y_s y) (gs (y_c y)) (finished (y_c y)) (y_gcalls y) (y_hist y) /\
    ReaderInv (y_s y) (rd (y_c y)) (writer_done (y_c y)) (y_rprog y) (y_rcalls y) (y_lost y) (y_hist y).

  Lemma stage1_inv h : Inv (fin h) (tr h) /\ CloseInv (fin h) (tr h).
  Proof. apply (reach_inv false false false p). apply run_reach. Qed.

  (** a commit whose output belongs to operations with sources, and that keeps the operations of the table *)
  Lemma reader_commit s r wd rprog rcalls lost h l :
    s = fin h ->
    src_owned (srcs s) (snd (step false false false p s l)) ->
    map s_op (srcs (fst (step false false false p s l))) = map s_op (srcs s) ->
    ReaderInv s r wd rprog rcalls lost h ->
    ReaderInv (fst (step false false false p s l)) r wd rprog rcalls lost (h ++ [l]).
  Proof.
    intros -> O M [R1 R2 R3]. constructor; auto.
    intros ow N. rewrite trace_snoc, sent_to_app.
    rewrite (is_src_op_ops _ _ ow M) in N. rewrite (sent_to_src_owned _ _ _ O N), app_nil_r. auto.
  Qed.

  (** *** pointwise updates *)
  Lemma rel3_upd P G L gc i fg fx fc :
    rel3 P G L gc ->
    (forall g x cl, nth_error G i = Some g -> nth_error L i = Some x -> nth_error gc i = Some cl ->
                    P g x cl -> P (fg g) (fx x) (fc cl)) ->
    rel3 P (upd i fg G) (upd i fx L) (upd i fc gc).
  Proof.
    intros R H j g x cl Hg Hx Hc. destruct (Nat.eq_dec i j) as [<-|N].
    - destruct (nth_error G i) as [g0|] eqn:Eg; [|rewrite upd_none in Hg by exact Eg; congruence].
      destruct (nth_error L i) as [x0|] eqn:Ex; [|rewrite upd_none in Hx by exact Ex; congruence].
      destruct (nth_error gc i) as [c0|] eqn:Ec; [|rewrite upd_none in Hc by exact Ec; congruence].
      rewrite (upd_nth_same _ _ _ _ Eg) in Hg. rewrite (upd_nth_same _ _ _ _ Ex) in Hx. rewrite (upd_nth_same _ _ _ _ Ec) in Hc.
      injection Hg as <-. injection Hx as <-. injection Hc as <-. apply H; auto. eapply R; eauto.
    - rewrite upd_nth_other in Hg by exact N. rewrite upd_nth_other in Hx by exact N.
      rewrite upd_nth_other in Hc by exact N. eapply R; eauto.
  Qed.
  Lemma upd_id {A} i (l : list A) : upd i (fun x => x) l = l.
  Proof. revert i. induction l as [|x l IH]; intros [|i]; simpl; try reflexivity. now rewrite IH. Qed.

  Lemma rel3_snoc P G L gc g0 x0 c0 :
    List.length G = List.length L -> List.length gc = List.length L ->
    rel3 P G L gc -> P g0 x0 c0 -> rel3 P (G ++ [g0]) (L ++ [x0]) (gc ++ [c0]).
  Proof.
    intros L1 L2 R H j g x cl Hg Hx Hc. destruct (Nat.lt_ge_cases j (List.length L)) as [Lt|Ge].
    - rewrite nth_error_app1 in Hg by lia. rewrite nth_error_app1 in Hx by lia. rewrite nth_error_app1 in Hc by lia.
      eapply R; eauto.
    - assert (j = List.length L).
      { assert (j < List.length (L ++ [x0])) by (apply nth_error_Some; congruence). rewrite app_length in H0. simpl in H0. lia. }
      subst j. rewrite nth_error_app2 in Hg by lia. rewrite nth_error_app2 in Hx by lia. rewrite nth_error_app2 in Hc by lia.
      rewrite L1, Nat.sub_diag in Hg. rewrite Nat.sub_diag in Hx. rewrite L2, Nat.sub_diag in Hc. simpl in *.
      injection Hg as <-. injection Hx as <-. injection Hc as <-. exact H.
  Qed.

  Lemma rel3_weaken (P Q : gor -> src -> list sframe -> Prop) G L gc :
    (forall g x cl, P g x cl -> Q g x cl) -> rel3 P G L gc -> rel3 Q G L gc.
  Proof. intros H R i g x cl A B C. apply H. eapply R; eauto. Qed.

  Lemma evs_last id n k : 1 <= k -> evs id n (k - 1) ++ [SData id (CEv n k)] = evs id n k.
  Proof. destruct k as [|k]; [lia|]. intros _. simpl. rewrite Nat.sub_0_r. reflexivity. Qed.

  (** *** what AInv gives *)
  Lemma not_cancelled_inmap g : gor_ok g -> g_cancelled g = false -> g_inmap g = true /\ g_stops g = 0.
  Proof. unfold gor_ok. destruct (g_inmap g); [intros [A _] _; auto|intros [A _] B; congruence]. Qed.
  Lemma stops0_inmap g : gor_ok g -> g_stops g = 0 -> g_inmap g = true /\ g_cancelled g = false.
  Proof. unfold gor_ok. destruct (g_inmap g); [intros [_ A] _; auto|intros [_ A] B; congruence]. Qed.
  Lemma finished_cancelled c g : AInv c -> finished c = true -> In g (gs c) -> g_cancelled g = true.
  Proof.
    intros J F Hg. destruct (j_fin _ J F) as (_ & _ & A).
    pose proof (proj1 (Forall_forall _ _) A g Hg) as M. pose proof (proj1 (Forall_forall _ _) (j_gor _ J) g Hg) as K.
    unfold gor_ok in K. rewrite M in K. tauto.
  Qed.

  (** *** stage 2: what the goroutine labels do to the list of goroutines *)
  Lemma gphase_is_eq ph g : gphase_is ph g = true -> g_phase g = ph.
  Proof. unfold gphase_is. destruct (g_phase g), ph; congruence. Qed.

  Lemma astep_gor c l c' : astep cap true c l = Some c' ->
    match l with
    | EEmit i => exists g, nth_error (gs c) i = Some g /\ g_phase g = GRun /\ gs c' = upd i (set_phase GData) (gs c)
    | ESrcEnd i => gs c' = upd i set_srcclosed (gs c)
    | IGCancel i => exists g, nth_error (gs c) i = Some g /\ g_phase g = GRun /\ g_cancelled g = true /\
                              gs c' = upd i (set_phase GComplete) (gs c)
    | IGEnd i => exists g, nth_error (gs c) i = Some g /\ g_phase g = GRun /\ gs c' = upd i (set_phase GComplete) (gs c)
    | IGDataOk i | IGDataFail i =>
        exists g, nth_error (gs c) i = Some g /\ g_phase g = GData /\ gs c' = upd i (set_phase GRun) (gs c)
    | IGCompleteOk i | IGCompleteFail i =>
        exists g, nth_error (gs c) i = Some g /\ g_phase g = GComplete /\ gs c' = upd i (set_phase GDone) (gs c)
    | _ => True
    end.
  Proof.
    intro H. destruct l; try exact I; simpl in H;
      try (destruct (can_enqueue cap c); [|discriminate]); unfold can_give_up in H; simpl in H;
      try (destruct (writer_done c); [|discriminate]);
      apply on_gor_shape in H as (g & Hg & Gd & ->); simpl;
      try (apply andb_true_iff in Gd as [Gd1 Gd2]); try (apply gphase_is_eq in Gd); try (apply gphase_is_eq in Gd1);
      eauto 8.
  Qed.

  Lemma reachable_step c l c' : reachable cap true c -> astep cap true c l = Some c' -> reachable cap true c'.
  Proof. intros R H. apply (reachable_arun cap true c [l] c' R). simpl. now rewrite H. Qed.

  (** *** stage 1: one label from a known state *)
  Lemma step_when_closed s l : closed s = true -> step false false false p s l = (tick s, []).
  Proof. intro C. unfold step, react. now rewrite C. Qed.

  Lemma core_next s G fd gc h l s' G' fd' gc' :
    CoreInv s G fd gc h -> s' = fst (step false false false p s l) ->
    List.length G' = List.length (srcs s') -> List.length gc' = List.length (srcs s') -> closed s' = fd' ->
    rel3 (gor_inv fd') G' (srcs s') gc' -> CoreInv s' G' fd' gc' (h ++ [l]).
  Proof.
    intros [K1 K2 K3 K4 K5] -> A B C D. constructor; auto. rewrite final_snoc, <- K1. reflexivity.
  Qed.

  Lemma reader_cfg s r wd r' wd' rprog rcalls lost h :
    r' = r -> (wd = true -> wd' = true) -> ReaderInv s r wd rprog rcalls lost h -> ReaderInv s r' wd' rprog rcalls lost h.
  Proof. intros -> W [A B C]. constructor; auto. destruct C; auto. Qed.

  (** *** steps that touch neither a goroutine nor the dispatcher *)
  Lemma L_cfgonly y a c' :
    SysInv y -> astep cap true (y_c y) a = Some c' ->
    is_gor_label a = false -> is_finish_label a = false -> a <> IRSpawn -> a <> IRStop -> is_reader_label a = false ->
    SysInv (with_cfg c' y).
  Proof.
    intros (R & K & D) H N1 N2 N3 N4 N5. destruct (astep_facts cap _ _ _ H) as (F1 & F2 & F3 & F4).
    split; [|split]; simpl.
    - eapply reachable_step; eauto.
    - rewrite (F3 N1 N2 N3 N4), (F4 N2). exact K.
    - eapply reader_cfg; [apply F2; exact N5|exact F1|exact D].
  Qed.

  (** *** goroutine steps without a commit *)
  Lemma L_gor y a c' i fg fc :
    SysInv y -> astep cap true (y_c y) a = Some c' -> is_gor_label a = true ->
    gs c' = upd i fg (gs (y_c y)) ->
    (forall g x cl, nth_error (gs (y_c y)) i = Some g -> nth_error (srcs (y_s y)) i = Some x -> nth_error (y_gcalls y) i = Some cl ->
        gor_inv (finished (y_c y)) g x cl -> gor_inv (finished (y_c y)) (fg g) x (fc cl)) ->
    SysInv (with_cfg c' (with_gcalls (upd i fc (y_gcalls y)) y)).
  Proof.
    intros (R & K & D) H G E P. destruct (astep_facts cap _ _ _ H) as (F1 & F2 & F3 & F4).
    assert (NF : is_finish_label a = false) by (destruct a; try discriminate; reflexivity).
    assert (NR : is_reader_label a = false) by (destruct a; try discriminate; reflexivity).
    split; [|split]; simpl.
    - eapply reachable_step; eauto.
    - rewrite E, (F4 NF). destruct K as [K1 K2 K3 K4 K5]. constructor; auto; rewrite ?upd_length; auto.
      rewrite <- (upd_id i (srcs (y_s y))). apply rel3_upd; auto.
    - eapply reader_cfg; [apply F2; exact NR|exact F1|exact D].
  Qed.

  (** *** stage 1: the labels committed by goroutines and by the shutdown keep the operations of the table and
      send only on behalf of operations with a source *)
  Lemma emit_src_ops n l : map s_op (fst (emit_src n l)) = map s_op l.
  Proof.
    induction l as [|x l IH]; simpl; [reflexivity|]. destruct (Nat.eqb (s_op x) n).
    - destruct (live x); reflexivity.
    - destruct (emit_src n l) as [r o]. simpl in *. now rewrite IH.
  Qed.
  Lemma end_src_ops n l : map s_op (fst (end_src n l)) = map s_op l.
  Proof.
    induction l as [|x l IH]; simpl; [reflexivity|]. destruct (Nat.eqb (s_op x) n).
    - destruct (s_ended x); reflexivity.
    - destruct (end_src n l) as [r o]. simpl in *. now rewrite IH.
  Qed.

  Lemma step_side s l :
    match l with LFrame _ | LTick => False | _ => True end ->
    src_owned (srcs s) (snd (step false false false p s l)) /\
    map s_op (srcs (fst (step false false false p s l))) = map s_op (srcs s).
  Proof.
    intro Hl. unfold step, react. destruct (closed s); [split; [intros f ow []|reflexivity]|].
    destruct l as [f|n|n|e|]; try contradiction.
    - pose proof (emit_src_owned n (srcs s)) as A. pose proof (emit_src_ops n (srcs s)) as B.
      destruct (emit_src n (srcs s)) as [r o]. simpl in *. auto.
    - pose proof (end_src_owned n (srcs s)) as A. pose proof (end_src_ops n (srcs s)) as B.
      destruct (end_src n (srcs s)) as [r o]. simpl in *. auto.
    - destruct (WsModel.begin_closing (end_code e) s) as [s2 o2] eqn:B.
      destruct (begin_closing_neutral _ _ _ _ B) as (A1 & A2 & _ & _ & _ & _ & A7).
      unfold handle_close. pose proof (stop_all_owned (subs s2) (srcs s2)) as O. pose proof (stop_all_core (subs s2) (srcs s2)) as C.
      destruct (stop_all (subs s2) (srcs s2)) as [l3 o3]. simpl in *. rewrite A2 in *. split.
      + intros f ow H. apply in_app_or in H as [H|[H|H]].
        * destruct A7 as [->| ->]; [destruct H|destruct H as [H|[]]; discriminate].
        * discriminate.
        * apply in_app_or in H as [H|[H|[]]]; [exact (O f ow H)|discriminate].
      + symmetry. now apply same_core_ops.
  Qed.

  Lemma upd_ops i f l : (forall x, s_op (f x) = s_op x) -> map s_op (upd i f l) = map s_op l.
  Proof. intro H. revert i. induction l as [|x l IH]; intros [|i]; simpl; try reflexivity; [now rewrite H|now rewrite IH]. Qed.

  Lemma nth_gc {A B} (l1 : list A) (l2 : list B) i x : List.length l2 = List.length l1 -> nth_error l1 i = Some x ->
    exists y, nth_error l2 i = Some y.
  Proof.
    intros L H. destruct (nth_error l2 i) as [y|] eqn:E; [eauto|]. apply nth_error_None in E.
    assert (i < List.length l1) by (apply nth_error_Some; congruence). lia.
  Qed.

  (** *** a goroutine takes an event *)
  Lemma L_emit y i c' g x :
    SysInv y -> astep cap true (y_c y) (EEmit i) = Some c' ->
    nth_error (gs (y_c y)) i = Some g -> g_cancelled g = false -> nth_error (srcs (y_s y)) i = Some x ->
    SysInv (commit p (LEmit (s_op x)) y c').
  Proof.
    intros (R & K & D) H Hg NC Hx. pose proof (reachable_inv _ _ _ R) as J.
    destruct (astep_facts cap _ _ _ H) as (F1 & F2 & F3 & F4).
    destruct (astep_gor _ _ _ H) as (g' & Hg' & Ph & E). rewrite Hg in Hg'. injection Hg' as <-.
    assert (OK : gor_ok g) by (apply (proj1 (Forall_forall _ _) (j_gor _ J)); eapply nth_error_In; eauto).
    destruct (not_cancelled_inmap _ OK NC) as [IM ST].
    destruct K as [K1 K2 K3 K4 K5].
    assert (FD : finished (y_c y) = false).
    { destruct (finished (y_c y)) eqn:FD; [|reflexivity]. rewrite (finished_cancelled _ g J FD) in NC; [discriminate|eapply nth_error_In; eauto]. }
    destruct (nth_gc _ (y_gcalls y) i x K3 Hx) as (cl & Hc).
    destruct (K5 i g x cl Hg Hx Hc) as [S0 GR]. specialize (S0 FD). unfold gor_rel in GR. rewrite Ph in GR. destruct GR as [EN CL].
    assert (LV : live x = true) by (unfold live; rewrite <- S0, ST, EN; reflexivity).
    destruct (stage1_inv (y_hist y)) as [I _]. rewrite <- K1 in I.
    pose proof (emit_src_at _ i x (i_nodup _ _ _ _ I) Hx) as ES. rewrite LV in ES.
    assert (CL0 : closed (y_s y) = false) by congruence.
    assert (ST1 : step false false false p (y_s y) (LEmit (s_op x)) =
                  (tick (set_subs_srcs (subs (y_s y)) (upd i more (srcs (y_s y))) (y_s y)),
                   [VSend (SData (s_id x) (CEv (s_op x) (S (s_events x)))) (Some (s_op x))])).
    { unfold step, react. rewrite CL0, ES. reflexivity. }
    unfold SysInv, commit. cbn [y_s y_c y_rprog y_rcalls y_lost y_gcalls y_calls y_hist]. split; [|split].
    - eapply reachable_step; eauto.
    - rewrite E, (F4 eq_refl), FD.
      assert (K' : CoreInv (y_s y) (gs (y_c y)) false (y_gcalls y) (y_hist y)) by (rewrite <- FD; constructor; auto).
      apply (core_next _ _ _ _ _ (LEmit (s_op x)) _ _ _ _ K' eq_refl); rewrite ST1; simpl; rewrite ?upd_length; auto.
      + rewrite FD in K5. rewrite <- (upd_id i (y_gcalls y)). apply rel3_upd; [exact K5|].
        intros g0 x0 c0 A B C [Q1 Q2]. rewrite Hg in A. rewrite Hx in B. injection A as <-. injection B as <-.
        split; [intros _; simpl; auto|]. unfold gor_rel in *. rewrite Ph in Q2. simpl. destruct Q2 as [Q2 Q3].
        rewrite Nat.sub_0_r. repeat split; auto. lia.
    - eapply reader_cfg; [apply F2; reflexivity|exact F1|].
      destruct (step_side (y_s y) (LEmit (s_op x)) Logic.I) as [A B]. eapply reader_commit; eauto. 
  Qed.

  (** *** a goroutine notices that its source has ended *)
  Lemma L_gend y i c' x :
    SysInv y -> astep cap true (y_c y) (IGEnd i) = Some c' -> nth_error (srcs (y_s y)) i = Some x ->
    SysInv (commit p (LSrcEnd (s_op x)) y c').
  Proof.
    intros (R & K & D) H Hx. pose proof (reachable_inv _ _ _ R) as J.
    destruct (astep_facts cap _ _ _ H) as (F1 & F2 & F3 & F4).
    destruct (astep_gor _ _ _ H) as (g & Hg & Ph & E).
    pose proof K as K'. destruct K as [K1 K2 K3 K4 K5].
    destruct (nth_gc _ (y_gcalls y) i x K3 Hx) as (cl & Hc).
    destruct (K5 i g x cl Hg Hx Hc) as [S0 GR]. unfold gor_rel in GR. rewrite Ph in GR. destruct GR as [EN CL].
    unfold SysInv, commit. cbn [y_s y_c y_rprog y_rcalls y_lost y_gcalls y_calls y_hist]. split; [|split].
    - eapply reachable_step; eauto.
    - rewrite E, (F4 eq_refl). destruct (finished (y_c y)) eqn:FD.
      + (* after HandleClose: stage 1 no longer reacts *)
        apply (core_next _ _ _ _ _ (LSrcEnd (s_op x)) _ _ _ _ K' eq_refl);
          rewrite step_when_closed by congruence; simpl; rewrite ?upd_length; auto.
        rewrite <- (upd_id i (srcs (y_s y))), <- (upd_id i (y_gcalls y)). apply rel3_upd; [exact K5|].
        intros g0 x0 c0 A B C [Q1 Q2]. rewrite Hg in A. rewrite Hx in B. injection A as <-. injection B as <-.
        split; [discriminate|]. unfold gor_rel in *. rewrite Ph in Q2. simpl. destruct Q2 as [Q2 Q3]. split; [|exact Q3].
        right. eapply finished_cancelled; eauto. eapply nth_error_In; eauto.
      + destruct (stage1_inv (y_hist y)) as [I0 _]. rewrite <- K1 in I0.
        pose proof (end_src_at _ i x (i_nodup _ _ _ _ I0) Hx) as ES. rewrite EN in ES.
        assert (CL0 : closed (y_s y) = false) by congruence.
        assert (ST1 : step false false false p (y_s y) (LSrcEnd (s_op x)) =
                      (tick (set_subs_srcs (subs (y_s y)) (upd i finish (srcs (y_s y))) (y_s y)),
                       VSrcEnd (s_op x) :: complete_if_live x)).
        { unfold step, react. rewrite CL0, ES. reflexivity. }
        apply (core_next _ _ _ _ _ (LSrcEnd (s_op x)) _ _ _ _ K' eq_refl); rewrite ST1; simpl; rewrite ?upd_length; auto.
        rewrite <- (upd_id i (y_gcalls y)). apply rel3_upd; [exact K5|].
        intros g0 x0 c0 A B C [Q1 Q2]. rewrite Hg in A. rewrite Hx in B. injection A as <-. injection B as <-.
        split; [intros _; simpl; auto|]. unfold gor_rel in *. rewrite Ph in Q2. simpl. destruct Q2 as [Q2 Q3]. auto.
    - eapply reader_cfg; [apply F2; reflexivity|exact F1|].
      destruct (step_side (y_s y) (LSrcEnd (s_op x)) Logic.I) as [A B]. eapply reader_commit; eauto.
  Qed.

  (** *** HandleClose *)
  Lemma same_core_nth_rev a b : Forall2 same_core a b -> forall i y, nth_error b i = Some y ->
    exists x, nth_error a i = Some x /\ same_core x y.
  Proof.
    induction 1 as [|x y a b C H IH]; intros [|i] z Hz; simpl in *; try discriminate.
    - injection Hz as <-. eauto.
    - eauto.
  Qed.

  Lemma rel3_finish fd G L L' gc :
    rel3 (gor_inv fd) G L gc -> Forall2 same_core L L' -> rel3 (gor_inv true) (map stop_gor G) L' gc.
  Proof.
    intros R C i g' x' cl Hg Hx Hc. rewrite nth_error_map in Hg. destruct (nth_error G i) as [g|] eqn:Eg; [|discriminate].
    injection Hg as <-. destruct (same_core_nth_rev _ _ C i x' Hx) as (x & Ex & SC).
    destruct (R i g x cl Eg Ex Hc) as [_ Q]. split; [discriminate|].
    eapply gor_rel_core; [exact SC| | |exact Q]; unfold stop_gor; destruct (g_inmap g); simpl; auto.
  Qed.

  Lemma step_end s e : closed s = false ->
    closed (fst (step false false false p s (LEnd e))) = true /\
    Forall2 same_core (srcs s) (srcs (fst (step false false false p s (LEnd e)))).
  Proof.
    intro Cl. unfold step, react. rewrite Cl.
    destruct (WsModel.begin_closing (end_code e) s) as [s2 o2] eqn:B.
    destruct (begin_closing_neutral _ _ _ _ B) as (A1 & A2 & _).
    unfold handle_close. pose proof (stop_all_core (subs s2) (srcs s2)) as C.
    destruct (stop_all (subs s2) (srcs s2)) as [l3 o3]. simpl in *. rewrite A2 in C. auto.
  Qed.

  Lemma L_finish y a c' :
    SysInv y -> astep cap true (y_c y) a = Some c' -> is_finish_label a = true ->
    SysInv (if finished (y_c y) then with_cfg c' y else commit p (LEnd (end_of (y_c y))) y c').
  Proof.
    intros (R & K & D) H Fl. pose proof (reachable_inv _ _ _ R) as J.
    destruct (astep_facts cap _ _ _ H) as (F1 & F2 & _ & _).
    assert (NR : is_reader_label a = false) by (destruct a; try discriminate; reflexivity).
    assert (E : gs c' = gs (finish_once (y_c y)) /\ finished c' = true).
    { destruct a; try discriminate; simpl in H.
      - destruct (wr (y_c y)); try discriminate. destruct (reader_done (y_c y)); [|discriminate]. injection H as <-.
        simpl. split; [reflexivity|apply fo_fin].
      - destruct (ac (y_c y)); try discriminate. destruct (reader_done (y_c y) && writer_done (y_c y)); [|discriminate].
        injection H as <-. simpl. split; [reflexivity|apply fo_fin]. }
    destruct E as [E1 E2]. rewrite fo_gs in E1.
    pose proof K as K'. destruct K as [K1 K2 K3 K4 K5].
    destruct (finished (y_c y)) eqn:FD.
    - unfold SysInv, with_cfg. cbn [y_s y_c y_rprog y_rcalls y_lost y_gcalls y_calls y_hist]. split; [|split].
      + eapply reachable_step; eauto.
      + rewrite E1, E2. exact K'.
      + eapply reader_cfg; [apply F2; exact NR|exact F1|exact D].
    - unfold SysInv, commit. cbn [y_s y_c y_rprog y_rcalls y_lost y_gcalls y_calls y_hist]. split; [|split].
      + eapply reachable_step; eauto.
      + rewrite E1, E2. assert (CL0 : closed (y_s y) = false) by congruence.
        destruct (step_end (y_s y) (end_of (y_c y)) CL0) as [C1 C2].
        apply (core_next _ _ _ _ _ (LEnd (end_of (y_c y))) _ _ _ _ K' eq_refl); auto.
        * rewrite map_length, K2. now apply same_core_length.
        * rewrite K3. now apply same_core_length.
        * eapply rel3_finish; eauto.
      + eapply reader_cfg; [apply F2; exact NR|exact F1|].
        destruct (step_side (y_s y) (LEnd (end_of (y_c y))) Logic.I) as [A B]. eapply reader_commit; eauto.
  Qed.

  (** *** the read loop *)
  Lemma astep_reader c a c' : astep cap true c a = Some c' ->
    match a with
    | IReadFail => rd c = RIdle /\ rd c' = RDone
    | IRSendOk => exists k prog, rd c = RBusy (k :: prog) /\ (k = RSend \/ k = RSendOrClose) /\ rd c' = RBusy prog
    | IRSendFail => writer_done c = true /\
                    ((exists prog, rd c = RBusy (RSend :: prog) /\ rd c' = RBusy prog) \/
                     (exists prog, rd c = RBusy (RSendOrClose :: prog) /\ rd c' = RBusy []))
    | IRBegin => exists prog, rd c = RBusy (RBegin :: prog) /\ rd c' = RBusy prog
    | IRReturn => rd c = RBusy [] /\ rd c' = RIdle
    | IRCancelled => exists prog, rd c = RBusy (RWaitCancel :: prog)
    | _ => True
    end.
  Proof.
    intro H. destruct a; try exact Logic.I; simpl in H; unfold can_give_up in H; simpl in H; break_match H; injection H as <-; simpl;
      rewrite ?bc_rd; simpl; eauto 10.
  Qed.

  Lemma L_reader y a c' rprog' rcalls' lost' :
    SysInv y -> astep cap true (y_c y) a = Some c' ->
    is_gor_label a = false -> is_finish_label a = false -> a <> IRSpawn -> a <> IRStop ->
    ReaderInv (y_s y) (rd c') (writer_done c') rprog' rcalls' lost' (y_hist y) ->
    SysInv (with_cfg c' (with_reader rprog' rcalls' lost' y)).
  Proof.
    intros (R & K & D) H N1 N2 N3 N4 D'. destruct (astep_facts cap _ _ _ H) as (F1 & F2 & F3 & F4).
    unfold SysInv, with_cfg, with_reader. cbn [y_s y_c y_rprog y_rcalls y_lost y_gcalls y_calls y_hist]. split; [|split].
    - eapply reachable_step; eauto.
    - rewrite (F3 N1 N2 N3 N4), (F4 N2). exact K.
    - exact D'.
  Qed.

  Lemma send_kind_cases x : send_kind x = RSend \/ send_kind x = RSendOrClose.
  Proof. unfold send_kind. destruct (fst x); auto. Qed.
  Lemma send_kind_not_begin x : send_kind x <> RBegin.
  Proof. unfold send_kind. destruct (fst x); discriminate. Qed.

  Lemma prog_head rprog tl k prog :
    k :: prog = map send_kind rprog ++ tl -> (tl = [] \/ tl = [RBegin]) ->
    (k = RBegin /\ rprog = [] /\ prog = []) \/
    (exists x r, rprog = x :: r /\ k = send_kind x /\ prog = map send_kind r ++ tl).
  Proof.
    intros E T. destruct rprog as [|x r]; simpl in E.
    - left. destruct T as [->| ->]; [discriminate|]. injection E as -> ->. auto.
    - right. injection E as -> ->. eauto.
  Qed.

  (** *** the read loop takes a client frame *)
  Lemma arun_frame_inv c prog ls c' : arun cap true c (EFrame prog :: ls) = Some c' ->
    rd c = RIdle /\ conn_closed c || pending_close c || dropped c = false.
  Proof.
    cbn [arun astep]. destruct (rd c); try discriminate. destruct (conn_closed c || pending_close c || dropped c); [discriminate|auto].
  Qed.

  Lemma is_src_op_app_l L nw ow : is_src_op (L ++ nw) ow = false -> is_src_op L ow = false.
  Proof. destruct ow as [n|]; [|reflexivity]. simpl. rewrite existsb_app. intro H. now apply orb_false_iff in H as [H _]. Qed.

  Lemma L_frame y f y' : SysInv y -> ystep cap p y (YFrame f) = Some y' -> SysInv y'.
  Proof.
    intros (R & K & D) H. pose proof (reachable_inv _ _ _ R) as J. cbn [ystep] in H.
    destruct (step false false false p (y_s y) (LFrame f)) as [s' o] eqn:St.
    set (is := stop_indices (srcs (y_s y)) (stops_of o)) in *. set (sp := spawns o) in *.
    set (rs := reader_sends (srcs s') o) in *. set (bc := calls_begin p (y_s y) f) in *.
    destruct (arun cap true (y_c y) (EFrame (frame_prog is sp rs bc) :: frame_head is sp)) as [c'|] eqn:Ar; [|discriminate].
    injection H as <-.
    destruct (arun_frame_inv _ _ _ _ Ar) as [RD Gd].
    pose proof Ar as Ar'. rewrite (arun_frame cap is sp rs bc _ RD Gd) in Ar'. injection Ar' as Ec.
    pose proof K as K'. destruct K as [K1 K2 K3 K4 K5]. destruct D as [D1 D2 D3]. rewrite RD in D1.
    assert (FD : finished (y_c y) = false).
    { destruct (finished (y_c y)) eqn:FD; [|reflexivity]. destruct (j_fin _ J FD) as [X _]. congruence. }
    assert (WD : writer_done (y_c y) = false).
    { destruct (writer_done (y_c y)) eqn:WD; [|reflexivity]. rewrite (j_conn _ J WD) in Gd. discriminate. }
    assert (LO : y_lost y = []) by (destruct D3; congruence).
    assert (CL0 : closed (y_s y) = false) by congruence.
    destruct (stage1_inv (y_hist y)) as [I0 _]. rewrite <- K1 in I0.
    destruct (frame_effect p _ _ _ _ _ I0 CL0 St) as (L1 & nw & ES & SE & SP & CL1).
    (* the goroutines after the Stop()s of this frame *)
    assert (A1 : List.length (stop_all_at is (gs (y_c y))) = List.length L1 /\ map s_op L1 = map s_op (srcs (y_s y)) /\
                 List.length L1 = List.length (srcs (y_s y)) /\
                 rel3 (gor_inv false) (stop_all_at is (gs (y_c y))) L1 (y_gcalls y)).
    { rewrite FD in K5. destruct SE as [Z|i x Z Hx St0]; unfold is; rewrite Z; simpl.
      - auto.
      - destruct (stop_src_at _ i x (i_nodup _ _ _ _ I0) Hx) as [_ SI]. rewrite SI. simpl. rewrite !upd_length.
        split; [exact K2|]. split; [apply upd_ops; reflexivity|]. split; [reflexivity|].
        rewrite <- (upd_id i (y_gcalls y)). apply rel3_upd; [exact K5|].
        intros g0 x0 c0 A B C [Q1 Q2]. rewrite Hx in B. injection B as <-.
        assert (OK : gor_ok g0) by (apply (proj1 (Forall_forall _ _) (j_gor _ J)); eapply nth_error_In; eauto).
        specialize (Q1 eq_refl). rewrite St0 in Q1. destruct (stops0_inmap _ OK Q1) as [IM NC].
        split.
        + intros _. unfold stop_gor. rewrite IM. simpl. rewrite Q1, St0. reflexivity.
        + eapply gor_rel_core; [| | |exact Q2]; [repeat split|unfold stop_gor; rewrite IM; reflexivity|].
          unfold stop_gor. rewrite IM. reflexivity. }
    destruct A1 as (A1 & A2 & A3 & A4).
    unfold SysInv. cbn [y_s y_c y_rprog y_rcalls y_lost y_gcalls y_calls y_hist]. split; [|split].
    - eapply reachable_arun; eauto.
    - subst c'. cbn [gs finished with_rd with_gs]. rewrite FD.
      assert (S' : s' = fst (step false false false p (y_s y) (LFrame f))) by now rewrite St.
      apply (core_next _ _ _ _ _ (LFrame f) _ _ _ _ K' S'); rewrite ?ES, ?app_length; auto.
      + destruct SP as [Z|id Z]; unfold sp; rewrite Z; simpl; lia.
      + destruct SP as [Z|id Z]; unfold sp; rewrite Z; simpl; lia.
      + destruct SP as [Z|id Z]; unfold sp; rewrite Z; simpl.
        * rewrite !app_nil_r. exact A4.
        * apply rel3_snoc; auto; [lia|]. split; [reflexivity|]. unfold gor_rel. simpl. auto.
    - subst c'. cbn [rd writer_done wr with_rd with_gs]. fold (writer_done (y_c y)). constructor.
      + exists (if bc then [RBegin] else []). split; [reflexivity|]. destruct bc; auto.
      + intros ow N. rewrite trace_snoc, <- K1, St. simpl. rewrite sent_to_app.
        rewrite ES in N. pose proof (is_src_op_app_l _ _ _ N) as N1. rewrite (is_src_op_ops _ _ ow A2) in N1.
        specialize (D2 ow N1). rewrite D1, LO, !app_nil_r in D2. rewrite LO, app_nil_r, osends_to_app, D2. f_equal.
        unfold rs. apply reader_sends_proj. now rewrite ES.
      + left. exact LO.
  Qed.

  (** *** every step of the joined system keeps the invariant *)
  Lemma with_gcalls_same y : with_gcalls (y_gcalls y) y = y.
  Proof. destruct y; reflexivity. Qed.
  Lemma with_reader_same y : with_reader (y_rprog y) (y_rcalls y) (y_lost y) y = y.
  Proof. destruct y; reflexivity. Qed.

  Lemma gor_inv_phase fd g x cl : gor_inv fd g x cl -> forall g' cl', g_stops g' = g_stops g -> gor_rel g' x cl' -> gor_inv fd g' x cl'.
  Proof. intros [A _] g' cl' E B. split; [rewrite E; exact A|exact B]. Qed.

  Lemma inv_logged x y : SysInv y -> SysInv (logged x y).
  Proof. intro V. exact V. Qed.

  Theorem ystep_inv y l y' : SysInv y -> ystep cap p y l = Some y' -> SysInv y'.
  Proof.
    intros V H. destruct l as [f|i|i| | | | |a].
    - eapply L_frame; eauto.
    - cbn [ystep] in H. destruct (astep cap true (y_c y) (EEmit i)) as [c'|] eqn:A; [|discriminate].
      destruct (nth_error (gs (y_c y)) i) as [g|] eqn:Hg; [|discriminate]. unfold op_of in H.
      destruct (nth_error (srcs (y_s y)) i) as [x|] eqn:Hx; [|discriminate].
      destruct (g_cancelled g) eqn:NC; [discriminate|]. injection H as <-. eapply L_emit; eauto.
    - cbn [ystep] in H. destruct (astep cap true (y_c y) (ESrcEnd i)) as [c'|] eqn:A; [|discriminate]. injection H as <-.
      replace (with_cfg c' y) with (with_cfg c' (with_gcalls (upd i (fun z => z) (y_gcalls y)) y)) by (rewrite upd_id, with_gcalls_same; reflexivity).
      eapply (L_gor y (ESrcEnd i) c' i set_srcclosed (fun z => z)); [exact V|exact A|reflexivity|exact (astep_gor _ _ _ A)|].
      intros g x cl _ _ _ Q. eapply gor_inv_phase; [exact Q|reflexivity|].
      eapply gor_rel_core; [| | |exact (proj2 Q)]; [repeat split|reflexivity|auto].
    - cbn [ystep] in H. destruct (astep cap true (y_c y) EClientClose) as [c'|] eqn:A; [|discriminate]. injection H as <-.
      eapply L_cfgonly; eauto; discriminate.
    - cbn [ystep] in H. destruct (astep cap true (y_c y) EDrop) as [c'|] eqn:A; [|discriminate]. injection H as <-.
      eapply L_cfgonly; eauto; discriminate.
    - cbn [ystep] in H. destruct (astep cap true (y_c y) EAppClose) as [c'|] eqn:A; [|discriminate]. injection H as <-.
      eapply L_cfgonly; eauto; discriminate.
    - cbn [ystep] in H. destruct (astep cap true (y_c y) ETickFail) as [c'|] eqn:A; [|discriminate]. injection H as <-.
      eapply L_cfgonly; eauto; discriminate.
    - cbn [ystep] in H. destruct (internal a) eqn:Int; [|discriminate]. cbn [negb] in H.
      destruct (astep cap true (y_c y) a) as [c'|] eqn:A; [|discriminate].
      pose proof V as (R & K & D). pose proof D as [D1 D2 D3].
      destruct (astep_facts cap _ _ _ A) as (F1 & F2 & F3 & F4).
      destruct a; try discriminate Int.
      + (* IReadFail *)
        injection H as <-. replace (with_cfg c' y) with (with_cfg c' (with_reader (y_rprog y) (y_rcalls y) (y_lost y) y)) by (rewrite with_reader_same; reflexivity). destruct (astep_reader _ _ _ A) as [E1 E2].
        eapply L_reader; eauto; try discriminate. rewrite E2. rewrite E1 in D1. constructor; auto. destruct D3; auto.
      + (* IRSendOk *)
        destruct (astep_reader _ _ _ A) as (k & prog & E1 & Kk & E2). rewrite E1 in D1. destruct D1 as (tl & Ep & Tl).
        destruct (prog_head _ _ _ _ Ep Tl) as [(-> & _)|(x & r & Er & -> & Ep')]; [destruct Kk; discriminate|].
        rewrite Er in H. injection H as <-. eapply L_reader; eauto; try discriminate. rewrite E2. constructor.
        * eauto.
        * intros ow N. rewrite <- (D2 ow N), Er, <- !app_assoc. reflexivity.
        * destruct D3; auto.
      + (* IRSendFail *)
        destruct (astep_reader _ _ _ A) as (WD & [(prog & E1 & E2)|(prog & E1 & E2)]); rewrite E1 in D1; destruct D1 as (tl & Ep & Tl).
        * destruct (prog_head _ _ _ _ Ep Tl) as [(X & _)|(x & r & Er & Ek & Ep')]; [discriminate|].
          rewrite Er in H. rewrite <- Ek in H. injection H as <-.
          eapply L_reader; eauto; try discriminate. rewrite E2. constructor.
          -- eauto.
          -- intros ow N. rewrite <- (D2 ow N), Er, <- !app_assoc. reflexivity.
          -- destruct D3; auto.
        * destruct (prog_head _ _ _ _ Ep Tl) as [(X & _)|(x & r & Er & Ek & Ep')]; [discriminate|].
          rewrite Er in H. rewrite <- Ek in H. injection H as <-.
          eapply L_reader; eauto; try discriminate. rewrite E2. constructor.
          -- exists []. auto.
          -- intros ow N. rewrite <- (D2 ow N), Er. simpl. rewrite <- !app_assoc. reflexivity.
          -- right. auto.
      + (* IRBegin *)
        injection H as <-. replace (with_cfg c' y) with (with_cfg c' (with_reader (y_rprog y) (y_rcalls y) (y_lost y) y)) by (rewrite with_reader_same; reflexivity). destruct (astep_reader _ _ _ A) as (prog & E1 & E2).
        rewrite E1 in D1. destruct D1 as (tl & Ep & Tl).
        destruct (prog_head _ _ _ _ Ep Tl) as [(_ & Er & ->)|(x & r & _ & X & _)]; [|exfalso; eapply send_kind_not_begin; eauto].
        eapply L_reader; eauto; try discriminate. rewrite E2. constructor; [exists []; rewrite Er; auto|exact D2|destruct D3; auto].
      + (* IRSpawn *) discriminate.
      + (* IRStop *) discriminate.
      + (* IRReturn *)
        injection H as <-. replace (with_cfg c' y) with (with_cfg c' (with_reader (y_rprog y) (y_rcalls y) (y_lost y) y)) by (rewrite with_reader_same; reflexivity). destruct (astep_reader _ _ _ A) as [E1 E2].
        rewrite E1 in D1. destruct D1 as (tl & Ep & Tl).
        assert (Er : y_rprog y = []) by (destruct (y_rprog y); [reflexivity|discriminate]).
        eapply L_reader; eauto; try discriminate. rewrite E2. constructor; [exact Er|exact D2|destruct D3; auto].
      + (* IRCancelled: the read loop of the joined system never waits for a cancellation *)
        exfalso. destruct (astep_reader _ _ _ A) as (prog & E1). rewrite E1 in D1. destruct D1 as (tl & Ep & Tl).
        destruct (prog_head _ _ _ _ Ep Tl) as [(X & _)|(x & r & _ & X & _)]; [discriminate|].
        destruct (send_kind_cases x); congruence.
      + (* IGCancel *)
        injection H as <-. replace (with_cfg c' y) with (with_cfg c' (with_gcalls (upd i (fun z => z) (y_gcalls y)) y)) by (rewrite upd_id, with_gcalls_same; reflexivity).
        destruct (astep_gor _ _ _ A) as (g & Hg & Ph & Cn & E).
        eapply (L_gor y (IGCancel i) c' i (set_phase GComplete) (fun z => z)); [exact V|exact A|reflexivity|exact E|].
        intros g0 x cl B _ _ Q. rewrite Hg in B. injection B as <-. eapply gor_inv_phase; [exact Q|reflexivity|].
        destruct Q as [_ Q]. unfold gor_rel in *. rewrite Ph in Q. simpl. destruct Q as [_ Q]. auto.
      + (* IGEnd *)
        unfold op_of in H. destruct (nth_error (srcs (y_s y)) i) as [x|] eqn:Hx; [|discriminate]. injection H as <-.
        eapply L_gend; eauto.
      + (* IGDataOk *)
        unfold op_of in H. destruct (nth_error (srcs (y_s y)) i) as [x|] eqn:Hx; [|discriminate]. injection H as <-.
        destruct (astep_gor _ _ _ A) as (g & Hg & Ph & E).
        eapply (L_gor y (IGDataOk i) c' i (set_phase GRun)); [exact V|exact A|reflexivity|exact E|].
        intros g0 x0 cl B C _ Q. rewrite Hg in B. injection B as <-. rewrite Hx in C. injection C as <-.
        eapply gor_inv_phase; [exact Q|reflexivity|].
        destruct Q as [_ Q]. unfold gor_rel in *. rewrite Ph in Q. simpl. destruct Q as (Q1 & Q2 & ->). split; [exact Q1|].
        now apply evs_last.
      + (* IGDataFail *)
        unfold op_of in H. destruct (nth_error (srcs (y_s y)) i) as [x|] eqn:Hx; [|discriminate]. injection H as <-.
        destruct (astep_gor _ _ _ A) as (g & Hg & Ph & E).
        eapply (L_gor y (IGDataFail i) c' i (set_phase GRun)); [exact V|exact A|reflexivity|exact E|].
        intros g0 x0 cl B C _ Q. rewrite Hg in B. injection B as <-. rewrite Hx in C. injection C as <-.
        eapply gor_inv_phase; [exact Q|reflexivity|].
        destruct Q as [_ Q]. unfold gor_rel in *. rewrite Ph in Q. simpl. destruct Q as (Q1 & Q2 & ->). split; [exact Q1|].
        now apply evs_last.
      + (* IGCompleteOk *)
        unfold op_of in H. destruct (nth_error (srcs (y_s y)) i) as [x|] eqn:Hx; [|discriminate]. injection H as <-.
        destruct (astep_gor _ _ _ A) as (g & Hg & Ph & E).
        eapply (L_gor y (IGCompleteOk i) c' i (set_phase GDone)); [exact V|exact A|reflexivity|exact E|].
        intros g0 x0 cl B C _ Q. rewrite Hg in B. injection B as <-. rewrite Hx in C. injection C as <-.
        eapply gor_inv_phase; [exact Q|reflexivity|].
        destruct Q as [_ Q]. unfold gor_rel in *. rewrite Ph in Q. simpl. destruct Q as (Q1 & ->). auto.
      + (* IGCompleteFail *)
        unfold op_of in H. destruct (nth_error (srcs (y_s y)) i) as [x|] eqn:Hx; [|discriminate]. injection H as <-.
        destruct (astep_gor _ _ _ A) as (g & Hg & Ph & E).
        eapply (L_gor y (IGCompleteFail i) c' i (set_phase GDone)); [exact V|exact A|reflexivity|exact E|].
        intros g0 x0 cl B C _ Q. rewrite Hg in B. injection B as <-. rewrite Hx in C. injection C as <-.
        eapply gor_inv_phase; [exact Q|reflexivity|].
        destruct Q as [_ Q]. unfold gor_rel in *. rewrite Ph in Q. simpl. destruct Q as (Q1 & ->). auto.
      + injection H as <-. eapply L_cfgonly; eauto; discriminate.
      + injection H as <-. eapply L_cfgonly; eauto; discriminate.
      + injection H as <-. eapply L_cfgonly; eauto; discriminate.
      + injection H as <-. eapply L_cfgonly; eauto; discriminate.
      + injection H as <-. eapply L_cfgonly; eauto; discriminate.
      + injection H as <-. eapply L_cfgonly; eauto; discriminate.
      + injection H as <-. eapply L_cfgonly; eauto; discriminate.
      + injection H as <-. eapply L_cfgonly; eauto; discriminate.
      + (* IWFinish *)
        assert (Y : y' = if finished (y_c y) then with_cfg c' y else commit p (LEnd (end_of (y_c y))) y c')
          by (destruct (finished (y_c y)); now injection H as <-).
        rewrite Y. eapply L_finish; eauto.
      + (* IAFinish *)
        assert (Y : y' = if finished (y_c y) then with_cfg c' y else commit p (LEnd (end_of (y_c y))) y c')
          by (destruct (finished (y_c y)); now injection H as <-).
        rewrite Y. eapply L_finish; eauto.
  Qed.

  (** *** all reachable states; erasure to stage 2 *)
  Lemma init_sys_inv : SysInv init_sys.
  Proof.
    split; [exists []; reflexivity|]. split.
    - constructor; try reflexivity. intros i g x cl H. destruct i; discriminate.
    - constructor; simpl; auto.
  Qed.

  Lemma yrun_inv ls : forall y y', SysInv y -> yrun cap p y ls = Some y' -> SysInv y'.
  Proof.
    induction ls as [|l ls IH]; intros y y' V H; simpl in H; [now injection H as <-|].
    destruct (ystep cap p y l) as [y1|] eqn:E; [|discriminate]. eapply IH; [|exact H]. eapply ystep_inv; eauto.
  Qed.

  Theorem yreach_inv y : yreach cap p y -> SysInv y.
  Proof. intros (ls & H). eapply yrun_inv; [apply init_sys_inv|exact H]. Qed.

  (** every step of the joined system is a run of stage 2 on its configuration *)
  Theorem ystep_erases y l y' : ystep cap p y l = Some y' -> arun cap true (y_c y) (erase p y l) = Some (y_c y').
  Proof.
    intro H. destruct l as [f|i|i| | | | |a]; cbn [ystep erase] in *.
    - destruct (step false false false p (y_s y) (LFrame f)) as [s' o].
      match goal with |- ?X = _ => destruct X as [c'|] eqn:Ar; [|discriminate] end. now injection H as <-.
    - cbn [arun]. destruct (astep cap true (y_c y) (EEmit i)) as [c'|]; [|discriminate].
      destruct (nth_error (gs (y_c y)) i) as [g|]; [|discriminate]. destruct (op_of i y); [|discriminate].
      destruct (g_cancelled g); [discriminate|]. now injection H as <-.
    - cbn [arun]. destruct (astep cap true (y_c y) (ESrcEnd i)); [|discriminate]. cbn [option_map] in H. now injection H as <-.
    - cbn [arun]. destruct (astep cap true (y_c y) EClientClose); [|discriminate]. cbn [option_map] in H. now injection H as <-.
    - cbn [arun]. destruct (astep cap true (y_c y) EDrop); [|discriminate]. cbn [option_map] in H. now injection H as <-.
    - cbn [arun]. destruct (astep cap true (y_c y) EAppClose); [|discriminate]. cbn [option_map] in H. now injection H as <-.
    - cbn [arun]. destruct (astep cap true (y_c y) ETickFail); [|discriminate]. cbn [option_map] in H. now injection H as <-.
    - cbn [arun]. destruct (internal a); [|discriminate]. cbn [negb] in H. destruct (astep cap true (y_c y) a) as [c'|]; [|discriminate].
      f_equal. destruct a; try discriminate H; unfold op_of in H;
        repeat match type of H with
               | context [match ?x with _ => _ end] => destruct x; try discriminate H
               | context [if ?x then _ else _] => destruct x; try discriminate H
               end; now injection H as <-.
  Qed.

  Fixpoint erase_run (y : sys) (ls : list ylabel) : list alabel :=
    match ls with
    | [] => []
    | l :: r => erase p y l ++ match ystep cap p y l with Some y' => erase_run y' r | None => [] end
    end.

  Theorem yrun_erases ls : forall y y', yrun cap p y ls = Some y' -> arun cap true (y_c y) (erase_run y ls) = Some (y_c y').
  Proof.
    induction ls as [|l ls IH]; intros y y' H; simpl in *; [now injection H as <-|].
    destruct (ystep cap p y l) as [y1|] eqn:E; [|discriminate].
    rewrite arun_app, (ystep_erases _ _ _ E). now apply IH.
  Qed.

  (** *** the refinement: what the actors have sent and still hold is what the sequential trace says *)
  Lemma owned_of_src x t : src_ok x t -> owned (s_op x) t = evs (s_id x) (s_op x) (s_events x) ++ tail_of x.
  Proof. intros (_ & _ & V). unfold view in V. now injection V. Qed.

  Theorem sys_refines y : yreach cap p y ->
    y_s y = fin (y_hist y) /\ reachable cap true (y_c y) /\ finished (y_c y) = closed (fin (y_hist y)) /\
    List.length (gs (y_c y)) = List.length (srcs (fin (y_hist y))) /\
    List.length (y_gcalls y) = List.length (srcs (fin (y_hist y))) /\
    (forall i g x cl, nth_error (gs (y_c y)) i = Some g -> nth_error (srcs (fin (y_hist y))) i = Some x ->
                      nth_error (y_gcalls y) i = Some cl ->
       g_stops g = s_stops x /\ cl ++ gor_pending g x = owned (s_op x) (tr (y_hist y))) /\
    (forall ow, is_src_op (srcs (fin (y_hist y))) ow = false ->
       osends_to ow (y_rcalls y ++ y_rprog y ++ y_lost y) = sent_to ow (tr (y_hist y))) /\
    (y_lost y = [] \/ writer_done (y_c y) = true).
  Proof.
    intro Re. destruct (yreach_inv _ Re) as (R & [K1 K2 K3 K4 K5] & [D1 D2 D3]).
    pose proof (reachable_inv _ _ _ R) as J. destruct (stage1_inv (y_hist y)) as [I0 [C0 C1]].
    rewrite <- K1 in *. repeat split; auto.
    - (* Stop() counters *)
      destruct (finished (y_c y)) eqn:FD.
      + destruct (K5 i g x cl H H0 H1) as [_ GR].
        assert (Hg : In g (gs (y_c y))) by (eapply nth_error_In; eauto).
        destruct (j_fin _ J FD) as (_ & _ & A). pose proof (proj1 (Forall_forall _ _) A g Hg) as M.
        pose proof (proj1 (Forall_forall _ _) (j_gor _ J) g Hg) as OK. unfold gor_ok in OK. rewrite M in OK. destruct OK as [_ ->].
        destruct (C1 K4) as (_ & S0 & _). assert (Hx : In x (srcs (y_s y))) by (eapply nth_error_In; eauto).
        destruct (i_src _ _ _ _ I0 x Hx) as (_ & Le & _).
        destruct (s_stops x) as [|[|k]] eqn:St; [|reflexivity|lia].
        pose proof (i_unstopped _ _ _ _ I0 x Hx St) as X. rewrite S0 in X. destruct X.
      + destruct (K5 i g x cl H H0 H1) as [S0 _]. auto.
    - (* frames *)
      destruct (K5 i g x cl H H0 H1) as [S0 GR].
      assert (Hx : In x (srcs (y_s y))) by (eapply nth_error_In; eauto).
      rewrite (owned_of_src x _ (i_src _ _ _ _ I0 x Hx)).
      assert (Hg : In g (gs (y_c y))) by (eapply nth_error_In; eauto).
      pose proof (proj1 (Forall_forall _ _) (j_gor _ J) g Hg) as OK.
      (* a goroutine past Run is not live *)
      assert (NL : (s_ended x = true \/ g_cancelled g = true) -> live x = false).
      { intros [E|E]; unfold live; [rewrite E; apply andb_false_r|].
        assert (St : s_stops x = 1).
        { destruct (finished (y_c y)) eqn:FD.
          - destruct (C1 K4) as (_ & Sb & _). destruct (i_src _ _ _ _ I0 x Hx) as (_ & Le & _).
            destruct (s_stops x) as [|[|k]] eqn:St; [|reflexivity|lia].
            pose proof (i_unstopped _ _ _ _ I0 x Hx St) as X. rewrite Sb in X. destruct X.
          - rewrite <- (S0 eq_refl). unfold gor_ok in OK. destruct (g_inmap g); [destruct OK; congruence|tauto]. }
        rewrite St. reflexivity. }
      unfold gor_rel in GR. unfold gor_pending, tail_of. destruct (g_phase g).
      + destruct GR as [_ ->]. simpl. destruct (live x); reflexivity.
      + destruct GR as (_ & Ge & ->). rewrite app_assoc. simpl. rewrite <- app_assoc. simpl.
        rewrite <- (evs_last (s_id x) (s_op x) (s_events x) Ge), <- app_assoc. simpl. destruct (live x); reflexivity.
      + destruct GR as [Q ->]. rewrite (NL Q). reflexivity.
      + destruct GR as [Q ->]. rewrite (NL Q). simpl. rewrite app_nil_r. reflexivity.
  Qed.

  (** *** the joined system can take every internal step stage 2 can: nothing blocks on the bookkeeping *)

  Theorem sys_progress y a c' :
    SysInv y -> internal a = true -> astep cap true (y_c y) a = Some c' -> exists y', ystep cap p y (YInt a) = Some y'.
  Proof.
    intros (R & [K1 K2 K3 K4 K5] & [D1 D2 D3]) Int A. cbn [ystep]. rewrite Int, A. cbn [negb].
    assert (OP : forall i g, nth_error (gs (y_c y)) i = Some g -> exists x, op_of i y = Some x).
    { intros i g Hg. unfold op_of. eapply nth_gc; [|exact Hg]. auto. }
    destruct a; try discriminate Int; eauto.
    - destruct (astep_reader _ _ _ A) as (k & prog & E1 & Kk & E2). rewrite E1 in D1. destruct D1 as (tl & Ep & Tl).
      destruct (prog_head _ _ _ _ Ep Tl) as [(-> & _)|(x & r & -> & _)]; [destruct Kk; discriminate|eauto].
    - destruct (astep_reader _ _ _ A) as (_ & [(prog & E1 & E2)|(prog & E1 & E2)]); rewrite E1 in D1; destruct D1 as (tl & Ep & Tl);
        (destruct (prog_head _ _ _ _ Ep Tl) as [(X & _)|(x & r & -> & _)]; [discriminate|eauto]).
    - exfalso. simpl in A. destruct (rd (y_c y)) as [|[|[] prog]|]; try discriminate. destruct D1 as (tl & Ep & Tl).
      destruct (prog_head _ _ _ _ Ep Tl) as [(X & _)|(x & r & _ & X & _)]; [discriminate|].
      destruct (send_kind_cases x); congruence.
    - exfalso. simpl in A. destruct (rd (y_c y)) as [|[|[] prog]|]; try discriminate. destruct D1 as (tl & Ep & Tl).
      destruct (prog_head _ _ _ _ Ep Tl) as [(X & _)|(x & r & _ & X & _)]; [discriminate|].
      destruct (send_kind_cases x); congruence.
    - destruct (astep_gor _ _ _ A) as (g & Hg & _). destruct (OP _ _ Hg) as (x & ->). eauto.
    - destruct (astep_gor _ _ _ A) as (g & Hg & _). destruct (OP _ _ Hg) as (x & ->). eauto.
    - destruct (astep_gor _ _ _ A) as (g & Hg & _). destruct (OP _ _ Hg) as (x & ->). eauto.
    - destruct (astep_gor _ _ _ A) as (g & Hg & _). destruct (OP _ _ Hg) as (x & ->). eauto.
    - destruct (astep_gor _ _ _ A) as (g & Hg & _). destruct (OP _ _ Hg) as (x & ->). eauto.
    - destruct (finished (y_c y)); eauto.
    - destruct (finished (y_c y)); eauto.
  Qed.

  Lemma erase_run_internal ls : forall y y', yrun cap p y (map YInt ls) = Some y' -> erase_run y (map YInt ls) = ls.
  Proof.
    induction ls as [|a ls IH]; intros y y' H; [reflexivity|]. cbn [map yrun erase_run] in *.
    destruct (ystep cap p y (YInt a)) as [y1|] eqn:E; [|discriminate]. cbn [erase app]. f_equal. eapply IH; eauto.
  Qed.
End Refine.

(** ** shutdown of the joined system always completes (from stage 2, through the erasure) *)
Theorem sys_quiescent cap p (cap_pos : 1 <= cap) y :
  yreach cap p y -> ending (y_c y) = true ->
  forall ls y', Forall (fun a => internal a = true) ls -> yrun cap p y (map YInt ls) = Some y' ->
    List.length ls <= mu (y_c y) /\
    ((forall a, internal a = true -> ystep cap p y' (YInt a) = None) -> all_gone (y_c y') = true /\ cleaned (y_c y')).
Proof.
  intros Re En ls y' Fi Ru. pose proof (yreach_inv cap p _ Re) as V. destruct V as (R & _ & RI). destruct RI as [D1 D2 D3].
  assert (Se : settling (y_c y) = true).
  { unfold settling. rewrite En. unfold waits.
    assert (W : match rd (y_c y) with RBusy prog => existsb is_wait prog | _ => false end = false).
    { destruct (rd (y_c y)) as [|prog|]; try reflexivity.
      destruct D1 as (tl & -> & Tl). rewrite existsb_app.
      assert (X : forall l, existsb is_wait (map send_kind l) = false).
      { induction l as [|x r IH]; [reflexivity|]. cbn [map existsb]. rewrite IH.
        destruct (send_kind_cases x) as [E | E]; rewrite E; reflexivity. }
      rewrite X. destruct Tl as [-> | ->]; reflexivity. }
    rewrite W. simpl. apply orb_true_r. }
  pose proof (yrun_erases cap p _ _ _ Ru) as Ar. rewrite (erase_run_internal cap p _ _ _ Ru) in Ar.
  destruct (quiescent cap cap_pos (y_c y) R Se ls (y_c y') Fi Ar) as [A B]. split; [exact A|].
  intro St. apply B. intros a Ia. destruct (astep cap true (y_c y') a) as [c''|] eqn:E; [|reflexivity]. exfalso.
  assert (V' : SysInv cap p y') by (eapply yrun_inv; [apply (yreach_inv cap p _ Re)|exact Ru]).
  destruct (sys_progress cap p _ _ _ V' Ia E) as (y'' & X). rewrite (St a Ia) in X. discriminate.
Qed.

(** ** HandleClose happens after the read loop's last handler return
    In stage 2 a handler call in flight is the read loop in state [RBusy prog]: the application's
    [Close()], a drop, a failing write, the write loop's exit can all happen while it lasts.
    [finishClosing] is past its waits only when the read loop has ended ([RDone], entered from
    [RIdle] only, i.e. after the last [handleMessage] returned).  Hence, in every reachable
    configuration in which HandleClose has run: the read loop has ended, no handler step is possible
    any more — in particular no subscription can be registered afterwards (the list of goroutines
    keeps its length under every step) — and every stream ever registered has been removed from the
    map and stopped exactly once. *)
Theorem ws_close_after_last_handler cap c :
  reachable cap true c -> finished c = true ->
  rd c = RDone /\ Forall (fun g => g_inmap g = false /\ g_stops g = 1) (gs c) /\
  (forall l c', astep cap true c l = Some c' -> rd c' = RDone /\ List.length (gs c') = List.length (gs c)).
Proof.
  intros R F. pose proof (reachable_inv _ _ _ R) as J. destruct (j_fin _ J F) as (RD & _ & NM).
  split; [exact RD|]. split.
  - apply Forall_forall. intros g Hg. pose proof (proj1 (Forall_forall _ _) NM g Hg) as M.
    pose proof (proj1 (Forall_forall _ _) (j_gor _ J) g Hg) as OK. unfold gor_ok in OK. rewrite M in OK. tauto.
  - intros l c' H.
    destruct l; simpl in H; unfold on_gor in H; rewrite ?RD in H; break_match H; try discriminate; injection H as <-;
      unfold writer_out, writer_exit, with_rd, with_gs, with_wr, with_ac, with_queue; simpl;
      rewrite ?bc_gs, ?bc_rd, ?fo_rd, ?fo_gs, ?F, ?upd_length; auto.
Qed.

(** ** global order: nothing but a connection error (a pong) is handed to sendMessage before the first ack
    [sys_refines] relates the joined system to stage 1 owner by owner; all connection-level frames have one owner
    (none) and one sender (the read loop), so their order is stage 1's.  R1 ("ack first") is a statement about the
    order of ALL frames: it holds of the real-time order of the sendMessage calls of the joined system, read loop and
    subscription goroutines together ([y_calls]). *)
Definition fr (l : list osend) : list sframe := map fst l.

Section AckFirst.
  Variable cap : nat.
  Variable p : proto.

  Definition JInv (y : sys) : Prop :=
    chk_ack_first p (fr (y_calls y)) = true /\
    (In SAck (fr (y_calls y)) \/
     (forallb (pre_ack_ok p) (fr (y_calls y)) = true /\ gs (y_c y) = [] /\ srcs (y_s y) = [] /\
      chk_ack_first p (fr (y_rprog y)) = true /\ (did_init (y_s y) = true -> In SAck (fr (y_rprog y))))).

  Lemma fr_app a b : fr (a ++ b) = fr a ++ fr b.
  Proof. apply map_app. Qed.
  Lemma chk_of_pre l : forallb (pre_ack_ok p) l = true -> chk_ack_first p l = true.
  Proof.
    induction l as [|f l IH]; simpl; [reflexivity|]. intro H. apply andb_true_iff in H as [H1 H2].
    destruct f; simpl in *; try discriminate; rewrite ?H1; auto.
  Qed.

  (** one more call *)
  Lemma J_call y x calls' :
    calls' = y_calls y ++ [x] ->
    chk_ack_first p (fr (y_calls y)) = true ->
    (In SAck (fr (y_calls y)) \/ fst x = SAck \/ (forallb (pre_ack_ok p) (fr (y_calls y)) = true /\ pre_ack_ok p (fst x) = true)) ->
    chk_ack_first p (fr calls') = true /\
    (In SAck (fr calls') \/ forallb (pre_ack_ok p) (fr calls') = true).
  Proof.
    intros -> C [A|[A|[A B]]]; rewrite fr_app; simpl.
    - split; [now apply chk_ack_first_after|left; apply in_or_app; now left].
    - split; [|left; apply in_or_app; right; left; exact A].
      rewrite A. clear - C. induction (fr (y_calls y)) as [|f l IH]; simpl in *; [reflexivity|].
      destruct f; simpl in *; auto; apply andb_true_iff in C as [C1 C2]; rewrite C1; simpl; auto.
    - split; [|right; rewrite forallb_app, A; simpl; now rewrite B].
      apply chk_of_pre. rewrite forallb_app, A. simpl. now rewrite B.
  Qed.

  Lemma stop_indices_nil ns : stop_indices [] ns = [].
  Proof. induction ns as [|n ns IH]; simpl; auto. Qed.

  Lemma did_init_end s e : did_init (fst (step false false false p s (LEnd e))) = did_init s.
  Proof.
    unfold step, react. destruct (closed s); [reflexivity|].
    destruct (WsModel.begin_closing (end_code e) s) as [s2 o2] eqn:B.
    destruct (begin_closing_neutral _ _ _ _ B) as (_ & _ & _ & A & _). unfold handle_close.
    destruct (stop_all (subs s2) (srcs s2)). simpl. exact A.
  Qed.

  Lemma no_gor_step c a c' i : gs c = [] -> astep cap true c a = Some c' ->
    (a = EEmit i \/ a = ESrcEnd i \/ a = IGCancel i \/ a = IGEnd i \/ a = IGDataOk i \/ a = IGDataFail i \/
     a = IGCompleteOk i \/ a = IGCompleteFail i) -> False.
  Proof.
    intros G H A. destruct A as [->|[->|[->|[->|[->|[->|[->| ->]]]]]]]; simpl in H;
      try (destruct (can_enqueue cap c); [|discriminate]); unfold can_give_up in H; simpl in H;
      try (destruct (writer_done c); [|discriminate]);
      unfold on_gor in H; rewrite G in H; destruct i; discriminate.
  Qed.

  Theorem ystep_J y l y' : SysInv cap p y -> JInv y -> ystep cap p y l = Some y' -> JInv y'.
  Proof.
    intros V [C J] H. pose proof V as (R & K & D). pose proof (reachable_inv _ _ _ R) as AI.
    destruct K as [K1 K2 K3 K4 K5]. destruct D as [D1 D2 D3].
    (* once an ack has been handed over, every later call keeps R1 *)
    assert (Left : In SAck (fr (y_calls y)) -> forall more, JInv {| y_s := y_s y'; y_c := y_c y'; y_rprog := y_rprog y'; y_rcalls := y_rcalls y';
                      y_lost := y_lost y'; y_gcalls := y_gcalls y'; y_calls := y_calls y ++ more; y_hist := y_hist y' |}).
    { intros A more. split; simpl; rewrite fr_app; [now apply chk_ack_first_after|left; apply in_or_app; now left]. }
    destruct l as [f|i|i| | | | |a].
    - (* a client frame *)
      cbn [ystep] in H. destruct (step false false false p (y_s y) (LFrame f)) as [s' o] eqn:St.
      match type of H with context [arun ?a ?b ?c ?d] => destruct (arun a b c d) as [c'|] eqn:Ar; [|discriminate] end.
      injection H as <-. destruct J as [A|(A & G & Sr & Cp & Di)].
      + split; [exact C|left; exact A].
      + destruct (arun_frame_inv _ _ _ _ _ Ar) as [RD Gd]. rewrite RD in D1.
        assert (FD : finished (y_c y) = false).
        { destruct (finished (y_c y)) eqn:FD; [|reflexivity]. destruct (j_fin _ AI FD) as [X _]. congruence. }
        assert (DI : did_init (y_s y) = false).
        { destruct (did_init (y_s y)); [|reflexivity]. rewrite D1 in Di. destruct (Di eq_refl). }
        assert (CL0 : closed (y_s y) = false) by congruence.
        unfold step, react in St. rewrite CL0 in St. destruct (handle false false p (y_s y) f) as [s2 o2] eqn:Hd.
        injection St as <- <-. rewrite Sr, stop_indices_nil in Ar. change (srcs (tick s2)) with (srcs s2) in *.
        change (did_init (tick s2)) with (did_init s2).
        rewrite (arun_frame cap [] _ _ _ _ RD Gd) in Ar. injection Ar as <-. cbn [gs with_rd with_gs stop_all_at fold_left].
        rewrite G. cbn [y_s y_c y_rprog y_calls]. split; [exact C|]. right. split; [exact A|].
        cbn [y_s y_c y_rprog y_calls gs with_rd with_gs]. change (srcs (tick s2)) with (srcs s2). change (did_init (tick s2)) with (did_init s2).
        destruct (handle_shape _ _ _ _ _ _ _ Hd) as [H1 H2 H3 H4 H5|H1 H2 H3 H4 H5 H6|bc H1 H2 H3 H4 H5 H6|H1 H2 H3 H4 H5|id d H1 H2 H3|id H1 H2 H3].
        * (* nothing sent *) rewrite H3, Sr, H1, DI. destruct H4 as [->|(c0 & ->)]; simpl; repeat split; auto; discriminate.
        * (* accepted init *) rewrite H3, Sr. subst o2. destruct p; simpl; repeat split; auto.
        * (* refused init *) rewrite H3, Sr, H1, DI. subst o2. destruct H4 as [->|(c0 & ->)]; destruct p; simpl; repeat split; auto; discriminate.
        * (* ping *) rewrite H3, Sr, H1, DI. subst o2. destruct p; [destruct f as [|[] ? ?]; discriminate|]. simpl. repeat split; auto; discriminate.
        * congruence.
        * congruence.
    - (* a goroutine takes an event *)
      cbn [ystep] in H. destruct (astep cap true (y_c y) (EEmit i)) as [c'|] eqn:A; [|discriminate].
      destruct (nth_error (gs (y_c y)) i) as [g|] eqn:Hg; [|discriminate]. destruct (op_of i y); [|discriminate].
      destruct (g_cancelled g); [discriminate|]. injection H as <-.
      destruct J as [B|(_ & G & _)]; [|rewrite G in Hg; destruct i; discriminate].
      split; [exact C|left; exact B].
    - cbn [ystep] in H. destruct (astep cap true (y_c y) (ESrcEnd i)) as [c'|] eqn:A; [|discriminate]. injection H as <-.
      destruct J as [B|(_ & G & _)]; [split; [exact C|left; exact B]|]. exfalso. eapply (no_gor_step _ _ _ i G A); auto.
    - cbn [ystep] in H. destruct (astep cap true (y_c y) EClientClose) as [c'|] eqn:A; [|discriminate]. injection H as <-.
      destruct (astep_facts cap _ _ _ A) as (_ & _ & F3 & _). split; [exact C|]. destruct J as [B|(B1 & G & B3)]; [now left|right].
      simpl. rewrite F3 by (reflexivity || discriminate). auto.
    - cbn [ystep] in H. destruct (astep cap true (y_c y) EDrop) as [c'|] eqn:A; [|discriminate]. injection H as <-.
      destruct (astep_facts cap _ _ _ A) as (_ & _ & F3 & _). split; [exact C|]. destruct J as [B|(B1 & G & B3)]; [now left|right].
      simpl. rewrite F3 by (reflexivity || discriminate). auto.
    - cbn [ystep] in H. destruct (astep cap true (y_c y) EAppClose) as [c'|] eqn:A; [|discriminate]. injection H as <-.
      destruct (astep_facts cap _ _ _ A) as (_ & _ & F3 & _). split; [exact C|]. destruct J as [B|(B1 & G & B3)]; [now left|right].
      simpl. rewrite F3 by (reflexivity || discriminate). auto.
    - cbn [ystep] in H. destruct (astep cap true (y_c y) ETickFail) as [c'|] eqn:A; [|discriminate]. injection H as <-.
      destruct (astep_facts cap _ _ _ A) as (_ & _ & F3 & _). split; [exact C|]. destruct J as [B|(B1 & G & B3)]; [now left|right].
      simpl. rewrite F3 by (reflexivity || discriminate). auto.
    - (* internal steps *)
      cbn [ystep] in H. destruct (internal a) eqn:Int; [|discriminate]. cbn [negb] in H.
      destruct (astep cap true (y_c y) a) as [c'|] eqn:A; [|discriminate].
      destruct (astep_facts cap _ _ _ A) as (_ & _ & F3 & _).
      (* steps that hand nothing over and touch no goroutine *)
      assert (Plain : forall y0, y_calls y0 = y_calls y -> y_s y0 = y_s y -> y_rprog y0 = y_rprog y -> gs (y_c y0) = gs (y_c y) -> JInv y0).
      { intros y0 E1 E2 E3 E4. unfold JInv. rewrite E1, E2, E3, E4. split; [exact C|exact J]. }
      (* a goroutine step: there is a goroutine, so an ack has been handed over *)
      assert (Gor : forall i, (a = IGCancel i \/ a = IGEnd i \/ a = IGDataOk i \/ a = IGDataFail i \/ a = IGCompleteOk i \/ a = IGCompleteFail i) ->
                    In SAck (fr (y_calls y))).
      { intros i Ha. destruct J as [B|(_ & G & _)]; [exact B|]. exfalso. eapply (no_gor_step _ _ _ i G A). tauto. }
      destruct a; try discriminate Int.
      + injection H as <-. apply Plain; auto. simpl. apply F3; reflexivity || discriminate.
      + (* IRSendOk *)
        destruct (y_rprog y) as [|x r] eqn:Er; [discriminate|]. injection H as <-.
        assert (G' : gs c' = gs (y_c y)) by (apply F3; reflexivity || discriminate).
        destruct J as [B|(B1 & G & Sr & Cp & Di)].
        * unfold JInv, logged. cbn [y_s y_c y_rprog y_calls with_cfg with_reader]. rewrite fr_app. split; [now apply chk_ack_first_after|].
          left. apply in_or_app. now left.
        * simpl in Cp. destruct (sframe_eqb (fst x) SAck) eqn:Q.
          -- apply sframe_eqb_eq in Q. destruct (J_call y x _ eq_refl C (or_intror (or_introl Q))) as [X1 X2].
             unfold JInv, logged. cbn [y_s y_c y_rprog y_calls with_cfg with_reader]. split; [exact X1|]. left.
             rewrite fr_app. apply in_or_app. right. left. exact Q.
          -- assert (Px : pre_ack_ok p (fst x) = true /\ chk_ack_first p (fr r) = true).
             { destruct (fst x); simpl in *; try discriminate; try (split; [reflexivity|exact Cp]); try (apply andb_true_iff in Cp; tauto). }
             destruct Px as [Px Cr].
             destruct (J_call y x _ eq_refl C (or_intror (or_intror (conj B1 Px)))) as [X1 [X2|X2]];
               unfold JInv, logged; cbn [y_s y_c y_rprog y_calls with_cfg with_reader]; (split; [exact X1|]); [now left|].
             right. rewrite G', G. repeat split; auto. intro I1. destruct (Di I1) as [E|E]; [|exact E].
             rewrite E in Q. discriminate.
      + (* IRSendFail *)
        destruct (y_rprog y) as [|x r] eqn:Er; [discriminate|]. injection H as <-.
        assert (G' : gs c' = gs (y_c y)) by (apply F3; reflexivity || discriminate).
        destruct J as [B|(B1 & G & Sr & Cp & Di)].
        * unfold JInv, logged. destruct (send_kind x); cbn [y_s y_c y_rprog y_calls with_cfg with_reader]; rewrite fr_app;
            (split; [now apply chk_ack_first_after|left; apply in_or_app; now left]).
        * simpl in Cp. destruct (sframe_eqb (fst x) SAck) eqn:Q.
          -- apply sframe_eqb_eq in Q. destruct (J_call y x _ eq_refl C (or_intror (or_introl Q))) as [X1 X2].
             unfold JInv, logged. destruct (send_kind x); cbn [y_s y_c y_rprog y_calls with_cfg with_reader]; (split; [exact X1|]); left;
               rewrite fr_app; apply in_or_app; right; left; exact Q.
          -- assert (Px : pre_ack_ok p (fst x) = true /\ chk_ack_first p (fr r) = true).
             { destruct (fst x); simpl in *; try discriminate; try (split; [reflexivity|exact Cp]); try (apply andb_true_iff in Cp; tauto). }
             destruct Px as [Px Cr].
             assert (NK : send_kind x = RSend).
             { unfold send_kind. destruct (fst x); try reflexivity; simpl in Px; discriminate. }
             destruct (J_call y x _ eq_refl C (or_intror (or_intror (conj B1 Px)))) as [X1 [X2|X2]];
               unfold JInv, logged; rewrite NK; cbn [y_s y_c y_rprog y_calls with_cfg with_reader]; (split; [exact X1|]); [now left|].
             right. rewrite G', G. repeat split; auto. intro I1. destruct (Di I1) as [E|E]; [|exact E].
             rewrite E in Q. discriminate.
      + injection H as <-. apply Plain; auto. simpl. apply F3; reflexivity || discriminate.
      + discriminate.
      + discriminate.
      + injection H as <-. apply Plain; auto. simpl. apply F3; reflexivity || discriminate.
      + injection H as <-. apply Plain; auto. simpl. apply F3; reflexivity || discriminate.
      + (* IGCancel *) injection H as <-. split; [exact C|left; apply (Gor i); auto].
      + (* IGEnd *) destruct (op_of i y); [|discriminate]. injection H as <-. split; [exact C|left; apply (Gor i); auto].
      + destruct (op_of i y); [|discriminate]. injection H as <-. apply (Left (Gor i ltac:(auto)) [_]).
      + destruct (op_of i y); [|discriminate]. injection H as <-. apply (Left (Gor i ltac:(auto)) [_]).
      + destruct (op_of i y); [|discriminate]. injection H as <-. apply (Left (Gor i ltac:(auto 7)) [_]).
      + destruct (op_of i y); [|discriminate]. injection H as <-. apply (Left (Gor i ltac:(auto 7)) [_]).
      + injection H as <-. apply Plain; auto. simpl. apply F3; reflexivity || discriminate.
      + injection H as <-. apply Plain; auto. simpl. apply F3; reflexivity || discriminate.
      + injection H as <-. apply Plain; auto. simpl. apply F3; reflexivity || discriminate.
      + injection H as <-. apply Plain; auto. simpl. apply F3; reflexivity || discriminate.
      + injection H as <-. apply Plain; auto. simpl. apply F3; reflexivity || discriminate.
      + injection H as <-. apply Plain; auto. simpl. apply F3; reflexivity || discriminate.
      + injection H as <-. apply Plain; auto. simpl. apply F3; reflexivity || discriminate.
      + injection H as <-. apply Plain; auto. simpl. apply F3; reflexivity || discriminate.
      + (* IWFinish *)
        assert (E : gs c' = gs (finish_once (y_c y))).
        { simpl in A. destruct (wr (y_c y)); try discriminate. destruct (reader_done (y_c y)); [|discriminate]. now injection A as <-. }
        rewrite fo_gs in E. destruct J as [B|(B1 & G & Sr & Cp & Di)]; [destruct (finished (y_c y)); injection H as <-; (split; [exact C|now left])|].
        rewrite G in E. assert (E' : gs c' = []) by (destruct (finished (y_c y)); exact E).
        destruct (finished (y_c y)) eqn:FD; injection H as <-; (split; [exact C|]); right; simpl; rewrite E'; repeat split; auto.
        * assert (CL0 : closed (y_s y) = false) by congruence. destruct (step_end p (y_s y) (end_of (y_c y)) CL0) as [_ SC].
          apply same_core_length in SC. rewrite Sr in SC. destruct (srcs (fst (step false false false p (y_s y) (LEnd (end_of (y_c y)))))); [reflexivity|discriminate].
        * rewrite did_init_end. exact Di.
      + (* IAFinish *)
        assert (E : gs c' = gs (finish_once (y_c y))).
        { simpl in A. destruct (ac (y_c y)); try discriminate. destruct (reader_done (y_c y) && writer_done (y_c y)); [|discriminate]. now injection A as <-. }
        rewrite fo_gs in E. destruct J as [B|(B1 & G & Sr & Cp & Di)]; [destruct (finished (y_c y)); injection H as <-; (split; [exact C|now left])|].
        rewrite G in E. assert (E' : gs c' = []) by (destruct (finished (y_c y)); exact E).
        destruct (finished (y_c y)) eqn:FD; injection H as <-; (split; [exact C|]); right; simpl; rewrite E'; repeat split; auto.
        * assert (CL0 : closed (y_s y) = false) by congruence. destruct (step_end p (y_s y) (end_of (y_c y)) CL0) as [_ SC].
          apply same_core_length in SC. rewrite Sr in SC. destruct (srcs (fst (step false false false p (y_s y) (LEnd (end_of (y_c y)))))); [reflexivity|discriminate].
        * rewrite did_init_end. exact Di.
  Qed.
End AckFirst.

(** ** the theorems *)
Section GlobalOrder.
  Variable cap : nat.
  Variable p : proto.

  Lemma yrun_J ls : forall y y', SysInv cap p y -> JInv p y -> yrun cap p y ls = Some y' -> JInv p y'.
  Proof.
    induction ls as [|l ls IH]; intros y y' V J H; simpl in H; [now injection H as <-|].
    destruct (ystep cap p y l) as [y1|] eqn:E; [|discriminate].
    eapply (IH y1); [eapply ystep_inv; eauto|eapply ystep_J; eauto|exact H].
  Qed.

  (** R1 in the real-time order of all sendMessage calls (read loop and goroutines together) *)
  Theorem sys_ack_first y : yreach cap p y -> chk_ack_first p (fr (y_calls y)) = true.
  Proof.
    intros (ls & H). assert (J0 : JInv p init_sys) by (split; [reflexivity|right; simpl; repeat split; auto; discriminate]).
    destruct (yrun_J ls _ _ (init_sys_inv cap p) J0 H) as [C _]. exact C.
  Qed.

  (** the connection-level frames among all calls are exactly the read loop's *)
  Lemma ystep_connlog y l y' :
    osends_to None (y_calls y) = osends_to None (y_rcalls y) -> ystep cap p y l = Some y' ->
    osends_to None (y_calls y') = osends_to None (y_rcalls y').
  Proof.
    intros E H. destruct l as [f|i|i| | | | |a]; cbn [ystep] in H.
    - destruct (step false false false p (y_s y) (LFrame f)) as [s' o].
      match type of H with context [arun ?a ?b ?c ?d] => destruct (arun a b c d); [|discriminate] end. injection H as <-. exact E.
    - destruct (astep cap true (y_c y) (EEmit i)); [|discriminate]. destruct (nth_error (gs (y_c y)) i) as [g|]; [|discriminate].
      destruct (op_of i y); [|discriminate]. destruct (g_cancelled g); [discriminate|]. injection H as <-. exact E.
    - destruct (astep cap true (y_c y) (ESrcEnd i)); [|discriminate]. injection H as <-. exact E.
    - destruct (astep cap true (y_c y) EClientClose); [|discriminate]. injection H as <-. exact E.
    - destruct (astep cap true (y_c y) EDrop); [|discriminate]. injection H as <-. exact E.
    - destruct (astep cap true (y_c y) EAppClose); [|discriminate]. injection H as <-. exact E.
    - destruct (astep cap true (y_c y) ETickFail); [|discriminate]. injection H as <-. exact E.
    - destruct (internal a); [|discriminate]. cbn [negb] in H. destruct (astep cap true (y_c y) a) as [c'|]; [|discriminate].
      destruct a; try discriminate H; unfold op_of in H;
        repeat match type of H with
               | context [match ?x with _ => _ end] => destruct x; try discriminate H
               | context [if ?x then _ else _] => destruct x; try discriminate H
               end; injection H as <-; simpl; rewrite ?osends_to_app, ?E; simpl; rewrite ?app_nil_r; auto.
  Qed.

  (** global order of the connection-level frames (ack, ka, connection_error, pong): in the order of the calls they
      are, with what the read loop still has in hand, exactly the connection-level frames of stage 1's trace *)
  Theorem sys_conn_frames_in_order y : yreach cap p y ->
    osends_to None (y_calls y) ++ osends_to None (y_rprog y ++ y_lost y) = sent_to None (trace false false false p (y_hist y)).
  Proof.
    intros Re. destruct (sys_refines cap p y Re) as (_ & _ & _ & _ & _ & _ & D2 & _).
    rewrite <- (D2 None eq_refl), !osends_to_app. f_equal.
    destruct Re as (ls & H). clear D2.
    assert (G : forall ls y0 y1, osends_to None (y_calls y0) = osends_to None (y_rcalls y0) -> yrun cap p y0 ls = Some y1 ->
                osends_to None (y_calls y1) = osends_to None (y_rcalls y1)).
    { induction ls0 as [|l ls0 IH]; intros y0 y1 E R; simpl in R; [now injection R as <-|].
      destruct (ystep cap p y0 l) as [y2|] eqn:S; [|discriminate]. eapply IH; [|exact R]. eapply ystep_connlog; eauto. }
    exact (G ls init_sys y eq_refl H).
  Qed.
End GlobalOrder.
