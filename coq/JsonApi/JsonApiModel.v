(** * JsonApi/JsonApiModel.v — transcription of the JSON:API handler (C19)

    jsonapi/handler.go   ServeHTTP, errorForHTTPStatus, getResource(s), handlePatchResourceRequest,
                         splitMediaRanges, executeRequest
    jsonapi/resource.go  get, addStandardRelationshipLinks, complete, patch, create, delete,
                         completeRelationship, getRelationship, patchRelationship,
                         addRelationshipMembers, removeRelationshipMembers
    jsonapi/resolvers.go ToOneRelationshipResolver, ToManyRelationshipResolver
    jsonapi/jsonapi.go   isGloballyAllowedCharacter, isInternallyAllowedCharacter, validateMemberName
    jsonapi/types/types.go  RelationshipData.UnmarshalJSON and the request document types, as
                         typed decoders over JSON *trees* (jsoniter's lexing is not modelled)

    What is abstract (inputs of the model, produced by trusted library code in the harness):
      - [pmt] = mime.ParseMediaType, an uninterpreted function (media type, parameter names, error);
      - the URL: [rq_path] = r.URL.Path, [rq_query] = the keys of r.URL.Query() (net/url);
      - the body: [BNone] when it is not exactly one JSON value, otherwise its tree with the members of
        every object in textual order, repeated names included (JsonApiBytes.v reads the bytes);
      - the application: per resource type the presence of Get/Patch/Create/Delete and their
        outcomes as functions, attribute and relationship resolvers as functions of the resource
        value (a number standing for the application's T);
      - Go map iteration order: [choose] picks which of several failing attribute (or relationship)
        resolvers of one resource is met first by [complete].
    No proofs in this file. *)
From Coq Require Import List NArith ZArith Bool String Ascii.
From ApiFu Require Import Base.Sexp.
Import ListNotations.
Open Scope string_scope.
Open Scope list_scope.

(** ** byte-string helpers *)
Definition b (s : string) : bytes := map N_of_ascii (list_ascii_of_string s).

Definition cons_head (c : N) (l : list bytes) : list bytes :=
  match l with
  | [] => [[c]]
  | h :: t => (c :: h) :: t
  end.

(** strings.Split(s, sep) for a one-byte separator: never empty *)
Fixpoint split_on (sep : N) (s : bytes) : list bytes :=
  match s with
  | [] => [[]]
  | c :: r => if N.eqb c sep then [] :: split_on sep r else cons_head c (split_on sep r)
  end.

(** strings.TrimPrefix(s, "/") *)
Definition trim_slash (s : bytes) : bytes :=
  match s with
  | c :: r => if N.eqb c 47 then r else s
  | [] => s
  end.

Definition lower_byte (c : N) : N := if (N.leb 65 c) && (N.leb c 90) then (c + 32)%N else c.
Definition lower (s : bytes) : bytes := map lower_byte s.

(** constants *)
Definition s_GET := b "GET".
Definition s_POST := b "POST".
Definition s_PATCH := b "PATCH".
Definition s_DELETE := b "DELETE".
Definition s_relationships := b "relationships".
Definition s_profile := b "profile".
Definition s_page := b "page".
Definition s_self := b "self".
Definition s_related := b "related".
Definition s_data := b "data".
Definition s_type := b "type".
Definition s_id := b "id".
Definition s_attributes := b "attributes".
Definition media_type := b "application/vnd.api+json".
Definition version_1_1 := b "1.1".
Definition slash : bytes := [47%N].

(** ** jsonapi.go: member names *)
Definition globally_allowed (c : N) : bool :=
  ((N.leb 97 c) && (N.leb c 122)) || ((N.leb 65 c) && (N.leb c 90)) || ((N.leb 48 c) && (N.leb c 57)).
Definition internally_allowed (c : N) : bool :=
  globally_allowed c || N.eqb c 45 || N.eqb c 95.

(** [validateMemberName(name) == nil].  The Go code walks runes; every byte >= 0x80 belongs to a rune
    outside the allowed sets (or to U+FFFD), so the byte-wise test is the same predicate. *)
Definition member_name_ok (n : bytes) : bool :=
  match n with
  | [] => false
  | c0 :: _ =>
      if negb (forallb internally_allowed n) then false
      else if negb (globally_allowed c0) || negb (globally_allowed (last n 0%N)) then false
      else true
  end.

(** ** handler.go:172-213: one query parameter name.  [true] = the loop body does not return 400. *)
Definition is_lower_az (c : N) : bool := (N.leb 97 c) && (N.leb c 122).

Definition part_ok (part : bytes) : bool :=
  negb ((Nat.ltb (List.length part) 1) || negb (N.eqb (last part 0%N) 93) || negb (member_name_ok (removelast part))).

Definition query_key_ok (k : bytes) : bool :=
  match split_on 91 k with
  | [] => true                                     (* unreachable: Split never returns an empty slice *)
  | family :: parts =>
      if negb (forallb part_ok parts) then false
      else if negb (member_name_ok family) then false
      else if forallb is_lower_az family          (* IndexFunc(not a-z) < 0 *)
           then bytes_eqb family s_page
           else true
  end.

(** ** Accept negotiation *)
Record pm_result := { pm_type : bytes; pm_params : list bytes; pm_err : bool }.

(** handler.go splitMediaRanges: split at commas outside quoted strings; [skip] = the byte after a
    backslash inside quotes *)
Fixpoint split_media_ranges_aux (inq skip : bool) (s : bytes) : list bytes :=
  match s with
  | [] => [[]]
  | c :: r =>
      if skip then cons_head c (split_media_ranges_aux inq false r)
      else if inq && N.eqb c 92 then cons_head c (split_media_ranges_aux inq true r)
      else if N.eqb c 34 then cons_head c (split_media_ranges_aux (negb inq) false r)
      else if N.eqb c 44 && negb inq then [] :: split_media_ranges_aux inq false r
      else cons_head c (split_media_ranges_aux inq false r)
  end.
Definition split_media_ranges (s : bytes) : list bytes := split_media_ranges_aux false false s.

(** ** JSON trees and the typed decoders of jsoniter for the request document types *)
Inductive json :=
| JNull | JBool (v : bool) | JNum | JStr (s : bytes) | JArr (l : list json) | JObj (f : list (bytes * json)).

(** [BJson j tail]: the first JSON value of the body and the bytes that follow it *)
Inductive body := BNone | BJson (j : json) (tail : bytes).

(** *** jsoniter's typed decoding, on trees whose objects keep their members in textual order,
    repeated names included.  Struct fields are matched ASCII-case-insensitively; the members of an
    object are decoded one after the other INTO the value being built, so for a repeated name:
      - a string field: the last occurrence decides ([null] stores "");
      - a json.RawMessage field: the last occurrence decides;
      - a struct field ("data" of a resource document): the occurrences are merged field by field,
        [null] changes nothing;
      - a map field ("attributes", "relationships"): the occurrences are merged key by key (a later
        value replaces an earlier one, each value is decoded afresh), [null] empties the map;
      - a slice field ("data" of the add / remove documents): element i of a later array is decoded
        into the slot element i of the earlier array left in the backing array (while the capacity -
        1, 2, 4, ... - lasts), so fields the later element does not mention keep the earlier value;
        [null] and [] drop the backing array.
    (measured against json-iterator v1.1.12 / reflect2 v1.0.2; see checks/C19.design.md) *)
Definition is_field (name k : bytes) : bool := bytes_eqb (lower k) name.

(** the last member matching [name] (a json.RawMessage field) *)
Fixpoint get_field (name : bytes) (f : list (bytes * json)) : option json :=
  match f with
  | [] => None
  | (k, v) :: r =>
      match get_field name r with
      | Some v' => Some v'
      | None => if is_field name k then Some v else None
      end
  end.

(** a Go [string] field: null stores "", a string sets it, anything else is an error *)
Definition dec_string (j : json) : option bytes :=
  match j with
  | JStr s => Some s
  | JNull => Some []
  | _ => None
  end.

Record rid := { r_type : bytes; r_id : bytes }.
Definition rid_eqb (x y : rid) : bool := bytes_eqb (r_type x) (r_type y) && bytes_eqb (r_id x) (r_id y).
Definition zero_rid : rid := {| r_type := []; r_id := [] |}.

(** values of the Go [any] that holds resource linkage: nil, ResourceId, []ResourceId *)
Inductive linkage := LNull | LOne (r : rid) | LMany (l : list rid).

(** struct ResourceId, decoded into the value [cur] *)
Fixpoint fold_rid (f : list (bytes * json)) (cur : rid) : option rid :=
  match f with
  | [] => Some cur
  | (k, v) :: r =>
      if is_field s_type k then
        match dec_string v with Some s => fold_rid r {| r_type := s; r_id := r_id cur |} | None => None end
      else if is_field s_id k then
        match dec_string v with Some s => fold_rid r {| r_type := r_type cur; r_id := s |} | None => None end
      else fold_rid r cur
  end.
Definition dec_rid_into (cur : rid) (j : json) : option rid :=
  match j with
  | JNull => Some cur
  | JObj f => fold_rid f cur
  | _ => None
  end.
Definition dec_rid (j : json) : option rid := dec_rid_into zero_rid j.

(** types.go:194-226 RelationshipData.UnmarshalJSON.  [tmp.Data] is the raw "data" member;
    [tmp.Data[0] == '['] is "the value is an array" (the raw bytes start at the value). *)
Definition dec_linkage_value (v : json) : option linkage :=
  match v with
  | JArr l => match map_opt dec_rid l with Some ids => Some (LMany ids) | None => None end
  | JNull => Some LNull                               (* the pointer to ResourceId stays nil *)
  | JObj _ => match dec_rid v with Some r => Some (LOne r) | None => None end
  | _ => None
  end.

Definition dec_relationship_data (j : json) : option linkage :=
  match j with
  | JNull => Some LNull
  | JObj f =>
      match get_field s_data f with
      | None => Some LNull                            (* len(tmp.Data) == 0 *)
      | Some v => dec_linkage_value v
      end
  | _ => None
  end.

(** PostRelationshipRequest / DeleteRelationshipRequest: Data []ResourceId.  [back]: the backing
    array (its length is the capacity); reflect2's UnsafeGrow doubles the capacity (0 -> 1) *)
Fixpoint set_slot {A} (n : nat) (x : A) (l : list A) : list A :=
  match l, n with
  | [], _ => []
  | _ :: r, O => x :: r
  | y :: r, S n' => y :: set_slot n' x r
  end.
Fixpoint fill_slice (elems : list json) (i : nat) (back : list rid) : option (list rid) :=
  match elems with
  | [] => Some back
  | e :: rest =>
      let back1 := if Nat.ltb i (List.length back) then back
                   else back ++ repeat zero_rid (match List.length back with O => 1 | c => c end) in
      match dec_rid_into (nth i back1 zero_rid) e with
      | None => None
      | Some r => fill_slice rest (S i) (set_slot i r back1)
      end
  end.
(** the members of the document, in order; state: backing array and length *)
Fixpoint fold_members (f : list (bytes * json)) (back : list rid) (len : nat) : option (list rid) :=
  match f with
  | [] => Some (firstn len back)
  | (k, v) :: r =>
      if is_field s_data k then
        match v with
        | JNull => fold_members r [] 0
        | JArr [] => fold_members r [] 0
        | JArr l => match fill_slice l 0 back with
                    | Some back' => fold_members r back' (List.length l)
                    | None => None
                    end
        | _ => None
        end
      else fold_members r back len
  end.
Definition dec_members (j : json) : option (list rid) :=
  match j with
  | JNull => Some []
  | JObj f => fold_members f [] 0
  | _ => None
  end.

(** PatchResourceRequest ([with_id = true]) / PostResourceRequest ([with_id = false]: the struct has
    no Id field, an "id" member is skipped whatever its type) *)
Record resource_request := {
  pd_type : bytes; pd_id : bytes;
  pd_attrs : list bytes;                        (* keys of Attributes *)
  pd_rels : list (bytes * linkage)              (* Relationships, v.Data per key *)
}.
Definition zero_request : resource_request := {| pd_type := []; pd_id := []; pd_attrs := []; pd_rels := [] |}.

Definition add_key (k : bytes) (l : list bytes) : list bytes := if existsb (bytes_eqb k) l then l else l ++ [k].
Fixpoint set_assoc {A} (k : bytes) (v : A) (l : list (bytes * A)) : list (bytes * A) :=
  match l with
  | [] => [(k, v)]
  | (k', v') :: r => if bytes_eqb k k' then (k, v) :: r else (k', v') :: set_assoc k v r
  end.

(** map[string]json.RawMessage decoded into the map [cur] *)
Definition dec_attributes_into (cur : list bytes) (j : json) : option (list bytes) :=
  match j with
  | JNull => Some []
  | JObj f => Some (fold_left (fun m kv => add_key (fst kv) m) f cur)
  | _ => None
  end.

(** map[string]RelationshipData decoded into the map [cur] *)
Fixpoint fold_relationships (f : list (bytes * json)) (cur : list (bytes * linkage)) : option (list (bytes * linkage)) :=
  match f with
  | [] => Some cur
  | (k, v) :: r =>
      match dec_relationship_data v with
      | Some l => fold_relationships r (set_assoc k l cur)
      | None => None
      end
  end.
Definition dec_relationships_into (cur : list (bytes * linkage)) (j : json) : option (list (bytes * linkage)) :=
  match j with
  | JNull => Some []
  | JObj f => fold_relationships f cur
  | _ => None
  end.

(** the data struct, decoded into [cur] *)
Fixpoint fold_resource_data (with_id : bool) (f : list (bytes * json)) (cur : resource_request) : option resource_request :=
  match f with
  | [] => Some cur
  | (k, v) :: r =>
      if is_field s_type k then
        match dec_string v with
        | Some s => fold_resource_data with_id r {| pd_type := s; pd_id := pd_id cur; pd_attrs := pd_attrs cur; pd_rels := pd_rels cur |}
        | None => None
        end
      else if with_id && is_field s_id k then
        match dec_string v with
        | Some s => fold_resource_data with_id r {| pd_type := pd_type cur; pd_id := s; pd_attrs := pd_attrs cur; pd_rels := pd_rels cur |}
        | None => None
        end
      else if is_field s_attributes k then
        match dec_attributes_into (pd_attrs cur) v with
        | Some a => fold_resource_data with_id r {| pd_type := pd_type cur; pd_id := pd_id cur; pd_attrs := a; pd_rels := pd_rels cur |}
        | None => None
        end
      else if is_field s_relationships k then
        match dec_relationships_into (pd_rels cur) v with
        | Some rl => fold_resource_data with_id r {| pd_type := pd_type cur; pd_id := pd_id cur; pd_attrs := pd_attrs cur; pd_rels := rl |}
        | None => None
        end
      else fold_resource_data with_id r cur
  end.

(** the document: every "data" member is decoded into the same struct *)
Fixpoint fold_document (with_id : bool) (f : list (bytes * json)) (cur : resource_request) : option resource_request :=
  match f with
  | [] => Some cur
  | (k, v) :: r =>
      if is_field s_data k then
        match v with
        | JNull => fold_document with_id r cur
        | JObj g => match fold_resource_data with_id g cur with
                    | Some cur' => fold_document with_id r cur'
                    | None => None
                    end
        | _ => None
        end
      else fold_document with_id r cur
  end.

Definition dec_resource_request (with_id : bool) (j : json) : option resource_request :=
  match j with
  | JNull => Some zero_request
  | JObj f => fold_document with_id f zero_request
  | _ => None
  end.

(** handler.go decodeRequestDocument: [jsoniter.Unmarshal(io.ReadAll(r.Body), &x)]; only whitespace may
    follow the value ("there are bytes left after unmarshal") *)
Definition is_json_space (c : N) : bool := N.eqb c 32 || N.eqb c 9 || N.eqb c 10 || N.eqb c 13.
Definition decode_body {A} (dec : json -> option A) (bd : body) : option A :=
  match bd with
  | BNone => None
  | BJson j tail => if forallb is_json_space tail then dec j else None
  end.

(** ** The application: schema, handlers, resolvers *)
(** types.Error: the Status member, and whether the error object serialises (its Meta is a
    map[string]any of the application's; Links is a map of strings and always does) *)
Record err := { e_status : bytes; e_meta_ok : bool }.

(** what Get / Patch / Create hand back: a resource value, a nil resource, or an error *)
Inductive houtcome := HVal (v : N) | HNil | HErr (e : err).
(** ResolveAttribute: a value (JSON-serialisable or not) or an error *)
Inductive aoutcome := AVal (serialisable : bool) | AErr (e : err).
Inductive result (A : Type) := Ok (a : A) | Er (e : err).
Arguments Ok {A} a.
Arguments Er {A} e.

Record attr_def := { ad_name : bytes; ad_resolve : N -> aoutcome }.

(** ** Documents (types.Relationship comes first: custom resolvers return it) *)
Definition links := list (bytes * bytes).
(** types.Relationship: Links (a nil and an empty map are the same to the handler and on the wire),
    Data (None = a nil pointer), Meta (member name, value is serialisable; [] = nil or empty) *)
Record relationship := { rel_links : links; rel_data : option linkage; rel_meta : list (bytes * bool) }.

(** a RelationshipResolver: the library's two, or an implementation of the application's own
    ([resolve resource dataRequested], AddRelationshipMembers, RemoveRelationshipMembers) *)
Inductive rel_resolver :=
| ToOne (by_default : bool) (resolve : N -> result (option rid))
| ToMany (by_default : bool) (resolve : N -> result (list rid))
         (add remove : option (N -> list rid -> result (list rid)))
| Custom (resolve : N -> bool -> result relationship)
         (add remove : N -> list rid -> result relationship).

Record rel_def := { rd_name : bytes; rd_resolver : rel_resolver }.

Record rtype := {
  rt_name : bytes;
  rt_attrs : list attr_def;
  rt_rels : list rel_def;
  rt_get : option (bytes -> houtcome);
  rt_patch : option (bytes -> list bytes -> list (bytes * linkage) -> houtcome);
  rt_create : option (list bytes -> list (bytes * linkage) -> houtcome * rid);
  rt_delete : option (bytes -> option err)
}.
Definition schema := list rtype.

Definition lookup_type (sch : schema) (n : bytes) : option rtype :=
  find (fun t => bytes_eqb (rt_name t) n) sch.
Definition lookup_rel (t : rtype) (n : bytes) : option rel_def :=
  find (fun d => bytes_eqb (rd_name d) n) (rt_rels t).

(** the mutating application call made while serving a request (at most one per request) *)
Inductive call :=
| CPatch (id : bytes) (attrs : list bytes) (rels : list (bytes * linkage))
| CCreate (attrs : list bytes) (rels : list (bytes * linkage))
| CDelete (id : bytes)
| CAdd (members : list rid)
| CRemove (members : list rid).

Record item := {                                                            (* types.Resource *)
  i_type : bytes; i_id : bytes;
  i_attrs : list (bytes * bool);               (* name, value is serialisable *)
  i_rels : list (bytes * relationship)
}.
Inductive pdata :=
| PNull                                        (* a nil any, or a nil pointer to Resource *)
| PItem (i : item)
| PItems (l : list item)
| PLinkage (l : linkage).

Record response := {
  rs_data : option pdata;
  rs_errors : list err;
  rs_links : links;
  rs_status : Z;                               (* response.Status; 0 = unset *)
  rs_call : option call
}.

Definition http_status_bytes (n : Z) : bytes :=
  let d := fun k => (48 + Z.to_N ((n / k) mod 10))%N in [d 100%Z; d 10%Z; d 1%Z].
(** errorForHTTPStatus *)
Definition error_for (status : Z) : err := {| e_status := http_status_bytes status; e_meta_ok := true |}.

Definition resp_errors (es : list err) (c : option call) : response :=
  {| rs_data := None; rs_errors := es; rs_links := []; rs_status := 0; rs_call := c |}.
Definition resp_status (status : Z) (c : option call) : response := resp_errors [error_for status] c.
Definition resp_data (d : option pdata) (l : links) (status : Z) (c : option call) : response :=
  {| rs_data := d; rs_errors := []; rs_links := l; rs_status := status; rs_call := c |}.

(** what the handler puts on the wire, projected to what the property talks about *)
Record witem := { w_type : bytes; w_id : bytes; w_attrs : list bytes; w_rels : list (bytes * relationship) }.
Inductive wdata := WAbsent | WNull | WOne (i : witem) | WMany (l : list witem).
Inductive wbody :=
| WDoc (jsonapi_version : option bytes) (data : wdata) (error_statuses : list bytes) (top_links : links)
| WBareError (status : bytes).                 (* before the repair: a bare error object *)
Inductive outcome :=
| Panic
| Resp (status : Z) (content_type : bytes) (body : wbody) (c : option call).

Definition witem_of_rid (r : rid) : witem := {| w_type := r_type r; w_id := r_id r; w_attrs := []; w_rels := [] |}.
Definition witem_of_item (i : item) : witem :=
  {| w_type := i_type i; w_id := i_id i; w_attrs := map fst (i_attrs i); w_rels := i_rels i |}.
Definition wdata_of_linkage (l : linkage) : wdata :=
  match l with
  | LNull => WNull
  | LOne r => WOne (witem_of_rid r)
  | LMany ids => WMany (map witem_of_rid ids)
  end.
Definition wdata_of (d : option pdata) : wdata :=
  match d with
  | None => WAbsent
  | Some PNull => WNull
  | Some (PItem i) => WOne (witem_of_item i)
  | Some (PItems l) => WMany (map witem_of_item l)
  | Some (PLinkage l) => wdata_of_linkage l
  end.

Definition relationship_marshals (r : relationship) : bool := forallb snd (rel_meta r).
Definition item_marshals (i : item) : bool :=
  forallb snd (i_attrs i) && forallb (fun nr => relationship_marshals (snd nr)) (i_rels i).
Definition data_marshals (d : option pdata) : bool :=
  match d with
  | Some (PItem i) => item_marshals i
  | Some (PItems l) => forallb item_marshals l
  | _ => true
  end.

(** ** strconv *)
Definition is_digit (c : N) : bool := (N.leb 48 c) && (N.leb c 57).
Definition digits_value (s : bytes) : Z := fold_left (fun acc c => (acc * 10 + Z.of_N (c - 48))%Z) s 0%Z.
(** the syntax strconv accepts in base 10: optional sign, at least one digit, only digits *)
Definition parse_decimal (s : bytes) : option Z :=
  let '(neg, ds) := match s with
                    | c :: r => if N.eqb c 43 then (false, r) else if N.eqb c 45 then (true, r) else (false, s)
                    | [] => (false, s)
                    end in
  match ds with
  | [] => None
  | _ => if forallb is_digit ds then Some (if neg then (- digits_value ds)%Z else digits_value ds) else None
  end.
Definition max_int64 : Z := 9223372036854775807%Z.
(** [n, _ := strconv.ParseInt(s, 10, 0)]: 0 on a syntax error, clamped on a range error *)
Definition parse_int_ignoring_error (s : bytes) : Z :=
  match parse_decimal s with
  | None => 0%Z
  | Some v => if (max_int64 <? v)%Z then max_int64 else if (v <? - max_int64 - 1)%Z then (- max_int64 - 1)%Z else v
  end.
(** [n, err := strconv.Atoi(s); err == nil && 100 <= n <= 999]  (a range error is outside anyway) *)
Definition valid_status (s : bytes) : option Z :=
  match parse_decimal s with
  | Some v => if (100 <=? v)%Z && (v <=? 999)%Z then Some v else None
  | None => None
  end.

(** ** Which tree is modelled: the repaired one ([fixed]) or the pinned one with a defect left in *)
Record config := {
  fix_fallback : bool;     (* marshal-failure fallback is a JSON:API error document *)
  fix_accept_lists : bool; (* Accept header values are split into media ranges *)
  fix_status : bool;       (* an error status that is not a valid HTTP status is not "carried" *)
  fix_nil_data : bool      (* a relationship without Data at a related-resource endpoint is a 500, not a nil dereference *)
}.
Definition fixed : config := {| fix_fallback := true; fix_accept_lists := true; fix_status := true; fix_nil_data := true |}.

Record request := {
  rq_method : bytes;
  rq_path : bytes;                 (* r.URL.Path *)
  rq_accept : list bytes;          (* r.Header.Values("Accept") *)
  rq_query : list bytes;           (* keys of r.URL.Query() *)
  rq_body : body
}.

(** Links[k] = v on a map kept as an association list *)
Fixpoint set_link (k v : bytes) (l : links) : links :=
  match l with
  | [] => [(k, v)]
  | (k', v') :: r => if bytes_eqb k k' then (k, v) :: r else (k', v') :: set_link k v r
  end.

Definition linkage_only (l : linkage) : relationship := {| rel_links := []; rel_data := Some l; rel_meta := [] |}.
Definition no_relationship : relationship := {| rel_links := []; rel_data := None; rel_meta := [] |}.

Section Model.
  Variable cfg : config.
  (** mime.ParseMediaType *)
  Variable pmt : bytes -> pm_result.
  (** Go map iteration order inside [complete]: which failing resolver is met first *)
  Variable choose : list err -> err.

  (** *** handler.go:139-165 *)
  Fixpoint is_acceptable (accepts : list bytes) : bool :=
    match accepts with
    | [] => false
    | accept :: rest =>
        let p := pmt accept in
        if negb (bytes_eqb (pm_type p) media_type) || pm_err p then is_acceptable rest
        else if existsb (fun k => negb (bytes_eqb k s_profile)) (pm_params p) then is_acceptable rest
        else true
    end.

  Definition accept_instances (headers : list bytes) : list bytes :=
    if fix_accept_lists cfg then flat_map split_media_ranges headers else headers.

  (** *** resolvers.go *)
  Definition resolve_relationship (r : rel_resolver) (v : N) (data_requested : bool) : result relationship :=
    match r with
    | ToOne by_default resolve =>
        if data_requested || by_default then
          match resolve v with
          | Er e => Er e
          | Ok None => Ok (linkage_only LNull)
          | Ok (Some id) => Ok (linkage_only (LOne id))
          end
        else Ok no_relationship
    | ToMany by_default resolve _ _ =>
        if data_requested || by_default then
          match resolve v with
          | Er e => Er e
          | Ok ids => Ok (linkage_only (LMany ids))      (* nil -> [] *)
          end
        else Ok no_relationship
    | Custom resolve _ _ => resolve v data_requested
    end.

  Definition method_not_allowed : err := error_for 405.

  (** AddRelationshipMembers ([add = true]) / RemoveRelationshipMembers; the flag: the application was called *)
  Definition change_members (add : bool) (r : rel_resolver) (v : N) (members : list rid) : result relationship * bool :=
    match r with
    | ToOne _ _ => (Er method_not_allowed, false)
    | ToMany _ _ a rm =>
        match (if add then a else rm) with
        | None => (Er method_not_allowed, false)                  (* AddMembers / RemoveMembers == nil *)
        | Some f =>
            match f v members with
            | Er e => (Er e, true)
            | Ok ids => (Ok (linkage_only (LMany ids)), true)   (* nil -> [] *)
            end
        end
    | Custom _ a rm => ((if add then a else rm) v members, true)
    end.

  (** *** resource.go *)
  (** addStandardRelationshipLinks: a fresh map with the two standard links, then every link of the
      resolver's map is copied over it (the resolver's own self / related win); the resolver's map
      itself is only read *)
  Definition add_standard_links (id : rid) (name : bytes) (rel : relationship) : relationship :=
    let std := [ (s_related, slash ++ r_type id ++ slash ++ r_id id ++ slash ++ name);
                 (s_self, slash ++ r_type id ++ slash ++ r_id id ++ slash ++ s_relationships ++ slash ++ name) ] in
    {| rel_links := fold_left (fun m kv => set_link (fst kv) (snd kv) m) (rel_links rel) std;
       rel_data := rel_data rel; rel_meta := rel_meta rel |}.

  Definition attr_errors (v : N) (l : list attr_def) : list err :=
    flat_map (fun d => match ad_resolve d v with AErr e => [e] | AVal _ => [] end) l.
  Definition rel_errors (v : N) (l : list rel_def) : list err :=
    flat_map (fun d => match resolve_relationship (rd_resolver d) v false with Er e => [e] | Ok _ => [] end) l.

  (** complete: the two loops range over Go maps; each returns at the first failing resolver it
      meets, which can be any of the failing ones ([choose]) *)
  Definition complete (t : rtype) (id : rid) (v : N) : result item :=
    match attr_errors v (rt_attrs t) with
    | e :: es => Er (choose (e :: es))
    | [] =>
        match rel_errors v (rt_rels t) with
        | e :: es => Er (choose (e :: es))
        | [] =>
            Ok {| i_type := r_type id; i_id := r_id id;
                  i_attrs := map (fun d => (ad_name d, match ad_resolve d v with AVal s => s | AErr _ => true end)) (rt_attrs t);
                  i_rels := map (fun d => (rd_name d,
                                           add_standard_links id (rd_name d)
                                             match resolve_relationship (rd_resolver d) v false with
                                             | Ok r => r
                                             | Er _ => no_relationship
                                             end)) (rt_rels t) |}
        end
    end.

  (** a pair (pointer to Resource, pointer to Error): a resource, (nil, nil), or (nil, err) *)
  Inductive got (A : Type) := GOk (a : A) | GNil | GErr (e : err).
  Arguments GOk {A} a.
  Arguments GNil {A}.
  Arguments GErr {A} e.

  Definition completed (t : rtype) (id : rid) (h : houtcome) : got item :=
    match h with
    | HErr e => GErr e
    | HNil => GNil
    | HVal v => match complete t id v with Ok i => GOk i | Er e => GErr e end
    end.

  Definition rt_get_resource (t : rtype) (id : rid) : got item :=
    match rt_get t with
    | None => GErr method_not_allowed
    | Some g => completed t id (g (r_id id))
    end.

  Definition rt_patch_resource (t : rtype) (id : rid) (attrs : list bytes) (rels : list (bytes * linkage))
    : got item * option call :=
    match rt_patch t with
    | None => (GErr method_not_allowed, None)
    | Some p => (completed t id (p (r_id id) attrs rels), Some (CPatch (r_id id) attrs rels))
    end.

  Definition rt_create_resource (t : rtype) (attrs : list bytes) (rels : list (bytes * linkage))
    : got item * option call :=
    match rt_create t with
    | None => (GErr method_not_allowed, None)
    | Some c => let '(h, id) := c attrs rels in (completed t id h, Some (CCreate attrs rels))
    end.

  Definition rt_delete_resource (t : rtype) (id : rid) : option err * option call :=
    match rt_delete t with
    | None => (Some method_not_allowed, None)
    | Some d => (d (r_id id), Some (CDelete (r_id id)))
    end.

  Definition complete_relationship (t : rtype) (id : rid) (v : N) (name : bytes) : got relationship :=
    match lookup_rel t name with
    | Some def =>
        match resolve_relationship (rd_resolver def) v true with
        | Er e => GErr e
        | Ok rel => GOk (add_standard_links id name rel)
        end
    | None => GNil
    end.

  Definition rt_get_relationship (t : rtype) (id : rid) (name : bytes) : got relationship :=
    match rt_get t with
    | None => GNil
    | Some g =>
        match g (r_id id) with
        | HErr e => GErr e
        | HNil => GNil
        | HVal v => complete_relationship t id v name
        end
    end.

  Definition rt_patch_relationship (t : rtype) (id : rid) (name : bytes) (value : linkage)
    : got relationship * option call :=
    match rt_patch t with
    | None => (GErr method_not_allowed, None)
    | Some p =>
        (match p (r_id id) [] [(name, value)] with
         | HErr e => GErr e
         | HNil => GNil
         | HVal v => complete_relationship t id v name
         end, Some (CPatch (r_id id) [] [(name, value)]))
    end.

  Definition rt_change_members (add : bool) (t : rtype) (id : rid) (name : bytes) (members : list rid)
    : got relationship * option call :=
    match rt_get t with
    | None => (GNil, None)
    | Some g =>
        match g (r_id id) with
        | HErr e => (GErr e, None)
        | HNil => (GNil, None)
        | HVal v =>
            match lookup_rel t name with
            | None => (GNil, None)
            | Some def =>
                let '(r, called) := change_members add (rd_resolver def) v members in
                (match r with
                 | Er e => GErr e
                 | Ok rel => GOk (add_standard_links id name rel)
                 end,
                 if called then Some (if add then CAdd members else CRemove members) else None)
            end
        end
    end.

  (** *** handler.go: getResource, getResources *)
  Section WithSchema.
    Variable sch : schema.

    Definition get_resource (id : rid) : got item :=
      match lookup_type sch (r_type id) with
      | Some t => rt_get_resource t id
      | None => GNil
      end.

    Fixpoint get_resources (ids : list rid) : result (list item) :=
      match ids with
      | [] => Ok []
      | id :: rest =>
          match lookup_type sch (r_type id) with
          | Some t =>
              match rt_get_resource t id with
              | GErr e => Er e
              | GOk i => match get_resources rest with Ok l => Ok (i :: l) | Er e => Er e end
              | GNil => get_resources rest
              end
          | None => get_resources rest
          end
      end.

    (** where control goes inside executeRequest: a [return], the final "return 404" (reached by
        falling out of the nested ifs, possibly after an application call), or a nil dereference *)
    Inductive routed :=
    | Return (r : response)
    | FallThrough (c : option call)
    | NilDeref.

    (** handlePatchResourceRequest; [FallThrough] = the Go function returns nil *)
    Definition handle_patch_resource_request (rq : request) (t : rtype) (id : rid) : routed :=
      match decode_body (dec_resource_request true) (rq_body rq) with
      | None => Return (resp_status 400 None)
      | Some patch =>
          if negb (bytes_eqb (pd_type patch) (r_type id)) || negb (bytes_eqb (pd_id patch) (r_id id))
          then Return (resp_status 409 None)
          else
            match rt_patch_resource t id (pd_attrs patch) (pd_rels patch) with
            | (GErr e, c) => Return (resp_errors [e] c)
            | (GOk i, c) => Return (resp_data (Some (PItem i)) [(s_self, rq_path rq)] 0 c)
            | (GNil, c) => FallThrough c
            end
      end.

    Definition relationship_response (g : got relationship * option call) : routed :=
      match g with
      | (GErr e, c) => Return (resp_errors [e] c)
      | (GOk rel, c) => Return (resp_data (option_map PLinkage (rel_data rel)) (rel_links rel) 0 c)
      | (GNil, c) => FallThrough c
      end.

    (** *** executeRequest, routing part (handler.go:215-448) *)
    Definition route (rq : request) : routed :=
      let path_components := split_on 47 (trim_slash (rq_path rq)) in
      let m := rq_method rq in
      match path_components with
      | [] => FallThrough None
      | type_name :: after_type =>
        match lookup_type sch type_name with
        | None => FallThrough None
        | Some t =>
          match after_type with
          | [] =>
              if bytes_eqb m s_POST then
                (* new resource request *)
                match decode_body (dec_resource_request false) (rq_body rq) with
                | None => Return (resp_status 400 None)
                | Some patch =>
                    if negb (bytes_eqb (pd_type patch) type_name) then Return (resp_status 409 None)
                    else
                      match rt_create_resource t (pd_attrs patch) (pd_rels patch) with
                      | (GErr e, c) => Return (resp_errors [e] c)
                      | (GOk i, c) =>
                          Return (resp_data (Some (PItem i)) [(s_self, slash ++ i_type i ++ slash ++ i_id i)] 201 c)
                      | (GNil, c) => FallThrough c
                      end
                end
              else FallThrough None
          | id_component :: after_id =>
            let id := {| r_type := type_name; r_id := id_component |} in
            match after_id with
            | [] =>
                (* resource request *)
                if bytes_eqb m s_GET then
                  match rt_get_resource t id with
                  | GErr e => Return (resp_errors [e] None)
                  | GOk i => Return (resp_data (Some (PItem i)) [(s_self, rq_path rq)] 0 None)
                  | GNil => FallThrough None
                  end
                else if bytes_eqb m s_PATCH then handle_patch_resource_request rq t id
                else if bytes_eqb m s_DELETE then
                  match rt_delete_resource t id with
                  | (Some e, c) => Return (resp_errors [e] c)
                  | (None, c) => Return (resp_data None [] 0 c)
                  end
                else Return (resp_status 405 None)
            | [relationship_name] =>
                (* related resource request *)
                if bytes_eqb m s_GET then
                  match rt_get_relationship t id relationship_name with
                  | GErr e => Return (resp_errors [e] None)
                  | GNil => FallThrough None
                  | GOk relationship =>
                      let self := [(s_self, rq_path rq)] in
                      match rel_data relationship with
                      | None => if fix_nil_data cfg then Return (resp_status 500 None)
                                else NilDeref                         (* dereference of relationship.Data *)
                      | Some (LOne rel_id) =>
                          match get_resource rel_id with
                          | GErr e => Return (resp_errors [e] None)
                          | GOk i => Return (resp_data (Some (PItem i)) self 0 None)
                          | GNil => Return (resp_data (Some PNull) self 0 None)   (* a nil pointer to Resource *)
                          end
                      | Some (LMany ids) =>
                          match get_resources ids with
                          | Er e => Return (resp_errors [e] None)
                          | Ok l => Return (resp_data (Some (PItems l)) self 0 None)
                          end
                      | Some LNull => Return (resp_data (Some PNull) self 0 None)
                      end
                  end
                else if bytes_eqb m s_PATCH then
                  match rt_get_relationship t id relationship_name with
                  | GErr e => Return (resp_errors [e] None)
                  | GNil => FallThrough None
                  | GOk relationship =>
                      match rel_data relationship with
                      | None => if fix_nil_data cfg then Return (resp_status 500 None) else NilDeref
                      | Some (LOne related_id) =>
                          match lookup_type sch (r_type related_id) with
                          | Some related_type => handle_patch_resource_request rq related_type related_id
                          | None => FallThrough None
                          end
                      | Some _ => FallThrough None
                      end
                  end
                else Return (resp_status 405 None)
            | [rel_segment; relationship_name] =>
                if bytes_eqb rel_segment s_relationships then
                  (* relationship request *)
                  if bytes_eqb m s_GET then
                    relationship_response (rt_get_relationship t id relationship_name, None)
                  else if bytes_eqb m s_PATCH then
                    match decode_body dec_relationship_data (rq_body rq) with
                    | None => Return (resp_status 400 None)
                    | Some value => relationship_response (rt_patch_relationship t id relationship_name value)
                    end
                  else if bytes_eqb m s_POST then
                    match decode_body dec_members (rq_body rq) with
                    | None => Return (resp_status 400 None)
                    | Some members => relationship_response (rt_change_members true t id relationship_name members)
                    end
                  else if bytes_eqb m s_DELETE then
                    match decode_body dec_members (rq_body rq) with
                    | None => Return (resp_status 400 None)
                    | Some members => relationship_response (rt_change_members false t id relationship_name members)
                    end
                  else Return (resp_status 405 None)
                else FallThrough None
            | _ => FallThrough None
            end
          end
        end
      end.

    (** executeRequest; [None] = nil dereference *)
    Definition execute_request (rq : request) : option response :=
      if negb (is_acceptable (accept_instances (rq_accept rq))) then Some (resp_status 406 None)
      else if negb (forallb query_key_ok (rq_query rq)) then Some (resp_status 400 None)
      else match route rq with
           | Return r => Some r
           | FallThrough c => Some (resp_status 404 c)
           | NilDeref => None
           end.

    (** *** ServeHTTP *)
    Fixpoint first_status (es : list err) (default : Z) : Z :=
      match es with
      | [] => default
      | e :: rest =>
          if fix_status cfg then
            match valid_status (e_status e) with
            | Some n => n
            | None => first_status rest default
            end
          else
            match e_status e with
            | [] => first_status rest default
            | s => parse_int_ignoring_error s
            end
      end.

    (** http.ResponseWriter.WriteHeader panics on a code outside 100..999 *)
    Definition write (status : Z) (bd : wbody) (c : option call) : outcome :=
      if (status <? 100)%Z || (999 <? status)%Z then Panic else Resp status media_type bd c.

    Definition finish (o : option response) : outcome :=
      match o with
      | None => Panic
      | Some resp =>
          let status := if (rs_status resp =? 0)%Z then 200%Z else rs_status resp in
          let status := match rs_errors resp with
                        | [] => status
                        | _ => first_status (rs_errors resp) 500
                        end in
          if data_marshals (rs_data resp) && forallb e_meta_ok (rs_errors resp) then
            write status (WDoc (Some version_1_1) (wdata_of (rs_data resp)) (map e_status (rs_errors resp)) (rs_links resp))
                  (rs_call resp)
          else
            let new_err := error_for 500 in
            write 500 (if fix_fallback cfg then WDoc (Some version_1_1) WAbsent [e_status new_err] []
                       else WBareError (e_status new_err))
                  (rs_call resp)
      end.

    Definition serve_http (rq : request) : outcome := finish (execute_request rq).
  End WithSchema.
End Model.

Arguments GOk {A} a.
Arguments GNil {A}.
Arguments GErr {A} e.

(** ** schema.go NewSchema, resource.go RelationshipDefinition.validate / ResourceType.validate,
    resolvers.go AttributeDefinition.validate and the resolvers' validate: which schema definitions
    are accepted.  A definition: per resource type its name, its attributes (name, has a resolver)
    and its relationships (name, what the Resolver field holds).  The Go loops range over maps and
    return the first error they meet; whether there is one does not depend on the order. *)
Inductive rel_kind :=
| RKNone                        (* Resolver == nil *)
| RKLib (has_resolve : bool)    (* ToOne- / ToManyRelationshipResolver, Resolve != nil *)
| RKCustom.                     (* another implementation of RelationshipResolver: not looked into *)
Record type_def := { td_name : bytes; td_attrs : list (bytes * bool); td_rels : list (bytes * rel_kind) }.

Definition reserved_name (n : bytes) : bool := bytes_eqb n s_id || bytes_eqb n s_type.

(** one iteration of the attributes loop of ResourceType.validate: [true] = no error *)
Definition attr_def_ok (rels : list (bytes * rel_kind)) (a : bytes * bool) : bool :=
  if reserved_name (fst a) then false
  else if existsb (fun r => bytes_eqb (fst r) (fst a)) rels then false
  else if negb (member_name_ok (fst a)) then false
  else snd a.
(** one iteration of the relationships loop *)
Definition rel_def_ok (r : bytes * rel_kind) : bool :=
  if reserved_name (fst r) then false
  else if negb (member_name_ok (fst r)) then false
  else match snd r with
       | RKNone => false
       | RKLib has_resolve => has_resolve
       | RKCustom => true
       end.
Definition type_def_ok (t : type_def) : bool :=
  forallb (attr_def_ok (td_rels t)) (td_attrs t) && forallb rel_def_ok (td_rels t).
(** NewSchema returns no error *)
Definition new_schema_ok (d : list type_def) : bool :=
  forallb (fun t => if negb (member_name_ok (td_name t)) then false else type_def_ok t) d.
