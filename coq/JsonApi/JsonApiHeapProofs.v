(** * JsonApi/JsonApiHeapProofs.v — the handler never writes a map it got from a resolver (C19)

    For the code as it is ([in_place = false]): every function of JsonApiHeap.v returns the heap it
    was given, and its result is the result of its JsonApiModel.v counterpart on the schema seen
    through that heap ([view h sch]).  Hence a history of requests leaves every resolver-owned map
    as it was and the n-th answer is the answer the request gets on its own.  For the variant that
    fills self / related into the resolver's map ([in_place = true]) both statements fail. *)
From Coq Require Import List NArith ZArith Bool String.
From ApiFu Require Import Base.Sexp JsonApi.JsonApiModel JsonApi.JsonApiHeap.
Import ListNotations.
Open Scope list_scope.

Lemma find_map {A B} (f : A -> B) (p : B -> bool) l : find p (map f l) = option_map f (find (fun x => p (f x)) l).
Proof. induction l as [|x l IH]; [reflexivity|]. cbn [map find]. destruct (p (f x)); [reflexivity|exact IH]. Qed.

Lemma deref_ref_of h rel : deref h (ref_of rel) = rel.
Proof. destruct rel; reflexivity. Qed.

Lemma lookup_rel_view h t n : lookup_rel (view_type h t) n = option_map (view_rel h) (hlookup_rel t n).
Proof. unfold lookup_rel, hlookup_rel, view_type. cbn [rt_rels]. apply find_map. Qed.

Lemma lookup_type_view h s n : lookup_type (view h s) n = option_map (view_type h) (hlookup_type s n).
Proof. unfold lookup_type, hlookup_type, view. apply find_map. Qed.

Lemma resolve_ref_view h r v q :
  deref_result h (resolve_ref r v q) = resolve_relationship (view_resolver h r) v q.
Proof.
  destruct r as [r|f a rm]; [|reflexivity]. cbn [resolve_ref view_resolver].
  destruct (resolve_relationship r v q); cbn [deref_result]; [rewrite deref_ref_of|]; reflexivity.
Qed.

Lemma change_ref_view h add r v members :
  (let '(x, c) := change_ref add r v members in (deref_result h x, c)) = change_members add (view_resolver h r) v members.
Proof.
  destruct r as [r|f a rm]; cbn [change_ref view_resolver].
  - destruct (change_members add r v members) as [[rel|e] c]; cbn [deref_result]; [rewrite deref_ref_of|]; reflexivity.
  - cbn [change_members]. destruct add; reflexivity.
Qed.

Section NoWrite.
  Variable pmt : bytes -> pm_result.
  Variable choose : list err -> err.

  Lemma add_links_eq id name r h : add_links_st false id name r h = (add_standard_links id name (deref h r), h).
  Proof. reflexivity. Qed.

  Lemma complete_rels_eq id v l h :
    complete_rels_st false id v l h =
    (map (fun d => (rd_name d, add_standard_links id (rd_name d)
                                 match resolve_relationship (rd_resolver d) v false with
                                 | Ok r => r
                                 | Er _ => no_relationship
                                 end)) (map (view_rel h) l), h).
  Proof.
    induction l as [|d l IH]; [reflexivity|]. cbn [complete_rels_st map]. rewrite add_links_eq, IH. cbn [view_rel rd_name rd_resolver].
    pose proof (resolve_ref_view h (hd_resolver d) v false) as E.
    destruct (resolve_ref (hd_resolver d) v false) as [r|e]; cbn [deref_result] in E; rewrite <- E; [reflexivity|].
    rewrite deref_ref_of. reflexivity.
  Qed.

  Lemma complete_eq t id v h : complete_st false choose t id v h = (complete choose (view_type h t) id v, h).
  Proof.
    unfold complete_st, complete. cbn [view_type rt_attrs rt_rels].
    destruct (attr_errors v (rt_attrs (ht_type t))); [|reflexivity].
    destruct (rel_errors v (map (view_rel h) (ht_rels t))); [|reflexivity].
    rewrite complete_rels_eq. reflexivity.
  Qed.

  Lemma completed_eq t id o h : completed_st false choose t id o h = (completed choose (view_type h t) id o, h).
  Proof.
    unfold completed_st, completed. destruct o as [v| |e]; try reflexivity.
    rewrite complete_eq. destruct (complete choose (view_type h t) id v); reflexivity.
  Qed.

  Lemma get_resource_of_eq t id h :
    get_resource_of_st false choose t id h = (rt_get_resource choose (view_type h t) id, h).
  Proof.
    unfold get_resource_of_st, rt_get_resource. cbn [view_type rt_get].
    destruct (rt_get (ht_type t)); [apply completed_eq|reflexivity].
  Qed.

  Lemma patch_resource_eq t id a r h :
    patch_resource_st false choose t id a r h = (rt_patch_resource choose (view_type h t) id a r, h).
  Proof.
    unfold patch_resource_st, rt_patch_resource. cbn [view_type rt_patch].
    destruct (rt_patch (ht_type t)); [rewrite completed_eq|]; reflexivity.
  Qed.

  Lemma create_resource_eq t a r h :
    create_resource_st false choose t a r h = (rt_create_resource choose (view_type h t) a r, h).
  Proof.
    unfold create_resource_st, rt_create_resource. cbn [view_type rt_create].
    destruct (rt_create (ht_type t)) as [c|]; [|reflexivity]. destruct (c a r) as [o id]. rewrite completed_eq. reflexivity.
  Qed.

  Lemma complete_relationship_eq t id v name h :
    complete_relationship_st false t id v name h = (complete_relationship (view_type h t) id v name, h).
  Proof.
    unfold complete_relationship_st, complete_relationship. rewrite lookup_rel_view.
    destruct (hlookup_rel t name) as [d|]; [|reflexivity]. cbn [option_map view_rel rd_resolver].
    rewrite <- resolve_ref_view. destruct (resolve_ref (hd_resolver d) v true); reflexivity.
  Qed.

  Lemma get_relationship_eq t id name h :
    get_relationship_st false t id name h = (rt_get_relationship (view_type h t) id name, h).
  Proof.
    unfold get_relationship_st, rt_get_relationship. cbn [view_type rt_get].
    destruct (rt_get (ht_type t)) as [g|]; [|reflexivity].
    destruct (g (r_id id)); try reflexivity. apply complete_relationship_eq.
  Qed.

  Lemma patch_relationship_eq t id name value h :
    patch_relationship_st false t id name value h = (rt_patch_relationship (view_type h t) id name value, h).
  Proof.
    unfold patch_relationship_st, rt_patch_relationship. cbn [view_type rt_patch].
    destruct (rt_patch (ht_type t)) as [p|]; [|reflexivity].
    destruct (p (r_id id) [] [(name, value)]); try reflexivity. rewrite complete_relationship_eq. reflexivity.
  Qed.

  Lemma change_members_eq add t id name members h :
    change_members_st false add t id name members h = (rt_change_members add (view_type h t) id name members, h).
  Proof.
    unfold change_members_st, rt_change_members. cbn [view_type rt_get].
    destruct (rt_get (ht_type t)) as [g|]; [|reflexivity].
    destruct (g (r_id id)); try reflexivity.
    change (lookup_rel _ name) with (lookup_rel (view_type h t) name). rewrite lookup_rel_view.
    destruct (hlookup_rel t name) as [d|]; [|reflexivity]. cbn [option_map view_rel rd_resolver].
    rewrite <- change_ref_view. destruct (change_ref add (hd_resolver d) v members) as [[rr|e] c]; reflexivity.
  Qed.

  Variable sch : hschema.

  Lemma get_resource_eq id h : get_resource_st false choose sch id h = (get_resource choose (view h sch) id, h).
  Proof.
    unfold get_resource_st, get_resource. rewrite lookup_type_view.
    destruct (hlookup_type sch (r_type id)); [apply get_resource_of_eq|reflexivity].
  Qed.

  Lemma get_resources_eq ids h : get_resources_st false choose sch ids h = (get_resources choose (view h sch) ids, h).
  Proof.
    induction ids as [|id rest IH]; [reflexivity|]. cbn [get_resources_st get_resources]. rewrite lookup_type_view.
    destruct (hlookup_type sch (r_type id)) as [t|]; cbn [option_map]; [|exact IH].
    rewrite get_resource_of_eq. destruct (rt_get_resource choose (view_type h t) id); [|exact IH|reflexivity].
    rewrite IH. destruct (get_resources choose (view h sch) rest); reflexivity.
  Qed.

  Lemma handle_patch_eq rq t id h :
    handle_patch_st false choose rq t id h = (handle_patch_resource_request choose rq (view_type h t) id, h).
  Proof.
    unfold handle_patch_st, handle_patch_resource_request.
    destruct (decode_body (dec_resource_request true) (rq_body rq)) as [patch|]; [|reflexivity].
    destruct (negb (bytes_eqb (pd_type patch) (r_type id)) || negb (bytes_eqb (pd_id patch) (r_id id))); [reflexivity|].
    rewrite patch_resource_eq. destruct (rt_patch_resource choose (view_type h t) id (pd_attrs patch) (pd_rels patch)) as [[i| |e] c]; reflexivity.
  Qed.

  Lemma route_eq rq h : route_st false choose sch rq h = (route fixed choose (view h sch) rq, h).
  Proof.
    unfold route_st, route. cbn [fix_nil_data fixed].
    destruct (split_on 47 (trim_slash (rq_path rq))) as [|type_name after_type]; [reflexivity|].
    rewrite lookup_type_view. destruct (hlookup_type sch type_name) as [t|]; cbn [option_map]; [|reflexivity].
    destruct after_type as [|idc after_id].
    { destruct (bytes_eqb (rq_method rq) s_POST); [|reflexivity].
      destruct (decode_body (dec_resource_request false) (rq_body rq)) as [patch|]; [|reflexivity].
      destruct (negb (bytes_eqb (pd_type patch) type_name)); [reflexivity|].
      rewrite create_resource_eq. destruct (rt_create_resource choose (view_type h t) (pd_attrs patch) (pd_rels patch)) as [[i| |e] c]; reflexivity. }
    destruct after_id as [|x1 [|x2 [|x3 rest]]].
    - destruct (bytes_eqb (rq_method rq) s_GET).
      { rewrite get_resource_of_eq. destruct (rt_get_resource choose (view_type h t) _); reflexivity. }
      destruct (bytes_eqb (rq_method rq) s_PATCH); [apply handle_patch_eq|].
      destruct (bytes_eqb (rq_method rq) s_DELETE); [|reflexivity].
      change (rt_delete_resource (ht_type t)) with (rt_delete_resource (view_type h t)).
      destruct (rt_delete_resource (view_type h t) _) as [[e|] c]; reflexivity.
    - destruct (bytes_eqb (rq_method rq) s_GET).
      { rewrite get_relationship_eq. destruct (rt_get_relationship (view_type h t) _ x1) as [rel| |e]; try reflexivity.
        destruct (rel_data rel) as [[|r|ids]|]; try reflexivity.
        - rewrite get_resource_eq. destruct (get_resource choose (view h sch) r); reflexivity.
        - rewrite get_resources_eq. destruct (get_resources choose (view h sch) ids); reflexivity. }
      destruct (bytes_eqb (rq_method rq) s_PATCH); [|reflexivity].
      rewrite get_relationship_eq. destruct (rt_get_relationship (view_type h t) _ x1) as [rel| |e]; try reflexivity.
      destruct (rel_data rel) as [[|r|ids]|]; try reflexivity.
      rewrite lookup_type_view. destruct (hlookup_type sch (r_type r)) as [t'|]; cbn [option_map]; [apply handle_patch_eq|reflexivity].
    - destruct (bytes_eqb x1 s_relationships); [|reflexivity].
      destruct (bytes_eqb (rq_method rq) s_GET). { rewrite get_relationship_eq. reflexivity. }
      destruct (bytes_eqb (rq_method rq) s_PATCH).
      { destruct (decode_body dec_relationship_data (rq_body rq)); [rewrite patch_relationship_eq|]; reflexivity. }
      destruct (bytes_eqb (rq_method rq) s_POST).
      { destruct (decode_body dec_members (rq_body rq)); [rewrite change_members_eq|]; reflexivity. }
      destruct (bytes_eqb (rq_method rq) s_DELETE); [|reflexivity].
      destruct (decode_body dec_members (rq_body rq)); [rewrite change_members_eq|]; reflexivity.
    - reflexivity.
  Qed.

  Lemma execute_request_eq rq h :
    execute_request_st false pmt choose sch rq h = (execute_request fixed pmt choose (view h sch) rq, h).
  Proof.
    unfold execute_request_st, execute_request.
    destruct (negb (is_acceptable pmt (accept_instances fixed (rq_accept rq)))); [reflexivity|].
    destruct (negb (forallb query_key_ok (rq_query rq))); [reflexivity|].
    rewrite route_eq. destruct (route fixed choose (view h sch) rq); reflexivity.
  Qed.

  (** the answer is the answer of the stateless model on the schema seen through the heap, and the
      heap is handed back as it was *)
  Theorem heap_serve_http_eq rq h :
    serve_http_st false pmt choose sch rq h = (serve_http fixed pmt choose (view h sch) rq, h).
  Proof. unfold serve_http_st, serve_http. rewrite execute_request_eq. reflexivity. Qed.

  (** every cell of the heap - in particular every Links / Meta map owned by a resolver - has after
      the request the content it had before *)
  Theorem never_writes rq h : snd (serve_http_st false pmt choose sch rq h) = h.
  Proof. rewrite heap_serve_http_eq. reflexivity. Qed.

  (** histories: each answer is the answer its request gets on its own, from the heap the history
      started with; the history hands that heap back *)
  Theorem heap_history_eq rqs h :
    serve_history_st false pmt choose sch rqs h = (map (serve_http fixed pmt choose (view h sch)) rqs, h).
  Proof.
    induction rqs as [|rq rest IH]; [reflexivity|]. cbn [serve_history_st map]. rewrite heap_serve_http_eq, IH. reflexivity.
  Qed.

  (** the answer to a request does not depend on what was served before it *)
  Theorem heap_history_independent before before' rq h :
    nth (List.length before) (fst (serve_history_st false pmt choose sch (before ++ [rq]) h)) Panic =
    nth (List.length before') (fst (serve_history_st false pmt choose sch (before' ++ [rq]) h)) Panic.
  Proof.
    rewrite !heap_history_eq. cbn [fst]. rewrite !map_app.
    rewrite !app_nth2 by (rewrite map_length; apply le_n). rewrite !map_length, !PeanoNat.Nat.sub_diag. reflexivity.
  Qed.
End NoWrite.

(** ** the variant that writes into the resolver's map: both statements fail.  One type, one custom
    relationship whose resolver returns location 0 (an empty Links map) for every resource. *)
Definition leaky_schema : hschema :=
  [ {| ht_type := {| rt_name := b "things"; rt_attrs := []; rt_rels := [];
                     rt_get := Some (fun _ => HVal 0); rt_patch := None; rt_create := None; rt_delete := None |};
       ht_rels := [ {| hd_name := b "owner";
                       hd_resolver := HCustom (fun _ _ => Ok {| rr_links := LLoc 0; rr_data := None; rr_meta := MFresh [] |})
                                              (fun _ _ => Er (error_for 405)) (fun _ _ => Er (error_for 405)) |} ] |} ].
Definition leaky_heap : heap := [CLinks []].
Definition leaky_pmt (s : bytes) : pm_result := {| pm_type := s; pm_params := []; pm_err := false |}.
Definition leaky_choose (l : list err) : err := hd (error_for 500) l.
Definition get_thing (id : string) : request :=
  {| rq_method := s_GET; rq_path := b "/things/" ++ b id; rq_accept := [media_type]; rq_query := []; rq_body := BNone |}.

Lemma in_place_writes_refuted :
  exists rq, snd (serve_http_st true leaky_pmt leaky_choose leaky_schema rq leaky_heap) <> leaky_heap.
Proof. exists (get_thing "1"). vm_compute. discriminate. Qed.

Lemma in_place_history_refuted :
  exists rq1 rq2,
    nth 1 (fst (serve_history_st true leaky_pmt leaky_choose leaky_schema [rq1; rq2] leaky_heap)) Panic <>
    nth 0 (fst (serve_history_st true leaky_pmt leaky_choose leaky_schema [rq2] leaky_heap)) Panic /\
    nth 1 (fst (serve_history_st false leaky_pmt leaky_choose leaky_schema [rq1; rq2] leaky_heap)) Panic =
    nth 0 (fst (serve_history_st false leaky_pmt leaky_choose leaky_schema [rq2] leaky_heap)) Panic.
Proof. exists (get_thing "1"), (get_thing "2"). split; [vm_compute; discriminate|vm_compute; reflexivity]. Qed.
