(** * JsonApi/JsonApiSpec.v — what C19 demands of every answer of the JSON:API handler.

    Written from the property statement and the JSON:API 1.1 text, organised by *endpoint and
    operation* (not by the handler's control flow):

      1. document invariants   media type, jsonapi member, never data and errors together,
                               status = status of the first error carrying one (500 if none),
                               2xx without errors
      2. [ref_status]          the reference status of a request against a schema: negotiation (406),
                               query parameters (400), endpoint and operation (404 / 405), request
                               document (400 / 409), then whatever the application answered
      3. identity and links    resource objects are the addressed resources; relationship objects
                               carry the standard self/related links of their own resource
      4. rule predicates       [unknown_target], [undefined_operation], [conflict]
      5. the parameter-name grammar, declaratively ([well_formed_parameter])
      6. the equivalence modulo which model and implementation are compared ([wbody_equiv])

    Shared with the model: the data types, path splitting ([split_on]), the typed decoders of request
    documents (what "a decodable request document" means is jsoniter's business), [valid_status]. *)
From Coq Require Import List NArith ZArith Bool String.
From ApiFu Require Import Base.Sexp JsonApi.JsonApiModel.
Import ListNotations.
Open Scope string_scope.
Open Scope list_scope.
Open Scope Z_scope.

(** ** 0. Vocabulary *)

(** the status an error object carries: its status member if that is a valid HTTP status code *)
Definition carried (e : err) : option Z := valid_status (e_status e).
(** the HTTP status of an error document: that of the first error carrying one, 500 if none does *)
Fixpoint errors_status (statuses : list bytes) : Z :=
  match statuses with
  | [] => 500
  | s :: rest => match valid_status s with Some n => n | None => errors_status rest end
  end.
(** ... of the document reporting [e] alone; an error object that does not serialise makes it the
    500 of the marshal fallback *)
Definition status_of (e : err) : Z := if e_meta_ok e then errors_status [e_status e] else 500.

(** *** Accept (JSON:API 1.1 "Server Responsibilities"): an instance of the media type is usable
    when it parses and carries no parameter other than profile; the header value of each line is a
    comma-separated list of media ranges (commas inside quoted strings do not separate). *)
Definition media_ranges (line : bytes) : list bytes := split_media_ranges line.
Definition usable_instance (p : pm_result) : bool :=
  bytes_eqb (pm_type p) media_type && negb (pm_err p) && forallb (fun k => bytes_eqb k s_profile) (pm_params p).
Definition acceptable (pmt : bytes -> pm_result) (accept : list bytes) : bool :=
  existsb (fun line => existsb (fun r => usable_instance (pmt r)) (media_ranges line)) accept.
(** the wording of the property: the media type is offered, but only with unsupported parameters *)
Definition offered_only_modified (pmt : bytes -> pm_result) (accept : list bytes) : bool :=
  existsb (fun line => existsb (fun r => bytes_eqb (pm_type (pmt r)) media_type) (media_ranges line)) accept
  && negb (acceptable pmt accept).

(** *** Query parameter names (JSON:API 1.1 "Query Parameters"):
        name    = family *( "[" member "]" )
        family, member = member names: [a-zA-Z0-9] at both ends, [a-zA-Z0-9_-] inside
        a family of only a-z is reserved for the specification; of those the handler implements
        "page" alone; any other family is implementation-specific and ignored. *)
Fixpoint take_until (stop : N) (s : bytes) : bytes * option bytes :=      (* up to the first [stop] *)
  match s with
  | [] => ([], None)
  | c :: r => if N.eqb c stop then ([], Some r)
              else let '(h, t) := take_until stop r in (c :: h, t)
  end.

Definition member_name (n : bytes) : bool :=
  match n, rev n with
  | first :: _, lst :: _ => globally_allowed first && globally_allowed lst && forallb internally_allowed n
  | _, _ => false
  end.

(** [brackets fuel s]: s is a sequence of "[member]" groups *)
Fixpoint brackets (fuel : nat) (s : bytes) : bool :=
  match s with
  | [] => true
  | c :: r =>
      match fuel with
      | O => false
      | S fuel' =>
          N.eqb c 91 &&
          match take_until 93 r with
          | (inner, Some rest) => member_name inner && negb (existsb (N.eqb 91) inner) && brackets fuel' rest
          | (_, None) => false
          end
      end
  end.

Definition supported_parameter (k : bytes) : bool :=
  let '(family, rest) := take_until 91 k in
  member_name family &&
  (if forallb is_lower_az family then bytes_eqb family s_page else true) &&
  match rest with
  | None => true
  | Some r => brackets (S (List.length k)) (91%N :: r)
  end.

(** *** Endpoints (JSON:API 1.1 "URLs" as far as this library implements them) *)
Inductive endpoint :=
| EUnknown                                           (* nothing the schema knows *)
| ECollection (t : rtype)                            (* /{type} *)
| EResource (t : rtype) (id : bytes)                 (* /{type}/{id} *)
| ERelated (t : rtype) (id name : bytes)             (* /{type}/{id}/{relationship} *)
| ERelationship (t : rtype) (id name : bytes).       (* /{type}/{id}/relationships/{relationship} *)

Definition endpoint_of (sch : schema) (path : bytes) : endpoint :=
  match split_on 47 (trim_slash path) with
  | ty :: rest =>
      match lookup_type sch ty with
      | None => EUnknown
      | Some t =>
          match rest with
          | [] => ECollection t
          | [id] => EResource t id
          | [id; name] => ERelated t id name
          | [id; seg; name] => if bytes_eqb seg s_relationships then ERelationship t id name else EUnknown
          | _ => EUnknown
          end
      end
  | [] => EUnknown
  end.

(** ** 2. Reference status.  A list: when several resolvers of one resource fail, the answer may
    report any one of them. *)

(** building the resource object of value [v] of type [t]: every attribute is resolved, every
    relationship with ResolveByDefault is resolved; a failing resolver fails the request, an
    attribute value that does not serialise makes it a 500 *)
Definition default_failure (d : rel_def) (v : N) : list err :=
  match rd_resolver d with
  | ToOne true f => match f v with Er e => [e] | Ok _ => [] end
  | ToMany true f _ _ => match f v with Er e => [e] | Ok _ => [] end
  | Custom f _ _ => match f v false with Er e => [e] | Ok _ => [] end
  | _ => []
  end.
(** the Meta a custom resolver attaches to the relationship object must serialise *)
Definition meta_serialises (d : rel_def) (v : N) : bool :=
  match rd_resolver d with
  | Custom f _ _ => match f v false with Ok rel => forallb snd (rel_meta rel) | Er _ => true end
  | _ => true
  end.
Definition attribute_failures (t : rtype) (v : N) : list err :=
  flat_map (fun d => match ad_resolve d v with AErr e => [e] | AVal _ => [] end) (rt_attrs t).
Definition serialisable (t : rtype) (v : N) : bool :=
  forallb (fun d => match ad_resolve d v with AVal false => false | _ => true end) (rt_attrs t) &&
  forallb (fun d => meta_serialises d v) (rt_rels t).

Inductive built := BuiltOk (serialises : bool) | BuiltFails (candidates : list err).
Definition build (t : rtype) (v : N) : built :=
  match attribute_failures t v, flat_map (fun d => default_failure d v) (rt_rels t) with
  | (_ :: _) as es, _ => BuiltFails es
  | [], (_ :: _) as es => BuiltFails es
  | [], [] => BuiltOk (serialisable t v)
  end.

(** the statuses with which handing back [h] for a resource of type [t] may end *)
Definition outcome_statuses (t : rtype) (h : houtcome) (success : Z) : list Z :=
  match h with
  | HErr e => [status_of e]
  | HNil => [404]
  | HVal v => match build t v with
              | BuiltFails es => map status_of es
              | BuiltOk true => [success]
              | BuiltOk false => [500]
              end
  end.

(** fetching resource [id] of type [t] *)
Definition fetch_statuses (t : rtype) (id : bytes) : list Z :=
  match rt_get t with
  | None => [405]
  | Some g => outcome_statuses t (g id) 200
  end.

(** updating resource [id] of type [t] with the request document [bd]: the rule that decides and
    the statuses it allows *)
Definition update_rule (t : rtype) (id : bytes) (bd : body) : string * list Z :=
  match decode_body (dec_resource_request true) bd with
  | None => ("400-request-document", [400])
  | Some doc =>
      if negb (bytes_eqb (pd_type doc) (rt_name t) && bytes_eqb (pd_id doc) id) then ("409-conflict", [409])
      else match rt_patch t with
           | None => ("405-undefined-operation", [405])
           | Some p => ("update", outcome_statuses t (p id (pd_attrs doc) (pd_rels doc)) 200)
           end
  end.

(** the parent of a related-resource or relationship endpoint must be fetchable; [inl v] = found *)
Definition parent (t : rtype) (id : bytes) : N + list Z :=
  match rt_get t with
  | None => inr [404]
  | Some g => match g id with
              | HErr e => inr [status_of e]
              | HNil => inr [404]
              | HVal v => inl v
              end
  end.

(** the linkage of relationship [d] of a resource value, data requested; [Ok None]: a custom resolver
    answered without Data although it was asked for it *)
Definition linkage_of (d : rel_def) (v : N) : result (option linkage) :=
  match rd_resolver d with
  | ToOne _ f => match f v with Er e => Er e | Ok None => Ok (Some LNull) | Ok (Some r) => Ok (Some (LOne r)) end
  | ToMany _ f _ _ => match f v with Er e => Er e | Ok ids => Ok (Some (LMany ids)) end
  | Custom f _ _ => match f v true with Er e => Er e | Ok rel => Ok (rel_data rel) end
  end.

(** fetching the resources of a to-many linkage in order: unknown types and resources that are not
    found are left out, the first failure fails the request *)
Fixpoint related_many_statuses (sch : schema) (ids : list rid) (all_serialise : bool) : list Z :=
  match ids with
  | [] => if all_serialise then [200] else [500]
  | r :: rest =>
      match lookup_type sch (r_type r) with
      | None => related_many_statuses sch rest all_serialise
      | Some t' =>
          match rt_get t' with
          | None => [405]
          | Some g =>
              match g (r_id r) with
              | HErr e => [status_of e]
              | HNil => related_many_statuses sch rest all_serialise
              | HVal v => match build t' v with
                          | BuiltFails es => map status_of es
                          | BuiltOk s => related_many_statuses sch rest (all_serialise && s)
                          end
              end
          end
      end
  end.

Definition is_method (m : bytes) (name : bytes) : bool := bytes_eqb m name.

(** the rule that decides, and the statuses it allows, once negotiation and the query parameters
    are through: by endpoint, then by operation *)
Definition operation_status (sch : schema) (rq : request) : string * list Z :=
  let m := rq_method rq in
    match endpoint_of sch (rq_path rq) with
    | EUnknown => ("404-unknown-endpoint", [404])
    | ECollection t =>
        (* the only collection operation of this library is creation *)
        if is_method m s_POST then
          match decode_body (dec_resource_request false) (rq_body rq) with
          | None => ("400-request-document", [400])
          | Some doc =>
              if negb (bytes_eqb (pd_type doc) (rt_name t)) then ("409-conflict", [409])
              else match rt_create t with
                   | None => ("405-undefined-operation", [405])
                   | Some c => ("create", outcome_statuses t (fst (c (pd_attrs doc) (pd_rels doc))) 201)
                   end
          end
        else ("404-unknown-endpoint", [404])
    | EResource t id =>
        if is_method m s_GET then
          match rt_get t with
          | None => ("405-undefined-operation", [405])
          | Some _ => ("fetch", fetch_statuses t id)
          end
        else if is_method m s_PATCH then update_rule t id (rq_body rq)
        else if is_method m s_DELETE then
          match rt_delete t with
          | None => ("405-undefined-operation", [405])
          | Some d => ("delete", [match d id with Some e => status_of e | None => 200 end])
          end
        else ("405-undefined-operation", [405])
    | ERelated t id name =>
        if is_method m s_GET || is_method m s_PATCH then
          match parent t id with
          | inr l => ("related-parent", l)
          | inl v =>
              match lookup_rel t name with
              | None => ("404-unknown-relationship", [404])
              | Some d =>
                  match linkage_of d v with
                  | Er e => ("related-linkage", [status_of e])
                  | Ok None => ("related-linkage-missing", [500])
                  | Ok (Some lk) =>
                      if is_method m s_GET then
                        match lk with
                        | LNull => ("related-fetch", [200])
                        | LOne r =>
                            match lookup_type sch (r_type r) with
                            | None => ("related-fetch", [200])                 (* data: null *)
                            | Some t' =>
                                match rt_get t' with
                                | None => ("405-undefined-operation", [405])
                                | Some g =>
                                    match g (r_id r) with
                                    | HNil => ("related-fetch", [200])         (* data: null *)
                                    | h => ("related-fetch", outcome_statuses t' h 200)
                                    end
                                end
                            end
                        | LMany ids => ("related-fetch", related_many_statuses sch ids true)
                        end
                      else
                        (* updating the related resource: only through a non-empty to-one linkage
                           to a known type *)
                        match lk with
                        | LOne r =>
                            match lookup_type sch (r_type r) with
                            | None => ("404-unknown-related", [404])
                            | Some t' => update_rule t' (r_id r) (rq_body rq)
                            end
                        | _ => ("404-unknown-related", [404])
                        end
                  end
              end
          end
        else ("405-undefined-operation", [405])
    | ERelationship t id name =>
        if is_method m s_GET then
          match parent t id with
          | inr l => ("relationship-parent", l)
          | inl v =>
              match lookup_rel t name with
              | None => ("404-unknown-relationship", [404])
              | Some d => ("relationship-fetch", [match linkage_of d v with Er e => status_of e | Ok _ => 200 end])
              end
          end
        else if is_method m s_PATCH then
          match decode_body dec_relationship_data (rq_body rq) with
          | None => ("400-request-document", [400])
          | Some value =>
              match rt_patch t with
              | None => ("405-undefined-operation", [405])
              | Some p =>
                  match p id [] [(name, value)] with
                  | HErr e => ("relationship-update", [status_of e])
                  | HNil => ("relationship-update", [404])
                  | HVal v =>
                      match lookup_rel t name with
                      | None => ("404-unknown-relationship", [404])
                      | Some d => ("relationship-update", [match linkage_of d v with Er e => status_of e | Ok _ => 200 end])
                      end
                  end
              end
          end
        else if is_method m s_POST || is_method m s_DELETE then
          match decode_body dec_members (rq_body rq) with
          | None => ("400-request-document", [400])
          | Some members =>
              match parent t id with
              | inr l => ("relationship-parent", l)
              | inl v =>
                  match lookup_rel t name with
                  | None => ("404-unknown-relationship", [404])
                  | Some d =>
                      match rd_resolver d with
                      | ToOne _ _ => ("405-undefined-operation", [405])
                      | ToMany _ _ add remove =>
                          match (if is_method m s_POST then add else remove) with
                          | None => ("405-undefined-operation", [405])
                          | Some f => ("relationship-members", [match f v members with Er e => status_of e | Ok _ => 200 end])
                          end
                      | Custom _ add remove =>
                          ("relationship-members",
                           [match (if is_method m s_POST then add else remove) v members with Er e => status_of e | Ok _ => 200 end])
                      end
                  end
              end
          end
        else ("405-undefined-operation", [405])
    end.

Definition ref_status (pmt : bytes -> pm_result) (sch : schema) (rq : request) : string * list Z :=
  if negb (acceptable pmt (rq_accept rq)) then ("406-not-acceptable", [406])
  else if negb (forallb supported_parameter (rq_query rq)) then ("400-query-parameter", [400])
  else operation_status sch rq.

(** ** 1. Document invariants *)
Definition data_present (d : wdata) : bool := match d with WAbsent => false | _ => true end.

(** [None] = fine, [Some key] = the violated clause *)
Definition document_invariants (status : Z) (ctype : bytes) (bd : option wbody) : option string :=
  if negb (bytes_eqb ctype media_type) then Some "media-type"
  else match bd with
       | None => Some "not-a-document"
       | Some (WBareError _) => Some "not-a-document"
       | Some (WDoc version data errors _) =>
           match version with
           | None => Some "no-jsonapi-member"
           | Some _ =>
               if data_present data && negb (match errors with [] => true | _ => false end) then Some "data-and-errors"
               else match errors with
                    | [] => if (200 <=? status)%Z && (status <? 300)%Z then None else Some "status-not-2xx"
                    | _ => if Z.eqb status (errors_status errors) then None else Some "status-not-first-error"
                    end
           end
       end.

(** ** 3. Identity and links *)
Definition standard_links (ty id name : bytes) : links :=
  [ (s_related, slash ++ ty ++ slash ++ id ++ slash ++ name);
    (s_self, slash ++ ty ++ slash ++ id ++ slash ++ s_relationships ++ slash ++ name) ].

(** the links object of a relationship: the standard links, and over them whatever links the
    resolver supplied (a resolver's own self / related replace the standard ones) *)
Definition overlay (std extra : links) : links := fold_left (fun m kv => set_link (fst kv) (snd kv) m) extra std.

Definition links_equal (x y : links) : bool :=
  forallb (fun kv => existsb (fun kv' => bytes_eqb (fst kv) (fst kv') && bytes_eqb (snd kv) (snd kv')) y) x &&
  forallb (fun kv => existsb (fun kv' => bytes_eqb (fst kv) (fst kv') && bytes_eqb (snd kv) (snd kv')) x) y.

(** what a custom resolver supplied for value [v] ([requested]: the data was asked for); the
    library's own resolvers supply nothing *)
Definition supplied (d : rel_def) (v : N) (requested : bool) : relationship :=
  match rd_resolver d with
  | Custom f _ _ => match f v requested with Ok rel => rel | Er _ => no_relationship end
  | _ => no_relationship
  end.

Definition meta_names_equal (x y : list (bytes * bool)) : bool :=
  forallb (fun k => existsb (bytes_eqb k) (map fst y)) (map fst x) &&
  forallb (fun k => existsb (bytes_eqb k) (map fst x)) (map fst y).

(** a relationship object [nr] of the resource object (ty, id) built from value [v] of type [t]:
    some relationship definition of that name, and exactly the standard links of THIS resource and
    relationship overlaid with what that definition's resolver supplied for [v]; its Meta names *)
Definition rel_object_ok (ty id : bytes) (t : rtype) (v : N) (nr : bytes * relationship) : bool :=
  existsb (fun d => bytes_eqb (rd_name d) (fst nr) &&
                    links_equal (rel_links (snd nr))
                                (overlay (standard_links ty id (fst nr)) (rel_links (supplied d v false))) &&
                    meta_names_equal (rel_meta (snd nr)) (rel_meta (supplied d v false)))
          (rt_rels t).
Definition item_rels_ok (t : rtype) (v : N) (i : witem) : bool :=
  forallb (rel_object_ok (w_type i) (w_id i) t v) (w_rels i).

Definition is_identifier (i : witem) : bool :=
  match w_attrs i, w_rels i with [], [] => true | _, _ => false end.
Definition item_is (ty id : bytes) (i : witem) : bool := bytes_eqb (w_type i) ty && bytes_eqb (w_id i) id.

Fixpoint sub_identities (items : list witem) (ids : list rid) : bool :=      (* in order, some left out *)
  match items, ids with
  | [], _ => true
  | _ :: _, [] => false
  | i :: items', r :: ids' =>
      if item_is (r_type r) (r_id r) i then sub_identities items' ids' else sub_identities items ids'
  end.

(** the linkage a related / relationship endpoint is about, when the parent is found and the
    relationship resolves *)
Definition endpoint_linkage (t : rtype) (id name : bytes) : option linkage :=
  match parent t id with
  | inl v => match lookup_rel t name with
             | Some d => match linkage_of d v with Ok l => l | Er _ => None end
             | None => None
             end
  | inr _ => None
  end.

(** the application's value behind the resource object that answers a request addressed to
    resource [id] of type [t]: what Get returned (GET), what Patch returned (PATCH) *)
Definition resource_value (rq : request) (t : rtype) (id : bytes) : option N :=
  if is_method (rq_method rq) s_GET then
    match rt_get t with
    | Some g => match g id with HVal v => Some v | _ => None end
    | None => None
    end
  else
    match decode_body (dec_resource_request true) (rq_body rq), rt_patch t with
    | Some doc, Some p => match p id (pd_attrs doc) (pd_rels doc) with HVal v => Some v | _ => None end
    | _, _ => None
    end.

(** a resource object fetched on its own identity (members of a to-many related listing) *)
Definition fetched_item_ok (sch : schema) (i : witem) : bool :=
  match lookup_type sch (w_type i) with
  | Some t' => match rt_get t' with
               | Some g => match g (w_id i) with HVal v => item_rels_ok t' v i | _ => false end
               | None => false
               end
  | None => false
  end.

(** what the relationship's resolver answered to a relationship-endpoint request: the links it
    supplied and, for a custom resolver, the Data it returned *)
Definition reply (d : rel_def) (r : result relationship) : links * option (option linkage) :=
  match rd_resolver d, r with
  | Custom _ _ _, Ok rel => (rel_links rel, Some (rel_data rel))
  | _, _ => ([], None)
  end.
Definition relationship_reply (rq : request) (t : rtype) (id name : bytes) (d : rel_def) : links * option (option linkage) :=
  match rd_resolver d with
  | Custom f add remove =>
      let m := rq_method rq in
      if is_method m s_GET then
        match parent t id with inl v => reply d (f v true) | inr _ => ([], None) end
      else if is_method m s_PATCH then
        match decode_body dec_relationship_data (rq_body rq), rt_patch t with
        | Some value, Some p => match p id [] [(name, value)] with HVal v => reply d (f v true) | _ => ([], None) end
        | _, _ => ([], None)
        end
      else
        match decode_body dec_members (rq_body rq), parent t id with
        | Some members, inl v => reply d ((if is_method m s_POST then add else remove) v members)
        | _, _ => ([], None)
        end
  | _ => ([], None)
  end.

Fixpoint identities_are (items : list witem) (ids : list rid) : bool :=
  match items, ids with
  | [], [] => true
  | i :: items', r :: ids' => item_is (r_type r) (r_id r) i && identities_are items' ids'
  | _, _ => false
  end.
Definition data_is (od : option linkage) (data : wdata) : bool :=
  match od, data with
  | None, WAbsent => true
  | Some LNull, WNull => true
  | Some (LOne r), WOne i => item_is (r_type r) (r_id r) i
  | Some (LMany ids), WMany l => identities_are l ids
  | _, _ => false
  end.

(** for an answer without errors: [None] = fine *)
Definition identity_and_links (sch : schema) (rq : request) (data : wdata) (top : links) : option string :=
  let items := match data with WOne i => [i] | WMany l => l | _ => [] end in
    let m := rq_method rq in
    match endpoint_of sch (rq_path rq) with
    | EUnknown => Some "data-for-unknown-endpoint"
    | ECollection t =>
        match decode_body (dec_resource_request false) (rq_body rq), rt_create t with
        | Some doc, Some c =>
            let r := snd (c (pd_attrs doc) (pd_rels doc)) in
            match data with
            | WOne i => if negb (item_is (r_type r) (r_id r) i) then Some "identity"
                        else if negb (links_equal top [(s_self, slash ++ r_type r ++ slash ++ r_id r)]) then Some "self-link"
                        else match fst (c (pd_attrs doc) (pd_rels doc)) with
                             | HVal v => if item_rels_ok t v i then None else Some "relationship-links"
                             | _ => Some "identity"
                             end
            | _ => Some "identity"
            end
        | _, _ => Some "identity"
        end
    | EResource t id =>
        match data with
        | WOne i => if negb (item_is (rt_name t) id i) then Some "identity"
                    else if negb (links_equal top [(s_self, rq_path rq)]) then Some "self-link"
                    else match resource_value rq t id with
                         | Some v => if item_rels_ok t v i then None else Some "relationship-links"
                         | None => Some "identity"
                         end
        | WAbsent => if is_method m s_DELETE then None else Some "identity"
        | _ => Some "identity"
        end
    | ERelated t id name =>
        if negb (links_equal top [(s_self, rq_path rq)]) then Some "self-link"
        else
          match endpoint_linkage t id name, data with
          | Some LNull, WNull => None
          | Some (LOne r), WNull => if is_method m s_GET then None else Some "identity"
          | Some (LOne r), WOne i =>
              if negb (item_is (r_type r) (r_id r) i) then Some "identity"
              else match lookup_type sch (r_type r) with
                   | Some t' => match resource_value rq t' (r_id r) with
                                | Some v => if item_rels_ok t' v i then None else Some "relationship-links"
                                | None => Some "identity"
                                end
                   | None => Some "identity"
                   end
          | Some (LMany ids), WMany l =>
              if negb (is_method m s_GET && sub_identities l ids) then Some "identity"
              else if forallb (fetched_item_ok sch) l then None else Some "relationship-links"
          | Some (LMany _), WNull => Some "collection-null"
          | _, _ => Some "identity"
          end
    | ERelationship t id name =>
        match lookup_rel t name with
        | None => Some "identity"
        | Some d =>
            let '(extra, custom_data) := relationship_reply rq t id name d in
            if negb (links_equal top (overlay (standard_links (rt_name t) id name) extra)) then Some "relationship-links"
            else if negb (forallb is_identifier items) then Some "identity"
            else
              match custom_data with
              | Some od => if data_is od data then None else Some "identity"
              | None =>
                  match data with
                  | WNull => match rd_resolver d with ToOne _ _ => None | _ => Some "collection-null" end
                  | WOne _ => match rd_resolver d with ToOne _ _ => None | _ => Some "identity" end
                  | WMany _ => match rd_resolver d with ToMany _ _ _ _ => None | _ => Some "identity" end
                  | WAbsent => Some "identity"
                  end
              end
        end
    end.

(** ** The oracle: everything above, on what the implementation answered.
    [None] = the answer satisfies the property; [Some key] = the clause it violates. *)
Definition oracle (pmt : bytes -> pm_result) (sch : schema) (rq : request)
                  (answer : option (Z * bytes * option wbody)) : option string :=
  match answer with
  | None => Some "panic"
  | Some (status, ctype, bd) =>
      match document_invariants status ctype bd with
      | Some key => Some key
      | None =>
          let '(rule, allowed) := ref_status pmt sch rq in
          if negb (existsb (Z.eqb status) allowed) then
            Some (if Z.eqb status 406 && acceptable pmt (rq_accept rq) then "status-406-although-acceptable"
                  else "status-" ++ rule)%string
          else match bd with
               | Some (WDoc _ data [] top) => identity_and_links sch rq data top
               | _ => None
               end
      end
  end.

(** ** 4. The documented status rules as predicates on (schema, request): when a request addresses
    something unknown, asks for an operation the resource type does not define, or carries a
    conflicting resource object.  (Each presupposes that negotiation and the query parameters are
    through; rules about request documents presuppose a decodable document.) *)
Definition related_or_relationship (sch : schema) (rq : request) (t : rtype) (id name : bytes) : Prop :=
  endpoint_of sch (rq_path rq) = ERelated t id name \/ endpoint_of sch (rq_path rq) = ERelationship t id name.

Inductive unknown_target (sch : schema) (rq : request) : Prop :=
| U_endpoint :                       (* unknown type, or a path shape the library does not serve *)
    endpoint_of sch (rq_path rq) = EUnknown -> unknown_target sch rq
| U_collection t :                   (* collections can only be POSTed to *)
    endpoint_of sch (rq_path rq) = ECollection t -> rq_method rq <> s_POST -> unknown_target sch rq
| U_resource t id g :                (* no resource with that id *)
    endpoint_of sch (rq_path rq) = EResource t id -> rq_method rq = s_GET ->
    rt_get t = Some g -> g id = HNil -> unknown_target sch rq
| U_parent t id name :               (* the parent resource cannot be fetched or does not exist *)
    related_or_relationship sch rq t id name -> rq_method rq = s_GET ->
    parent t id = inr [404] -> unknown_target sch rq
| U_relationship t id name v :       (* the parent has no relationship of that name *)
    related_or_relationship sch rq t id name -> rq_method rq = s_GET ->
    parent t id = inl v -> lookup_rel t name = None -> unknown_target sch rq.

Inductive undefined_operation (sch : schema) (rq : request) : Prop :=
| O_resource_method t id :
    endpoint_of sch (rq_path rq) = EResource t id ->
    rq_method rq <> s_GET -> rq_method rq <> s_PATCH -> rq_method rq <> s_DELETE -> undefined_operation sch rq
| O_related_method t id name :
    endpoint_of sch (rq_path rq) = ERelated t id name ->
    rq_method rq <> s_GET -> rq_method rq <> s_PATCH -> undefined_operation sch rq
| O_relationship_method t id name :
    endpoint_of sch (rq_path rq) = ERelationship t id name ->
    rq_method rq <> s_GET -> rq_method rq <> s_PATCH -> rq_method rq <> s_POST -> rq_method rq <> s_DELETE ->
    undefined_operation sch rq
| O_get t id :
    endpoint_of sch (rq_path rq) = EResource t id -> rq_method rq = s_GET -> rt_get t = None ->
    undefined_operation sch rq
| O_delete t id :
    endpoint_of sch (rq_path rq) = EResource t id -> rq_method rq = s_DELETE -> rt_delete t = None ->
    undefined_operation sch rq
| O_patch t id doc :
    endpoint_of sch (rq_path rq) = EResource t id -> rq_method rq = s_PATCH ->
    decode_body (dec_resource_request true) (rq_body rq) = Some doc -> pd_type doc = rt_name t -> pd_id doc = id ->
    rt_patch t = None -> undefined_operation sch rq
| O_create t doc :
    endpoint_of sch (rq_path rq) = ECollection t -> rq_method rq = s_POST ->
    decode_body (dec_resource_request false) (rq_body rq) = Some doc -> pd_type doc = rt_name t ->
    rt_create t = None -> undefined_operation sch rq
| O_replace_linkage t id name value :
    endpoint_of sch (rq_path rq) = ERelationship t id name -> rq_method rq = s_PATCH ->
    decode_body dec_relationship_data (rq_body rq) = Some value -> rt_patch t = None -> undefined_operation sch rq
| O_members_to_one t id name members v d by_default f :
    endpoint_of sch (rq_path rq) = ERelationship t id name -> (rq_method rq = s_POST \/ rq_method rq = s_DELETE) ->
    decode_body dec_members (rq_body rq) = Some members -> parent t id = inl v -> lookup_rel t name = Some d ->
    rd_resolver d = ToOne by_default f -> undefined_operation sch rq
| O_add_members t id name members v d by_default f remove :
    endpoint_of sch (rq_path rq) = ERelationship t id name -> rq_method rq = s_POST ->
    decode_body dec_members (rq_body rq) = Some members -> parent t id = inl v -> lookup_rel t name = Some d ->
    rd_resolver d = ToMany by_default f None remove -> undefined_operation sch rq
| O_remove_members t id name members v d by_default f add :
    endpoint_of sch (rq_path rq) = ERelationship t id name -> rq_method rq = s_DELETE ->
    decode_body dec_members (rq_body rq) = Some members -> parent t id = inl v -> lookup_rel t name = Some d ->
    rd_resolver d = ToMany by_default f add None -> undefined_operation sch rq.

Inductive conflict (sch : schema) (rq : request) : Prop :=
| K_create t doc :
    endpoint_of sch (rq_path rq) = ECollection t -> rq_method rq = s_POST ->
    decode_body (dec_resource_request false) (rq_body rq) = Some doc -> pd_type doc <> rt_name t -> conflict sch rq
| K_update t id doc :
    endpoint_of sch (rq_path rq) = EResource t id -> rq_method rq = s_PATCH ->
    decode_body (dec_resource_request true) (rq_body rq) = Some doc ->
    (pd_type doc <> rt_name t \/ pd_id doc <> id) -> conflict sch rq
| K_update_related t id name v d r t' doc :
    endpoint_of sch (rq_path rq) = ERelated t id name -> rq_method rq = s_PATCH ->
    parent t id = inl v -> lookup_rel t name = Some d -> linkage_of d v = Ok (Some (LOne r)) ->
    lookup_type sch (r_type r) = Some t' ->
    decode_body (dec_resource_request true) (rq_body rq) = Some doc ->
    (pd_type doc <> r_type r \/ pd_id doc <> r_id r) -> conflict sch rq.

(** the status of an answer ([None]: the handler panicked) *)
Definition answer_status (o : outcome) : option Z := match o with Resp st _ _ _ => Some st | Panic => None end.

(** ** 5. The parameter-name grammar, declaratively (validated against [supported_parameter] in
    JsonApiProofs.v): family *( "[" member "]" ) *)
Definition bracketed (m : bytes) : bytes := 91%N :: m ++ [93%N].
Definition parameter_name (family : bytes) (members : list bytes) : bytes :=
  family ++ List.concat (map bracketed members).
Definition well_formed_parameter (k : bytes) : Prop :=
  exists family members,
    k = parameter_name family members /\
    member_name family = true /\ Forall (fun m => member_name m = true) members /\
    (forallb is_lower_az family = true -> family = s_page).

(** ** 6. The observational equivalence of the comparison: documents up to the order of the
    members of attributes, relationships and links objects (Go map order) *)
From Coq Require Import Permutation.
Definition rel_equiv (x y : bytes * relationship) : Prop :=
  fst x = fst y /\ Permutation (rel_links (snd x)) (rel_links (snd y)) /\ rel_data (snd x) = rel_data (snd y) /\
  Permutation (map fst (rel_meta (snd x))) (map fst (rel_meta (snd y))).
Definition witem_equiv (x y : witem) : Prop :=
  w_type x = w_type y /\ w_id x = w_id y /\ Permutation (w_attrs x) (w_attrs y) /\
  exists l, Permutation (w_rels x) l /\ Forall2 rel_equiv l (w_rels y).
Definition wdata_equiv (x y : wdata) : Prop :=
  match x, y with
  | WAbsent, WAbsent => True
  | WNull, WNull => True
  | WOne a, WOne b => witem_equiv a b
  | WMany a, WMany b => Forall2 witem_equiv a b
  | _, _ => False
  end.
Definition wbody_equiv (x y : wbody) : Prop :=
  match x, y with
  | WDoc v d e l, WDoc v' d' e' l' => v = v' /\ wdata_equiv d d' /\ e = e' /\ Permutation l l'
  | WBareError s, WBareError s' => s = s'
  | _, _ => False
  end.
