(** * JsonApi/JsonApiHeap.v — the handler with the application's maps as locations of a heap (C19)

    JsonApiModel.v is a function of (schema, request): the Links and Meta maps a custom
    RelationshipResolver returns are VALUES there.  In Go they are references to maps the resolver
    owns and may hand out again - for another resource, another relationship, the next request.
    This file makes that explicit: a [heap] of cells, resolvers that return REFERENCES ([rel_ref]:
    a location, or a map allocated for this call), and a transcription of resource.go / handler.go
    in heap-passing style ([st A = heap -> A * heap]).  The only statement of the Go code that could
    write through such a reference is addStandardRelationshipLinks; [in_place = false] is the code
    as it is (a fresh map, the resolver's map is only read), [in_place = true] the variant that
    fills the missing self / related members into the resolver's map (seeded change C19-5).
    Within one resource Go ranges over the relationships map in an arbitrary order; here: list order
    (for [in_place = false] the order does not matter, by [never_writes]).
    No proofs in this file. *)
From Coq Require Import List NArith ZArith Bool String.
From ApiFu Require Import Base.Sexp JsonApi.JsonApiModel.
Import ListNotations.
Open Scope list_scope.

Definition meta := list (bytes * bool).
Inductive cell := CLinks (l : links) | CMeta (m : meta).
Definition heap := list cell.

Definition heap_links (h : heap) (n : N) : links :=
  match nth_error h (N.to_nat n) with Some (CLinks l) => l | _ => [] end.
Definition heap_meta (h : heap) (n : N) : meta :=
  match nth_error h (N.to_nat n) with Some (CMeta m) => m | _ => [] end.
Fixpoint set_nth {A} (n : nat) (x : A) (l : list A) : list A :=
  match l, n with
  | [], _ => []
  | _ :: r, O => x :: r
  | y :: r, S n' => y :: set_nth n' x r
  end.
Definition heap_store (h : heap) (n : N) (l : links) : heap := set_nth (N.to_nat n) (CLinks l) h.

(** a reference to a Links / Meta map: allocated by the resolver for this call, or a location *)
Inductive lref := LFresh (l : links) | LLoc (n : N).
Inductive mref := MFresh (m : meta) | MLoc (n : N).
Record rel_ref := { rr_links : lref; rr_data : option linkage; rr_meta : mref }.

Definition ref_of (r : relationship) : rel_ref :=
  {| rr_links := LFresh (rel_links r); rr_data := rel_data r; rr_meta := MFresh (rel_meta r) |}.
Definition links_at (h : heap) (r : lref) : links := match r with LFresh l => l | LLoc n => heap_links h n end.
Definition meta_at (h : heap) (r : mref) : meta := match r with MFresh m => m | MLoc n => heap_meta h n end.
Definition deref (h : heap) (r : rel_ref) : relationship :=
  {| rel_links := links_at h (rr_links r); rel_data := rr_data r; rel_meta := meta_at h (rr_meta r) |}.
Definition deref_result (h : heap) (r : result rel_ref) : result relationship :=
  match r with Ok x => Ok (deref h x) | Er e => Er e end.

(** schemas whose custom resolvers return references *)
Inductive hresolver :=
| HLib (r : rel_resolver)
| HCustom (resolve : N -> bool -> result rel_ref) (add remove : N -> list rid -> result rel_ref).
Record hrel_def := { hd_name : bytes; hd_resolver : hresolver }.
Record hrtype := { ht_type : rtype; ht_rels : list hrel_def }.     (* [rt_rels (ht_type t)] is not used *)
Definition hschema := list hrtype.

(** the schema as JsonApiModel sees it when the heap is [h] *)
Definition view_resolver (h : heap) (r : hresolver) : rel_resolver :=
  match r with
  | HLib r => r
  | HCustom f a rm => Custom (fun v q => deref_result h (f v q)) (fun v m => deref_result h (a v m))
                             (fun v m => deref_result h (rm v m))
  end.
Definition view_rel (h : heap) (d : hrel_def) : rel_def :=
  {| rd_name := hd_name d; rd_resolver := view_resolver h (hd_resolver d) |}.
Definition view_type (h : heap) (t : hrtype) : rtype :=
  {| rt_name := rt_name (ht_type t); rt_attrs := rt_attrs (ht_type t); rt_rels := map (view_rel h) (ht_rels t);
     rt_get := rt_get (ht_type t); rt_patch := rt_patch (ht_type t); rt_create := rt_create (ht_type t);
     rt_delete := rt_delete (ht_type t) |}.
Definition view (h : heap) (s : hschema) : schema := map (view_type h) s.

Definition hlookup_type (s : hschema) (n : bytes) : option hrtype :=
  find (fun t => bytes_eqb (rt_name (ht_type t)) n) s.
Definition hlookup_rel (t : hrtype) (n : bytes) : option hrel_def :=
  find (fun d => bytes_eqb (hd_name d) n) (ht_rels t).

Definition st (A : Type) : Type := heap -> A * heap.

Section HeapModel.
  Variable in_place : bool.
  Variable pmt : bytes -> pm_result.
  Variable choose : list err -> err.

  (** resolvers.go / the application's resolver: a reference *)
  Definition resolve_ref (r : hresolver) (v : N) (requested : bool) : result rel_ref :=
    match r with
    | HLib r => match resolve_relationship r v requested with Ok rel => Ok (ref_of rel) | Er e => Er e end
    | HCustom f _ _ => f v requested
    end.
  Definition change_ref (add : bool) (r : hresolver) (v : N) (members : list rid) : result rel_ref * bool :=
    match r with
    | HLib r => match change_members add r v members with
                | (Ok rel, c) => (Ok (ref_of rel), c)
                | (Er e, c) => (Er e, c)
                end
    | HCustom _ a rm => ((if add then a else rm) v members, true)
    end.

  Definition has_key (k : bytes) (l : links) : bool := existsb (fun kv => bytes_eqb (fst kv) k) l.
  Definition std_self (id : rid) (name : bytes) : bytes :=
    slash ++ r_type id ++ slash ++ r_id id ++ slash ++ s_relationships ++ slash ++ name.
  Definition std_related (id : rid) (name : bytes) : bytes := slash ++ r_type id ++ slash ++ r_id id ++ slash ++ name.

  (** addStandardRelationshipLinks *)
  Definition add_links_st (id : rid) (name : bytes) (r : rel_ref) : st relationship := fun h =>
    if in_place then
      let m0 := links_at h (rr_links r) in
      let m1 := if has_key s_self m0 then m0 else set_link s_self (std_self id name) m0 in
      let m2 := if has_key s_related m1 then m1 else set_link s_related (std_related id name) m1 in
      ({| rel_links := m2; rel_data := rr_data r; rel_meta := meta_at h (rr_meta r) |},
       match rr_links r with
       | LLoc n => heap_store h n m2                 (* rel.Links[...] = ... writes the resolver's map *)
       | LFresh _ => h
       end)
    else (add_standard_links id name (deref h r), h).

  (** the relationships loop of [complete] *)
  Fixpoint complete_rels_st (id : rid) (v : N) (l : list hrel_def) : st (list (bytes * relationship)) := fun h =>
    match l with
    | [] => ([], h)
    | d :: rest =>
        let r := match resolve_ref (hd_resolver d) v false with Ok r => r | Er _ => ref_of no_relationship end in
        let '(rel, h1) := add_links_st id (hd_name d) r h in
        let '(rels, h2) := complete_rels_st id v rest h1 in
        ((hd_name d, rel) :: rels, h2)
    end.

  Definition complete_st (t : hrtype) (id : rid) (v : N) : st (result item) := fun h =>
    match attr_errors v (rt_attrs (ht_type t)) with
    | e :: es => (Er (choose (e :: es)), h)
    | [] =>
        match rel_errors v (map (view_rel h) (ht_rels t)) with
        | e :: es => (Er (choose (e :: es)), h)
        | [] =>
            let '(rels, h') := complete_rels_st id v (ht_rels t) h in
            (Ok {| i_type := r_type id; i_id := r_id id;
                   i_attrs := map (fun d => (ad_name d, match ad_resolve d v with AVal s => s | AErr _ => true end))
                                  (rt_attrs (ht_type t));
                   i_rels := rels |}, h')
        end
    end.

  Definition completed_st (t : hrtype) (id : rid) (o : houtcome) : st (got item) := fun h =>
    match o with
    | HErr e => (GErr e, h)
    | HNil => (GNil, h)
    | HVal v => match complete_st t id v h with (Ok i, h') => (GOk i, h') | (Er e, h') => (GErr e, h') end
    end.

  Definition get_resource_of_st (t : hrtype) (id : rid) : st (got item) := fun h =>
    match rt_get (ht_type t) with
    | None => (GErr method_not_allowed, h)
    | Some g => completed_st t id (g (r_id id)) h
    end.

  Definition patch_resource_st (t : hrtype) (id : rid) (attrs : list bytes) (rels : list (bytes * linkage))
    : st (got item * option call) := fun h =>
    match rt_patch (ht_type t) with
    | None => ((GErr method_not_allowed, None), h)
    | Some p => let '(g, h') := completed_st t id (p (r_id id) attrs rels) h in
                ((g, Some (CPatch (r_id id) attrs rels)), h')
    end.

  Definition create_resource_st (t : hrtype) (attrs : list bytes) (rels : list (bytes * linkage))
    : st (got item * option call) := fun h =>
    match rt_create (ht_type t) with
    | None => ((GErr method_not_allowed, None), h)
    | Some c => let '(o, id) := c attrs rels in
                let '(g, h') := completed_st t id o h in ((g, Some (CCreate attrs rels)), h')
    end.

  Definition complete_relationship_st (t : hrtype) (id : rid) (v : N) (name : bytes) : st (got relationship) := fun h =>
    match hlookup_rel t name with
    | Some def =>
        match resolve_ref (hd_resolver def) v true with
        | Er e => (GErr e, h)
        | Ok r => let '(rel, h') := add_links_st id name r h in (GOk rel, h')
        end
    | None => (GNil, h)
    end.

  Definition get_relationship_st (t : hrtype) (id : rid) (name : bytes) : st (got relationship) := fun h =>
    match rt_get (ht_type t) with
    | None => (GNil, h)
    | Some g =>
        match g (r_id id) with
        | HErr e => (GErr e, h)
        | HNil => (GNil, h)
        | HVal v => complete_relationship_st t id v name h
        end
    end.

  Definition patch_relationship_st (t : hrtype) (id : rid) (name : bytes) (value : linkage)
    : st (got relationship * option call) := fun h =>
    match rt_patch (ht_type t) with
    | None => ((GErr method_not_allowed, None), h)
    | Some p =>
        let '(g, h') := match p (r_id id) [] [(name, value)] with
                        | HErr e => (GErr e, h)
                        | HNil => (GNil, h)
                        | HVal v => complete_relationship_st t id v name h
                        end in
        ((g, Some (CPatch (r_id id) [] [(name, value)])), h')
    end.

  Definition change_members_st (add : bool) (t : hrtype) (id : rid) (name : bytes) (members : list rid)
    : st (got relationship * option call) := fun h =>
    match rt_get (ht_type t) with
    | None => ((GNil, None), h)
    | Some g =>
        match g (r_id id) with
        | HErr e => ((GErr e, None), h)
        | HNil => ((GNil, None), h)
        | HVal v =>
            match hlookup_rel t name with
            | None => ((GNil, None), h)
            | Some def =>
                let '(r, called) := change_ref add (hd_resolver def) v members in
                let c := if called then Some (if add then CAdd members else CRemove members) else None in
                match r with
                | Er e => ((GErr e, c), h)
                | Ok rr => let '(rel, h') := add_links_st id name rr h in ((GOk rel, c), h')
                end
            end
        end
    end.

  Section WithSchema.
    Variable sch : hschema.

    Definition get_resource_st (id : rid) : st (got item) := fun h =>
      match hlookup_type sch (r_type id) with
      | Some t => get_resource_of_st t id h
      | None => (GNil, h)
      end.

    Fixpoint get_resources_st (ids : list rid) : st (result (list item)) := fun h =>
      match ids with
      | [] => (Ok [], h)
      | id :: rest =>
          match hlookup_type sch (r_type id) with
          | Some t =>
              match get_resource_of_st t id h with
              | (GErr e, h1) => (Er e, h1)
              | (GOk i, h1) => match get_resources_st rest h1 with
                               | (Ok l, h2) => (Ok (i :: l), h2)
                               | (Er e, h2) => (Er e, h2)
                               end
              | (GNil, h1) => get_resources_st rest h1
              end
          | None => get_resources_st rest h
          end
      end.

    Definition handle_patch_st (rq : request) (t : hrtype) (id : rid) : st (routed) := fun h =>
      match decode_body (dec_resource_request true) (rq_body rq) with
      | None => (Return (resp_status 400 None), h)
      | Some patch =>
          if negb (bytes_eqb (pd_type patch) (r_type id)) || negb (bytes_eqb (pd_id patch) (r_id id))
          then (Return (resp_status 409 None), h)
          else
            match patch_resource_st t id (pd_attrs patch) (pd_rels patch) h with
            | ((GErr e, c), h') => (Return (resp_errors [e] c), h')
            | ((GOk i, c), h') => (Return (resp_data (Some (PItem i)) [(s_self, rq_path rq)] 0 c), h')
            | ((GNil, c), h') => (FallThrough c, h')
            end
      end.

    Definition route_st (rq : request) : st routed := fun h =>
      let path_components := split_on 47 (trim_slash (rq_path rq)) in
      let m := rq_method rq in
      match path_components with
      | [] => (FallThrough None, h)
      | type_name :: after_type =>
        match hlookup_type sch type_name with
        | None => (FallThrough None, h)
        | Some t =>
          match after_type with
          | [] =>
              if bytes_eqb m s_POST then
                match decode_body (dec_resource_request false) (rq_body rq) with
                | None => (Return (resp_status 400 None), h)
                | Some patch =>
                    if negb (bytes_eqb (pd_type patch) type_name) then (Return (resp_status 409 None), h)
                    else
                      match create_resource_st t (pd_attrs patch) (pd_rels patch) h with
                      | ((GErr e, c), h') => (Return (resp_errors [e] c), h')
                      | ((GOk i, c), h') =>
                          (Return (resp_data (Some (PItem i)) [(s_self, slash ++ i_type i ++ slash ++ i_id i)] 201 c), h')
                      | ((GNil, c), h') => (FallThrough c, h')
                      end
                end
              else (FallThrough None, h)
          | id_component :: after_id =>
            let id := {| r_type := type_name; r_id := id_component |} in
            match after_id with
            | [] =>
                if bytes_eqb m s_GET then
                  match get_resource_of_st t id h with
                  | (GErr e, h') => (Return (resp_errors [e] None), h')
                  | (GOk i, h') => (Return (resp_data (Some (PItem i)) [(s_self, rq_path rq)] 0 None), h')
                  | (GNil, h') => (FallThrough None, h')
                  end
                else if bytes_eqb m s_PATCH then handle_patch_st rq t id h
                else if bytes_eqb m s_DELETE then
                  match rt_delete_resource (ht_type t) id with
                  | (Some e, c) => (Return (resp_errors [e] c), h)
                  | (None, c) => (Return (resp_data None [] 0 c), h)
                  end
                else (Return (resp_status 405 None), h)
            | [relationship_name] =>
                if bytes_eqb m s_GET then
                  match get_relationship_st t id relationship_name h with
                  | (GErr e, h') => (Return (resp_errors [e] None), h')
                  | (GNil, h') => (FallThrough None, h')
                  | (GOk relationship, h') =>
                      let self := [(s_self, rq_path rq)] in
                      match rel_data relationship with
                      | None => (Return (resp_status 500 None), h')
                      | Some (LOne rel_id) =>
                          match get_resource_st rel_id h' with
                          | (GErr e, h2) => (Return (resp_errors [e] None), h2)
                          | (GOk i, h2) => (Return (resp_data (Some (PItem i)) self 0 None), h2)
                          | (GNil, h2) => (Return (resp_data (Some PNull) self 0 None), h2)
                          end
                      | Some (LMany ids) =>
                          match get_resources_st ids h' with
                          | (Er e, h2) => (Return (resp_errors [e] None), h2)
                          | (Ok l, h2) => (Return (resp_data (Some (PItems l)) self 0 None), h2)
                          end
                      | Some LNull => (Return (resp_data (Some PNull) self 0 None), h')
                      end
                  end
                else if bytes_eqb m s_PATCH then
                  match get_relationship_st t id relationship_name h with
                  | (GErr e, h') => (Return (resp_errors [e] None), h')
                  | (GNil, h') => (FallThrough None, h')
                  | (GOk relationship, h') =>
                      match rel_data relationship with
                      | None => (Return (resp_status 500 None), h')
                      | Some (LOne related_id) =>
                          match hlookup_type sch (r_type related_id) with
                          | Some related_type => handle_patch_st rq related_type related_id h'
                          | None => (FallThrough None, h')
                          end
                      | Some _ => (FallThrough None, h')
                      end
                  end
                else (Return (resp_status 405 None), h)
            | [rel_segment; relationship_name] =>
                if bytes_eqb rel_segment s_relationships then
                  if bytes_eqb m s_GET then
                    let '(g, h') := get_relationship_st t id relationship_name h in
                    (relationship_response (g, None), h')
                  else if bytes_eqb m s_PATCH then
                    match decode_body dec_relationship_data (rq_body rq) with
                    | None => (Return (resp_status 400 None), h)
                    | Some value => let '(g, h') := patch_relationship_st t id relationship_name value h in
                                    (relationship_response g, h')
                    end
                  else if bytes_eqb m s_POST then
                    match decode_body dec_members (rq_body rq) with
                    | None => (Return (resp_status 400 None), h)
                    | Some members => let '(g, h') := change_members_st true t id relationship_name members h in
                                      (relationship_response g, h')
                    end
                  else if bytes_eqb m s_DELETE then
                    match decode_body dec_members (rq_body rq) with
                    | None => (Return (resp_status 400 None), h)
                    | Some members => let '(g, h') := change_members_st false t id relationship_name members h in
                                      (relationship_response g, h')
                    end
                  else (Return (resp_status 405 None), h)
                else (FallThrough None, h)
            | _ => (FallThrough None, h)
            end
          end
        end
      end.

    Definition execute_request_st (rq : request) : st (option response) := fun h =>
      if negb (is_acceptable pmt (accept_instances fixed (rq_accept rq))) then (Some (resp_status 406 None), h)
      else if negb (forallb query_key_ok (rq_query rq)) then (Some (resp_status 400 None), h)
      else match route_st rq h with
           | (Return r, h') => (Some r, h')
           | (FallThrough c, h') => (Some (resp_status 404 c), h')
           | (NilDeref, h') => (None, h')
           end.

    (** ServeHTTP: what is written, and the heap the request leaves behind *)
    Definition serve_http_st (rq : request) : st outcome := fun h =>
      let '(r, h') := execute_request_st rq h in (finish fixed r, h').

    (** a history: the requests are served one after the other, each on the heap its predecessor left *)
    Fixpoint serve_history_st (rqs : list request) : st (list outcome) := fun h =>
      match rqs with
      | [] => ([], h)
      | rq :: rest => let '(o, h1) := serve_http_st rq h in
                      let '(os, h2) := serve_history_st rest h1 in (o :: os, h2)
      end.
  End WithSchema.
End HeapModel.
