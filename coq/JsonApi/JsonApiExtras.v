(** * JsonApi/JsonApiExtras.v — (1) the Spec's parser of query parameter names accepts exactly the
    declarative grammar family *( "[" member "]" ) (validation of the Spec itself); (2) the identity
    clause of the Spec in plain terms for the resource endpoint (C19) *)
From Coq Require Import List NArith ZArith Bool String Lia.
From ApiFu Require Import Base.Sexp JsonApi.JsonApiModel JsonApi.JsonApiSpec JsonApi.JsonApiProofs.
Import ListNotations.
Open Scope string_scope.
Open Scope list_scope.

Lemma member_name_no_bracket m c : member_name m = true -> (c = 91%N \/ c = 93%N) -> ~ In c m.
Proof.
  intros H Hc Hin. rewrite member_name_eq in H.
  pose proof (member_name_ok_chars _ _ H Hin) as A. destruct Hc; subst; discriminate A.
Qed.

Lemma take_until_app c h t : ~ In c h -> take_until c (h ++ c :: t) = (h, Some t).
Proof.
  induction h as [|x h IH]; intro H; cbn [app take_until].
  - rewrite N.eqb_refl. reflexivity.
  - destruct (N.eqb x c) eqn:E. { apply N.eqb_eq in E. exfalso. apply H. left; auto. }
    rewrite IH by (intro; apply H; right; assumption). reflexivity.
Qed.

Lemma take_until_none c h : ~ In c h -> take_until c h = (h, None).
Proof.
  induction h as [|x h IH]; intro H; cbn [take_until]; [reflexivity|].
  destruct (N.eqb x c) eqn:E. { apply N.eqb_eq in E. exfalso. apply H. left; auto. }
  rewrite IH by (intro; apply H; right; assumption). reflexivity.
Qed.

Lemma brackets_sound fuel : forall s, brackets fuel s = true ->
  exists members, s = List.concat (map bracketed members) /\ Forall (fun m => member_name m = true) members.
Proof.
  induction fuel as [|f IH]; intros s H.
  - destruct s; [exists []; split; [reflexivity|constructor]|discriminate].
  - destruct s as [|c r]; [exists []; split; [reflexivity|constructor]|].
    cbn [brackets] in H. apply andb_true_iff in H. destruct H as [Hc H]. apply N.eqb_eq in Hc. subst c.
    pose proof (take_until_spec 93 r) as T. destruct (take_until 93 r) as [inner [rest|]]; [|discriminate].
    destruct T as [-> _]. apply andb_true_iff in H. destruct H as [H Hb]. apply andb_true_iff in H. destruct H as [Hm _].
    destruct (IH _ Hb) as [members [-> HF]].
    exists (inner :: members). split; [|constructor; assumption].
    cbn [map List.concat]. unfold bracketed. cbn [app]. rewrite <- app_assoc. reflexivity.
Qed.

Lemma brackets_complete members : Forall (fun m => member_name m = true) members ->
  forall fuel, (List.length (List.concat (map bracketed members)) <= fuel)%nat ->
  brackets fuel (List.concat (map bracketed members)) = true.
Proof.
  induction 1 as [|m members Hm HF IH]; intros fuel Hlen.
  - destruct fuel; reflexivity.
  - cbn [map List.concat] in *. unfold bracketed in *. cbn [app] in *. rewrite <- app_assoc in *. cbn [app] in *.
    destruct fuel as [|f]; [cbn [List.length] in Hlen; lia|].
    cbn [brackets]. rewrite N.eqb_refl. cbn [andb].
    rewrite take_until_app by (apply member_name_no_bracket; auto).
    rewrite Hm. cbn [andb].
    assert (existsb (N.eqb 91) m = false) as ->.
    { destruct (existsb (N.eqb 91) m) eqn:E; [|reflexivity].
      apply existsb_exists in E. destruct E as [c [Hin Hc]]. apply N.eqb_eq in Hc. subst c.
      exfalso. exact (member_name_no_bracket m 91%N Hm (or_introl eq_refl) Hin). }
    cbn [negb andb]. apply IH.
    cbn [List.length] in Hlen. rewrite app_length in Hlen. cbn [List.length] in Hlen. lia.
Qed.

Theorem supported_parameter_grammar k : supported_parameter k = true <-> well_formed_parameter k.
Proof.
  unfold supported_parameter, well_formed_parameter, parameter_name. split.
  - pose proof (take_until_spec 91 k) as T. destruct (take_until 91 k) as [family rest].
    intro H. apply andb_true_iff in H. destruct H as [H Hb]. apply andb_true_iff in H. destruct H as [Hm Hl].
    destruct rest as [r|].
    + destruct T as [-> _]. destruct (brackets_sound _ _ Hb) as [members [Heq HF]].
      exists family, members. rewrite Heq. repeat split; auto.
      intro Hlow. rewrite Hlow in Hl. apply bytes_eqb_eq. assumption.
    + destruct T as [-> _]. exists family, []. cbn [map List.concat]. rewrite app_nil_r. repeat split; auto.
      intro Hlow. rewrite Hlow in Hl. apply bytes_eqb_eq. assumption.
  - intros (family & members & -> & Hm & HF & Hp).
    assert (Hno : ~ In 91%N family) by (apply member_name_no_bracket; auto).
    destruct members as [|m members].
    + cbn [map List.concat]. rewrite app_nil_r, take_until_none by assumption. rewrite Hm. cbn [andb].
      rewrite andb_true_r. destruct (forallb is_lower_az family) eqn:E; [|reflexivity].
      rewrite (Hp eq_refl). apply bytes_eqb_refl.
    + remember (List.concat (map bracketed (m :: members))) as tail eqn:Ht.
      assert (exists r, tail = 91%N :: r) as [r Hr].
      { subst tail. cbn [map List.concat]. unfold bracketed. cbn [app]. eauto. }
      rewrite Hr. rewrite take_until_app by assumption. rewrite Hm. cbn [andb].
      apply andb_true_iff. split.
      * destruct (forallb is_lower_az family) eqn:E; [|reflexivity]. rewrite (Hp eq_refl). apply bytes_eqb_refl.
      * rewrite <- Hr, Ht. apply brackets_complete; [assumption|]. rewrite app_length. lia.
Qed.

(** ** the identity clause in plain terms: GET / PATCH of /{type}/{id} without errors *)
Theorem fetch_identity pmt choose (Hchoose : choose_ok choose) sch rq st ct v data top c t id :
  serve_http fixed pmt choose sch rq = Resp st ct (WDoc v data [] top) c ->
  endpoint_of sch (rq_path rq) = EResource t id -> rq_method rq <> s_DELETE ->
  exists i, data = WOne i /\ w_type i = rt_name t /\ w_id i = id /\
            links_equal top [(s_self, rq_path rq)] = true /\
            (forall name rel, In (name, rel) (w_rels i) ->
                              links_equal (rel_links rel) (standard_links (rt_name t) id name) = true).
Proof.
  intros Hs Hep Hm.
  pose proof (ja_resource_identity pmt choose Hchoose sch rq st ct v data top c Hs) as H.
  unfold identity_and_links in H. rewrite Hep in H. rewrite (is_method_neq _ _ Hm) in H.
  destruct data as [| |i|l].
  - destruct (negb (forallb item_links_standard [])); discriminate.
  - destruct (negb (forallb item_links_standard [])); discriminate.
  - destruct (forallb item_links_standard [i]) eqn:HL; cbn [negb] in H; [|discriminate].
    destruct (item_is (rt_name t) id i) eqn:HI; cbn [negb] in H; [|discriminate].
    destruct (links_equal top [(s_self, rq_path rq)]) eqn:HT; cbn [negb] in H; [|discriminate].
    unfold item_is in HI. apply andb_true_iff in HI. destruct HI as [H1 H2].
    apply bytes_eqb_eq in H1. apply bytes_eqb_eq in H2.
    exists i. repeat split; auto.
    intros name rel Hin. cbn [forallb] in HL. rewrite andb_true_r in HL. unfold item_links_standard in HL.
    rewrite forallb_forall in HL. specialize (HL _ Hin). cbn [fst snd] in HL. rewrite H1, H2 in HL. exact HL.
  - destruct (negb (forallb item_links_standard l)); discriminate.
Qed.
