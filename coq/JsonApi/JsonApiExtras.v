(** * JsonApi/JsonApiExtras.v — (1) the Spec's parser of query parameter names accepts exactly the
    declarative grammar family *( "[" member "]" ) (validation of the Spec itself); (2) the identity
    clause of the Spec in plain terms for the resource endpoint (C19) *)
From Coq Require Import List NArith ZArith Bool String Lia.
From ApiFu Require Import Base.Sexp JsonApi.JsonApiModel JsonApi.JsonApiSpec JsonApi.JsonApiProofs.
Import ListNotations.
Open Scope string_scope.
Open Scope list_scope.

Lemma member_name_no_bracket m c : member_name m = true -> (c = 91%N \/ c = 93%N) -> ~ In c m.
Proof.
  intros H Hc Hin. rewrite member_name_eq in H.
  pose proof (member_name_ok_chars _ _ H Hin) as A. destruct Hc; subst; discriminate A.
Qed.

Lemma take_until_app c h t : ~ In c h -> take_until c (h ++ c :: t) = (h, Some t).
Proof.
  induction h as [|x h IH]; intro H; cbn [app take_until].
  - rewrite N.eqb_refl. reflexivity.
  - destruct (N.eqb x c) eqn:E. { apply N.eqb_eq in E. exfalso. apply H. left; auto. }
    rewrite IH by (intro; apply H; right; assumption). reflexivity.
Qed.

Lemma take_until_none c h : ~ In c h -> take_until c h = (h, None).
Proof.
  induction h as [|x h IH]; intro H; cbn [take_until]; [reflexivity|].
  destruct (N.eqb x c) eqn:E. { apply N.eqb_eq in E. exfalso. apply H. left; auto. }
  rewrite IH by (intro; apply H; right; assumption). reflexivity.
Qed.

Lemma brackets_sound fuel : forall s, brackets fuel s = true ->
  exists members, s = List.concat (map bracketed members) /\ Forall (fun m => member_name m = true) members.
Proof.
  induction fuel as [|f IH]; intros s H.
  - destruct s; [exists []; split; [reflexivity|constructor]|discriminate].
  - destruct s as [|c r]; [exists []; split; [reflexivity|constructor]|].
    cbn [brackets] in H. apply andb_true_iff in H. destruct H as [Hc H]. apply N.eqb_eq in Hc. subst c.
    pose proof (take_until_spec 93 r) as T. destruct (take_until 93 r) as [inner [rest|]]; [|discriminate].
    destruct T as [-> _]. apply andb_true_iff in H. destruct H as [H Hb]. apply andb_true_iff in H. destruct H as [Hm _].
    destruct (IH _ Hb) as [members [-> HF]].
    exists (inner :: members). split; [|constructor; assumption].
    cbn [map List.concat]. unfold bracketed. cbn [app]. rewrite <- app_assoc. reflexivity.
Qed.

Lemma brackets_complete members : Forall (fun m => member_name m = true) members ->
  forall fuel, (List.length (List.concat (map bracketed members)) <= fuel)%nat ->
  brackets fuel (List.concat (map bracketed members)) = true.
Proof.
  induction 1 as [|m members Hm HF IH]; intros fuel Hlen.
  - destruct fuel; reflexivity.
  - cbn [map List.concat] in *. unfold bracketed in *. cbn [app] in *. rewrite <- app_assoc in *. cbn [app] in *.
    destruct fuel as [|f]; [cbn [List.length] in Hlen; lia|].
    cbn [brackets]. rewrite N.eqb_refl. cbn [andb].
    rewrite take_until_app by (apply member_name_no_bracket; auto).
    rewrite Hm. cbn [andb].
    assert (existsb (N.eqb 91) m = false) as ->.
    { destruct (existsb (N.eqb 91) m) eqn:E; [|reflexivity].
      apply existsb_exists in E. destruct E as [c [Hin Hc]]. apply N.eqb_eq in Hc. subst c.
      exfalso. exact (member_name_no_bracket m 91%N Hm (or_introl eq_refl) Hin). }
    cbn [negb andb]. apply IH.
    cbn [List.length] in Hlen. rewrite app_length in Hlen. cbn [List.length] in Hlen. lia.
Qed.

Theorem supported_parameter_grammar k : supported_parameter k = true <-> well_formed_parameter k.
Proof.
  unfold supported_parameter, well_formed_parameter, parameter_name. split.
  - pose proof (take_until_spec 91 k) as T. destruct (take_until 91 k) as [family rest].
    intro H. apply andb_true_iff in H. destruct H as [H Hb]. apply andb_true_iff in H. destruct H as [Hm Hl].
    destruct rest as [r|].
    + destruct T as [-> _]. destruct (brackets_sound _ _ Hb) as [members [Heq HF]].
      exists family, members. rewrite Heq. repeat split; auto.
      intro Hlow. rewrite Hlow in Hl. apply bytes_eqb_eq. assumption.
    + destruct T as [-> _]. exists family, []. cbn [map List.concat]. rewrite app_nil_r. repeat split; auto.
      intro Hlow. rewrite Hlow in Hl. apply bytes_eqb_eq. assumption.
  - intros (family & members & -> & Hm & HF & Hp).
    assert (Hno : ~ In 91%N family) by (apply member_name_no_bracket; auto).
    destruct members as [|m members].
    + cbn [map List.concat]. rewrite app_nil_r, take_until_none by assumption. rewrite Hm. cbn [andb].
      rewrite andb_true_r. destruct (forallb is_lower_az family) eqn:E; [|reflexivity].
      rewrite (Hp eq_refl). apply bytes_eqb_refl.
    + remember (List.concat (map bracketed (m :: members))) as tail eqn:Ht.
      assert (exists r, tail = 91%N :: r) as [r Hr].
      { subst tail. cbn [map List.concat]. unfold bracketed. cbn [app]. eauto. }
      rewrite Hr. rewrite take_until_app by assumption. rewrite Hm. cbn [andb].
      apply andb_true_iff. split.
      * destruct (forallb is_lower_az family) eqn:E; [|reflexivity]. rewrite (Hp eq_refl). apply bytes_eqb_refl.
      * rewrite <- Hr, Ht. apply brackets_complete; [assumption|]. rewrite app_length. lia.
Qed.

(** ** the identity clause in plain terms: GET / PATCH of /{type}/{id} without errors.  The data is
    one resource object with the path's type and id; every relationship object belongs to a
    relationship definition [d] of the type and carries exactly the standard self/related links of
    THIS type, id and relationship name, overlaid with the links [d]'s resolver supplied for the
    value [val] the application returned for this request (nothing else enters: the answer is a
    function of the request and the schema) *)
Theorem fetch_identity pmt choose (Hchoose : choose_ok choose) sch rq st ct v data top c t id :
  serve_http fixed pmt choose sch rq = Resp st ct (WDoc v data [] top) c ->
  endpoint_of sch (rq_path rq) = EResource t id -> rq_method rq <> s_DELETE ->
  exists i val, data = WOne i /\ w_type i = rt_name t /\ w_id i = id /\
            links_equal top [(s_self, rq_path rq)] = true /\
            resource_value rq t id = Some val /\
            (forall name rel, In (name, rel) (w_rels i) ->
               exists d, In d (rt_rels t) /\ rd_name d = name /\
                 links_equal (rel_links rel)
                   (overlay (standard_links (rt_name t) id name) (rel_links (supplied d val false))) = true).
Proof.
  intros Hs Hep Hm.
  pose proof (ja_resource_identity pmt choose Hchoose sch rq st ct v data top c Hs) as H.
  unfold identity_and_links in H. rewrite Hep in H. rewrite (is_method_neq _ _ Hm) in H.
  destruct data as [| |i|l]; try discriminate.
  destruct (item_is (rt_name t) id i) eqn:HI; cbn [negb] in H; [|discriminate].
  destruct (links_equal top [(s_self, rq_path rq)]) eqn:HT; cbn [negb] in H; [|discriminate].
  destruct (resource_value rq t id) as [val|] eqn:HV; [|discriminate].
  destruct (item_rels_ok t val i) eqn:HL; [|discriminate].
  unfold item_is in HI. apply andb_true_iff in HI. destruct HI as [H1 H2].
  apply bytes_eqb_eq in H1. apply bytes_eqb_eq in H2.
  exists i, val. repeat split; auto.
  intros name rel Hin. unfold item_rels_ok in HL. rewrite forallb_forall in HL. specialize (HL _ Hin).
  unfold rel_object_ok in HL. cbn [fst snd] in HL. apply existsb_exists in HL. destruct HL as [d [Hd HL]].
  apply andb_true_iff in HL. destruct HL as [HL _]. apply andb_true_iff in HL. destruct HL as [Hn HL].
  apply bytes_eqb_eq in Hn. rewrite H1, H2 in HL. exists d. auto.
Qed.

(** ** (3) C19_respects_equiv: the Spec does not see the order of object members, so agreement of
    model and implementation modulo that order transfers every theorem about the oracle *)
From Coq Require Import Permutation.

Lemma forallb_perm {A} (f : A -> bool) l l' : Permutation l l' -> forallb f l = forallb f l'.
Proof.
  induction 1 as [|x l l' _ IH|x y l|l l' l'' _ IH1 _ IH2]; cbn [forallb]; try congruence.
  destruct (f x), (f y); reflexivity.
Qed.
Lemma existsb_perm {A} (f : A -> bool) l l' : Permutation l l' -> existsb f l = existsb f l'.
Proof.
  induction 1 as [|x l l' _ IH|x y l|l l' l'' _ IH1 _ IH2]; cbn [existsb]; try congruence.
  destruct (f x), (f y); reflexivity.
Qed.
Lemma forallb_ext_eq {A} (f g : A -> bool) l : (forall x, f x = g x) -> forallb f l = forallb g l.
Proof. intro H. induction l as [|x l IH]; cbn [forallb]; [reflexivity|]. rewrite H, IH. reflexivity. Qed.

Lemma links_equal_perm_l x x' y : Permutation x x' -> links_equal x y = links_equal x' y.
Proof.
  intro P. unfold links_equal. rewrite (forallb_perm _ _ _ P). f_equal.
  apply forallb_ext_eq. intro kv. apply existsb_perm. assumption.
Qed.

Lemma forallb_Forall2 {A} (R : A -> A -> Prop) (f g : A -> bool) l l' :
  Forall2 R l l' -> (forall a b, R a b -> f a = g b) -> forallb f l = forallb g l'.
Proof.
  intros H E. induction H as [|a b l l' Hab _ IH]; cbn [forallb]; [reflexivity|]. rewrite (E _ _ Hab), IH. reflexivity.
Qed.

Lemma meta_names_equal_perm_l x x' y :
  Permutation (map fst x) (map fst x') -> meta_names_equal x y = meta_names_equal x' y.
Proof.
  intro P. unfold meta_names_equal. rewrite (forallb_perm _ _ _ P). f_equal.
  apply forallb_ext_eq. intro k. apply existsb_perm. assumption.
Qed.

Lemma existsb_ext_eq {A} (f g : A -> bool) l : (forall x, f x = g x) -> existsb f l = existsb g l.
Proof. intro H. induction l as [|x l IH]; cbn [existsb]; [reflexivity|]. rewrite H, IH. reflexivity. Qed.

Lemma rel_object_ok_equiv ty id t v x y : rel_equiv x y -> rel_object_ok ty id t v x = rel_object_ok ty id t v y.
Proof.
  intros (Hn & Hl & _ & Hm). unfold rel_object_ok. apply existsb_ext_eq. intro d.
  rewrite Hn, (links_equal_perm_l _ _ _ Hl), (meta_names_equal_perm_l _ _ _ Hm). reflexivity.
Qed.

Lemma item_rels_ok_equiv t v a b : witem_equiv a b -> item_rels_ok t v a = item_rels_ok t v b.
Proof.
  intros (Ht & Hi & _ & l & P & F). unfold item_rels_ok. rewrite (forallb_perm _ _ _ P).
  eapply forallb_Forall2; [exact F|]. intros x y H. rewrite Ht, Hi. apply rel_object_ok_equiv. assumption.
Qed.

Lemma fetched_item_ok_equiv sch a b : witem_equiv a b -> fetched_item_ok sch a = fetched_item_ok sch b.
Proof.
  intro H. pose proof H as (Ht & Hi & _). unfold fetched_item_ok. rewrite Ht, Hi.
  destruct (lookup_type sch (w_type b)) as [t'|]; [|reflexivity]. destruct (rt_get t') as [g|]; [|reflexivity].
  destruct (g (w_id b)); try reflexivity. apply item_rels_ok_equiv. assumption.
Qed.

Lemma item_is_equiv ty id a b : witem_equiv a b -> item_is ty id a = item_is ty id b.
Proof. intros (Ht & Hi & _). unfold item_is. rewrite Ht, Hi. reflexivity. Qed.

Lemma is_identifier_equiv a b : witem_equiv a b -> is_identifier a = is_identifier b.
Proof.
  intros (_ & _ & Pa & l & P & F). unfold is_identifier.
  destruct (w_attrs a) as [|x xs].
  - apply Permutation_nil in Pa. rewrite Pa.
    destruct (w_rels a) as [|r rs].
    + apply Permutation_nil in P. subst l. inversion F. reflexivity.
    + destruct (w_rels b); [|reflexivity]. inversion F; subst. apply Permutation_sym, Permutation_nil in P. discriminate.
  - destruct (w_attrs b); [|reflexivity]. apply Permutation_sym, Permutation_nil in Pa. discriminate.
Qed.

Lemma sub_identities_equiv ids : forall l l', Forall2 witem_equiv l l' -> sub_identities l ids = sub_identities l' ids.
Proof.
  induction ids as [|r ids IH]; intros l l' F.
  - destruct F; reflexivity.
  - destruct F as [|a b l l' Hab F]; [reflexivity|]. cbn [sub_identities].
    rewrite (item_is_equiv _ _ _ _ Hab). destruct (item_is (r_type r) (r_id r) b).
    + apply IH. assumption.
    + apply IH. constructor; assumption.
Qed.

Lemma identities_are_equiv ids : forall l l', Forall2 witem_equiv l l' -> identities_are l ids = identities_are l' ids.
Proof.
  induction ids as [|r ids IH]; intros l l' F.
  - destruct F; reflexivity.
  - destruct F as [|a b l l' Hab F]; [reflexivity|]. cbn [identities_are].
    rewrite (item_is_equiv _ _ _ _ Hab), (IH _ _ F). reflexivity.
Qed.

Lemma data_is_equiv od d d' : wdata_equiv d d' -> data_is od d = data_is od d'.
Proof.
  intro H. destruct d as [| |a|l], d' as [| |b|l']; cbn [wdata_equiv] in H; try contradiction; try reflexivity;
    destruct od as [[|r|ids]|]; cbn [data_is]; try reflexivity.
  - apply item_is_equiv. assumption.
  - apply identities_are_equiv. assumption.
Qed.

Definition items_of (d : wdata) : list witem := match d with WOne i => [i] | WMany l => l | _ => [] end.
Lemma identifiers_equiv d d' : wdata_equiv d d' -> forallb is_identifier (items_of d) = forallb is_identifier (items_of d').
Proof.
  intro H. destruct d as [| |a|l], d' as [| |b|l']; cbn [wdata_equiv] in H; try contradiction; try reflexivity; cbn [items_of forallb].
  - rewrite (is_identifier_equiv _ _ H). reflexivity.
  - eapply forallb_Forall2; [exact H|]. intros; apply is_identifier_equiv; assumption.
Qed.

Lemma identity_and_links_equiv sch rq d d' top top' :
  wdata_equiv d d' -> Permutation top top' -> identity_and_links sch rq d top = identity_and_links sch rq d' top'.
Proof.
  intros Hd Ht. unfold identity_and_links. cbv zeta.
  destruct (endpoint_of sch (rq_path rq)) as [|t|t id|t id name|t id name]; [reflexivity| | | |].
  - destruct (decode_body (dec_resource_request false) (rq_body rq)); [|reflexivity].
    destruct (rt_create t); [|reflexivity].
    destruct d as [| |a|l], d' as [| |b|l']; cbn [wdata_equiv] in Hd; try contradiction; try reflexivity.
    rewrite (item_is_equiv _ _ _ _ Hd), (links_equal_perm_l top top' _ Ht).
    destruct (fst _); try reflexivity. rewrite (item_rels_ok_equiv _ _ _ _ Hd). reflexivity.
  - destruct d as [| |a|l], d' as [| |b|l']; cbn [wdata_equiv] in Hd; try contradiction; try reflexivity.
    rewrite (item_is_equiv _ _ _ _ Hd), (links_equal_perm_l top top' _ Ht).
    destruct (resource_value rq t id); [|reflexivity]. rewrite (item_rels_ok_equiv _ _ _ _ Hd). reflexivity.
  - rewrite (links_equal_perm_l top top' _ Ht).
    destruct (negb (links_equal top' [(s_self, rq_path rq)])); [reflexivity|].
    destruct (endpoint_linkage t id name) as [[|rr|ids]|];
      destruct d as [| |a|l], d' as [| |b|l']; cbn [wdata_equiv] in Hd; try contradiction; try reflexivity.
    + rewrite (item_is_equiv _ _ _ _ Hd). destruct (negb (item_is (r_type rr) (r_id rr) b)); [reflexivity|].
      destruct (lookup_type sch (r_type rr)) as [t'|]; [|reflexivity].
      destruct (resource_value rq t' (r_id rr)); [|reflexivity]. rewrite (item_rels_ok_equiv _ _ _ _ Hd). reflexivity.
    + rewrite (sub_identities_equiv _ _ _ Hd).
      rewrite (forallb_Forall2 _ _ _ _ _ Hd (fetched_item_ok_equiv sch)). reflexivity.
  - destruct (lookup_rel t name) as [dd|]; [|reflexivity].
    destruct (relationship_reply rq t id name dd) as [extra custom].
    rewrite (links_equal_perm_l top top' _ Ht).
    change (match d with WOne i => [i] | WMany l => l | _ => [] end) with (items_of d).
    change (match d' with WOne i => [i] | WMany l => l | _ => [] end) with (items_of d').
    rewrite (identifiers_equiv _ _ Hd).
    destruct (negb (links_equal top' _)); [reflexivity|]. destruct (negb (forallb is_identifier (items_of d'))); [reflexivity|].
    destruct custom as [od|].
    + rewrite (data_is_equiv od _ _ Hd). reflexivity.
    + destruct d as [| |a|l], d' as [| |b|l']; cbn [wdata_equiv] in Hd; try contradiction; reflexivity.
Qed.

Lemma data_present_equiv d d' : wdata_equiv d d' -> data_present d = data_present d'.
Proof. destruct d, d'; cbn; intros []; reflexivity || reflexivity. Qed.

Theorem oracle_respects_equiv pmt sch rq st ct b b' :
  wbody_equiv b b' ->
  oracle pmt sch rq (Some (st, ct, Some b)) = oracle pmt sch rq (Some (st, ct, Some b')).
Proof.
  intro H. destruct b as [v d e l|s], b' as [v' d' e' l'|s']; cbn [wbody_equiv] in H; try contradiction.
  - destruct H as (-> & Hd & -> & Hl). unfold oracle, document_invariants.
    rewrite (data_present_equiv _ _ Hd).
    destruct (negb (bytes_eqb ct media_type)); [reflexivity|]. destruct v'; [|reflexivity].
    destruct (data_present d' && negb match e' with [] => true | _ :: _ => false end); [reflexivity|].
    destruct e'.
    + destruct ((200 <=? st)%Z && (st <? 300)%Z); [|reflexivity].
      destruct (ref_status pmt sch rq) as [rule allowed]. destruct (negb (existsb (Z.eqb st) allowed)); [reflexivity|].
      apply identity_and_links_equiv; assumption.
    + destruct (Z.eqb st (errors_status (b :: e'))); reflexivity.
  - subst. reflexivity.
Qed.

(** ** (4) histories.  A history is a sequence of requests served by ONE API value.  The model has no
    state: its answer to the n-th request is [serve_http] of that request alone, whatever came
    before, and every answer of a history satisfies the Spec of its own request (in particular the
    relationship links of every resource object are those of ITS OWN type, id and relationship
    overlaid with what the resolver supplied for ITS value).  That the real handler behaves like
    this stateless function is what the correspondence check observes on histories against
    resolvers whose Links maps are shared between resources, relationships and requests. *)
Definition serve_history pmt choose sch (rqs : list request) : list outcome :=
  map (serve_http fixed pmt choose sch) rqs.

Theorem history_spec pmt choose (Hchoose : choose_ok choose) sch rqs :
  Forall2 (fun rq o => exists st bd c, o = Resp st media_type bd c /\
                                        oracle pmt sch rq (Some (st, media_type, Some bd)) = None)
          rqs (serve_history pmt choose sch rqs).
Proof.
  induction rqs as [|rq rqs IH]; [constructor|]. cbn [serve_history map]. constructor; [|exact IH].
  destruct (model_satisfies_spec pmt choose Hchoose sch rq) as (st & bd & c & E & O). exists st, bd, c. auto.
Qed.

(** the answer to a request does not depend on where in a history it is served *)
Theorem history_independent pmt choose sch before before' rq :
  nth (List.length before) (serve_history pmt choose sch (before ++ [rq])) Panic =
  nth (List.length before') (serve_history pmt choose sch (before' ++ [rq])) Panic.
Proof.
  unfold serve_history. rewrite !map_app, !app_nth2, !map_length, !Nat.sub_diag by (rewrite map_length; apply le_n).
  reflexivity.
Qed.

(** ** (5) a request document followed by anything but white space is malformed: 400, no call *)
Theorem trailing_bytes_400 pmt choose (Hchoose : choose_ok choose) sch rq t id j tail :
  acceptable pmt (rq_accept rq) = true -> forallb supported_parameter (rq_query rq) = true ->
  endpoint_of sch (rq_path rq) = EResource t id -> rq_method rq = s_PATCH ->
  rq_body rq = BJson j tail -> forallb is_json_space tail = false ->
  answer_status (serve_http fixed pmt choose sch rq) = Some 400%Z.
Proof.
  intros Ha Hq Hep Hm Hb Ht. apply (status_in_singleton pmt choose Hchoose sch rq).
  unfold ref_status. rewrite Ha, Hq. cbn [negb]. unfold operation_status. rewrite Hep, Hm.
  replace (is_method s_PATCH s_GET) with false by reflexivity.
  replace (is_method s_PATCH s_PATCH) with true by reflexivity.
  unfold update_rule, decode_body. rewrite Hb, Ht. reflexivity.
Qed.

(** ** (6) the request body as bytes: everything proved about [serve_http] for every tree holds for
    the tree the reader of JsonApiBytes.v makes of any text *)
From ApiFu Require Import JsonApi.JsonApiBytes.
Theorem raw_request_spec pmt choose (Hchoose : choose_ok choose) sch in_range (r : raw_request) :
  exists st bd c, serve_http fixed pmt choose sch (request_of in_range r) = Resp st media_type bd c /\
                  oracle pmt sch (request_of in_range r) (Some (st, media_type, Some bd)) = None.
Proof. apply model_satisfies_spec. assumption. Qed.

(** a text that is not exactly one JSON value (empty, truncated, followed by further bytes - a NUL
    byte included) is no request document *)
Theorem not_one_value_no_document in_range text :
  Transport.JsonText.parse_text Transport.EnvelopeModel.StdJson (numval_of in_range) text <> Transport.EnvelopeModel.PTree
    match Transport.JsonText.parse_text Transport.EnvelopeModel.StdJson (numval_of in_range) text with
    | Transport.EnvelopeModel.PTree j => j | Transport.EnvelopeModel.PTrail j => j | Transport.EnvelopeModel.PBad => Transport.EnvelopeModel.JNull end ->
  body_of_text in_range text = BNone.
Proof.
  unfold body_of_text. destruct (Transport.JsonText.parse_text Transport.EnvelopeModel.StdJson (numval_of in_range) text); try reflexivity.
  intro H. contradiction H. reflexivity.
Qed.

(** ** (7) NewSchema: what holds of every schema definition it accepts (the names are the member
    names of the JSON:API text - Spec's [member_name] -, "id" and "type" name neither an attribute
    nor a relationship, no name is both, every attribute has a resolver, every relationship a
    resolver that can resolve), and conversely *)
Definition type_def_valid (t : type_def) : Prop :=
  member_name (td_name t) = true /\
  (forall a, In a (td_attrs t) ->
     member_name (fst a) = true /\ fst a <> s_id /\ fst a <> s_type /\ snd a = true /\
     ~ In (fst a) (map fst (td_rels t))) /\
  (forall r, In r (td_rels t) ->
     member_name (fst r) = true /\ fst r <> s_id /\ fst r <> s_type /\ snd r <> RKNone /\ snd r <> RKLib false).

Lemma reserved_name_false n : reserved_name n = false <-> n <> s_id /\ n <> s_type.
Proof.
  unfold reserved_name. split.
  - intro H. apply orb_false_iff in H. destruct H as [H1 H2]. split; intro E; subst; rewrite bytes_eqb_refl in *; discriminate.
  - intros [H1 H2]. apply orb_false_iff. split; apply bytes_eqb_neq; assumption.
Qed.

Theorem new_schema_accepts d : new_schema_ok d = true <-> Forall type_def_valid d.
Proof.
  unfold new_schema_ok. rewrite forallb_forall, Forall_forall. split; intros H t Ht; specialize (H t Ht).
  - destruct (member_name_ok (td_name t)) eqn:En; cbn [negb] in H; [|discriminate].
    unfold type_def_ok in H. apply andb_true_iff in H. destruct H as [Ha Hr]. rewrite forallb_forall in Ha, Hr.
    split; [rewrite member_name_eq; assumption|]. split.
    + intros a Hin. specialize (Ha a Hin). unfold attr_def_ok in Ha.
      destruct (reserved_name (fst a)) eqn:R; [discriminate|]. apply reserved_name_false in R. destruct R as [R1 R2].
      destruct (existsb (fun r => bytes_eqb (fst r) (fst a)) (td_rels t)) eqn:X; [discriminate|].
      destruct (member_name_ok (fst a)) eqn:M; cbn [negb] in Ha; [|discriminate].
      rewrite member_name_eq. repeat split; auto.
      intro Hi. apply in_map_iff in Hi. destruct Hi as [r [E Hr']].
      assert (existsb (fun r => bytes_eqb (fst r) (fst a)) (td_rels t) = true) as C; [|congruence].
      apply existsb_exists. exists r. split; [assumption|]. rewrite E. apply bytes_eqb_refl.
    + intros r Hin. specialize (Hr r Hin). unfold rel_def_ok in Hr.
      destruct (reserved_name (fst r)) eqn:R; [discriminate|]. apply reserved_name_false in R. destruct R as [R1 R2].
      destruct (member_name_ok (fst r)) eqn:M; cbn [negb] in Hr; [|discriminate].
      rewrite member_name_eq. repeat split; auto; intro E; rewrite E in Hr; discriminate.
  - destruct H as (Hn & Ha & Hr). rewrite member_name_eq in Hn. rewrite Hn. cbn [negb].
    unfold type_def_ok. apply andb_true_iff. split; apply forallb_forall.
    + intros a Hin. destruct (Ha a Hin) as (M & R1 & R2 & S & N). unfold attr_def_ok.
      rewrite (proj2 (reserved_name_false _) (conj R1 R2)).
      destruct (existsb (fun r => bytes_eqb (fst r) (fst a)) (td_rels t)) eqn:X.
      { exfalso. apply N. apply existsb_exists in X. destruct X as [r [Hr' E]]. apply bytes_eqb_eq in E.
        apply in_map_iff. exists r. auto. }
      rewrite member_name_eq in M. rewrite M. exact S.
    + intros r Hin. destruct (Hr r Hin) as (M & R1 & R2 & K1 & K2). unfold rel_def_ok.
      rewrite (proj2 (reserved_name_false _) (conj R1 R2)). rewrite member_name_eq in M. rewrite M. cbn [negb].
      destruct (snd r) as [|[|]|]; try reflexivity; contradiction.
Qed.
