(** * JsonApi/JsonApiExtras.v — (1) the Spec's parser of query parameter names accepts exactly the
    declarative grammar family *( "[" member "]" ) (validation of the Spec itself); (2) the identity
    clause of the Spec in plain terms for the resource endpoint (C19) *)
From Coq Require Import List NArith ZArith Bool String Lia.
From ApiFu Require Import Base.Sexp JsonApi.JsonApiModel JsonApi.JsonApiSpec JsonApi.JsonApiProofs.
Import ListNotations.
Open Scope string_scope.
Open Scope list_scope.

Lemma member_name_no_bracket m c : member_name m = true -> (c = 91%N \/ c = 93%N) -> ~ In c m.
Proof.
  intros H Hc Hin. rewrite member_name_eq in H.
  pose proof (member_name_ok_chars _ _ H Hin) as A. destruct Hc; subst; discriminate A.
Qed.

Lemma take_until_app c h t : ~ In c h -> take_until c (h ++ c :: t) = (h, Some t).
Proof.
  induction h as [|x h IH]; intro H; cbn [app take_until].
  - rewrite N.eqb_refl. reflexivity.
  - destruct (N.eqb x c) eqn:E. { apply N.eqb_eq in E. exfalso. apply H. left; auto. }
    rewrite IH by (intro; apply H; right; assumption). reflexivity.
Qed.

Lemma take_until_none c h : ~ In c h -> take_until c h = (h, None).
Proof.
  induction h as [|x h IH]; intro H; cbn [take_until]; [reflexivity|].
  destruct (N.eqb x c) eqn:E. { apply N.eqb_eq in E. exfalso. apply H. left; auto. }
  rewrite IH by (intro; apply H; right; assumption). reflexivity.
Qed.

Lemma brackets_sound fuel : forall s, brackets fuel s = true ->
  exists members, s = List.concat (map bracketed members) /\ Forall (fun m => member_name m = true) members.
Proof.
  induction fuel as [|f IH]; intros s H.
  - destruct s; [exists []; split; [reflexivity|constructor]|discriminate].
  - destruct s as [|c r]; [exists []; split; [reflexivity|constructor]|].
    cbn [brackets] in H. apply andb_true_iff in H. destruct H as [Hc H]. apply N.eqb_eq in Hc. subst c.
    pose proof (take_until_spec 93 r) as T. destruct (take_until 93 r) as [inner [rest|]]; [|discriminate].
    destruct T as [-> _]. apply andb_true_iff in H. destruct H as [H Hb]. apply andb_true_iff in H. destruct H as [Hm _].
    destruct (IH _ Hb) as [members [-> HF]].
    exists (inner :: members). split; [|constructor; assumption].
    cbn [map List.concat]. unfold bracketed. cbn [app]. rewrite <- app_assoc. reflexivity.
Qed.

Lemma brackets_complete members : Forall (fun m => member_name m = true) members ->
  forall fuel, (List.length (List.concat (map bracketed members)) <= fuel)%nat ->
  brackets fuel (List.concat (map bracketed members)) = true.
Proof.
  induction 1 as [|m members Hm HF IH]; intros fuel Hlen.
  - destruct fuel; reflexivity.
  - cbn [map List.concat] in *. unfold bracketed in *. cbn [app] in *. rewrite <- app_assoc in *. cbn [app] in *.
    destruct fuel as [|f]; [cbn [List.length] in Hlen; lia|].
    cbn [brackets]. rewrite N.eqb_refl. cbn [andb].
    rewrite take_until_app by (apply member_name_no_bracket; auto).
    rewrite Hm. cbn [andb].
    assert (existsb (N.eqb 91) m = false) as ->.
    { destruct (existsb (N.eqb 91) m) eqn:E; [|reflexivity].
      apply existsb_exists in E. destruct E as [c [Hin Hc]]. apply N.eqb_eq in Hc. subst c.
      exfalso. exact (member_name_no_bracket m 91%N Hm (or_introl eq_refl) Hin). }
    cbn [negb andb]. apply IH.
    cbn [List.length] in Hlen. rewrite app_length in Hlen. cbn [List.length] in Hlen. lia.
Qed.

Theorem supported_parameter_grammar k : supported_parameter k = true <-> well_formed_parameter k.
Proof.
  unfold supported_parameter, well_formed_parameter, parameter_name. split.
  - pose proof (take_until_spec 91 k) as T. destruct (take_until 91 k) as [family rest].
    intro H. apply andb_true_iff in H. destruct H as [H Hb]. apply andb_true_iff in H. destruct H as [Hm Hl].
    destruct rest as [r|].
    + destruct T as [-> _]. destruct (brackets_sound _ _ Hb) as [members [Heq HF]].
      exists family, members. rewrite Heq. repeat split; auto.
      intro Hlow. rewrite Hlow in Hl. apply bytes_eqb_eq. assumption.
    + destruct T as [-> _]. exists family, []. cbn [map List.concat]. rewrite app_nil_r. repeat split; auto.
      intro Hlow. rewrite Hlow in Hl. apply bytes_eqb_eq. assumption.
  - intros (family & members & -> & Hm & HF & Hp).
    assert (Hno : ~ In 91%N family) by (apply member_name_no_bracket; auto).
    destruct members as [|m members].
    + cbn [map List.concat]. rewrite app_nil_r, take_until_none by assumption. rewrite Hm. cbn [andb].
      rewrite andb_true_r. destruct (forallb is_lower_az family) eqn:E; [|reflexivity].
      rewrite (Hp eq_refl). apply bytes_eqb_refl.
    + remember (List.concat (map bracketed (m :: members))) as tail eqn:Ht.
      assert (exists r, tail = 91%N :: r) as [r Hr].
      { subst tail. cbn [map List.concat]. unfold bracketed. cbn [app]. eauto. }
      rewrite Hr. rewrite take_until_app by assumption. rewrite Hm. cbn [andb].
      apply andb_true_iff. split.
      * destruct (forallb is_lower_az family) eqn:E; [|reflexivity]. rewrite (Hp eq_refl). apply bytes_eqb_refl.
      * rewrite <- Hr, Ht. apply brackets_complete; [assumption|]. rewrite app_length. lia.
Qed.

(** ** the identity clause in plain terms: GET / PATCH of /{type}/{id} without errors *)
Theorem fetch_identity pmt choose (Hchoose : choose_ok choose) sch rq st ct v data top c t id :
  serve_http fixed pmt choose sch rq = Resp st ct (WDoc v data [] top) c ->
  endpoint_of sch (rq_path rq) = EResource t id -> rq_method rq <> s_DELETE ->
  exists i, data = WOne i /\ w_type i = rt_name t /\ w_id i = id /\
            links_equal top [(s_self, rq_path rq)] = true /\
            (forall name rel, In (name, rel) (w_rels i) ->
                              links_equal (rel_links rel) (standard_links (rt_name t) id name) = true).
Proof.
  intros Hs Hep Hm.
  pose proof (ja_resource_identity pmt choose Hchoose sch rq st ct v data top c Hs) as H.
  unfold identity_and_links in H. rewrite Hep in H. rewrite (is_method_neq _ _ Hm) in H.
  destruct data as [| |i|l].
  - destruct (negb (forallb item_links_standard [])); discriminate.
  - destruct (negb (forallb item_links_standard [])); discriminate.
  - destruct (forallb item_links_standard [i]) eqn:HL; cbn [negb] in H; [|discriminate].
    destruct (item_is (rt_name t) id i) eqn:HI; cbn [negb] in H; [|discriminate].
    destruct (links_equal top [(s_self, rq_path rq)]) eqn:HT; cbn [negb] in H; [|discriminate].
    unfold item_is in HI. apply andb_true_iff in HI. destruct HI as [H1 H2].
    apply bytes_eqb_eq in H1. apply bytes_eqb_eq in H2.
    exists i. repeat split; auto.
    intros name rel Hin. cbn [forallb] in HL. rewrite andb_true_r in HL. unfold item_links_standard in HL.
    rewrite forallb_forall in HL. specialize (HL _ Hin). cbn [fst snd] in HL. rewrite H1, H2 in HL. exact HL.
  - destruct (negb (forallb item_links_standard l)); discriminate.
Qed.

(** ** (3) C19_respects_equiv: the Spec does not see the order of object members, so agreement of
    model and implementation modulo that order transfers every theorem about the oracle *)
From Coq Require Import Permutation.

Lemma forallb_perm {A} (f : A -> bool) l l' : Permutation l l' -> forallb f l = forallb f l'.
Proof.
  induction 1 as [|x l l' _ IH|x y l|l l' l'' _ IH1 _ IH2]; cbn [forallb]; try congruence.
  destruct (f x), (f y); reflexivity.
Qed.
Lemma existsb_perm {A} (f : A -> bool) l l' : Permutation l l' -> existsb f l = existsb f l'.
Proof.
  induction 1 as [|x l l' _ IH|x y l|l l' l'' _ IH1 _ IH2]; cbn [existsb]; try congruence.
  destruct (f x), (f y); reflexivity.
Qed.
Lemma forallb_ext_eq {A} (f g : A -> bool) l : (forall x, f x = g x) -> forallb f l = forallb g l.
Proof. intro H. induction l as [|x l IH]; cbn [forallb]; [reflexivity|]. rewrite H, IH. reflexivity. Qed.

Lemma links_equal_perm_l x x' y : Permutation x x' -> links_equal x y = links_equal x' y.
Proof.
  intro P. unfold links_equal. rewrite (forallb_perm _ _ _ P). f_equal.
  apply forallb_ext_eq. intro kv. apply existsb_perm. assumption.
Qed.

Lemma forallb_Forall2 {A} (R : A -> A -> Prop) (f g : A -> bool) l l' :
  Forall2 R l l' -> (forall a b, R a b -> f a = g b) -> forallb f l = forallb g l'.
Proof.
  intros H E. induction H as [|a b l l' Hab _ IH]; cbn [forallb]; [reflexivity|]. rewrite (E _ _ Hab), IH. reflexivity.
Qed.

Lemma item_links_standard_equiv a b : witem_equiv a b -> item_links_standard a = item_links_standard b.
Proof.
  intros (Ht & Hi & _ & l & P & F). unfold item_links_standard. rewrite (forallb_perm _ _ _ P).
  eapply forallb_Forall2; [exact F|]. intros x y (Hn & Hl & _). rewrite Ht, Hi, Hn. apply links_equal_perm_l. assumption.
Qed.

Lemma item_is_equiv ty id a b : witem_equiv a b -> item_is ty id a = item_is ty id b.
Proof. intros (Ht & Hi & _). unfold item_is. rewrite Ht, Hi. reflexivity. Qed.

Lemma is_identifier_equiv a b : witem_equiv a b -> is_identifier a = is_identifier b.
Proof.
  intros (_ & _ & Pa & l & P & F). unfold is_identifier.
  destruct (w_attrs a) as [|x xs].
  - apply Permutation_nil in Pa. rewrite Pa.
    destruct (w_rels a) as [|r rs].
    + apply Permutation_nil in P. subst l. inversion F. reflexivity.
    + destruct (w_rels b); [|reflexivity]. inversion F; subst. apply Permutation_sym, Permutation_nil in P. discriminate.
  - destruct (w_attrs b); [|reflexivity]. apply Permutation_sym, Permutation_nil in Pa. discriminate.
Qed.

Lemma sub_identities_equiv ids : forall l l', Forall2 witem_equiv l l' -> sub_identities l ids = sub_identities l' ids.
Proof.
  induction ids as [|r ids IH]; intros l l' F.
  - destruct F; reflexivity.
  - destruct F as [|a b l l' Hab F]; [reflexivity|]. cbn [sub_identities].
    rewrite (item_is_equiv _ _ _ _ Hab). destruct (item_is (r_type r) (r_id r) b).
    + apply IH. assumption.
    + apply IH. constructor; assumption.
Qed.

Lemma identity_and_links_equiv sch rq d d' top top' :
  wdata_equiv d d' -> Permutation top top' -> identity_and_links sch rq d top = identity_and_links sch rq d' top'.
Proof.
  intros Hd Ht. unfold identity_and_links. cbv zeta.
  destruct d as [| |a|l], d' as [| |b|l']; cbn [wdata_equiv] in Hd; try contradiction; cbn [forallb];
    try rewrite (item_links_standard_equiv _ _ Hd); try rewrite (is_identifier_equiv _ _ Hd);
    try rewrite (forallb_Forall2 _ _ _ _ _ Hd item_links_standard_equiv);
    try rewrite (forallb_Forall2 _ _ _ _ _ Hd is_identifier_equiv);
    destruct (endpoint_of sch (rq_path rq)) as [|t|t id|t id name|t id name];
    try destruct (decode_body (dec_resource_request false) (rq_body rq));
    try destruct (rt_create t);
    try destruct (endpoint_linkage t id name) as [[|rr|ids]|];
    try destruct (lookup_rel t name) as [dd|];
    rewrite ?(links_equal_perm_l top top' _ Ht);
    try rewrite (item_is_equiv _ _ _ _ Hd); try rewrite (sub_identities_equiv _ _ _ Hd);
    reflexivity.
Qed.

Lemma data_present_equiv d d' : wdata_equiv d d' -> data_present d = data_present d'.
Proof. destruct d, d'; cbn; intros []; reflexivity || reflexivity. Qed.

Theorem oracle_respects_equiv pmt sch rq st ct b b' :
  wbody_equiv b b' ->
  oracle pmt sch rq (Some (st, ct, Some b)) = oracle pmt sch rq (Some (st, ct, Some b')).
Proof.
  intro H. destruct b as [v d e l|s], b' as [v' d' e' l'|s']; cbn [wbody_equiv] in H; try contradiction.
  - destruct H as (-> & Hd & -> & Hl). unfold oracle, document_invariants.
    rewrite (data_present_equiv _ _ Hd).
    destruct (negb (bytes_eqb ct media_type)); [reflexivity|]. destruct v'; [|reflexivity].
    destruct (data_present d' && negb match e' with [] => true | _ :: _ => false end); [reflexivity|].
    destruct e'.
    + destruct ((200 <=? st)%Z && (st <? 300)%Z); [|reflexivity].
      destruct (ref_status pmt sch rq) as [rule allowed]. destruct (negb (existsb (Z.eqb st) allowed)); [reflexivity|].
      apply identity_and_links_equiv; assumption.
    + destruct (Z.eqb st (errors_status (b :: e'))); reflexivity.
  - subst. reflexivity.
Qed.
