(** * JsonApi/JsonApiCheck.v — C19 correspondence: decode a case (schema, parse table of
    mime.ParseMediaType, request, what the real handler answered), run the model and the Spec
    oracle, compare.  Executable only (extracted / vm_compute). *)
From Coq Require Import List NArith ZArith Bool String.
From ApiFu Require Import Base.Sexp JsonApi.JsonApiModel JsonApi.JsonApiSpec JsonApi.JsonApiBytes.
Import ListNotations.
Open Scope string_scope.
Open Scope list_scope.

(** ** small helpers *)
Definition bind {A B} (o : option A) (f : A -> option B) : option B :=
  match o with Some x => f x | None => None end.
Notation "'do' x <- o ; k" := (bind o (fun x => k)) (at level 200, x pattern, o at level 100, k at level 200).

Definition sym_is (x : string) (s : sexp) : bool := is_sym x s.

(** lexicographic order on byte strings, insertion sort on keys (canonical order of Go maps) *)
Fixpoint bytes_leb (x y : bytes) : bool :=
  match x, y with
  | [], _ => true
  | _ :: _, [] => false
  | p :: xs, q :: ys => if N.ltb p q then true else if N.ltb q p then false else bytes_leb xs ys
  end.
Fixpoint insert_by {A} (key : A -> bytes) (x : A) (l : list A) : list A :=
  match l with
  | [] => [x]
  | y :: r => if bytes_leb (key x) (key y) then x :: l else y :: insert_by key x r
  end.
Definition sort_by {A} (key : A -> bytes) (l : list A) : list A := fold_right (insert_by key) [] l.

Fixpoint list_eqb {A} (eqb : A -> A -> bool) (x y : list A) : bool :=
  match x, y with
  | [], [] => true
  | p :: xs, q :: ys => eqb p q && list_eqb eqb xs ys
  | _, _ => false
  end.
Definition option_eqb {A} (eqb : A -> A -> bool) (x y : option A) : bool :=
  match x, y with
  | None, None => true
  | Some p, Some q => eqb p q
  | _, _ => false
  end.

(** ** decoding: application outcomes *)
Definition dec_err (s : sexp) : option err :=
  match tagged "err" s with
  | Some [st] => do x <- as_bytes st; Some {| e_status := x; e_meta_ok := true |}
  | Some [st; _] => do x <- as_bytes st; Some {| e_status := x; e_meta_ok := false |}    (* Meta does not marshal *)
  | _ => None
  end.

Definition dec_rid_pair (s : sexp) : option rid :=
  match s with
  | SL [t; i] => do tb <- as_bytes t; do ib <- as_bytes i; Some {| r_type := tb; r_id := ib |}
  | _ => None
  end.

Definition dec_hout (s : sexp) : option houtcome :=
  if sym_is "nil" s then Some HNil
  else match tagged "val" s with
       | Some [v] => do n <- as_N v; Some (HVal n)
       | _ => do e <- dec_err s; Some (HErr e)
       end.

Definition dec_aout (s : sexp) : option aoutcome :=
  if sym_is "ok" s then Some (AVal true)
  else if sym_is "unser" s then Some (AVal false)
  else do e <- dec_err s; Some (AErr e).

Definition dec_one_out (s : sexp) : option (result (option rid)) :=
  if sym_is "null" s then Some (Ok None)
  else match tagged "id" s with
       | Some [t; i] => do r <- dec_rid_pair (SL [t; i]); Some (Ok (Some r))
       | _ => do e <- dec_err s; Some (Er e)
       end.

(** to-many outcomes: a list of identifiers, an error, or (for add/remove) "echo the members" *)
Inductive many_out := MIds (l : list rid) | MErr (e : err) | MEcho.
Definition dec_many_out (s : sexp) : option many_out :=
  if sym_is "echo" s then Some MEcho
  else match tagged "ids" s with
       | Some l => do ids <- map_opt dec_rid_pair l; Some (MIds ids)
       | None => do e <- dec_err s; Some (MErr e)
       end.

(** tables indexed by the resource value: entry [v], the last entry beyond the end *)
Definition nth_or_last {A} (l : list A) (d : A) (v : N) : A := nth (N.to_nat v) l (last l d).

Definition dec_attr (s : sexp) : option attr_def :=
  match tagged "a" s with
  | Some [n; SL outs] =>
      do nb <- as_bytes n; do os <- map_opt dec_aout outs;
      Some {| ad_name := nb; ad_resolve := nth_or_last os (AVal true) |}
  | _ => None
  end.

Definition many_fun (os : list many_out) : N -> list rid -> result (list rid) :=
  fun v members => match nth_or_last os (MIds []) v with
                   | MIds l => Ok l
                   | MErr e => Er e
                   | MEcho => Ok members
                   end.

Definition dec_change (s : sexp) : option (option (N -> list rid -> result (list rid))) :=
  if sym_is "none" s then Some None
  else match tagged "outs" s with
       | Some outs => do os <- map_opt dec_many_out outs; Some (Some (many_fun os))
       | None => None
       end.

(** *** custom RelationshipResolver implementations: per resource value, an error or the
    types.Relationship returned: Links, Data (absent / linkage / for add and remove "echo the
    members"), Meta, and whether Data is included even when it was not requested *)
Definition dec_link_pairs (l : list sexp) : option links :=
  map_opt (fun e => match e with
                    | SL [k; v] => do kb <- as_bytes k; do vb <- as_bytes v; Some (kb, vb)
                    | _ => None
                    end) l.
Inductive cdata := CDAbsent | CDLink (l : linkage) | CDEcho.
Record crel_out := { co_links : links; co_data : cdata; co_meta : list (bytes * bool); co_always : bool }.
Inductive custom_out := COk (o : crel_out) | CErr (e : err).

Definition dec_cdata (s : sexp) : option cdata :=
  if sym_is "absent" s then Some CDAbsent
  else if sym_is "echo" s then Some CDEcho
  else if sym_is "null" s then Some (CDLink LNull)
  else match untag s with
       | Some (t, l) =>
           if String.eqb t "one" then
             match l with [ty; i] => do r <- dec_rid_pair (SL [ty; i]); Some (CDLink (LOne r)) | _ => None end
           else if String.eqb t "many" then do ids <- map_opt dec_rid_pair l; Some (CDLink (LMany ids))
           else None
       | None => None
       end.

Definition dec_custom_out (s : sexp) : option custom_out :=
  match tagged "crel" s with
  | Some [lk; d; m; a] =>
      do ll <- tagged "links" lk; do lks <- dec_link_pairs ll;
      do dd <- tagged "data" d;
      do cd <- match dd with [x] => dec_cdata x | _ => None end;
      do ml <- tagged "meta" m;
      do ms <- map_opt (fun e => match e with
                                 | SL [k; ok] => do kb <- as_bytes k; do okb <- as_bool ok; Some (kb, okb)
                                 | _ => None
                                 end) ml;
      do ab <- as_bool a;
      Some (COk {| co_links := lks; co_data := cd; co_meta := ms; co_always := ab |})
  | _ => do e <- dec_err s; Some (CErr e)
  end.

Definition custom_relationship (o : crel_out) (include_data : bool) (members : list rid) : relationship :=
  {| rel_links := co_links o;
     rel_data := if include_data then match co_data o with
                                      | CDAbsent => None
                                      | CDLink l => Some l
                                      | CDEcho => Some (LMany members)
                                      end
                 else None;
     rel_meta := co_meta o |}.
Definition default_custom_out : custom_out :=
  COk {| co_links := []; co_data := CDAbsent; co_meta := []; co_always := false |}.
Definition custom_resolve (os : list custom_out) (v : N) (requested : bool) : result relationship :=
  match nth_or_last os default_custom_out v with
  | CErr e => Er e
  | COk o => Ok (custom_relationship o (requested || co_always o) [])
  end.
Definition custom_change (os : list custom_out) (v : N) (members : list rid) : result relationship :=
  match nth_or_last os default_custom_out v with
  | CErr e => Er e
  | COk o => Ok (custom_relationship o true members)
  end.

Definition dec_rel (s : sexp) : option rel_def :=
  match untag s with
  | Some (t, [n; SL outs; SL adds; SL removes]) =>
      if String.eqb t "custom" then
        do nb <- as_bytes n; do os <- map_opt dec_custom_out outs;
        do az <- map_opt dec_custom_out adds; do rz <- map_opt dec_custom_out removes;
        Some {| rd_name := nb; rd_resolver := Custom (custom_resolve os) (custom_change az) (custom_change rz) |}
      else None
  | Some (t, [n; d; SL outs]) =>
      if String.eqb t "one" then
        do nb <- as_bytes n; do db <- as_bool d; do os <- map_opt dec_one_out outs;
        Some {| rd_name := nb; rd_resolver := ToOne db (nth_or_last os (Ok None)) |}
      else None
  | Some (t, [n; d; SL outs; add; remove]) =>
      if String.eqb t "many" then
        do nb <- as_bytes n; do db <- as_bool d; do os <- map_opt dec_many_out outs;
        do a <- dec_change add; do r <- dec_change remove;
        Some {| rd_name := nb;
                rd_resolver := ToMany db (fun v => match nth_or_last os (MIds []) v with
                                                   | MIds l => Ok l
                                                   | MErr e => Er e
                                                   | MEcho => Ok []
                                                   end) a r |}
      else None
  | _ => None
  end.

(** handler tables keyed by the resource id, with a default *)
Definition dec_table {A} (dec : sexp -> option A) (s : sexp) : option (option (bytes -> A)) :=
  if sym_is "none" s then Some None
  else match tagged "tbl" s with
       | Some [SL entries; d] =>
           do es <- map_opt (fun e => match e with
                                      | SL [k; v] => do kb <- as_bytes k; do x <- dec v; Some (kb, x)
                                      | _ => None
                                      end) entries;
           do dv <- dec d;
           Some (Some (fun id => match find (fun p => bytes_eqb (fst p) id) es with
                                 | Some p => snd p
                                 | None => dv
                                 end))
       | _ => None
       end.

Definition dec_delete_out (s : sexp) : option (option err) :=
  if sym_is "ok" s then Some None else do e <- dec_err s; Some (Some e).

Definition dec_create (s : sexp) : option (option (list bytes -> list (bytes * linkage) -> houtcome * rid)) :=
  if sym_is "none" s then Some None
  else match tagged "creates" s with
       | Some [h; t; i] => do ho <- dec_hout h; do r <- dec_rid_pair (SL [t; i]); Some (Some (fun _ _ => (ho, r)))
       | _ => None
       end.

Definition dec_rtype (s : sexp) : option rtype :=
  match tagged "rt" s with
  | Some [n; SL attrs; SL rels; g; p; c; d] =>
      do nb <- as_bytes n; do az <- map_opt dec_attr attrs; do rz <- map_opt dec_rel rels;
      do gf <- dec_table dec_hout g; do pf <- dec_table dec_hout p; do cf <- dec_create c;
      do df <- dec_table dec_delete_out d;
      Some {| rt_name := nb; rt_attrs := az; rt_rels := rz; rt_get := gf;
              rt_patch := option_map (fun f id (_ : list bytes) (_ : list (bytes * linkage)) => f id) pf;
              rt_create := cf; rt_delete := df |}
  | _ => None
  end.

(** ** decoding: JSON trees *)
Fixpoint dec_json (s : sexp) : option json :=
  match s with
  | SSym x =>
      if String.eqb x "null" then Some JNull
      else if String.eqb x "true" then Some (JBool true)
      else if String.eqb x "false" then Some (JBool false)
      else if String.eqb x "num" then Some JNum
      else None
  | SL (SSym t :: args) =>
      if String.eqb t "s" then
        match args with
        | [SStr x] => Some (JStr x)
        | _ => None
        end
      else if String.eqb t "a" then
        match (fix go (l : list sexp) : option (list json) :=
                 match l with
                 | [] => Some []
                 | x :: r => match dec_json x, go r with
                             | Some j, Some js => Some (j :: js)
                             | _, _ => None
                             end
                 end) args with
        | Some l => Some (JArr l)
        | None => None
        end
      else if String.eqb t "o" then
        match (fix go (l : list sexp) : option (list (bytes * json)) :=
                 match l with
                 | [] => Some []
                 | SL [SStr k; v] :: r => match dec_json v, go r with
                                          | Some j, Some js => Some ((k, j) :: js)
                                          | _, _ => None
                                          end
                 | _ => None
                 end) args with
        | Some l => Some (JObj l)
        | None => None
        end
      else None
  | _ => None
  end.

(** the harness never repeats a member name (ASCII case folded) inside one object *)
Fixpoint no_dup_bytes (l : list bytes) : bool :=
  match l with
  | [] => true
  | x :: r => negb (existsb (bytes_eqb x) r) && no_dup_bytes r
  end.
Fixpoint json_members_distinct (j : json) : bool :=
  match j with
  | JArr l => (fix go (l : list json) : bool := match l with [] => true | x :: r => json_members_distinct x && go r end) l
  | JObj f => no_dup_bytes (map (fun kv => lower (fst kv)) f) &&
              (fix go (l : list (bytes * json)) : bool :=
                 match l with [] => true | (_, x) :: r => json_members_distinct x && go r end) f
  | _ => true
  end.

Definition dec_body (in_range : bytes -> bool) (s : sexp) : option body :=
  if sym_is "none" s then Some BNone
  else match tagged "raw" s with Some [t] => do tb <- as_bytes t; Some (body_of_text in_range tb) | _ =>
  match tagged "json" s with Some _ => None | None => None end end.
Definition dec_body_tree (s : sexp) : option body :=
  if sym_is "none" s then Some BNone
  else match tagged "json" s with
       | Some [t] => do j <- dec_json t; Some (BJson j [])
       | Some [t; tl] => do j <- dec_json t; do tb <- as_bytes tl; Some (BJson j tb)
       | _ => None
       end.

(** ** decoding: request, parse table *)
Definition dec_request (s : sexp) : option request :=
  match tagged "req" s with
  | Some l =>
      do m <- field1 "method" l; do mb <- as_bytes m;
      do p <- field1 "path" l; do pb <- as_bytes p;
      do acc <- field "accept" l; do accb <- map_opt as_bytes acc;
      do q <- field "query" l; do qb <- map_opt as_bytes q;
      do nums <- match field "nums" l with
                 | Some ns => map_opt (fun e => match e with
                                                | SL [t; ok] => do tb <- as_bytes t; do okb <- as_bool ok; Some (tb, okb)
                                                | _ => None
                                                end) ns
                 | None => Some []
                 end;
      let in_range := fun tok => match find (fun p => bytes_eqb (fst p) tok) nums with Some p => snd p | None => false end in
      do bd <- field1 "body" l;
      do _ <- match tagged "raw" bd with
              | Some [SStr t] => if forallb (fun tok => existsb (fun p => bytes_eqb (fst p) tok) nums) (number_tokens t)
                                 then Some tt else None
              | _ => Some tt
              end;
      do bdy <- match tagged "raw" bd with Some _ => dec_body in_range bd | None => dec_body_tree bd end;
      Some {| rq_method := mb; rq_path := pb; rq_accept := accb; rq_query := qb; rq_body := bdy |}
  | None => None
  end.

Definition pmt_table := list (bytes * pm_result).
Definition dec_pmt_entry (s : sexp) : option (bytes * pm_result) :=
  match s with
  | SL [seg; mt; SL keys; e] =>
      do sb <- as_bytes seg; do mb <- as_bytes mt; do ks <- map_opt as_bytes keys; do eb <- as_bool e;
      Some (sb, {| pm_type := mb; pm_params := ks; pm_err := eb |})
  | _ => None
  end.
Definition pmt_of (T : pmt_table) (seg : bytes) : pm_result :=
  match find (fun p => bytes_eqb (fst p) seg) T with
  | Some p => snd p
  | None => {| pm_type := []; pm_params := []; pm_err := true |}
  end.
Definition pmt_has (T : pmt_table) (seg : bytes) : bool := existsb (fun p => bytes_eqb (fst p) seg) T.

(** ** decoding: the observation *)
Definition dec_links (l : list sexp) : option links :=
  map_opt (fun e => match e with
                    | SL [k; v] => do kb <- as_bytes k; do vb <- as_bytes v; Some (kb, vb)
                    | _ => None
                    end) l.

Definition dec_linkage (s : sexp) : option linkage :=
  if sym_is "null" s then Some LNull
  else match untag s with
       | Some (t, [ty; i]) => if String.eqb t "one" then do r <- dec_rid_pair (SL [ty; i]); Some (LOne r) else
                              if String.eqb t "many" then do ids <- map_opt dec_rid_pair [ty; i]; Some (LMany ids) else None
       | Some (t, l) => if String.eqb t "many" then do ids <- map_opt dec_rid_pair l; Some (LMany ids) else None
       | None => None
       end.

Definition dec_opt_linkage (s : sexp) : option (option linkage) :=
  if sym_is "absent" s then Some None else do l <- dec_linkage s; Some (Some l).

Definition dec_wrel (s : sexp) : option (bytes * relationship) :=
  match s with
  | SL [n; lk; d] =>
      do nb <- as_bytes n; do ll <- tagged "links" lk; do lks <- dec_links ll;
      do dd <- tagged "data" d;
      match dd with
      | [x] => do ol <- dec_opt_linkage x; Some (nb, {| rel_links := lks; rel_data := ol; rel_meta := [] |})
      | _ => None
      end
  | SL [n; lk; d; m] =>
      do nb <- as_bytes n; do ll <- tagged "links" lk; do lks <- dec_links ll;
      do dd <- tagged "data" d; do ml <- tagged "meta" m; do ms <- map_opt as_bytes ml;
      match dd with
      | [x] => do ol <- dec_opt_linkage x;
               Some (nb, {| rel_links := lks; rel_data := ol; rel_meta := map (fun k => (k, true)) ms |})
      | _ => None
      end
  | _ => None
  end.

Definition dec_witem (s : sexp) : option witem :=
  match s with
  | SL [t; i; a; r] =>
      do tb <- as_bytes t; do ib <- as_bytes i;
      do al <- tagged "attrs" a; do ab <- map_opt as_bytes al;
      do rl <- tagged "rels" r; do rb <- map_opt dec_wrel rl;
      Some {| w_type := tb; w_id := ib; w_attrs := ab; w_rels := rb |}
  | _ => None
  end.

Definition dec_wdata (s : sexp) : option wdata :=
  if sym_is "absent" s then Some WAbsent
  else if sym_is "null" s then Some WNull
  else match untag s with
       | Some (t, l) =>
           if String.eqb t "one" then match l with [x] => do i <- dec_witem x; Some (WOne i) | _ => None end
           else if String.eqb t "many" then do is <- map_opt dec_witem l; Some (WMany is)
           else None
       | None => None
       end.

Definition dec_pairs_linkage (l : list sexp) : option (list (bytes * linkage)) :=
  map_opt (fun e => match e with
                    | SL [k; v] => do kb <- as_bytes k; do lv <- dec_linkage v; Some (kb, lv)
                    | _ => None
                    end) l.

Definition dec_call (s : sexp) : option call :=
  match untag s with
  | Some (t, args) =>
      if String.eqb t "patch" then
        match args with
        | [i; SL a; SL r] => do ib <- as_bytes i; do ab <- map_opt as_bytes a; do rb <- dec_pairs_linkage r;
                             Some (CPatch ib ab rb)
        | _ => None
        end
      else if String.eqb t "create" then
        match args with
        | [SL a; SL r] => do ab <- map_opt as_bytes a; do rb <- dec_pairs_linkage r; Some (CCreate ab rb)
        | _ => None
        end
      else if String.eqb t "delete" then
        match args with
        | [i] => do ib <- as_bytes i; Some (CDelete ib)
        | _ => None
        end
      else if String.eqb t "add" then do ids <- map_opt dec_rid_pair args; Some (CAdd ids)
      else if String.eqb t "remove" then do ids <- map_opt dec_rid_pair args; Some (CRemove ids)
      else None
  | None => None
  end.

(** what the harness saw: a panic, a body that is no JSON:API-shaped object, or a response *)
Inductive observed :=
| OPanic
| OResp (status : Z) (ctype : bytes) (body : option wbody) (calls : list call).

(** after the request the harness compares every Links / Meta map its resolvers own with the
    snapshot taken when it was made: [true] = all as they were *)
Definition dec_maps_unchanged (s : sexp) : bool :=
  match tagged "obs" s with
  | Some l => match field1 "maps" l with Some x => negb (sym_is "written" x) | None => true end
  | None => true
  end.

Definition dec_wbody (s : sexp) : option (option wbody) :=
  match untag s with
  | Some (t, args) =>
      if String.eqb t "unparsable" then Some None
      else if String.eqb t "bare" then
        match args with
        | [st] => do sb <- as_bytes st; Some (Some (WBareError sb))
        | _ => None
        end
      else if String.eqb t "doc" then
        do jv <- field1 "jsonapi" args; do ov <- as_option as_bytes jv;
        do dv <- field1 "data" args; do wd <- dec_wdata dv;
        do ev <- field "errors" args; do es <- map_opt as_bytes ev;
        do lv <- field "links" args; do lks <- dec_links lv;
        Some (Some (WDoc ov wd es lks))
      else None
  | None => None
  end.

Definition dec_observed (s : sexp) : option observed :=
  match tagged "obs" s with
  | Some [x] => if sym_is "panic" x then Some OPanic else None
  | Some l =>
      do st <- field1 "status" l; do sz <- as_Z st;
      do ct <- field1 "ctype" l; do cb <- as_bytes ct;
      do bd <- field1 "body" l; do wb <- dec_wbody bd;
      do cs <- field "calls" l; do cl <- map_opt dec_call cs;
      Some (OResp sz cb wb cl)
  | None => None
  end.

(** ** comparison, modulo the order of Go maps (members are sorted by name on both sides) *)
Definition linkage_eqb (x y : linkage) : bool :=
  match x, y with
  | LNull, LNull => true
  | LOne p, LOne q => rid_eqb p q
  | LMany p, LMany q => list_eqb rid_eqb p q
  | _, _ => false
  end.
Definition pair_eqb {A} (eqb : A -> A -> bool) (x y : bytes * A) : bool :=
  bytes_eqb (fst x) (fst y) && eqb (snd x) (snd y).
Definition links_eqb (x y : links) : bool :=
  list_eqb (pair_eqb bytes_eqb) (sort_by fst x) (sort_by fst y).
Definition relationship_eqb (x y : relationship) : bool :=
  links_eqb (rel_links x) (rel_links y) && option_eqb linkage_eqb (rel_data x) (rel_data y) &&
  list_eqb bytes_eqb (sort_by (fun k => k) (map fst (rel_meta x))) (sort_by (fun k => k) (map fst (rel_meta y))).
Definition witem_eqb (x y : witem) : bool :=
  bytes_eqb (w_type x) (w_type y) && bytes_eqb (w_id x) (w_id y) &&
  list_eqb bytes_eqb (sort_by (fun k => k) (w_attrs x)) (sort_by (fun k => k) (w_attrs y)) &&
  list_eqb (pair_eqb relationship_eqb) (sort_by fst (w_rels x)) (sort_by fst (w_rels y)).
Definition wdata_eqb (x y : wdata) : bool :=
  match x, y with
  | WAbsent, WAbsent => true
  | WNull, WNull => true
  | WOne p, WOne q => witem_eqb p q
  | WMany p, WMany q => list_eqb witem_eqb p q
  | _, _ => false
  end.
Definition wbody_eqb (x y : wbody) : bool :=
  match x, y with
  | WDoc v d e l, WDoc v' d' e' l' =>
      option_eqb bytes_eqb v v' && wdata_eqb d d' && list_eqb bytes_eqb e e' && links_eqb l l'
  | WBareError s, WBareError s' => bytes_eqb s s'
  | _, _ => false
  end.
Definition rels_arg_eqb (x y : list (bytes * linkage)) : bool :=
  list_eqb (pair_eqb linkage_eqb) (sort_by fst x) (sort_by fst y).
Definition attrs_arg_eqb (x y : list bytes) : bool :=
  list_eqb bytes_eqb (sort_by (fun k => k) x) (sort_by (fun k => k) y).
Definition call_eqb (x y : call) : bool :=
  match x, y with
  | CPatch i a r, CPatch i' a' r' => bytes_eqb i i' && attrs_arg_eqb a a' && rels_arg_eqb r r'
  | CCreate a r, CCreate a' r' => attrs_arg_eqb a a' && rels_arg_eqb r r'
  | CDelete i, CDelete i' => bytes_eqb i i'
  | CAdd m, CAdd m' => list_eqb rid_eqb m m'
  | CRemove m, CRemove m' => list_eqb rid_eqb m m'
  | _, _ => false
  end.

(** the implementation's choice among several failing resolvers of one resource, read off the
    answer: the candidate whose status is the one reported (the first candidate otherwise) *)
Definition choose_from (o : observed) (l : list err) : err :=
  let reported := match o with
                  | OResp _ _ (Some (WDoc _ _ (s :: _) _)) _ => Some s
                  | _ => None
                  end in
  let dflt := hd {| e_status := []; e_meta_ok := true |} l in
  match reported with
  | Some s => match find (fun e => e_meta_ok e && bytes_eqb (e_status e) s) l with
              | Some e => e
              | None => match find (fun e => negb (e_meta_ok e)) l with Some e => e | None => dflt end
              end
  | None => dflt
  end.

Definition agrees (m : outcome) (o : observed) : option string :=
  match m, o with
  | Panic, OPanic => None
  | Panic, _ => Some "model-panics"
  | Resp _ _ _ _, OPanic => Some "implementation-panics"
  | Resp st ct bd c, OResp st' ct' bd' cs =>
      if negb (Z.eqb st st') then Some "status"
      else if negb (bytes_eqb ct ct') then Some "content-type"
      else if negb (match bd' with Some x => wbody_eqb bd x | None => false end) then Some "body"
      else if negb (list_eqb call_eqb (match c with Some x => [x] | None => [] end) cs) then Some "application-call"
      else None
  end.

(** ** evidence classes *)
Definition status_class (st : Z) : string :=
  if Z.eqb st 200 then "s200" else if Z.eqb st 201 then "s201" else if Z.eqb st 400 then "s400"
  else if Z.eqb st 404 then "s404" else if Z.eqb st 405 then "s405" else if Z.eqb st 406 then "s406"
  else if Z.eqb st 409 then "s409" else if Z.eqb st 500 then "s500" else "s-other".

Definition classes (pmt : bytes -> pm_result) (sch : schema) (rq : request) (m : outcome) : list string :=
  let gate := is_acceptable pmt (accept_instances fixed (rq_accept rq)) && forallb query_key_ok (rq_query rq) in
  let ep := endpoint_of sch (rq_path rq) in
  let epc := match ep with
             | EUnknown => "ep-unknown" | ECollection _ => "ep-collection" | EResource _ _ => "ep-resource"
             | ERelated _ _ _ => "ep-related" | ERelationship _ _ _ => "ep-relationship"
             end in
  let known := match ep with EUnknown => false | _ => true end in
  match m with
  | Panic => ["panic"]
  | Resp st _ bd c =>
      [status_class st; epc] ++
      (if gate && known then ["nontrivial"] else []) ++
      (if negb gate then ["gated"] else []) ++
      (match c with Some _ => ["app-call"] | None => [] end) ++
      (match bd with
       | WDoc _ WAbsent [] _ => ["doc-empty"]
       | WDoc _ WAbsent _ _ => ["doc-errors"]
       | WDoc _ WNull _ _ => ["data-null"]
       | WDoc _ (WOne _) _ _ => ["data-one"]
       | WDoc _ (WMany _) _ _ => ["data-many"]
       | WBareError _ => ["bare-error"]
       end) ++
      (if existsb (fun t => existsb (fun d => match rd_resolver d with Custom _ _ _ => true | _ => false end) (rt_rels t)) sch
       then ["custom-resolver"] else []) ++
      (match rq_body rq with
       | BJson j _ => if json_members_distinct j then [] else ["repeated-member"]
       | BNone => []
       end) ++
      (match rq_body rq with
       | BJson _ (_ :: _ as tl) => if forallb is_json_space tl then ["body-trailing-space"] else ["body-trailing-bytes"]
       | _ => []
       end) ++
      (match bd with
       | WDoc _ (WOne i) _ _ =>
           if existsb (fun nr => negb (Nat.eqb (List.length (rel_links (snd nr))) 2)) (w_rels i) then ["extra-links"] else []
       | WDoc _ (WMany l) _ _ =>
           if existsb (fun i => existsb (fun nr => negb (Nat.eqb (List.length (rel_links (snd nr))) 2)) (w_rels i)) l then ["extra-links"] else []
       | WDoc _ _ [] (_ :: _ :: _ :: _) => ["extra-links"]
       | _ => []
       end) ++
      (match bd with
       | WDoc _ (WOne i) _ _ =>
           if existsb (fun nr => match rel_meta (snd nr) with [] => false | _ => true end) (w_rels i) then ["relationship-meta"] else []
       | _ => []
       end) ++
      (match execute_request fixed pmt (fun l => hd {| e_status := []; e_meta_ok := true |} l) sch rq with
       | Some r => if negb (data_marshals (rs_data r)) then ["marshal-fallback"] else []
       | None => []
       end)
  end.

(** ** the check: one request against the schema, or a history of requests against ONE API value
    (the model answers each request of a history on its own: it has no state) *)
Definition check_step (sch : schema) (ps : list sexp) (r o : sexp) : sexp + list string :=
  match map_opt dec_pmt_entry ps, dec_request r, dec_observed o with
  | Some T, Some rq, Some ob =>
      if negb (forallb (pmt_has T) (accept_instances fixed (rq_accept rq))) then inl (v_bad "pmt-table-incomplete")
      else if negb (dec_maps_unchanged o) then inl (v_oracle_fail "resolver-map-written" [])
      else
        let pmt := pmt_of T in
        let choose := choose_from ob in
        let st := match ob with OPanic => None | OResp s _ _ _ => Some s end in
        match oracle pmt sch rq (match ob with
                                 | OPanic => None
                                 | OResp s ct bd _ => Some (s, ct, bd)
                                 end) with
        | Some key => inl (v_oracle_fail key [match st with Some s => SZ s | None => SSym "panic" end])
        | None =>
            let m := serve_http fixed pmt choose sch rq in
            match agrees m ob with
            | Some what => inl (v_mismatch what [match m with Resp s _ _ _ => SZ s | Panic => SSym "panic" end])
            | None => inr (classes pmt sch rq m)
            end
        end
  | None, _, _ => inl (v_bad "decode-pmt")
  | _, None, _ => inl (v_bad "decode-request")
  | _, _, None => inl (v_bad "decode-observed")
  end.

Fixpoint check_steps (sch : schema) (steps : list sexp) (acc : list string) : sexp :=
  match steps with
  | [] => v_ok acc
  | st :: rest =>
      match tagged "step" st with
      | Some l =>
          match field "pmt" l, field1 "request" l, field1 "observed" l with
          | Some ps, Some r, Some o =>
              match check_step sch ps r o with
              | inl verdict => verdict
              | inr cls => check_steps sch rest (match rest with [] => acc ++ cls | _ => acc end)
              end
          | _, _, _ => v_bad "step-fields"
          end
      | None => v_bad "step-shape"
      end
  end.

(** *** NewSchema cases: a schema definition and whether the real NewSchema returned an error *)
Definition dec_rel_kind (s : sexp) : option rel_kind :=
  if sym_is "nil" s then Some RKNone
  else if sym_is "lib" s then Some (RKLib true)
  else if sym_is "lib-no-resolve" s then Some (RKLib false)
  else if sym_is "custom" s then Some RKCustom
  else None.
Definition dec_type_def (s : sexp) : option type_def :=
  match tagged "td" s with
  | Some [n; SL attrs; SL rels] =>
      do nb <- as_bytes n;
      do az <- map_opt (fun e => match e with
                                 | SL [k; ok] => do kb <- as_bytes k; do okb <- as_bool ok; Some (kb, okb)
                                 | _ => None
                                 end) attrs;
      do rz <- map_opt (fun e => match e with
                                 | SL [k; kind] => do kb <- as_bytes k; do kd <- dec_rel_kind kind; Some (kb, kd)
                                 | _ => None
                                 end) rels;
      Some {| td_name := nb; td_attrs := az; td_rels := rz |}
  | _ => None
  end.
(** the first reason (in list order) a definition is refused: an evidence class only *)
Definition refusal_class (d : list type_def) : string :=
  if negb (forallb (fun t => member_name_ok (td_name t)) d) then "refused-type-name"
  else if existsb (fun t => existsb (fun a => reserved_name (fst a)) (td_attrs t) || existsb (fun r => reserved_name (fst r)) (td_rels t)) d
       then "refused-reserved-name"
  else if existsb (fun t => existsb (fun a => existsb (fun r => bytes_eqb (fst r) (fst a)) (td_rels t)) (td_attrs t)) d
       then "refused-attribute-is-relationship"
  else if existsb (fun t => negb (forallb (fun a => member_name_ok (fst a)) (td_attrs t) && forallb (fun r => member_name_ok (fst r)) (td_rels t))) d
       then "refused-member-name"
  else "refused-no-resolver".
Definition check_new_schema (defs : list sexp) (acc : sexp) : sexp :=
  match map_opt dec_type_def defs, as_bool acc with
  | Some d, Some accepted =>
      if Bool.eqb (new_schema_ok d) accepted then
        v_ok (if accepted then ["new-schema"; "schema-accepted"] else ["new-schema"; "schema-refused"; refusal_class d])
      else if accepted then v_oracle_fail "schema-accepted-although-invalid" []
      else v_mismatch "schema-refused" []
  | _, _ => v_bad "decode-newschema"
  end.

Definition check (c : sexp) : sexp :=
  match tagged "case" c with
  | Some l =>
      match field "newschema" l, field1 "accepted" l with
      | Some defs, Some acc => check_new_schema defs acc
      | _, _ =>
      match field "schema" l with
      | Some ts =>
          match map_opt dec_rtype ts with
          | Some sch =>
              match field "steps" l with
              | Some steps => check_steps sch steps ["history"]
              | None =>
                  match field "pmt" l, field1 "request" l, field1 "observed" l with
                  | Some ps, Some r, Some o =>
                      match check_step sch ps r o with
                      | inl verdict => verdict
                      | inr cls => v_ok cls
                      end
                  | _, _, _ => v_bad "fields"
                  end
              end
          | None => v_bad "decode-schema"
          end
      | None => v_bad "fields"
      end
      end
  | None => v_bad "shape"
  end.
