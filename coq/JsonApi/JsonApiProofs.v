(** * JsonApi/JsonApiProofs.v — the model of the JSON:API handler refines the Spec (C19) *)
From Coq Require Import List NArith ZArith Bool String Lia.
From ApiFu Require Import Base.Sexp JsonApi.JsonApiModel JsonApi.JsonApiSpec.
Import ListNotations.
Open Scope string_scope.
Open Scope list_scope.

(** Go map iteration meets *one of* the failing resolvers first *)
Definition choose_ok (choose : list err -> err) : Prop := forall e es, In (choose (e :: es)) (e :: es).

(** ** Part 1: Accept negotiation *)
Lemma existsb_negb_forallb {A} (p : A -> bool) l : existsb (fun x => negb (p x)) l = negb (forallb p l).
Proof. induction l as [|x l IH]; simpl; [reflexivity|]. rewrite IH. destruct (p x); reflexivity. Qed.

Lemma existsb_flat_map {A B} (f : A -> list B) (p : B -> bool) l :
  existsb p (flat_map f l) = existsb (fun x => existsb p (f x)) l.
Proof. induction l as [|x l IH]; simpl; [reflexivity|]. rewrite existsb_app, IH. reflexivity. Qed.

Lemma is_acceptable_existsb pmt l : is_acceptable pmt l = existsb (fun r => usable_instance (pmt r)) l.
Proof.
  induction l as [|a l IH]; simpl; [reflexivity|].
  unfold usable_instance at 1. rewrite existsb_negb_forallb, IH.
  destruct (bytes_eqb (pm_type (pmt a)) media_type), (pm_err (pmt a)),
           (forallb (fun k => bytes_eqb k s_profile) (pm_params (pmt a))); reflexivity.
Qed.

Lemma acceptable_eq pmt lines : is_acceptable pmt (accept_instances fixed lines) = acceptable pmt lines.
Proof.
  unfold accept_instances, acceptable, media_ranges; simpl.
  rewrite is_acceptable_existsb, existsb_flat_map. reflexivity.
Qed.

(** ** Part 2: query parameter names: the handler's split-based test is the grammar of the Spec *)
Lemma take_until_spec c s :
  match take_until c s with
  | (h, Some t) => s = h ++ c :: t /\ ~ In c h
  | (h, None) => s = h /\ ~ In c h
  end.
Proof.
  induction s as [|x s IH]; simpl; [auto|].
  destruct (N.eqb x c) eqn:E.
  - apply N.eqb_eq in E; subst. simpl; auto.
  - apply N.eqb_neq in E. destruct (take_until c s) as [h [t|]]; destruct IH as [IH1 IH2]; subst; simpl; split; auto;
      intros [H|H]; auto.
Qed.

Lemma split_on_take sep s :
  split_on sep s = fst (take_until sep s) :: match snd (take_until sep s) with
                                             | None => []
                                             | Some r => split_on sep r
                                             end.
Proof.
  induction s as [|x s IH]; simpl; [reflexivity|].
  destruct (N.eqb x sep); simpl; [reflexivity|].
  rewrite IH. destruct (take_until sep s) as [h [t|]]; reflexivity.
Qed.

Lemma split_on_nonempty sep s : split_on sep s <> [].
Proof. rewrite split_on_take. discriminate. Qed.

Lemma last_rev_head {A} (l : list A) x r d : rev l = x :: r -> last l d = x.
Proof.
  intro H. assert (l = rev r ++ [x]) as ->.
  { rewrite <- (rev_involutive l), H. reflexivity. }
  apply last_last.
Qed.

Lemma member_name_eq n : member_name n = member_name_ok n.
Proof.
  unfold member_name, member_name_ok. destruct n as [|c0 n']; [reflexivity|].
  destruct (rev (c0 :: n')) as [|lst r] eqn:R.
  { apply (f_equal (@List.length N)) in R. rewrite rev_length in R. discriminate. }
  rewrite (last_rev_head _ _ _ 0%N R).
  destruct (forallb internally_allowed (c0 :: n')), (globally_allowed c0), (globally_allowed lst); reflexivity.
Qed.

Lemma member_name_ok_chars n c : member_name_ok n = true -> In c n -> internally_allowed c = true.
Proof.
  unfold member_name_ok. destruct n as [|c0 n']; [discriminate|].
  destruct (forallb internally_allowed (c0 :: n')) eqn:F; [|discriminate].
  intros _ H. rewrite forallb_forall in F. auto.
Qed.

Lemma part_ok_no_close p : ~ In 93%N p -> part_ok p = false.
Proof.
  intro H. unfold part_ok.
  destruct p as [|x p']; [reflexivity|].
  destruct (N.eqb (last (x :: p') 0%N) 93) eqn:E.
  - apply N.eqb_eq in E. exfalso. apply H. rewrite <- E.
    destruct (exists_last (l := x :: p')) as [l' [a Hl]]; [discriminate|]. rewrite Hl, last_last. apply in_or_app; right; left; reflexivity.
  - cbn [negb]. rewrite orb_true_r. reflexivity.
Qed.

Lemma forallb_part_ok_head_no_close p ps : ~ In 93%N p -> forallb part_ok (p :: ps) = false.
Proof. intro H. cbn [forallb]. rewrite (part_ok_no_close _ H). reflexivity. Qed.

Lemma split_on_app_no_sep sep h s : ~ In sep h ->
  split_on sep (h ++ s) = match split_on sep s with
                          | [] => [h]
                          | p :: ps => (h ++ p) :: ps
                          end.
Proof.
  induction h as [|x h IH]; intro H; simpl.
  - destruct (split_on sep s) eqn:E; [exfalso; eapply split_on_nonempty; eauto | reflexivity].
  - destruct (N.eqb x sep) eqn:E. { apply N.eqb_eq in E. exfalso. apply H. left; auto. }
    rewrite IH by (intro; apply H; right; assumption).
    destruct (split_on sep s); reflexivity.
Qed.

Lemma split_on_head_prefix sep s : exists p ps, split_on sep s = p :: ps /\ (forall c, In c p -> In c s).
Proof.
  rewrite split_on_take. eexists; eexists; split; [reflexivity|].
  pose proof (take_until_spec sep s) as H. destruct (take_until sep s) as [h [t|]]; simpl; destruct H as [-> _]; intros c Hc; auto.
  apply in_or_app; left; assumption.
Qed.

Lemma removelast_app_cons {A} (l : list A) x r : removelast (l ++ x :: r) = l ++ removelast (x :: r).
Proof. apply removelast_app. discriminate. Qed.

Lemma brackets_eq fuel r : (List.length r < fuel)%nat ->
  brackets fuel (91%N :: r) = forallb part_ok (split_on 91 r).
Proof.
  revert r. induction fuel as [|f IH]; intros r Hlen; [lia|].
  cbn [brackets]. rewrite N.eqb_refl. cbn [andb].
  pose proof (take_until_spec 93 r) as T. destruct (take_until 93 r) as [inner [rest|]].
  - destruct T as [-> Hno].
    destruct (existsb (N.eqb 91) inner) eqn:E.
    + (* a '[' before the first ']': the first part has no ']' *)
      rewrite andb_false_r; cbn [andb].
      apply existsb_exists in E. destruct E as [c [Hc Ec]]. apply N.eqb_eq in Ec. subst c.
      destruct (in_split _ _ Hc) as [l1 [l2 ->]].
      assert (exists l1' l2', l1 ++ 91%N :: l2 = l1' ++ 91%N :: l2' /\ ~ In 91%N l1') as [l1' [l2' [Heq Hn]]].
      { pose proof (take_until_spec 91 (l1 ++ 91%N :: l2)) as T. destruct (take_until 91 (l1 ++ 91%N :: l2)) as [h [t|]].
        - destruct T as [T1 T2]. eauto.
        - destruct T as [T1 T2]. exfalso. apply T2. rewrite <- T1. apply in_or_app; right; left; reflexivity. }
      rewrite Heq, <- app_assoc. cbn [app]. rewrite split_on_app_no_sep by assumption.
      cbn [split_on]. rewrite N.eqb_refl.
      symmetry. rewrite app_nil_r. apply forallb_part_ok_head_no_close.
      intro H93. apply Hno. rewrite Heq. apply in_or_app; left; assumption.
    + (* no '[' inside: the first part is inner ++ "]" ++ (rest up to the next '[') *)
      cbn [negb]. rewrite andb_true_r.
      assert (Hn91 : ~ In 91%N inner).
      { intro H. assert (existsb (N.eqb 91) inner = true) by (apply existsb_exists; exists 91%N; split; [assumption|apply N.eqb_refl]). congruence. }
      rewrite split_on_app_no_sep by assumption.
      cbn [split_on]. replace (N.eqb 93 91) with false by reflexivity.
      rewrite member_name_eq.
      destruct rest as [|c rest'].
      * cbn [split_on cons_head]. cbn [forallb]. rewrite andb_true_r.
        unfold part_ok. rewrite app_length. cbn [List.length]. replace (Nat.ltb (List.length inner + 1) 1) with false
          by (symmetry; apply Nat.ltb_ge; lia).
        rewrite last_last, N.eqb_refl, removelast_last. cbn [orb negb].
        destruct f; [cbn; rewrite andb_true_r|cbn [brackets]; rewrite andb_true_r]; destruct (member_name_ok inner); reflexivity.
      * destruct (N.eqb c 91) eqn:Ec.
        -- apply N.eqb_eq in Ec; subst c. cbn [split_on]. rewrite N.eqb_refl. cbn [cons_head].
           cbn [forallb]. rewrite <- IH by (rewrite app_length in Hlen; cbn [List.length] in Hlen; lia).
           unfold part_ok at 1. rewrite app_length. cbn [List.length].
           replace (Nat.ltb (List.length inner + 1) 1) with false by (symmetry; apply Nat.ltb_ge; lia).
           rewrite last_last, N.eqb_refl, removelast_last. cbn [orb negb]. rewrite negb_involutive. reflexivity.
        -- (* something other than '[' follows the ']' *)
           assert (brackets f (c :: rest') = false) as ->.
           { destruct f; cbn [brackets]; [reflexivity|]. rewrite Ec. reflexivity. }
           rewrite andb_false_r. symmetry.
           cbn [split_on]. rewrite Ec.
           destruct (split_on 91 rest') as [|p ps] eqn:Es; [exfalso; eapply split_on_nonempty; eauto|].
           cbn [cons_head forallb]. apply andb_false_intro1.
           unfold part_ok. apply negb_false_iff. apply orb_true_intro; right.
           apply negb_true_iff.
           rewrite removelast_app_cons.
           destruct (member_name_ok (inner ++ removelast (93%N :: c :: p))) eqn:M; [|reflexivity].
           exfalso. assert (internally_allowed 93 = true) as Habs; [|discriminate Habs].
           apply (member_name_ok_chars _ _ M). apply in_or_app; right. cbn [removelast]. left; reflexivity.
  - (* no ']' at all *)
    destruct T as [-> Hno]. symmetry.
    destruct (split_on_head_prefix 91 inner) as [p [ps [-> Hp]]].
    apply forallb_part_ok_head_no_close. intro H. apply Hno. auto.
Qed.

Lemma query_key_ok_eq k : query_key_ok k = supported_parameter k.
Proof.
  unfold query_key_ok, supported_parameter. rewrite split_on_take.
  destruct (take_until 91 k) as [family rest] eqn:T. cbn [fst snd].
  rewrite member_name_eq.
  assert (forallb part_ok match rest with None => [] | Some r => split_on 91 r end =
          match rest with None => true | Some r => brackets (S (List.length k)) (91%N :: r) end) as ->.
  { destruct rest as [r|]; [|reflexivity]. symmetry. apply brackets_eq.
    pose proof (take_until_spec 91 k) as H. rewrite T in H. destruct H as [-> _].
    rewrite app_length. cbn [List.length]. lia. }
  destruct (match rest with None => true | Some r => brackets (S (List.length k)) (91%N :: r) end),
           (member_name_ok family), (forallb is_lower_az family), (bytes_eqb family s_page); reflexivity.
Qed.

Lemma query_ok_eq q : forallb query_key_ok q = forallb supported_parameter q.
Proof. induction q as [|k q IH]; simpl; [reflexivity|]. rewrite query_key_ok_eq, IH. reflexivity. Qed.

(** ** Part 3: ServeHTTP — status derivation and the shape of what is written *)
Lemma first_status_fixed es d : first_status fixed es d = match es with [] => d | _ => first_status fixed es d end.
Proof. destruct es; reflexivity. Qed.

Lemma first_status_eq es : first_status fixed es 500 = errors_status (map e_status es).
Proof.
  induction es as [|e es IH]; [reflexivity|].
  cbn [first_status fix_status fixed map errors_status]. rewrite IH. reflexivity.
Qed.

Lemma valid_status_range s n : valid_status s = Some n -> (100 <= n <= 999)%Z.
Proof.
  unfold valid_status. destruct (parse_decimal s) as [v|]; [|discriminate].
  destruct ((100 <=? v)%Z && (v <=? 999)%Z) eqn:E; [|discriminate].
  intro H; inversion H; subst. apply andb_true_iff in E. destruct E as [E1 E2].
  apply Z.leb_le in E1. apply Z.leb_le in E2. lia.
Qed.

Lemma errors_status_range l : (100 <= errors_status l <= 999)%Z.
Proof.
  induction l as [|s l IH]; cbn [errors_status]; [lia|].
  destruct (valid_status s) as [n|] eqn:E; [eapply valid_status_range; eauto|assumption].
Qed.

Lemma status_of_range e : (100 <= status_of e <= 999)%Z.
Proof. unfold status_of. destruct (e_meta_ok e); [apply errors_status_range|lia]. Qed.

Lemma status_of_error_for_400 : status_of (error_for 400) = 400%Z. Proof. reflexivity. Qed.
Lemma status_of_error_for_404 : status_of (error_for 404) = 404%Z. Proof. reflexivity. Qed.
Lemma status_of_error_for_405 : status_of (error_for 405) = 405%Z. Proof. reflexivity. Qed.
Lemma status_of_error_for_406 : status_of (error_for 406) = 406%Z. Proof. reflexivity. Qed.
Lemma status_of_error_for_409 : status_of (error_for 409) = 409%Z. Proof. reflexivity. Qed.
Lemma status_of_error_for_500 : status_of (error_for 500) = 500%Z. Proof. reflexivity. Qed.
Lemma status_of_method_not_allowed : status_of method_not_allowed = 405%Z. Proof. reflexivity. Qed.

(** what a response of executeRequest looks like, and what ServeHTTP makes of it *)
Definition response_wf (r : response) : Prop :=
  (rs_status r = 0%Z \/ rs_status r = 201%Z) /\ (rs_errors r <> [] -> rs_data r = None).

Definition response_marshals (r : response) : bool := data_marshals (rs_data r) && forallb e_meta_ok (rs_errors r).

Definition final_status (r : response) : Z :=
  if response_marshals r then
    match rs_errors r with
    | [] => if (rs_status r =? 0)%Z then 200%Z else rs_status r
    | es => errors_status (map e_status es)
    end
  else 500%Z.

Definition final_body (r : response) : wbody :=
  if response_marshals r then
    WDoc (Some version_1_1) (wdata_of (rs_data r)) (map e_status (rs_errors r)) (rs_links r)
  else WDoc (Some version_1_1) WAbsent [e_status (error_for 500)] [].

Lemma final_status_range r : response_wf r -> (100 <= final_status r <= 999)%Z.
Proof.
  intros [[H|H] _]; unfold final_status; destruct (response_marshals r); try lia;
    destruct (rs_errors r); try apply errors_status_range; rewrite H; cbn; lia.
Qed.

Lemma serve_http_eq pmt choose sch rq r :
  execute_request fixed pmt choose sch rq = Some r -> response_wf r ->
  serve_http fixed pmt choose sch rq = Resp (final_status r) media_type (final_body r) (rs_call r).
Proof.
  intros E W. unfold serve_http, finish. rewrite E.
  pose proof (final_status_range r W) as R. unfold final_status, final_body in *.
  fold (response_marshals r).
  destruct (response_marshals r).
  - assert (match rs_errors r with
            | [] => if (rs_status r =? 0)%Z then 200%Z else rs_status r
            | _ :: _ => first_status fixed (rs_errors r) 500
            end = match rs_errors r with
                  | [] => if (rs_status r =? 0)%Z then 200%Z else rs_status r
                  | _ :: _ => errors_status (map e_status (rs_errors r))
                  end) as ->.
    { destruct (rs_errors r); [reflexivity|]. apply first_status_eq. }
    unfold write.
    destruct (rs_errors r) eqn:Es.
    + replace ((_ <? 100)%Z || (999 <? _)%Z) with false; [reflexivity|].
      symmetry. apply orb_false_intro; [apply Z.ltb_ge|apply Z.ltb_ge]; lia.
    + replace ((_ <? 100)%Z || (999 <? _)%Z) with false; [reflexivity|].
      symmetry. apply orb_false_intro; [apply Z.ltb_ge|apply Z.ltb_ge]; lia.
  - reflexivity.
Qed.

(** ** Part 4: building resource objects *)
Lemma lookup_type_name sch n t : lookup_type sch n = Some t -> rt_name t = n.
Proof.
  unfold lookup_type. intro H. apply find_some in H. destruct H as [_ H]. apply bytes_eqb_eq in H. assumption.
Qed.

Lemma bytes_pair_eqb_refl k v : bytes_eqb k k && bytes_eqb v v = true.
Proof. rewrite !bytes_eqb_refl. reflexivity. Qed.

Lemma links_equal_refl l : links_equal l l = true.
Proof.
  unfold links_equal.
  assert (forallb (fun kv => existsb (fun kv' => bytes_eqb (fst kv) (fst kv') && bytes_eqb (snd kv) (snd kv')) l) l = true) as ->;
    [|reflexivity].
  apply forallb_forall. intros kv H. apply existsb_exists. exists kv. split; [assumption|apply bytes_pair_eqb_refl].
Qed.

(** what [complete] / [completeRelationship] hand to addStandardRelationshipLinks is what the Spec
    calls "supplied by the resolver" *)
Lemma resolved_supplied d v dr :
  (match resolve_relationship (rd_resolver d) v dr with Ok r => r | Er _ => no_relationship end) =
  match resolve_relationship (rd_resolver d) v dr with
  | Ok r => match rd_resolver d with Custom _ _ _ => supplied d v dr | _ => r end
  | Er _ => no_relationship
  end.
Proof.
  unfold supplied, resolve_relationship. destruct (rd_resolver d) as [bd f|bd f a rm|f a rm]; try reflexivity.
  destruct (f v dr); reflexivity.
Qed.

Lemma resolved_links_meta d v dr :
  let r := match resolve_relationship (rd_resolver d) v dr with Ok r => r | Er _ => no_relationship end in
  rel_links r = rel_links (supplied d v dr) /\ rel_meta r = rel_meta (supplied d v dr).
Proof.
  unfold supplied, resolve_relationship, no_relationship, linkage_only.
  destruct (rd_resolver d) as [bd f|bd f a rm|f a rm].
  - destruct (dr || bd); [|split; reflexivity]. destruct (f v) as [[x|]|e]; split; reflexivity.
  - destruct (dr || bd); [|split; reflexivity]. destruct (f v) as [x|e]; split; reflexivity.
  - destruct (f v dr); split; reflexivity.
Qed.

Lemma meta_names_equal_refl l : meta_names_equal l l = true.
Proof.
  unfold meta_names_equal.
  assert (forallb (fun k => existsb (bytes_eqb k) (map fst l)) (map fst l) = true) as ->; [|reflexivity].
  apply forallb_forall. intros k H. apply existsb_exists. exists k. split; [assumption|apply bytes_eqb_refl].
Qed.

Lemma rel_errors_eq v l : rel_errors v l = flat_map (fun d => default_failure d v) l.
Proof.
  unfold rel_errors. induction l as [|d l IH]; [reflexivity|]. cbn [flat_map]. rewrite IH. f_equal.
  unfold default_failure, resolve_relationship, no_relationship.
  destruct (rd_resolver d) as [bd f|bd f a rm|f a rm]; cbn [orb].
  - destruct bd; try reflexivity. destruct (f v) as [x|e]; try reflexivity. destruct x; reflexivity.
  - destruct bd; try reflexivity. destruct (f v) as [x|e]; reflexivity.
  - destruct (f v false); reflexivity.
Qed.

Lemma attr_errors_eq v t : attr_errors v (rt_attrs t) = attribute_failures t v.
Proof. reflexivity. Qed.

Lemma marshals_eq v l :
  forallb snd (map (fun d => (ad_name d, match ad_resolve d v with AVal s => s | AErr _ => true end)) l) =
  forallb (fun d => match ad_resolve d v with AVal false => false | _ => true end) l.
Proof.
  induction l as [|d l IH]; [reflexivity|]. cbn [map forallb snd]. rewrite IH.
  destruct (ad_resolve d v) as [[|]|]; reflexivity.
Qed.

Lemma meta_serialises_supplied d v : meta_serialises d v = forallb snd (rel_meta (supplied d v false)).
Proof.
  unfold meta_serialises, supplied. destruct (rd_resolver d) as [bd f|bd f a rm|f a rm]; try reflexivity.
  destruct (f v false); reflexivity.
Qed.

Lemma rels_marshal_eq id v l :
  forallb (fun nr : bytes * relationship => relationship_marshals (snd nr))
    (map (fun d => (rd_name d, add_standard_links id (rd_name d)
                                 match resolve_relationship (rd_resolver d) v false with
                                 | Ok r => r
                                 | Er _ => no_relationship
                                 end)) l) =
  forallb (fun d => meta_serialises d v) l.
Proof.
  induction l as [|d l IH]; [reflexivity|]. cbn [map forallb snd]. rewrite IH. f_equal.
  unfold relationship_marshals, add_standard_links. cbn [rel_meta].
  rewrite meta_serialises_supplied. destruct (resolved_links_meta d v false) as [_ ->]. reflexivity.
Qed.

Lemma overlay_standard id name rel :
  rel_links (add_standard_links id name rel) = overlay (standard_links (r_type id) (r_id id) name) (rel_links rel).
Proof. reflexivity. Qed.

Lemma data_marshals_linkage o : data_marshals (option_map PLinkage o) = true.
Proof. destruct o; reflexivity. Qed.

Section Refinement.
  Variable pmt : bytes -> pm_result.
  Variable choose : list err -> err.
  Hypothesis Hchoose : choose_ok choose.
  Variable sch : schema.

  Lemma complete_spec t id v :
    match complete choose t id v with
    | Er e => exists es, build t v = BuiltFails es /\ In e es
    | Ok i => build t v = BuiltOk (item_marshals i) /\ i_type i = r_type id /\ i_id i = r_id id /\
              item_rels_ok t v (witem_of_item i) = true
    end.
  Proof.
    unfold complete, build. rewrite attr_errors_eq, rel_errors_eq.
    destruct (attribute_failures t v) as [|e es] eqn:EA.
    - destruct (flat_map (fun d => default_failure d v) (rt_rels t)) as [|e es] eqn:ER.
      + unfold item_marshals, serialisable. cbn [i_attrs i_rels i_type i_id]. rewrite marshals_eq, rels_marshal_eq. repeat split.
        unfold item_rels_ok, witem_of_item. cbn [w_rels i_rels w_type w_id i_type i_id].
        apply forallb_forall. intros [n rel] H. apply in_map_iff in H. destruct H as [d [H Hd]].
        inversion H; subst. unfold rel_object_ok. cbn [fst snd]. apply existsb_exists. exists d. split; [assumption|].
        rewrite bytes_eqb_refl, overlay_standard. cbn [andb].
        unfold add_standard_links at 1. cbn [rel_meta].
        destruct (resolved_links_meta d v false) as [-> ->].
        rewrite links_equal_refl, meta_names_equal_refl. reflexivity.
      + exists (e :: es). split; [reflexivity|apply Hchoose].
    - exists (e :: es). split; [reflexivity|apply Hchoose].
  Qed.

  Lemma completed_spec t id h ok :
    match completed choose t id h with
    | GErr e => In (status_of e) (outcome_statuses t h ok)
    | GNil => h = HNil
    | GOk i => outcome_statuses t h ok = [if item_marshals i then ok else 500%Z] /\
               i_type i = r_type id /\ i_id i = r_id id /\
               exists v, h = HVal v /\ item_rels_ok t v (witem_of_item i) = true
    end.
  Proof.
    unfold completed, outcome_statuses. destruct h as [v| |e]; [|reflexivity|left; reflexivity].
    pose proof (complete_spec t id v) as H. destruct (complete choose t id v) as [i|e].
    - destruct H as [-> [H1 [H2 H3]]]. destruct (item_marshals i); repeat split; eauto.
    - destruct H as [es [-> H]]. apply in_map. assumption.
  Qed.

  (** *** fetching the resources of a to-many linkage *)
  Lemma sub_identities_mono_tail ids :
    (forall l r, sub_identities l ids = true -> sub_identities l (r :: ids) = true) /\
    (forall i l, sub_identities (i :: l) ids = true -> sub_identities l ids = true).
  Proof.
    induction ids as [|r0 ids0 [IHm IHt]].
    - split.
      + intros [|i l] r H; [reflexivity|discriminate].
      + intros i l H; discriminate.
    - assert (T : forall i l, sub_identities (i :: l) (r0 :: ids0) = true -> sub_identities l (r0 :: ids0) = true).
      { intros i l H. cbn [sub_identities] in H.
        destruct (item_is (r_type r0) (r_id r0) i).
        - apply IHm. assumption.
        - apply IHm. eapply IHt. eassumption. }
      split; [|exact T].
      intros [|i l] r H; [reflexivity|].
      cbn [sub_identities]. destruct (item_is (r_type r) (r_id r) i); [|assumption].
      eapply T. eassumption.
  Qed.

  Lemma item_is_of_item i id : i_type i = r_type id -> i_id i = r_id id ->
    item_is (r_type id) (r_id id) (witem_of_item i) = true.
  Proof.
    intros H1 H2. unfold item_is, witem_of_item. cbn [w_type w_id]. rewrite H1, H2, !bytes_eqb_refl. reflexivity.
  Qed.

  Lemma fetched_ok i id t g v :
    i_type i = r_type id -> i_id i = r_id id -> lookup_type sch (r_type id) = Some t -> rt_get t = Some g ->
    g (r_id id) = HVal v -> item_rels_ok t v (witem_of_item i) = true -> fetched_item_ok sch (witem_of_item i) = true.
  Proof.
    intros H1 H2 EL EG Eg H3. unfold fetched_item_ok. cbn [witem_of_item w_type w_id].
    rewrite H1, H2, EL, EG, Eg. exact H3.
  Qed.

  Lemma get_resources_spec ids : forall acc,
    match get_resources choose sch ids with
    | Er e => In (status_of e) (related_many_statuses sch ids acc)
    | Ok l => related_many_statuses sch ids acc = [if acc && forallb item_marshals l then 200%Z else 500%Z] /\
              sub_identities (map witem_of_item l) ids = true /\
              forallb (fetched_item_ok sch) (map witem_of_item l) = true
    end.
  Proof.
    induction ids as [|id rest IH]; intro acc.
    - cbn. rewrite andb_true_r. destruct acc; auto.
    - cbn [get_resources related_many_statuses].
      destruct (lookup_type sch (r_type id)) as [t|] eqn:EL.
      + unfold rt_get_resource. destruct (rt_get t) as [g|] eqn:EG.
        * unfold completed. destruct (g (r_id id)) as [v| |e] eqn:Eg.
          -- pose proof (complete_spec t id v) as HC. destruct (complete choose t id v) as [i|e].
             ++ destruct HC as [-> [H1 [H2 H3]]].
                specialize (IH (acc && item_marshals i)). destruct (get_resources choose sch rest) as [l|e].
                ** destruct IH as [-> [IH2 IH3]]. cbn [map forallb sub_identities].
                   rewrite (item_is_of_item i id H1 H2), (fetched_ok i id t g v H1 H2 EL EG Eg H3), IH2, IH3, andb_assoc. auto.
                ** assumption.
             ++ destruct HC as [es [-> H]]. apply in_map. assumption.
          -- specialize (IH acc). destruct (get_resources choose sch rest) as [l|e]; [|assumption].
             destruct IH as [-> [IH2 IH3]]. repeat split; auto.
             apply (proj1 (sub_identities_mono_tail rest)). assumption.
          -- left; reflexivity.
        * left; reflexivity.
      + specialize (IH acc). destruct (get_resources choose sch rest) as [l|e]; [|assumption].
        destruct IH as [-> [IH2 IH3]]. repeat split; auto.
        apply (proj1 (sub_identities_mono_tail rest)). assumption.
  Qed.

  (** *** the routing tree against the table of operations *)
  Ltac destr :=
    match goal with
    | |- context [complete choose ?t ?id ?v] =>
        let H := fresh "HC" in
        let Hb := fresh "HCb" in let Ht := fresh "HCt" in let Hi := fresh "HCi" in let Hl := fresh "HCl" in
        let es := fresh "es" in let Hin := fresh "HCin" in
        pose proof (complete_spec t id v) as H;
        destruct (complete choose t id v);
        [ destruct H as (Hb & Ht & Hi & Hl); cbn [r_type r_id] in Ht, Hi;
          try rewrite Hl; try rewrite Ht; try rewrite Hi
        | destruct H as (es & Hb & Hin) ];
        try rewrite Hb in *
    | |- context [get_resources choose sch ?ids] =>
        let H := fresh "HG" in
        let Hs := fresh "HGs" in let Hi := fresh "HGi" in let Hl := fresh "HGl" in
        pose proof (get_resources_spec ids true) as H;
        destruct (get_resources choose sch ids);
        [ destruct H as (Hs & Hi & Hl); try rewrite Hs in *; try rewrite Hi; try rewrite Hl | ]
    | |- context [lookup_type sch ?n] =>
        let E := fresh "EL" in let H := fresh "HN" in
        destruct (lookup_type sch n) eqn:E;
        [ pose proof (lookup_type_name _ _ _ E) as H; try rewrite H in * | ]
    | |- context [fst ?p] =>
        lazymatch p with
        | (_, _) => fail
        | context [match _ with _ => _ end] => fail
        | _ => let E := fresh "E" in destruct p eqn:E
        end
    | |- context [snd ?p] =>
        lazymatch p with
        | (_, _) => fail
        | context [match _ with _ => _ end] => fail
        | _ => let E := fresh "E" in destruct p eqn:E
        end
    | |- context [match ?x with _ => _ end] =>
        lazymatch x with
        | context [match _ with _ => _ end] => fail
        | _ => let E := fresh "E" in destruct x eqn:E
        end
    end.

  Ltac red_all :=
    cbn [fst snd r_id r_type rs_status rs_errors rs_data rs_links rs_call rel_data rel_links negb orb andb
         resp_errors resp_status resp_data option_map pd_type pd_id pd_attrs pd_rels fold_left] in *.

  Ltac fix_names :=
    repeat match goal with
           | H : rt_name ?r = _ |- context [rt_name ?r] => rewrite H
           end;
    rewrite ?negb_andb.

  Lemma route_status rq :
    match route fixed choose sch rq with
    | Return r => response_wf r /\ In (final_status r) (snd (operation_status sch rq))
    | FallThrough _ => snd (operation_status sch rq) = [404%Z]
    | NilDeref => False
    end.
  Proof.
    unfold route, handle_patch_resource_request, relationship_response, get_resource.
    unfold rt_get_resource, rt_patch_resource,
      rt_create_resource, rt_delete_resource, rt_get_relationship, rt_patch_relationship, rt_change_members.
    unfold complete_relationship, add_standard_links, change_members, resolve_relationship, linkage_only, no_relationship,
      completed, operation_status, endpoint_of, update_rule, fetch_statuses, parent, linkage_of, is_method,
      decode_body, outcome_statuses.
    repeat (destr; red_all; fix_names).
    all: try discriminate; try congruence.
    all: try (unfold response_wf, final_status, response_marshals, resp_status, resp_errors, resp_data;
              cbn [rs_status rs_errors rs_data data_marshals map forallb andb];
              split; [split; [auto|intros; auto; congruence] | ]).
    all: rewrite ?andb_true_r; unfold method_not_allowed; cbn [e_meta_ok error_for].
    all: repeat match goal with H : ?x = _ |- context [?x] => rewrite H end.
    all: try (left; reflexivity).
    all: try change (if e_meta_ok ?e then errors_status [e_status ?e] else 500%Z) with (status_of e).
    all: try (left; reflexivity).
    all: try (apply in_map; assumption).
    all: rewrite ?data_marshals_linkage; try (left; reflexivity).
    all: match goal with H : In (status_of ?e) ?l |- _ => exact H end.
  Qed.

  (** *** identity and links *)
  Lemma identities_are_rids ids : identities_are (map witem_of_rid ids) ids = true.
  Proof.
    induction ids as [|r ids IH]; [reflexivity|]. cbn [map identities_are]. rewrite IH.
    unfold item_is, witem_of_rid. cbn [w_type w_id]. rewrite !bytes_eqb_refl. reflexivity.
  Qed.
  Lemma forallb_identifier_rids ids : forallb is_identifier (map witem_of_rid ids) = true.
  Proof. induction ids as [|r ids IH]; [reflexivity|]. cbn [map forallb]. rewrite IH. reflexivity. Qed.

  Lemma data_is_refl od : data_is od (wdata_of (option_map PLinkage od)) = true.
  Proof.
    destruct od as [[|r|ids]|]; cbn [option_map wdata_of wdata_of_linkage data_is]; try reflexivity.
    - unfold item_is, witem_of_rid. cbn [w_type w_id]. rewrite !bytes_eqb_refl. reflexivity.
    - apply identities_are_rids.
  Qed.

  Lemma linkage_items_identifiers od :
    forallb is_identifier (match wdata_of (option_map PLinkage od) with WOne i => [i] | WMany l => l | _ => [] end) = true.
  Proof.
    destruct od as [[|r|ids]|]; cbn [option_map wdata_of wdata_of_linkage]; try reflexivity.
    apply forallb_identifier_rids.
  Qed.

  Ltac red_id :=
    cbn [fst snd r_id r_type rs_status rs_errors rs_data rs_links rs_call rel_data rel_links negb orb andb
         resp_errors resp_status resp_data option_map pd_type pd_id pd_attrs pd_rels fold_left
         wdata_of wdata_of_linkage forallb map data_is] in *.

  Ltac fix_id :=
    cbn [w_type w_id w_attrs w_rels witem_of_item witem_of_rid i_type i_id] in *;
    rewrite ?links_equal_refl, ?bytes_eqb_refl, ?identities_are_rids, ?forallb_identifier_rids;
    repeat match goal with
           | H : ?x = true |- context [?x] => rewrite H
           | H : i_type ?a = _ |- context [i_type ?a] => rewrite H
           | H : i_id ?a = _ |- context [i_id ?a] => rewrite H
           end;
    rewrite ?links_equal_refl, ?bytes_eqb_refl;
    cbn [negb orb andb] in *.

  Lemma route_identity rq :
    match route fixed choose sch rq with
    | Return r => rs_errors r = [] -> identity_and_links sch rq (wdata_of (rs_data r)) (rs_links r) = None
    | _ => True
    end.
  Proof.
    unfold route, handle_patch_resource_request, relationship_response, get_resource.
    unfold rt_get_resource, rt_patch_resource,
      rt_create_resource, rt_delete_resource, rt_get_relationship, rt_patch_relationship, rt_change_members.
    unfold complete_relationship, add_standard_links, change_members, resolve_relationship, linkage_only, no_relationship,
      completed, identity_and_links, endpoint_of, endpoint_linkage, resource_value, relationship_reply, reply,
      parent, linkage_of, is_method, decode_body, item_is.
    repeat (destr; red_id; fix_names; fix_id).
    all: try exact I; try discriminate; try congruence; try reflexivity.
    all: try match goal with
         | E1 : wdata_of (option_map PLinkage ?od) = ?w, E2 : data_is ?od ?w = false |- _ =>
             exfalso; rewrite <- E1, data_is_refl in E2; discriminate
         end.
    all: match goal with
         | E1 : wdata_of (option_map PLinkage ?od) = _ |- _ =>
             exfalso; pose proof (linkage_items_identifiers od) as HI; rewrite E1 in HI; cbn [forallb] in HI;
             try rewrite andb_true_r in HI; rewrite HI in *; discriminate
         end.
  Qed.

  (** *** executeRequest and ServeHTTP against the whole Spec *)
  Lemma resp_status_wf n c : response_wf (resp_status n c).
  Proof. split; [left; reflexivity|reflexivity]. Qed.

  Lemma execute_request_spec rq :
    exists r, execute_request fixed pmt choose sch rq = Some r /\ response_wf r /\
              In (final_status r) (snd (ref_status pmt sch rq)) /\
              (rs_errors r = [] -> identity_and_links sch rq (wdata_of (rs_data r)) (rs_links r) = None).
  Proof.
    unfold execute_request, ref_status. rewrite acceptable_eq, query_ok_eq.
    destruct (acceptable pmt (rq_accept rq)); cbn [negb].
    2:{ eexists; split; [reflexivity|]. split; [apply resp_status_wf|]. split; [left; reflexivity|discriminate]. }
    destruct (forallb supported_parameter (rq_query rq)); cbn [negb].
    2:{ eexists; split; [reflexivity|]. split; [apply resp_status_wf|]. split; [left; reflexivity|discriminate]. }
    pose proof (route_status rq) as HS. pose proof (route_identity rq) as HI.
    destruct (route fixed choose sch rq) as [r|c|].
    - exists r. destruct HS as [W S]. auto.
    - eexists; split; [reflexivity|]. split; [apply resp_status_wf|]. rewrite HS. split; [left; reflexivity|discriminate].
    - destruct HS.
  Qed.

  Lemma document_invariants_final r : response_wf r ->
    document_invariants (final_status r) media_type (Some (final_body r)) = None.
  Proof.
    intros [Wst Wd]. unfold document_invariants, final_status, final_body. rewrite bytes_eqb_refl. cbn [negb].
    destruct (response_marshals r); [|reflexivity].
    destruct (rs_errors r) as [|e es] eqn:Es; cbn [map].
    - rewrite andb_false_r. destruct Wst as [-> | ->]; reflexivity.
    - rewrite (Wd ltac:(discriminate)). cbn [wdata_of data_present andb]. rewrite Z.eqb_refl. reflexivity.
  Qed.

  (** the Spec oracle accepts every answer of the model *)
  Theorem model_satisfies_spec rq :
    exists st bd c, serve_http fixed pmt choose sch rq = Resp st media_type bd c /\
                    oracle pmt sch rq (Some (st, media_type, Some bd)) = None.
  Proof.
    destruct (execute_request_spec rq) as (r & E & W & S & I).
    exists (final_status r), (final_body r), (rs_call r). split; [apply serve_http_eq; assumption|].
    unfold oracle. rewrite (document_invariants_final r W).
    destruct (ref_status pmt sch rq) as [rule allowed]. cbn [snd] in S.
    assert (existsb (Z.eqb (final_status r)) allowed = true) as ->.
    { apply existsb_exists. exists (final_status r). split; [assumption|apply Z.eqb_refl]. }
    cbn [negb]. unfold final_body. destruct (response_marshals r); [|reflexivity].
    destruct (rs_errors r); [apply I; reflexivity|reflexivity].
  Qed.
End Refinement.

(** ** Part 5: the documented status rules *)
Lemma is_method_refl m : is_method m m = true.
Proof. apply bytes_eqb_refl. Qed.
Lemma is_method_neq m n : m <> n -> is_method m n = false.
Proof.
  intro H. unfold is_method. destruct (bytes_eqb m n) eqn:E; [|reflexivity].
  apply bytes_eqb_eq in E. contradiction.
Qed.

Section Rules.
  Variable sch : schema.
  Variable rq : request.

  Ltac methods :=
    repeat match goal with
           | H : rq_method rq = _ |- _ => rewrite H in *; clear H
           | H : rq_method rq <> ?m |- _ => rewrite (is_method_neq _ _ H) in *; clear H
           | H : _ <> ?m |- context [is_method _ ?m] => rewrite (is_method_neq _ _ H)
           end;
    rewrite ?is_method_refl;
    repeat match goal with
           | |- context [is_method ?a ?b] =>
               lazymatch a with rq_method _ => fail | _ => idtac end;
               let v := eval vm_compute in (is_method a b) in
               change (is_method a b) with v
           end;
    cbn [orb andb negb].

  Lemma unknown_target_404 : unknown_target sch rq -> snd (operation_status sch rq) = [404%Z].
  Proof.
    intros [Hep | t Hep Hm | t id g Hep Hm Hg Hn | t id name [Hep|Hep] Hm Hp | t id name v [Hep|Hep] Hm Hp Hl];
      unfold operation_status; rewrite Hep; methods; unfold fetch_statuses, outcome_statuses;
      rewrite ?Hg, ?Hn, ?Hp, ?Hl; reflexivity.
  Qed.

  Lemma undefined_operation_405 : undefined_operation sch rq -> snd (operation_status sch rq) = [405%Z].
  Proof.
    intros [t id Hep H1 H2 H3 | t id name Hep H1 H2 | t id name Hep H1 H2 H3 H4 | t id Hep Hm Hg | t id Hep Hm Hd
           | t id doc Hep Hm Hdec Ht Hi Hp | t doc Hep Hm Hdec Ht Hc | t id name value Hep Hm Hdec Hp
           | t id name members v d bd f Hep [Hm|Hm] Hdec Hpar Hl Hr
           | t id name members v d bd f rm Hep Hm Hdec Hpar Hl Hr
           | t id name members v d bd f a Hep Hm Hdec Hpar Hl Hr];
      unfold operation_status; rewrite Hep; methods; unfold update_rule;
      rewrite ?Hg, ?Hd, ?Hdec, ?Ht, ?Hi, ?Hp, ?Hc, ?Hpar, ?Hl, ?Hr, ?bytes_eqb_refl; reflexivity.
  Qed.

  Lemma bytes_eqb_neq x y : x <> y -> bytes_eqb x y = false.
  Proof. intro H. destruct (bytes_eqb x y) eqn:E; [apply bytes_eqb_eq in E; contradiction|reflexivity]. Qed.

  Lemma conflict_409 : conflict sch rq -> snd (operation_status sch rq) = [409%Z].
  Proof.
    intros [t doc Hep Hm Hdec Hne | t id doc Hep Hm Hdec Hne | t id name v d r t' doc Hep Hm Hpar Hl Hlk Ht' Hdec Hne];
      unfold operation_status; rewrite Hep; methods; unfold update_rule;
      rewrite ?Hpar, ?Hl, ?Hlk, ?Ht', ?Hdec.
    - rewrite (bytes_eqb_neq _ _ Hne). reflexivity.
    - destruct Hne as [Hne|Hne]; rewrite (bytes_eqb_neq _ _ Hne), ?andb_false_r; reflexivity.
    - rewrite (lookup_type_name _ _ _ Ht').
      destruct Hne as [Hne|Hne]; rewrite (bytes_eqb_neq _ _ Hne), ?andb_false_r; reflexivity.
  Qed.
End Rules.

(** ** Part 6: the theorems of Properties/C19.v *)
Section Theorems.
  Variable pmt : bytes -> pm_result.
  Variable choose : list err -> err.
  Hypothesis Hchoose : choose_ok choose.
  Variable sch : schema.
  Variable rq : request.

  Let answer := serve_http fixed pmt choose sch rq.

  Lemma served :
    exists r, answer = Resp (final_status r) media_type (final_body r) (rs_call r) /\ response_wf r /\
              In (final_status r) (snd (ref_status pmt sch rq)) /\
              (rs_errors r = [] -> identity_and_links sch rq (wdata_of (rs_data r)) (rs_links r) = None).
  Proof.
    destruct (execute_request_spec pmt choose Hchoose sch rq) as (r & E & W & S & I).
    exists r. split; [apply serve_http_eq; assumption|auto].
  Qed.

  (** without panicking; media type, jsonapi member, never both data and errors *)
  Theorem ja_well_formed :
    exists st data errors top c,
      answer = Resp st media_type (WDoc (Some version_1_1) data errors top) c /\
      (data <> WAbsent -> errors = []).
  Proof.
    destruct served as (r & -> & [_ Wd] & _ & _). unfold final_body.
    destruct (response_marshals r).
    - do 5 eexists. split; [reflexivity|]. intro Hd.
      destruct (rs_errors r) eqn:Es; [reflexivity|]. rewrite (Wd ltac:(discriminate)) in Hd. contradiction Hd. reflexivity.
    - do 5 eexists. split; [reflexivity|]. intro Hd. contradiction Hd. reflexivity.
  Qed.

  (** the status is that of the first error carrying one (500 if none does), 2xx without errors *)
  Theorem ja_status st ct v data errors top c :
    answer = Resp st ct (WDoc v data errors top) c ->
    (errors <> [] -> st = errors_status errors) /\ (errors = [] -> (200 <= st < 300)%Z).
  Proof.
    destruct served as (r & -> & [Wst Wd] & _ & _). unfold final_body, final_status.
    destruct (response_marshals r); intro H; inversion H; subst; clear H.
    - destruct (rs_errors r) as [|e es]; cbn [map]; split.
      + congruence.
      + intros _. destruct Wst as [-> | ->]; cbn; lia.
      + intros _. reflexivity.
      + discriminate.
    - split; [intros _; reflexivity|discriminate].
  Qed.

  (** the status is the reference status *)
  Theorem ja_ref_status st ct bd c :
    answer = Resp st ct bd c -> In st (snd (ref_status pmt sch rq)).
  Proof. destruct served as (r & -> & _ & S & _). intro H; inversion H; subst. assumption. Qed.

  (** resource objects are the addressed resources, with the standard links *)
  Theorem ja_resource_identity st ct v data top c :
    answer = Resp st ct (WDoc v data [] top) c -> identity_and_links sch rq data top = None.
  Proof.
    destruct served as (r & -> & _ & _ & I). unfold final_body.
    destruct (response_marshals r); intro H; inversion H; subst; clear H.
    apply I. destruct (rs_errors r); [reflexivity|discriminate].
  Qed.

  Lemma status_in_singleton n : snd (ref_status pmt sch rq) = [n] -> answer_status answer = Some n.
  Proof.
    intro H. destruct served as (r & -> & _ & S & _). rewrite H in S. destruct S as [<-|[]]. reflexivity.
  Qed.

  Theorem ja_406 : acceptable pmt (rq_accept rq) = false -> answer_status answer = Some 406%Z.
  Proof. intro H. apply status_in_singleton. unfold ref_status. rewrite H. reflexivity. Qed.

  Theorem ja_400_params :
    acceptable pmt (rq_accept rq) = true ->
    (exists k, In k (rq_query rq) /\ supported_parameter k = false) ->
    answer_status answer = Some 400%Z.
  Proof.
    intros Ha [k [Hk Hs]]. apply status_in_singleton. unfold ref_status. rewrite Ha. cbn [negb].
    assert (forallb supported_parameter (rq_query rq) = false) as ->; [|reflexivity].
    destruct (forallb supported_parameter (rq_query rq)) eqn:E; [|reflexivity].
    rewrite forallb_forall in E. rewrite (E k Hk) in Hs. discriminate.
  Qed.

  Section Gates.
    Hypothesis Haccept : acceptable pmt (rq_accept rq) = true.
    Hypothesis Hquery : forallb supported_parameter (rq_query rq) = true.

    Lemma ref_gates : ref_status pmt sch rq = operation_status sch rq.
    Proof. unfold ref_status. rewrite Haccept, Hquery. reflexivity. Qed.

    Theorem ja_404 : unknown_target sch rq -> answer_status answer = Some 404%Z.
    Proof. intro H. apply status_in_singleton. rewrite ref_gates. apply unknown_target_404. assumption. Qed.

    Theorem ja_405 : undefined_operation sch rq -> answer_status answer = Some 405%Z.
    Proof. intro H. apply status_in_singleton. rewrite ref_gates. apply undefined_operation_405. assumption. Qed.

    Theorem ja_409 : conflict sch rq -> answer_status answer = Some 409%Z.
    Proof. intro H. apply status_in_singleton. rewrite ref_gates. apply conflict_409. assumption. Qed.
  End Gates.

  (** *** linkage decoding: what the application's Patch receives *)
  Definition answer_call (o : outcome) : option call := match o with Resp _ _ _ c => c | Panic => None end.

  Lemma endpoint_of_relationship t id name :
    endpoint_of sch (rq_path rq) = ERelationship t id name ->
    exists ty seg, split_on 47 (trim_slash (rq_path rq)) = [ty; id; seg; name] /\
                   lookup_type sch ty = Some t /\ bytes_eqb seg s_relationships = true.
  Proof.
    unfold endpoint_of. destruct (split_on 47 (trim_slash (rq_path rq))) as [|ty rest]; [discriminate|].
    destruct (lookup_type sch ty) as [t0|] eqn:EL; [|discriminate].
    destruct rest as [|a [|b0 [|c0 [|d0 rest]]]]; try discriminate.
    destruct (bytes_eqb b0 s_relationships) eqn:Es; [|discriminate].
    intro H; inversion H; subst. eauto.
  Qed.

  Lemma endpoint_of_resource t id :
    endpoint_of sch (rq_path rq) = EResource t id ->
    exists ty, split_on 47 (trim_slash (rq_path rq)) = [ty; id] /\ lookup_type sch ty = Some t.
  Proof.
    unfold endpoint_of. destruct (split_on 47 (trim_slash (rq_path rq))) as [|ty rest]; [discriminate|].
    destruct (lookup_type sch ty) as [t0|] eqn:EL; [|discriminate].
    destruct rest as [|a [|b0 [|c0 [|d0 rest]]]]; try discriminate.
    - intro H; inversion H; subst. eauto.
    - destruct (bytes_eqb b0 s_relationships); discriminate.
  Qed.

  Section Linkage.
    Hypothesis Haccept : acceptable pmt (rq_accept rq) = true.
    Hypothesis Hquery : forallb supported_parameter (rq_query rq) = true.

    (** PATCH /{type}/{id}/relationships/{name}: an undecodable linkage document is a 400 and the
        application is not called; otherwise Patch receives exactly {name: decoded linkage} *)
    Theorem ja_linkage_relationship t id name p :
      endpoint_of sch (rq_path rq) = ERelationship t id name -> rq_method rq = s_PATCH -> rt_patch t = Some p ->
      match decode_body dec_relationship_data (rq_body rq) with
      | None => answer_status answer = Some 400%Z /\ answer_call answer = None
      | Some value => answer_call answer = Some (CPatch id [] [(name, value)])
      end.
    Proof.
      intros Hep Hm Hp. destruct (endpoint_of_relationship _ _ _ Hep) as (ty & seg & Hs & Hl & Hseg).
      destruct (execute_request_spec pmt choose Hchoose sch rq) as (r & E & W & _ & _).
      unfold answer. rewrite (serve_http_eq _ _ _ _ _ E W). cbn [answer_status answer_call].
      revert E. unfold execute_request. rewrite acceptable_eq, query_ok_eq, Haccept, Hquery. cbn [negb].
      unfold route. rewrite Hs, Hl, Hseg, Hm.
      replace (bytes_eqb s_PATCH s_GET) with false by reflexivity. rewrite bytes_eqb_refl.
      destruct (decode_body dec_relationship_data (rq_body rq)) as [value|].
      - unfold rt_patch_relationship. rewrite Hp. unfold relationship_response. cbn [r_id].
        destruct (p id [] [(name, value)]) as [v| |e].
        + destruct (complete_relationship t {| r_type := ty; r_id := id |} v name);
            intro H; inversion H; subst; reflexivity.
        + intro H; inversion H; subst; reflexivity.
        + intro H; inversion H; subst; reflexivity.
      - intro H; inversion H; subst. split; reflexivity.
    Qed.

    (** PATCH /{type}/{id}: Patch receives the attribute names and the decoded linkage of every
        member of the document's relationships object *)
    Theorem ja_linkage_resource t id p doc :
      endpoint_of sch (rq_path rq) = EResource t id -> rq_method rq = s_PATCH -> rt_patch t = Some p ->
      decode_body (dec_resource_request true) (rq_body rq) = Some doc -> pd_type doc = rt_name t -> pd_id doc = id ->
      answer_call answer = Some (CPatch id (pd_attrs doc) (pd_rels doc)).
    Proof.
      intros Hep Hm Hp Hdec Ht Hi. destruct (endpoint_of_resource _ _ Hep) as (ty & Hs & Hl).
      destruct (execute_request_spec pmt choose Hchoose sch rq) as (r & E & W & _ & _).
      unfold answer. rewrite (serve_http_eq _ _ _ _ _ E W). cbn [answer_call].
      revert E. unfold execute_request. rewrite acceptable_eq, query_ok_eq, Haccept, Hquery. cbn [negb].
      unfold route. rewrite Hs, Hl, Hm.
      replace (bytes_eqb s_PATCH s_GET) with false by reflexivity. rewrite bytes_eqb_refl.
      unfold handle_patch_resource_request. rewrite Hdec. cbn [r_type r_id].
      rewrite Ht, Hi, (lookup_type_name _ _ _ Hl), !bytes_eqb_refl. cbn [negb orb].
      unfold rt_patch_resource. rewrite Hp. cbn [r_id].
      destruct (completed choose t {| r_type := ty; r_id := id |} (p id (pd_attrs doc) (pd_rels doc)));
        intro H; inversion H; subst; reflexivity.
    Qed.
  End Linkage.

End Theorems.

(** *** types.go:194-226 on the documents of the JSON:API text *)
Definition identifier_object (r : rid) : json := JObj [(s_type, JStr (r_type r)); (s_id, JStr (r_id r))].

Lemma dec_rid_identifier r : dec_rid (identifier_object r) = Some r.
Proof. destruct r as [t i]. reflexivity. Qed.

Lemma map_opt_identifiers ids : map_opt dec_rid (map identifier_object ids) = Some ids.
Proof.
  induction ids as [|r ids IH]; [reflexivity|]. cbn [map map_opt]. rewrite dec_rid_identifier, IH. reflexivity.
Qed.

(** {"data": null} clears, {"data": {type, id}} is a to-one linkage, {"data": [...]} a to-many linkage,
    any other "data" is refused *)
Theorem linkage_null : dec_relationship_data (JObj [(s_data, JNull)]) = Some LNull.
Proof. reflexivity. Qed.
Theorem linkage_to_one r : dec_relationship_data (JObj [(s_data, identifier_object r)]) = Some (LOne r).
Proof. destruct r as [t i]. reflexivity. Qed.
Theorem linkage_to_many ids : dec_relationship_data (JObj [(s_data, JArr (map identifier_object ids))]) = Some (LMany ids).
Proof.
  unfold dec_relationship_data. replace (get_field s_data [(s_data, JArr (map identifier_object ids))]) with
    (Some (JArr (map identifier_object ids))) by reflexivity.
  cbn [dec_linkage_value]. rewrite map_opt_identifiers. reflexivity.
Qed.
Theorem linkage_malformed v :
  match v with JStr _ | JNum | JBool _ => True | _ => False end ->
  dec_relationship_data (JObj [(s_data, v)]) = None.
Proof. destruct v; intros []; reflexivity. Qed.

(** ** Part 7: the three repaired defects, kept as witnesses against the pinned tree *)
Definition toy_choose (l : list err) : err := hd {| e_status := []; e_meta_ok := true |} l.
Lemma toy_choose_ok : choose_ok toy_choose.
Proof. intros e es. left. reflexivity. Qed.

(** what mime.ParseMediaType answers on the strings used below: surrounding blanks are trimmed, the
    bare JSON:API media type parses, a comma list is an error *)
Fixpoint trim_left (s : bytes) : bytes :=
  match s with
  | c :: r => if N.eqb c 32 then trim_left r else s
  | [] => []
  end.
Definition toy_pmt (s : bytes) : pm_result :=
  if bytes_eqb (trim_left s) media_type then {| pm_type := media_type; pm_params := []; pm_err := false |}
  else if bytes_eqb (trim_left s) (b "text/html") then {| pm_type := b "text/html"; pm_params := []; pm_err := false |}
  else {| pm_type := []; pm_params := []; pm_err := true |}.

(** one type "things" with one attribute; resource "1" has an unserialisable value (NaN), resource
    "bad" fails with an error whose status is not a status code *)
Definition toy_things : rtype :=
  {| rt_name := b "things";
     rt_attrs := [ {| ad_name := b "a"; ad_resolve := fun v => AVal (negb (N.eqb v 1)) |} ];
     rt_rels := [ {| rd_name := b "one"; rd_resolver := ToOne true (fun _ => Ok (Some {| r_type := b "things"; r_id := b "2" |})) |};
                  {| rd_name := b "many"; rd_resolver := ToMany false (fun _ => Ok []) None None |};
                  (* a resolver of the application's own: one links object with an extra member for
                     every resource; value 7 also brings its own "self" and a Meta; the Data (an owner
                     derived from the value) only when it is requested, and never for value 9 *)
                  {| rd_name := b "owner";
                     rd_resolver := Custom (fun v requested =>
                                              Ok {| rel_links := (b "describedby", b "https://example.com/owner") ::
                                                                 (if N.eqb v 7 then [(s_self, b "/elsewhere")] else []);
                                                    rel_data := if requested && negb (N.eqb v 9)
                                                                then Some (LOne {| r_type := b "things"; r_id := [N.add 48 v] |})
                                                                else None;
                                                    rel_meta := if N.eqb v 7 then [(b "count", true)] else [] |})
                                           (fun _ members => Ok (linkage_only (LMany members)))
                                           (fun _ _ => Er {| e_status := b "403"; e_meta_ok := true |}) |} ];
     rt_get := Some (fun id => if bytes_eqb id (b "1") then HVal 1
                               else if bytes_eqb id (b "bad") then HErr {| e_status := b "abc"; e_meta_ok := true |}
                               else if bytes_eqb id (b "nil") then HNil
                               else if bytes_eqb id (b "c7") then HVal 7
                               else if bytes_eqb id (b "c9") then HVal 9
                               else HVal 0);
     rt_patch := Some (fun id _ _ => HVal 0);
     rt_create := None;
     rt_delete := None |}.
Definition toy_schema : schema := [toy_things].
Definition toy_request (m path : string) (accept : list bytes) (bd : body) : request :=
  {| rq_method := b m; rq_path := b path; rq_accept := accept; rq_query := []; rq_body := bd |}.

Definition pinned_fallback : config := {| fix_fallback := false; fix_accept_lists := true; fix_status := true; fix_nil_data := true |}.
Definition pinned_accept : config := {| fix_fallback := true; fix_accept_lists := false; fix_status := true; fix_nil_data := true |}.
Definition pinned_status : config := {| fix_fallback := true; fix_accept_lists := true; fix_status := false; fix_nil_data := true |}.

(** (a) an attribute value that does not marshal: the body was a bare error object *)
Lemma fallback_refuted_before_fix :
  exists rq, serve_http pinned_fallback toy_pmt toy_choose toy_schema rq =
             Resp 500 media_type (WBareError (b "500")) None.
Proof. exists (toy_request "GET" "/things/1" [media_type] BNone). vm_compute. reflexivity. Qed.

(** (b) a comma-separated Accept list offering the unmodified media type was answered 406 *)
Lemma accept_list_refuted_before_fix :
  exists rq, acceptable toy_pmt (rq_accept rq) = true /\
             answer_status (serve_http pinned_accept toy_pmt toy_choose toy_schema rq) = Some 406%Z.
Proof. exists (toy_request "GET" "/things/2" [b "text/html, application/vnd.api+json"] BNone). vm_compute. auto. Qed.

(** (c) an error whose status is not an HTTP status code made WriteHeader panic *)
Lemma status_refuted_before_fix :
  exists rq, serve_http pinned_status toy_pmt toy_choose toy_schema rq = Panic.
Proof. exists (toy_request "GET" "/things/bad" [media_type] BNone). vm_compute. reflexivity. Qed.

(** (d) a custom resolver that answers without Data at a related-resource endpoint: nil dereference *)
Definition pinned_nil_data : config := {| fix_fallback := true; fix_accept_lists := true; fix_status := true; fix_nil_data := false |}.
Lemma nil_data_refuted_before_fix :
  exists rq, serve_http pinned_nil_data toy_pmt toy_choose toy_schema rq = Panic /\
             answer_status (serve_http fixed toy_pmt toy_choose toy_schema rq) = Some 500%Z.
Proof. exists (toy_request "GET" "/things/c9/owner" [media_type] BNone). vm_compute. auto. Qed.
