(** * JsonApi/JsonApiBytes.v — the request body as BYTES (C19)

    handler.go decodeRequestDocument: [io.ReadAll], [json.Valid] (encoding/json: exactly one JSON
    value between optional white space), then [jsoniter.Unmarshal].  The reader is C17's
    [Transport.JsonText.parse_text] (a transcription of both libraries' lexers: white space,
    strings with their escapes and surrogates, the number grammar, literals, members in textual
    order with duplicates kept), used in the encoding/json flavour for validity and in the jsoniter
    flavour for the tree jsoniter's typed decoders see.
    Numbers.  Wherever jsoniter meets a number in these documents it skips it (an unknown member,
    inside a json.RawMessage) or fails because it wanted something else.  Its strict skipNumber
    lets a token pass whose characters after the first are digits and dots; any other token (exponent) goes through
    ReadFloat64 and is an error when strconv.ParseFloat says "out of range" ([in_range], an
    uninterpreted function: the harness tabulates it).
    No proofs in this file. *)
From Coq Require Import List NArith Bool.
From ApiFu Require Import Base.Sexp JsonApi.JsonApiModel.
From ApiFu Require Transport.EnvelopeModel Transport.JsonText.
Import ListNotations.
Open Scope N_scope.


(** Skip has already consumed the first character (a minus or a digit) when trySkipNumber scans *)
Definition plain_number (tok : bytes) : bool :=
  match tok with
  | [] => true
  | _ :: rest => forallb (fun c => Transport.JsonText.is_digit c || (c =? 46)) rest
  end.
Definition number_ok (in_range : bytes -> bool) (tok : bytes) : bool := plain_number tok || in_range tok.
(** JsonText keeps of a number token only [numval tok]; here: accepted by jsoniter or not *)
Definition numval_of (in_range : bytes -> bool) (tok : bytes) : option N :=
  if number_ok in_range tok then Some 0 else None.

(** the tree of JsonApiModel; [None]: a number jsoniter refuses *)
Fixpoint conv (j : Transport.EnvelopeModel.json) : option json :=
  match j with
  | Transport.EnvelopeModel.JNull => Some JNull
  | Transport.EnvelopeModel.JBool v => Some (JBool v)
  | Transport.EnvelopeModel.JNum _ => Some JNum
  | Transport.EnvelopeModel.JNumRange => None
  | Transport.EnvelopeModel.JStr s => Some (JStr s)
  | Transport.EnvelopeModel.JArr l =>
      match (fix go (l : list Transport.EnvelopeModel.json) : option (list json) :=
               match l with
               | [] => Some []
               | x :: r => match conv x, go r with Some y, Some ys => Some (y :: ys) | _, _ => None end
               end) l with
      | Some ys => Some (JArr ys)
      | None => None
      end
  | Transport.EnvelopeModel.JObj f =>
      match (fix go (f : list (bytes * Transport.EnvelopeModel.json)) : option (list (bytes * json)) :=
               match f with
               | [] => Some []
               | (k, x) :: r => match conv x, go r with Some y, Some ys => Some ((k, y) :: ys) | _, _ => None end
               end) f with
      | Some ys => Some (JObj ys)
      | None => None
      end
  end.

(** what [decodeRequestDocument] works on *)
Definition body_of_text (in_range : bytes -> bool) (text : bytes) : body :=
  match Transport.JsonText.parse_text Transport.EnvelopeModel.StdJson (numval_of in_range) text with
  | Transport.EnvelopeModel.PTree _ =>
      match Transport.JsonText.parse_text Transport.EnvelopeModel.Jsoniter (numval_of in_range) text with
      | Transport.EnvelopeModel.PTree j => match conv j with Some t => BJson t [] | None => BNone end
      | _ => BNone
      end
  | _ => BNone
  end.

(** the number tokens [in_range] will be asked about *)
Definition number_tokens (text : bytes) : list bytes := Transport.JsonText.num_tokens (List.length text) text.

(** a request whose body is still text *)
Record raw_request := {
  rr_method : bytes; rr_path : bytes; rr_accept : list bytes; rr_query : list bytes; rr_text : bytes
}.
Definition request_of (in_range : bytes -> bool) (r : raw_request) : request :=
  {| rq_method := rr_method r; rq_path := rr_path r; rq_accept := rr_accept r; rq_query := rr_query r;
     rq_body := body_of_text in_range (rr_text r) |}.
