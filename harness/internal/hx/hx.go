// Package hx is the common command-line frame of every harness command:
//
//	cNN -tier quick|thorough -out cases.sexp [-only i]
//
// Cases are numbered from 0 in emission order; each gets its own random stream forked from
// VERIF_SEED and its index, so "-only i" re-creates exactly case i (this is how replays work).
package hx

import (
	"bufio"
	"flag"
	"fmt"
	"os"
	"runtime/debug"

	"verifharness/internal/rng"
	"verifharness/internal/sexp"
)

type H struct {
	Tier  string
	Only  int
	Seed  uint64
	root  *rng.R
	w     *bufio.Writer
	idx   int
	wrote int
}

func (h *H) Thorough() bool { return h.Tier == "thorough" }

// Case runs f (with the case's private random stream) and writes the returned s-expression as one
// line, unless -only selects another index.
func (h *H) Case(f func(r *rng.R) sexp.Node) {
	i := h.idx
	h.idx++
	if h.Only >= 0 && i != h.Only {
		return
	}
	line := func() (line string) {
		defer func() {
			if e := recover(); e != nil {
				// a panic that escaped the code under test (or a harness bug): reported by ./check as
				// an oracle failure with key "panic"; harnesses whose property is about panics catch
				// them themselves and encode them as observations instead.
				line = sexp.T("harness-panic", sexp.Int(i), sexp.Str(fmt.Sprint(e)), sexp.Str(string(debug.Stack()))).String()
			}
		}()
		return f(h.root.Fork(uint64(i))).String()
	}()
	h.w.WriteString(line)
	h.w.WriteByte('\n')
	h.wrote++
}

// Index is the index the next Case call will get.
func (h *H) Index() int { return h.idx }

func Main(body func(h *H)) {
	tier := flag.String("tier", "quick", "quick or thorough")
	out := flag.String("out", "", "output file (default stdout)")
	only := flag.Int("only", -1, "emit only the case with this index")
	flag.Parse()
	root, seed := rng.FromEnv()
	var f *os.File = os.Stdout
	if *out != "" {
		var err error
		f, err = os.Create(*out)
		if err != nil {
			fmt.Fprintln(os.Stderr, err)
			os.Exit(2)
		}
		defer f.Close()
	}
	h := &H{Tier: *tier, Only: *only, Seed: seed, root: root, w: bufio.NewWriterSize(f, 1<<20)}
	body(h)
	h.w.Flush()
	fmt.Fprintf(os.Stderr, "harness: %d cases generated, %d written (seed %d, tier %s)\n", h.idx, h.wrote, seed, *tier)
}
