// Package covread reads Go's own coverage counters (go build -cover -covermode=atomic) in
// process: runtime/coverage.WriteMeta gives, per instrumented function, its basic blocks
// ("coverable units": source range and number of statements) and runtime/coverage.WriteCounters
// gives the execution count of each block since the last ClearCounters.  Nothing of the code under
// test is touched.  The two binary formats are those of internal/coverage (meta-data file version
// 1, counter file version 1, as written by go 1.20 - 1.23); Selftest compares this reader with
// `go tool covdata textfmt` on the same data.
package covread

import (
	"bytes"
	"encoding/binary"
	"fmt"
	"runtime/coverage"
)

// Unit is one basic block of an instrumented function.
type Unit struct {
	StLine, StCol, EnLine, EnCol uint32
	NStmts                       uint32
}

// Func is one instrumented function (or function literal).
type Func struct {
	Pkg   string // import path
	Name  string
	File  string
	Lit   bool
	Units []Unit
	base  int // index of the first unit in a flat counter vector
}

// Meta is the static description of every instrumented function of the running binary.
type Meta struct {
	Funcs  []*Func
	byID   map[[2]uint32]*Func
	NUnits int
}

type rd struct {
	b   []byte
	off int
	err error
}

func (r *rd) need(n int) bool {
	if r.err != nil {
		return false
	}
	if r.off+n > len(r.b) || n < 0 {
		r.err = fmt.Errorf("covread: short data at offset %d (+%d of %d)", r.off, n, len(r.b))
		return false
	}
	return true
}
func (r *rd) u8() uint8 {
	if !r.need(1) {
		return 0
	}
	v := r.b[r.off]
	r.off++
	return v
}
func (r *rd) u32() uint32 {
	if !r.need(4) {
		return 0
	}
	v := binary.LittleEndian.Uint32(r.b[r.off:])
	r.off += 4
	return v
}
func (r *rd) u64() uint64 {
	if !r.need(8) {
		return 0
	}
	v := binary.LittleEndian.Uint64(r.b[r.off:])
	r.off += 8
	return v
}
func (r *rd) uleb() uint64 {
	var shift uint
	var value uint64
	for {
		b := r.u8()
		if r.err != nil {
			return 0
		}
		value |= uint64(b&0x7f) << shift
		if b&0x80 == 0 {
			return value
		}
		shift += 7
	}
}
func (r *rd) skip(n int) {
	if r.need(n) {
		r.off += n
	}
}
func (r *rd) str(n int) string {
	if !r.need(n) {
		return ""
	}
	s := string(r.b[r.off : r.off+n])
	r.off += n
	return s
}
func (r *rd) strtab() []string {
	n := int(r.uleb())
	if r.err != nil || n > len(r.b) {
		return nil
	}
	out := make([]string, 0, n)
	for i := 0; i < n; i++ {
		l := int(r.uleb())
		out = append(out, r.str(l))
	}
	return out
}

const metaSymbolHeaderSize = 16 + 4 + 4 + 4 + 4 + 4 + 4 + 4

// ReadMeta decodes the meta-data of the running program.
func ReadMeta() (*Meta, error) {
	var mb bytes.Buffer
	if err := coverage.WriteMeta(&mb); err != nil {
		return nil, err
	}
	return DecodeMeta(mb.Bytes())
}

func DecodeMeta(b []byte) (*Meta, error) {
	r := &rd{b: b}
	magic := r.str(4)
	if magic != "\x00cvm" {
		return nil, fmt.Errorf("covread: bad meta magic %q", magic)
	}
	version := r.u32()
	if version != 1 {
		return nil, fmt.Errorf("covread: meta-data file version %d not supported", version)
	}
	_ = r.u64() // total length
	entries := int(r.u64())
	r.skip(16) // hash
	_ = r.u32() // strtab offset
	_ = r.u32() // strtab length
	cmode := r.u8()
	_ = r.u8() // granularity
	r.skip(6)
	if r.err != nil {
		return nil, r.err
	}
	if cmode != 3 {
		return nil, fmt.Errorf("covread: counter mode %d, need atomic (3)", cmode)
	}
	offs := make([]uint64, entries)
	lens := make([]uint64, entries)
	for i := range offs {
		offs[i] = r.u64()
	}
	for i := range lens {
		lens[i] = r.u64()
	}
	if r.err != nil {
		return nil, r.err
	}
	m := &Meta{byID: map[[2]uint32]*Func{}}
	for p := 0; p < entries; p++ {
		if offs[p]+lens[p] > uint64(len(b)) {
			return nil, fmt.Errorf("covread: package %d out of range", p)
		}
		pb := b[offs[p] : offs[p]+lens[p]]
		pr := &rd{b: pb}
		_ = pr.u32() // length
		_ = pr.u32() // pkg name
		pkgPathIdx := pr.u32()
		_ = pr.u32() // module path
		pr.skip(16 + 4)
		_ = pr.u32() // nfiles
		nfuncs := int(pr.u32())
		if pr.err != nil {
			return nil, pr.err
		}
		foffs := make([]uint32, nfuncs)
		for i := range foffs {
			foffs[i] = pr.u32()
		}
		// string table directly after the function offsets
		st := pr.strtab()
		if pr.err != nil {
			return nil, pr.err
		}
		get := func(i uint64) string {
			if int(i) < len(st) {
				return st[i]
			}
			return ""
		}
		pkgPath := get(uint64(pkgPathIdx))
		for fi := 0; fi < nfuncs; fi++ {
			fr := &rd{b: pb, off: int(foffs[fi])}
			nunits := int(fr.uleb())
			name := get(fr.uleb())
			file := get(fr.uleb())
			f := &Func{Pkg: pkgPath, Name: name, File: file, base: m.NUnits}
			for k := 0; k < nunits; k++ {
				u := Unit{StLine: uint32(fr.uleb()), StCol: uint32(fr.uleb()), EnLine: uint32(fr.uleb()), EnCol: uint32(fr.uleb()), NStmts: uint32(fr.uleb())}
				f.Units = append(f.Units, u)
			}
			f.Lit = fr.uleb() != 0
			if fr.err != nil {
				return nil, fr.err
			}
			m.NUnits += nunits
			m.Funcs = append(m.Funcs, f)
			m.byID[[2]uint32{uint32(p), uint32(fi)}] = f
		}
	}
	return m, nil
}

// Clear resets all counters.
func Clear() error { return coverage.ClearCounters() }

// Counts is a snapshot: Counts[f.Base()+k] is the execution count of unit k of function f.
type Counts []uint32

func (f *Func) Base() int { return f.base }

// Snapshot reads the current counters (ReadMeta must have been called before: the runtime refuses
// to emit counters before the meta-data hash is final).
func (m *Meta) Snapshot() (Counts, error) {
	var cb bytes.Buffer
	if err := coverage.WriteCounters(&cb); err != nil {
		return nil, err
	}
	return m.DecodeCounters(cb.Bytes())
}

func (m *Meta) DecodeCounters(b []byte) (Counts, error) {
	out := make(Counts, m.NUnits)
	r := &rd{b: b}
	if magic := r.str(4); magic != "\x00cwm" {
		return nil, fmt.Errorf("covread: bad counter magic %q", magic)
	}
	if v := r.u32(); v != 1 {
		return nil, fmt.Errorf("covread: counter file version %d not supported", v)
	}
	r.skip(16)
	flavor := r.u8()
	bigEndian := r.u8() != 0
	r.skip(6)
	if r.err != nil {
		return nil, r.err
	}
	if bigEndian {
		return nil, fmt.Errorf("covread: big-endian counter data not supported")
	}
	// footer: magic[4] pad[4] numSegments u32 pad[4]
	if len(b) < 16 {
		return nil, fmt.Errorf("covread: counter data too short")
	}
	nseg := binary.LittleEndian.Uint32(b[len(b)-8:])
	rdu := func() uint32 {
		if flavor == 2 {
			return uint32(r.uleb())
		}
		return r.u32()
	}
	for s := uint32(0); s < nseg; s++ {
		if s > 0 {
			r.skip(16) // each segment after the first is preceded by a footer-sized gap
		}
		nf := r.u64()
		stl := int(r.u32())
		al := int(r.u32())
		r.skip(stl)
		r.skip(al)
		if rem := r.off % 4; rem != 0 {
			r.skip(4 - rem)
		}
		for i := uint64(0); i < nf; i++ {
			nc := rdu()
			pk := rdu()
			fn := rdu()
			f := m.byID[[2]uint32{pk, fn}]
			if r.err != nil {
				return nil, r.err
			}
			if f == nil || int(nc) != len(f.Units) {
				return nil, fmt.Errorf("covread: counters for unknown function %d/%d (%d counters)", pk, fn, nc)
			}
			for k := 0; k < int(nc); k++ {
				out[f.base+k] += rdu()
			}
		}
		if r.err != nil {
			return nil, r.err
		}
	}
	return out, nil
}
