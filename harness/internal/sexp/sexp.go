// Package sexp writes (and reads) the one-line s-expressions exchanged with the Coq models.
package sexp

import (
	"fmt"
	"math/big"
	"strconv"
	"strings"
)

// Node is an s-expression: exactly one of the fields is meaningful, selected by Kind.
type Node struct {
	Kind  byte // 'z' integer, 'y' symbol, 's' bytes, 'l' list
	Int   *big.Int
	Sym   string
	Bytes []byte
	List  []Node
}

func Int(i int) Node       { return Node{Kind: 'z', Int: big.NewInt(int64(i))} }
func Int64(i int64) Node   { return Node{Kind: 'z', Int: big.NewInt(i)} }
func Uint64(i uint64) Node { return Node{Kind: 'z', Int: new(big.Int).SetUint64(i)} }
func Big(i *big.Int) Node  { return Node{Kind: 'z', Int: new(big.Int).Set(i)} }
func Sym(s string) Node    { return Node{Kind: 'y', Sym: s} }
func Str(s string) Node    { return Node{Kind: 's', Bytes: []byte(s)} }
func Bytes(b []byte) Node  { return Node{Kind: 's', Bytes: append([]byte(nil), b...)} }
func L(items ...Node) Node { return Node{Kind: 'l', List: items} }
func Bool(b bool) Node {
	if b {
		return Sym("true")
	}
	return Sym("false")
}

// T builds (tag args...).
func T(tag string, args ...Node) Node {
	return Node{Kind: 'l', List: append([]Node{Sym(tag)}, args...)}
}

// None / Some mirror Base/Sexp.v's as_option.
func None() Node       { return L(Sym("none")) }
func Some(x Node) Node { return L(Sym("some"), x) }

// values below 10^18 are written in decimal (the OCaml reader accepts at most 18 decimal digits), larger ones as #x<hex>
var limit = new(big.Int).Exp(big.NewInt(10), big.NewInt(18), nil)

func (n Node) write(b *strings.Builder) {
	switch n.Kind {
	case 'z':
		abs := new(big.Int).Abs(n.Int)
		if n.Int.Sign() < 0 {
			b.WriteByte('-')
		}
		if abs.Cmp(limit) < 0 {
			b.WriteString(abs.String())
		} else {
			b.WriteString("#x")
			b.WriteString(abs.Text(16))
		}
	case 'y':
		b.WriteString(n.Sym)
	case 's':
		b.WriteByte('"')
		for _, c := range n.Bytes {
			switch {
			case c == '\\':
				b.WriteString(`\\`)
			case c == '"':
				b.WriteString(`\"`)
			case c >= 0x20 && c <= 0x7e:
				b.WriteByte(c)
			default:
				fmt.Fprintf(b, `\x%02x`, c)
			}
		}
		b.WriteByte('"')
	case 'l':
		b.WriteByte('(')
		for i, x := range n.List {
			if i > 0 {
				b.WriteByte(' ')
			}
			x.write(b)
		}
		b.WriteByte(')')
	default:
		panic("sexp: zero Node")
	}
}

func (n Node) String() string {
	var b strings.Builder
	n.write(&b)
	return b.String()
}

// Parse reads one s-expression (the syntax written by String).
func Parse(s string) (Node, error) {
	p := &parser{s: s}
	n, err := p.node()
	if err != nil {
		return Node{}, err
	}
	p.skip()
	if p.i != len(p.s) {
		return Node{}, fmt.Errorf("trailing input at %d", p.i)
	}
	return n, nil
}

type parser struct {
	s string
	i int
}

func (p *parser) skip() {
	for p.i < len(p.s) && (p.s[p.i] == ' ' || p.s[p.i] == '\t' || p.s[p.i] == '\n' || p.s[p.i] == '\r') {
		p.i++
	}
}

func isSymChar(c byte) bool {
	return c >= 'a' && c <= 'z' || c >= 'A' && c <= 'Z' || c >= '0' && c <= '9' || strings.IndexByte("_+*/<>=!?.:-#", c) >= 0
}

func (p *parser) node() (Node, error) {
	p.skip()
	if p.i >= len(p.s) {
		return Node{}, fmt.Errorf("unexpected end")
	}
	switch c := p.s[p.i]; {
	case c == '(':
		p.i++
		items := []Node{}
		for {
			p.skip()
			if p.i >= len(p.s) {
				return Node{}, fmt.Errorf("unterminated list")
			}
			if p.s[p.i] == ')' {
				p.i++
				return Node{Kind: 'l', List: items}, nil
			}
			n, err := p.node()
			if err != nil {
				return Node{}, err
			}
			items = append(items, n)
		}
	case c == '"':
		p.i++
		var out []byte
		for {
			if p.i >= len(p.s) {
				return Node{}, fmt.Errorf("unterminated string")
			}
			c := p.s[p.i]
			p.i++
			if c == '"' {
				return Node{Kind: 's', Bytes: out}, nil
			}
			if c == '\\' {
				if p.i >= len(p.s) {
					return Node{}, fmt.Errorf("bad escape")
				}
				e := p.s[p.i]
				p.i++
				switch e {
				case '\\', '"':
					out = append(out, e)
				case 'x':
					if p.i+2 > len(p.s) {
						return Node{}, fmt.Errorf("bad \\x")
					}
					v, err := strconv.ParseUint(p.s[p.i:p.i+2], 16, 8)
					if err != nil {
						return Node{}, err
					}
					out = append(out, byte(v))
					p.i += 2
				default:
					return Node{}, fmt.Errorf("bad escape")
				}
				continue
			}
			out = append(out, c)
		}
	case isSymChar(c):
		start := p.i
		for p.i < len(p.s) && isSymChar(p.s[p.i]) {
			p.i++
		}
		tok := p.s[start:p.i]
		body, neg := tok, false
		if len(tok) > 1 && tok[0] == '-' {
			body, neg = tok[1:], true
		}
		var v *big.Int
		if strings.HasPrefix(body, "#x") {
			v, _ = new(big.Int).SetString(body[2:], 16)
		} else if body[0] >= '0' && body[0] <= '9' {
			v, _ = new(big.Int).SetString(body, 10)
		}
		if v != nil {
			if neg {
				v.Neg(v)
			}
			return Node{Kind: 'z', Int: v}, nil
		}
		return Node{Kind: 'y', Sym: tok}, nil
	default:
		return Node{}, fmt.Errorf("unexpected character %q at %d", c, p.i)
	}
}
