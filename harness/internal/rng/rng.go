// Package rng is the single source of randomness of the harness (splitmix64), so that every run
// replays exactly from VERIF_SEED.
package rng

import (
	"os"
	"strconv"
)

type R struct{ s uint64 }

func New(seed uint64) *R { return &R{s: seed} }

// FromEnv seeds from VERIF_SEED (default 1).
func FromEnv() (*R, uint64) {
	seed := uint64(1)
	if v := os.Getenv("VERIF_SEED"); v != "" {
		if x, err := strconv.ParseUint(v, 10, 64); err == nil {
			seed = x
		} else if y, err := strconv.ParseInt(v, 10, 64); err == nil {
			seed = uint64(y)
		}
	}
	return New(seed), seed
}

func (r *R) Uint64() uint64 {
	r.s += 0x9e3779b97f4a7c15
	z := r.s
	z = (z ^ (z >> 30)) * 0xbf58476d1ce4e5b9
	z = (z ^ (z >> 27)) * 0x94d049bb133111eb
	return z ^ (z >> 31)
}

// Intn returns a value in [0,n).
func (r *R) Intn(n int) int {
	if n <= 0 {
		return 0
	}
	return int(r.Uint64() % uint64(n))
}

// Range returns a value in [lo,hi].
func (r *R) Range(lo, hi int) int { return lo + r.Intn(hi-lo+1) }

func (r *R) Bool() bool { return r.Uint64()&1 == 1 }

// Chance is true with probability num/den.
func (r *R) Chance(num, den int) bool { return r.Intn(den) < num }

// Fork derives an independent stream (for per-case generators, so case i does not depend on how
// much randomness case i-1 consumed).
func (r *R) Fork(i uint64) *R { return New(r.s ^ (i+1)*0xd6e8feb86659fd93) }

func Pick[T any](r *R, xs []T) T { return xs[r.Intn(len(xs))] }
