module verifharness

go 1.18

require (
	github.com/ccbrown/api-fu v0.0.0
	github.com/gorilla/websocket v1.4.2
)

require (
	github.com/hashicorp/errwrap v1.0.0 // indirect
	github.com/hashicorp/go-multierror v1.1.1 // indirect
	github.com/json-iterator/go v1.1.12 // indirect
	github.com/modern-go/concurrent v0.0.0-20180306012644-bacd9c7ef1dd // indirect
	github.com/modern-go/reflect2 v1.0.2 // indirect
	github.com/pkg/errors v0.8.1 // indirect
	github.com/sirupsen/logrus v1.4.2 // indirect
	github.com/vmihailenco/msgpack v4.0.4+incompatible // indirect
	golang.org/x/sys v0.0.0-20220412211240-33da011f77ad // indirect
)

replace github.com/ccbrown/api-fu => /repo
