package main

// Observation side of c06: the REAL scanner as the token source, the REAL parser, and an explicit
// walk of the Go AST (every node, every position field) to the s-expression format decoded by
// coq/Syn/ParserCheck.v.

import (
	"github.com/ccbrown/api-fu/graphql/ast"
	"github.com/ccbrown/api-fu/graphql/parser"
	"github.com/ccbrown/api-fu/graphql/scanner"
	"github.com/ccbrown/api-fu/graphql/token"

	"verifharness/internal/sexp"
)

var nilNode = sexp.Sym("nil-node")

func posN(p token.Position) []sexp.Node { return []sexp.Node{sexp.Int(p.Line), sexp.Int(p.Column)} }

func list(tag string, rest ...[]sexp.Node) sexp.Node {
	out := []sexp.Node{sexp.Sym(tag)}
	for _, r := range rest {
		out = append(out, r...)
	}
	return sexp.L(out...)
}

func one(n sexp.Node) []sexp.Node { return []sexp.Node{n} }

func wIdent(n *ast.Name) sexp.Node {
	if n == nil {
		return nilNode
	}
	return list("n", one(sexp.Str(n.Name)), posN(n.NamePosition))
}

func wOptIdent(n *ast.Name) sexp.Node {
	if n == nil {
		return sexp.None()
	}
	return sexp.Some(wIdent(n))
}

func wVariable(v *ast.Variable) sexp.Node {
	if v == nil || v.Name == nil {
		return nilNode
	}
	return list("var", one(sexp.Str(v.Name.Name)), posN(v.Name.NamePosition), posN(v.Dollar))
}

func wValue(v ast.Value) sexp.Node {
	switch v := v.(type) {
	case *ast.Variable:
		return wVariable(v)
	case *ast.IntValue:
		return list("int", one(sexp.Str(v.Value)), posN(v.Literal))
	case *ast.FloatValue:
		return list("float", one(sexp.Str(v.Value)), posN(v.Literal))
	case *ast.StringValue:
		return list("str", one(sexp.Str(v.Value)), posN(v.Literal))
	case *ast.BooleanValue:
		return list("bool", one(sexp.Bool(v.Value)), posN(v.Literal))
	case *ast.NullValue:
		return list("null", posN(v.Literal))
	case *ast.EnumValue:
		return list("enum", one(sexp.Str(v.Value)), posN(v.Literal))
	case *ast.ListValue:
		items := make([]sexp.Node, 0, len(v.Values))
		for _, x := range v.Values {
			items = append(items, wValue(x))
		}
		return list("list", one(sexp.L(items...)), posN(v.Opening), posN(v.Closing))
	case *ast.ObjectValue:
		items := make([]sexp.Node, 0, len(v.Fields))
		for _, f := range v.Fields {
			if f == nil || f.Name == nil {
				items = append(items, nilNode)
				continue
			}
			items = append(items, list("f", one(sexp.Str(f.Name.Name)), posN(f.Name.NamePosition), one(wValue(f.Value))))
		}
		return list("obj", one(sexp.L(items...)), posN(v.Opening), posN(v.Closing))
	}
	return nilNode
}

func wType(t ast.Type) sexp.Node {
	switch t := t.(type) {
	case *ast.NamedType:
		if t.Name == nil {
			return nilNode
		}
		return list("named", one(sexp.Str(t.Name.Name)), posN(t.Name.NamePosition))
	case *ast.ListType:
		return list("listof", one(wType(t.Type)), posN(t.Opening), posN(t.Closing))
	case *ast.NonNullType:
		return sexp.T("nonnull", wType(t.Type))
	}
	return nilNode
}

func wArguments(args []*ast.Argument) sexp.Node {
	items := make([]sexp.Node, 0, len(args))
	for _, a := range args {
		if a == nil || a.Name == nil {
			items = append(items, nilNode)
			continue
		}
		items = append(items, list("arg", one(sexp.Str(a.Name.Name)), posN(a.Name.NamePosition), one(wValue(a.Value))))
	}
	return sexp.L(items...)
}

func wDirectives(ds []*ast.Directive) sexp.Node {
	items := make([]sexp.Node, 0, len(ds))
	for _, d := range ds {
		if d == nil || d.Name == nil {
			items = append(items, nilNode)
			continue
		}
		items = append(items, list("dir", one(sexp.Str(d.Name.Name)), posN(d.Name.NamePosition), one(wArguments(d.Arguments)), posN(d.At)))
	}
	return sexp.L(items...)
}

func wSelSet(ss *ast.SelectionSet) sexp.Node {
	if ss == nil {
		return nilNode
	}
	items := make([]sexp.Node, 0, len(ss.Selections))
	for _, s := range ss.Selections {
		items = append(items, wSelection(s))
	}
	return list("ss", one(sexp.L(items...)), posN(ss.Opening), posN(ss.Closing))
}

func wNamedTypeIdent(t *ast.NamedType) *ast.Name {
	if t == nil {
		return nil
	}
	return t.Name
}

func wSelection(s ast.Selection) sexp.Node {
	switch s := s.(type) {
	case *ast.Field:
		sub := sexp.None()
		if s.SelectionSet != nil {
			sub = sexp.Some(wSelSet(s.SelectionSet))
		}
		return sexp.T("field", wOptIdent(s.Alias), wIdent(s.Name), wArguments(s.Arguments), wDirectives(s.Directives), sub)
	case *ast.FragmentSpread:
		return list("spread", one(wIdent(s.FragmentName)), one(wDirectives(s.Directives)), posN(s.Ellipsis))
	case *ast.InlineFragment:
		return list("inline", one(wOptIdent(wNamedTypeIdent(s.TypeCondition))), one(wDirectives(s.Directives)), one(wSelSet(s.SelectionSet)), posN(s.Ellipsis))
	}
	return nilNode
}

func wVarDefs(vs []*ast.VariableDefinition) sexp.Node {
	items := make([]sexp.Node, 0, len(vs))
	for _, v := range vs {
		if v == nil {
			items = append(items, nilNode)
			continue
		}
		def := sexp.None()
		if v.DefaultValue != nil {
			def = sexp.Some(wValue(v.DefaultValue))
		}
		items = append(items, sexp.T("vardef", wVariable(v.Variable), wType(v.Type), def))
	}
	return sexp.L(items...)
}

func wDefinition(d ast.Definition) sexp.Node {
	switch d := d.(type) {
	case *ast.OperationDefinition:
		ot := sexp.None()
		if d.OperationType != nil {
			ot = sexp.Some(list("ot", one(sexp.Str(d.OperationType.Value)), posN(d.OperationType.ValuePosition)))
		}
		return sexp.T("op", ot, wOptIdent(d.Name), wVarDefs(d.VariableDefinitions), wDirectives(d.Directives), wSelSet(d.SelectionSet))
	case *ast.FragmentDefinition:
		return list("frag", posN(d.Fragment), []sexp.Node{wIdent(d.Name), wIdent(wNamedTypeIdent(d.TypeCondition)), wDirectives(d.Directives), wSelSet(d.SelectionSet)})
	}
	return nilNode
}

func wDocument(d *ast.Document) sexp.Node {
	if d == nil {
		return sexp.Sym("nil")
	}
	items := []sexp.Node{sexp.Sym("doc")}
	for _, def := range d.Definitions {
		items = append(items, wDefinition(def))
	}
	return sexp.L(items...)
}

func wErrs(errs []*parser.Error) sexp.Node {
	items := make([]sexp.Node, 0, len(errs))
	for _, e := range errs {
		items = append(items, sexp.L(sexp.Int(e.Location.Line), sexp.Int(e.Location.Column)))
	}
	return sexp.L(items...)
}

var kindSym = map[token.Token]string{
	token.PUNCTUATOR: "p", token.NAME: "n", token.INT_VALUE: "i", token.FLOAT_VALUE: "f", token.STRING_VALUE: "s",
}

// scanTokens drives the real scanner exactly as parser.consumeToken does: one Scan() per token,
// the errors that appeared during that call attached to its result.
func scanTokens(src []byte) (toks sexp.Node, eof sexp.Node, ntoks int) {
	s := scanner.New(src, 0)
	seen := 0
	newErrs := func() []sexp.Node {
		var out []sexp.Node
		for _, e := range s.Errors()[seen:] {
			out = append(out, sexp.L(sexp.Int(e.Line), sexp.Int(e.Column)))
			seen++
		}
		return out
	}
	var items []sexp.Node
	for s.Scan() {
		k, ok := kindSym[s.Token()]
		if !ok {
			k = "invalid"
		}
		items = append(items, sexp.L(append([]sexp.Node{sexp.Sym(k), sexp.Str(s.StringValue()), sexp.Int(s.Position().Line), sexp.Int(s.Position().Column)}, newErrs()...)...))
	}
	eof = list("eof", posN(s.Position()), newErrs())
	return sexp.L(items...), eof, len(items)
}

// countLines: number of line terminators (LF, CR, CRLF each once) in the text.
func countLines(src []byte) int {
	n := 0
	for i := 0; i < len(src); i++ {
		switch src[i] {
		case '\n':
			n++
		case '\r':
			n++
			if i+1 < len(src) && src[i+1] == '\n' {
				i++
			}
		}
	}
	return n
}

// observe runs the real parser on src and packages one (run ...).
func observe(entry string, src []byte) sexp.Node {
	toks, eof, _ := scanTokens(src)
	var tree, errs, posm sexp.Node
	if entry == "value" {
		v, es := parser.ParseValue(src)
		if v == nil {
			tree = sexp.Sym("nil")
		} else {
			tree = wValue(v)
		}
		posm = pmValue(v)
		errs = wErrs(es)
	} else {
		d, es := parser.ParseDocument(src)
		tree = wDocument(d)
		posm = pmDocument(d)
		errs = wErrs(es)
	}
	return sexp.T("run", sexp.T("lines", sexp.Int(countLines(src))), sexp.T("toks", toks), eof, sexp.T("obs", tree, errs), sexp.T("src", sexp.Bytes(src)), sexp.T("posm", posm))
}

// fromBytesLimit: source texts up to this many bytes are also run through the composed model from
// their bytes (the extracted scanner model costs about 5 microseconds per byte); set per tier in main.
var fromBytesLimit = 512

func mkCase(entry, family string, expect sexp.Node, srcs ...[]byte) sexp.Node {
	runs := []sexp.Node{sexp.Sym("runs")}
	for _, s := range srcs {
		runs = append(runs, observe(entry, s))
	}
	return sexp.T("case", sexp.T("entry", sexp.Sym(entry)), sexp.T("family", sexp.Sym(family)), sexp.L(runs...), sexp.T("expect", expect), sexp.T("fblimit", sexp.Int(fromBytesLimit)))
}
