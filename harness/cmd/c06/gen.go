package main

// Generator side of c06: the generator's OWN tree type for executable documents, a printer from
// trees to token sources, random layouts of a token sequence, and the tree in the wire format with
// all positions 0 (what the real parser must return modulo positions).

import (
	"fmt"
	"strings"

	"verifharness/internal/rng"
	"verifharness/internal/sexp"
)

// ---- tokens as the printer emits them ----

type tkind int

const (
	tPunct tkind = iota
	tName
	tInt
	tFloat
	tString
)

type tok struct {
	kind tkind
	src  string
}

func P(s string) tok { return tok{tPunct, s} }
func N(s string) tok { return tok{tName, s} }

// ---- the generator's tree ----

type gValue struct {
	kind   string // var int float str bool null enum list obj
	name   string // var / enum
	lit    string // int / float literal, string source text
	sval   string // decoded string value
	b      bool
	items  []*gValue
	fnames []string // obj
}

type gType struct {
	kind  string // named list nonnull
	name  string
	inner *gType
}

type gArg struct {
	name string
	val  *gValue
}

type gDir struct {
	name string
	args []gArg
}

type gSel struct {
	kind  string // field spread inline
	alias string // "" = none
	name  string
	cond  string // inline: "" = none
	args  []gArg
	dirs  []gDir
	sub   []*gSel // nil = none (field)
}

type gVarDef struct {
	name string
	typ  *gType
	def  *gValue
}

type gDef struct {
	kind   string // op frag
	optype string // "" = shorthand
	name   string // "" = none
	cond   string
	vars   []gVarDef
	dirs   []gDir
	sub    []*gSel
}

// ---- printing to tokens ----

func (v *gValue) toks(out []tok) []tok {
	switch v.kind {
	case "var":
		return append(out, P("$"), N(v.name))
	case "int":
		return append(out, tok{tInt, v.lit})
	case "float":
		return append(out, tok{tFloat, v.lit})
	case "str":
		return append(out, tok{tString, v.lit})
	case "bool":
		if v.b {
			return append(out, N("true"))
		}
		return append(out, N("false"))
	case "null":
		return append(out, N("null"))
	case "enum":
		return append(out, N(v.name))
	case "list":
		out = append(out, P("["))
		for _, x := range v.items {
			out = x.toks(out)
		}
		return append(out, P("]"))
	case "obj":
		out = append(out, P("{"))
		for i, x := range v.items {
			out = append(out, N(v.fnames[i]), P(":"))
			out = x.toks(out)
		}
		return append(out, P("}"))
	}
	panic("gValue kind")
}

func (t *gType) toks(out []tok) []tok {
	switch t.kind {
	case "named":
		return append(out, N(t.name))
	case "list":
		out = append(out, P("["))
		out = t.inner.toks(out)
		return append(out, P("]"))
	case "nonnull":
		out = t.inner.toks(out)
		return append(out, P("!"))
	}
	panic("gType kind")
}

func argsToks(args []gArg, out []tok) []tok {
	if len(args) == 0 {
		return out
	}
	out = append(out, P("("))
	for _, a := range args {
		out = append(out, N(a.name), P(":"))
		out = a.val.toks(out)
	}
	return append(out, P(")"))
}

func dirsToks(ds []gDir, out []tok) []tok {
	for _, d := range ds {
		out = append(out, P("@"), N(d.name))
		out = argsToks(d.args, out)
	}
	return out
}

func selSetToks(ss []*gSel, out []tok) []tok {
	out = append(out, P("{"))
	for _, s := range ss {
		out = s.toks(out)
	}
	return append(out, P("}"))
}

func (s *gSel) toks(out []tok) []tok {
	switch s.kind {
	case "field":
		if s.alias != "" {
			out = append(out, N(s.alias), P(":"))
		}
		out = append(out, N(s.name))
		out = argsToks(s.args, out)
		out = dirsToks(s.dirs, out)
		if s.sub != nil {
			out = selSetToks(s.sub, out)
		}
		return out
	case "spread":
		out = append(out, P("..."), N(s.name))
		return dirsToks(s.dirs, out)
	case "inline":
		out = append(out, P("..."))
		if s.cond != "" {
			out = append(out, N("on"), N(s.cond))
		}
		out = dirsToks(s.dirs, out)
		return selSetToks(s.sub, out)
	}
	panic("gSel kind")
}

func (d *gDef) toks(out []tok) []tok {
	if d.kind == "frag" {
		out = append(out, N("fragment"), N(d.name), N("on"), N(d.cond))
		out = dirsToks(d.dirs, out)
		return selSetToks(d.sub, out)
	}
	if d.optype != "" {
		out = append(out, N(d.optype))
		if d.name != "" {
			out = append(out, N(d.name))
		}
		if len(d.vars) > 0 {
			out = append(out, P("("))
			for _, v := range d.vars {
				out = append(out, P("$"), N(v.name), P(":"))
				out = v.typ.toks(out)
				if v.def != nil {
					out = append(out, P("="))
					out = v.def.toks(out)
				}
			}
			out = append(out, P(")"))
		}
		out = dirsToks(d.dirs, out)
	}
	return selSetToks(d.sub, out)
}

func docToks(defs []*gDef) []tok {
	var out []tok
	for _, d := range defs {
		out = d.toks(out)
	}
	return out
}

// ---- the tree in the wire format, all positions 0 ----

var z = sexp.Int(0)

func zz(n int) []sexp.Node {
	out := make([]sexp.Node, n)
	for i := range out {
		out[i] = z
	}
	return out
}

func eIdent(n string) sexp.Node { return list("n", one(sexp.Str(n)), zz(2)) }
func eOptIdent(n string) sexp.Node {
	if n == "" {
		return sexp.None()
	}
	return sexp.Some(eIdent(n))
}

func (v *gValue) expect() sexp.Node {
	switch v.kind {
	case "var":
		return list("var", one(sexp.Str(v.name)), zz(4))
	case "int":
		return list("int", one(sexp.Str(v.lit)), zz(2))
	case "float":
		return list("float", one(sexp.Str(v.lit)), zz(2))
	case "str":
		return list("str", one(sexp.Str(v.sval)), zz(2))
	case "bool":
		return list("bool", one(sexp.Bool(v.b)), zz(2))
	case "null":
		return list("null", zz(2))
	case "enum":
		return list("enum", one(sexp.Str(v.name)), zz(2))
	case "list":
		items := make([]sexp.Node, 0, len(v.items))
		for _, x := range v.items {
			items = append(items, x.expect())
		}
		return list("list", one(sexp.L(items...)), zz(4))
	case "obj":
		items := make([]sexp.Node, 0, len(v.items))
		for i, x := range v.items {
			items = append(items, list("f", one(sexp.Str(v.fnames[i])), zz(2), one(x.expect())))
		}
		return list("obj", one(sexp.L(items...)), zz(4))
	}
	panic("gValue kind")
}

func (t *gType) expect() sexp.Node {
	switch t.kind {
	case "named":
		return list("named", one(sexp.Str(t.name)), zz(2))
	case "list":
		return list("listof", one(t.inner.expect()), zz(4))
	case "nonnull":
		return sexp.T("nonnull", t.inner.expect())
	}
	panic("gType kind")
}

func eArgs(args []gArg) sexp.Node {
	items := make([]sexp.Node, 0, len(args))
	for _, a := range args {
		items = append(items, list("arg", one(sexp.Str(a.name)), zz(2), one(a.val.expect())))
	}
	return sexp.L(items...)
}

func eDirs(ds []gDir) sexp.Node {
	items := make([]sexp.Node, 0, len(ds))
	for _, d := range ds {
		items = append(items, list("dir", one(sexp.Str(d.name)), zz(2), one(eArgs(d.args)), zz(2)))
	}
	return sexp.L(items...)
}

func eSelSet(ss []*gSel) sexp.Node {
	items := make([]sexp.Node, 0, len(ss))
	for _, s := range ss {
		items = append(items, s.expect())
	}
	return list("ss", one(sexp.L(items...)), zz(4))
}

func (s *gSel) expect() sexp.Node {
	switch s.kind {
	case "field":
		sub := sexp.None()
		if s.sub != nil {
			sub = sexp.Some(eSelSet(s.sub))
		}
		return sexp.T("field", eOptIdent(s.alias), eIdent(s.name), eArgs(s.args), eDirs(s.dirs), sub)
	case "spread":
		return list("spread", one(eIdent(s.name)), one(eDirs(s.dirs)), zz(2))
	case "inline":
		return list("inline", one(eOptIdent(s.cond)), one(eDirs(s.dirs)), one(eSelSet(s.sub)), zz(2))
	}
	panic("gSel kind")
}

func (d *gDef) expect() sexp.Node {
	if d.kind == "frag" {
		return list("frag", zz(2), []sexp.Node{eIdent(d.name), eIdent(d.cond), eDirs(d.dirs), eSelSet(d.sub)})
	}
	ot := sexp.None()
	if d.optype != "" {
		ot = sexp.Some(list("ot", one(sexp.Str(d.optype)), zz(2)))
	}
	vars := make([]sexp.Node, 0, len(d.vars))
	for _, v := range d.vars {
		def := sexp.None()
		if v.def != nil {
			def = sexp.Some(v.def.expect())
		}
		vars = append(vars, sexp.T("vardef", list("var", one(sexp.Str(v.name)), zz(4)), v.typ.expect(), def))
	}
	return sexp.T("op", ot, eOptIdent(d.name), sexp.L(vars...), eDirs(d.dirs), eSelSet(d.sub))
}

func docExpect(defs []*gDef) sexp.Node {
	items := []sexp.Node{sexp.Sym("doc")}
	for _, d := range defs {
		items = append(items, d.expect())
	}
	return sexp.L(items...)
}

// ---- random layouts of a token sequence ----

type layout struct {
	bom      bool
	dense    int // chance (out of 8) of an empty separator where adjacency is safe
	newlines int // weight of line terminators among separator pieces
	comments int // weight of comments
	commas   int
	term     int // 0 mixed, 1 LF, 2 CR, 3 CRLF
}

func randLayout(r *rng.R) layout {
	return layout{
		bom:      r.Chance(1, 5),
		dense:    rng.Pick(r, []int{0, 4, 7}),
		newlines: r.Intn(4),
		comments: r.Intn(3),
		commas:   r.Intn(3),
		term:     r.Intn(4),
	}
}

var commentBodies = []string{"", " c", "{ } \"x\" $a ...", "\t# #", " é世", "query { a }", " \\\" \"\"\""}

func (l layout) terminator(r *rng.R) string {
	switch l.term {
	case 1:
		return "\n"
	case 2:
		return "\r"
	case 3:
		return "\r\n"
	}
	return rng.Pick(r, []string{"\n", "\r", "\r\n", "\n"})
}

func (l layout) sep(r *rng.R, required bool, last bool) string {
	if !required && r.Intn(8) < l.dense {
		return ""
	}
	var b strings.Builder
	n := 1 + r.Intn(3)
	for i := 0; i < n; i++ {
		w := r.Intn(4 + l.newlines + l.comments + l.commas)
		switch {
		case w < 3:
			b.WriteByte(' ')
		case w < 4:
			b.WriteByte('\t')
		case w < 4+l.newlines:
			b.WriteString(l.terminator(r))
		case w < 4+l.newlines+l.comments:
			b.WriteByte('#')
			b.WriteString(rng.Pick(r, commentBodies))
			if !(last && i == n-1 && r.Bool()) { // a comment may also run to the end of the input
				b.WriteString(l.terminator(r))
			}
		default:
			b.WriteByte(',')
		}
	}
	return b.String()
}

func wordy(k tkind) bool { return k == tName || k == tInt || k == tFloat }

// needSep: would a and b lex differently when written without anything between them?
func needSep(a, b tok) bool {
	if wordy(a.kind) && wordy(b.kind) {
		return true
	}
	if a.kind == tString && b.kind == tString {
		return true
	}
	if (a.src == "..." && (b.src == "..." || b.kind == tInt || b.kind == tFloat)) || (b.src == "..." && (a.kind == tInt || a.kind == tFloat)) {
		return true
	}
	return false
}

func render(r *rng.R, l layout, ts []tok) []byte {
	var b strings.Builder
	if l.bom {
		b.WriteString("\ufeff")
	}
	if r.Chance(1, 3) {
		b.WriteString(l.sep(r, true, len(ts) == 0))
	}
	for i, t := range ts {
		if i > 0 {
			b.WriteString(l.sep(r, needSep(ts[i-1], t), false))
		}
		b.WriteString(t.src)
	}
	if r.Chance(1, 3) {
		b.WriteString(l.sep(r, true, true))
	}
	return []byte(b.String())
}

func renderPlain(ts []tok) []byte {
	var b strings.Builder
	for i, t := range ts {
		if i > 0 {
			b.WriteByte(' ')
		}
		b.WriteString(t.src)
	}
	return []byte(b.String())
}

// ---- random trees ----

var namePool = []string{"a", "b", "c", "foo", "_x1", "Bar", "id", "on", "fragment", "query", "mutation", "subscription",
	"true", "false", "null", "Int", "String", "e", "E1", "x", "if", "type", "__typename", "on_", "nulls"}

type gen struct {
	r      *rng.R
	budget int
}

func (g *gen) name() string { return rng.Pick(g.r, namePool) }
func (g *gen) nameNot(bad ...string) string {
	for {
		n := g.name()
		ok := true
		for _, b := range bad {
			if n == b {
				ok = false
			}
		}
		if ok {
			return n
		}
	}
}

var intLits = []string{"0", "-0", "1", "7", "-45", "123", "9007199254740993", "-2147483648"}
var floatLits = []string{"1.5", "-0.0", "1e10", "1.5E-3", "0e0", "12.25e+7", "-3E2", "0.1"}

// string literals: source text and decoded value.  Quoted strings are escaped here; the block
// strings are fixed templates whose values follow the specification's BlockStringValue().
type strLit struct{ src, val string }

var blockLits = []strLit{
	{`"""abc"""`, "abc"},
	{`""" a "b" c"""`, ` a "b" c`},
	{"\"\"\"x\n  y\n  z\"\"\"", "x\ny\nz"},
	{"\"\"\"\n    first\n      second\n    \"\"\"", "first\n  second"},
	{"\"\"\"a\r\nb\rc\"\"\"", "a\nb\nc"},
	{`"""say \""" ok"""`, `say """ ok`},
	{`""""""`, ""},
}

var strChars = []string{"a", "b", " ", "\"", "\\", "\n", "\t", "é", "世", "/", "#", "{", "u", "0"}

func (g *gen) strLit() strLit {
	if g.r.Chance(1, 5) {
		return rng.Pick(g.r, blockLits)
	}
	n := g.r.Intn(6)
	var src, val strings.Builder
	src.WriteByte('"')
	for i := 0; i < n; i++ {
		c := rng.Pick(g.r, strChars)
		val.WriteString(c)
		switch c {
		case "\"":
			src.WriteString(`\"`)
		case "\\":
			src.WriteString(`\\`)
		case "\n":
			src.WriteString(`\n`)
		case "\t":
			if g.r.Bool() {
				src.WriteString(`\t`)
			} else {
				src.WriteString("\t")
			}
		case "/":
			if g.r.Bool() {
				src.WriteString(`\/`)
			} else {
				src.WriteString("/")
			}
		case "é":
			if g.r.Bool() {
				src.WriteString(`\u00e9`)
			} else {
				src.WriteString(c)
			}
		default:
			src.WriteString(c)
		}
	}
	src.WriteByte('"')
	return strLit{src.String(), val.String()}
}

func (g *gen) value(constant bool, depth int) *gValue {
	g.budget--
	k := g.r.Intn(11)
	if depth <= 0 || g.budget <= 0 {
		k = g.r.Intn(8)
	}
	switch k {
	case 0:
		if !constant {
			return &gValue{kind: "var", name: g.name()}
		}
		return &gValue{kind: "null"}
	case 1:
		return &gValue{kind: "int", lit: rng.Pick(g.r, intLits)}
	case 2:
		return &gValue{kind: "float", lit: rng.Pick(g.r, floatLits)}
	case 3:
		s := g.strLit()
		return &gValue{kind: "str", lit: s.src, sval: s.val}
	case 4:
		return &gValue{kind: "bool", b: g.r.Bool()}
	case 5:
		return &gValue{kind: "null"}
	case 6, 7:
		return &gValue{kind: "enum", name: g.nameNot("true", "false", "null")}
	case 8, 9:
		v := &gValue{kind: "list"}
		for n := g.r.Intn(4); n > 0; n-- {
			v.items = append(v.items, g.value(constant, depth-1))
		}
		return v
	default:
		v := &gValue{kind: "obj"}
		for n := g.r.Intn(4); n > 0; n-- {
			v.fnames = append(v.fnames, g.name())
			v.items = append(v.items, g.value(constant, depth-1))
		}
		return v
	}
}

func (g *gen) typ(depth int) *gType {
	var t *gType
	if depth > 0 && g.r.Chance(1, 3) {
		t = &gType{kind: "list", inner: g.typ(depth - 1)}
	} else {
		t = &gType{kind: "named", name: g.name()}
	}
	if g.r.Chance(1, 3) {
		t = &gType{kind: "nonnull", inner: t}
	}
	return t
}

func (g *gen) args() []gArg {
	if !g.r.Chance(1, 3) {
		return nil
	}
	var out []gArg
	for n := 1 + g.r.Intn(3); n > 0; n-- {
		out = append(out, gArg{g.name(), g.value(false, 3)})
	}
	return out
}

func (g *gen) dirs() []gDir {
	if !g.r.Chance(1, 4) {
		return nil
	}
	var out []gDir
	for n := 1 + g.r.Intn(2); n > 0; n-- {
		out = append(out, gDir{g.name(), g.args()})
	}
	return out
}

func (g *gen) selSet(depth int) []*gSel {
	var out []*gSel
	n := 1 + g.r.Intn(4)
	for i := 0; i < n; i++ {
		out = append(out, g.sel(depth))
	}
	return out
}

func (g *gen) sel(depth int) *gSel {
	g.budget--
	k := g.r.Intn(10)
	if depth <= 0 || g.budget <= 0 {
		k = g.r.Intn(7)
	}
	switch {
	case k < 5:
		s := &gSel{kind: "field", name: g.name(), args: g.args(), dirs: g.dirs()}
		if g.r.Chance(1, 4) {
			s.alias = g.name()
		}
		return s
	case k < 7:
		return &gSel{kind: "spread", name: g.nameNot("on"), dirs: g.dirs()}
	case k < 9:
		s := &gSel{kind: "field", name: g.name(), args: g.args(), dirs: g.dirs(), sub: g.selSet(depth - 1)}
		if g.r.Chance(1, 4) {
			s.alias = g.name()
		}
		return s
	default:
		s := &gSel{kind: "inline", dirs: g.dirs(), sub: g.selSet(depth - 1)}
		if g.r.Bool() {
			s.cond = g.name()
		}
		return s
	}
}

func (g *gen) def() *gDef {
	switch g.r.Intn(5) {
	case 0:
		return &gDef{kind: "op", sub: g.selSet(3)}
	case 1:
		return &gDef{kind: "frag", name: g.nameNot("on"), cond: g.name(), dirs: g.dirs(), sub: g.selSet(3)}
	default:
		d := &gDef{kind: "op", optype: rng.Pick(g.r, []string{"query", "mutation", "subscription"}), dirs: g.dirs()}
		if g.r.Bool() {
			d.name = g.name()
		}
		if g.r.Chance(1, 2) {
			for n := 1 + g.r.Intn(3); n > 0; n-- {
				v := gVarDef{name: g.name(), typ: g.typ(3)}
				if g.r.Chance(1, 2) {
					v.def = g.value(true, 3)
				}
				d.vars = append(d.vars, v)
			}
		}
		d.sub = g.selSet(3)
		return d
	}
}

func (g *gen) doc() []*gDef {
	var out []*gDef
	for n := 1 + g.r.Intn(3); n > 0; n-- {
		out = append(out, g.def())
	}
	return out
}

func describe(ts []tok) string {
	var parts []string
	for _, t := range ts {
		parts = append(parts, t.src)
	}
	return fmt.Sprint(parts)
}
