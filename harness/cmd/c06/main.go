// c06: the real scanner + parser against the Coq parser model (coq/Syn/ParserModel.v).
//
// Every case carries, per source text ("run"): the significant tokens the REAL scanner produced
// (kind, StringValue, line, column, scanner errors of that Scan call), the end-of-input position,
// and what the REAL parser.ParseDocument / parser.ParseValue returned (the whole tree with every
// position field, or nil, and the location of every error).  Cases printed from a generated tree
// also carry that tree (positions 0) so that parse(print(t)) == t is checked against the
// generator's own tree type, independently of the Coq printer.
//
// Streams, small first: fixed sources; every token sequence up to a length over a dense alphabet
// (documents and values); random trees in two random layouts each (spaces, tabs, commas, comments,
// LF/CR/CRLF, BOM); single-token deletions / insertions / swaps / replacements of valid
// documents; wide flat documents and nesting around the recursion limit; hostile bytes.
package main

import (
	"bytes"

	"github.com/ccbrown/api-fu/graphql/scanner"
	"github.com/ccbrown/api-fu/graphql/token"

	"verifharness/internal/hx"
	"verifharness/internal/rng"
	"verifharness/internal/sexp"
)

var none = sexp.Sym("none")

// fixed sources: the error snippets of parser_test.go, a kitchen sink, past findings
var fixedDocs = []string{
	``, `{`, `fragment on on Foo {x}`, `foo foo {x}`, `{...}`, `{}`, `fragment foo {x}`, `{foo()}`, `query q() {x}`,
	`query q($foo) {x}`, `query q($foo: [Int x]) {x}`, `{x(foo)}`, `{x(o: {foo})}`, `query q(x)`, "{\U0001F47Ex}",
	`query ($n:Int=1) {x}`, `query ($n:Float=1.2) {x}`, `query ($n:Int=$x) {x}`, `query ($n:Float, $ns:[[Int!]]) {x}`,
	`{x} ` + "\x00", `{x(a:1e)}`, `{x(a:"abc)}`, `{a} {b}`, `{a} x`, `{a}}`, `query`, `query {a} fragment`,
	`{a:b:c}`, `{... on on {a}}`, `{...on}`, `{... on}`, `{...on{a}}`, `{... @d {a}}`, `{...a@d(x:1)}`, `{a!}`, `{a|b}`,
	`query q($a:Int!!){a}`, `query q($a:[Int]!=[1 2]){a}`, `query q($a:Int=[$b]){a}`, `query q($a:Int={k:$b}){a}`,
	`fragment fragment on fragment {fragment}`, `subscription on {on: on(on: on) @on(on: on) {on}}`,
	`query fragment {a}`, `mutation true($true: true = true) @true(true: true) {true: true}`,
	"query Q($a: [Int!]! = [1, 2] $b: S = \"x\") @d(x: {a: [1.5, $c], b: E}) {\n  a: b(x: 1) @e { ...F ... on T @f { c } ... { d } }\n}\n\nfragment F on T @g { h }\n",
	"# only a comment", "\ufeff", "\ufeff{a}", "{a}\ufeff", ",,,{,a,},,,", "{a}\r\n{b}\r{c}\n{d}", "{\"a\"}", "{1}", "{a(b:\"\"\"x\ny\"\"\")\nc}",
}

var fixedValues = []string{
	``, `!`, `null`, `[123 "abc"]`, `["""long""" "short"]`, `{foo: "foo"}`, `1 2`, `1 }`, "[1] \x00", "1 2 \x00", `$a`, `{a:1 b:$c}`,
	`1e`, `[`, `[1`, `{a}`, `{a:}`, `{:1}`, `[[[]]]`, `{a:{b:{}}}`, `true`, `false`, `on`, `$`, `$1`, `$ a`, `1.5`, `-0`, `"x" "y"`, `[$a, $b]`,
}

var docAlphabet = []tok{P("{"), P("}"), P("("), P(")"), P(":"), N("a"), P("$"), P("..."), N("on"), N("fragment"), N("query"), P("@"), {tInt, "1"}}
var docAlphabetWide = append(append([]tok{}, docAlphabet...), P("["), P("]"), P("!"), P("="))
var valAlphabet = []tok{P("["), P("]"), P("{"), P("}"), P(":"), N("a"), P("$"), {tInt, "1"}, {tString, `"s"`}, N("null"), P("!")}
var mutAlphabet = append(append([]tok{}, docAlphabetWide...), tok{tString, `"s"`}, tok{tFloat, "1.5"}, P("|"), N("true"), N("null"), N("mutation"), N("b"))

func enumerate(h *hx.H, entry string, alphabet []tok, maxLen int) {
	for n := 0; n <= maxLen; n++ {
		idx := make([]int, n)
		for {
			seq := make([]tok, n)
			for i, k := range idx {
				seq[i] = alphabet[k]
			}
			h.Case(func(r *rng.R) sexp.Node { return mkCase(entry, "exhaustive", none, renderPlain(seq)) })
			i := n - 1
			for ; i >= 0; i-- {
				idx[i]++
				if idx[i] < len(alphabet) {
					break
				}
				idx[i] = 0
			}
			if i < 0 {
				break
			}
		}
	}
}

// block string templates whose value the real scanner agrees with (string decoding is C07's
// business; a disagreement there must not surface here)
func initBlockLits() {
	var ok []strLit
	for _, b := range blockLits {
		s := scanner.New([]byte(b.src), 0)
		if s.Scan() && s.Token() == token.STRING_VALUE && s.StringValue() == b.val && len(s.Errors()) == 0 && !s.Scan() {
			ok = append(ok, b)
		}
	}
	blockLits = ok
	if len(blockLits) == 0 {
		blockLits = []strLit{{`"b"`, "b"}}
	}
}

// ---- mutations of a valid token sequence ----

func mutate(r *rng.R, ts []tok) []tok {
	out := append([]tok{}, ts...)
	n := len(out)
	switch r.Intn(5) {
	case 0: // delete
		if n > 0 {
			i := r.Intn(n)
			out = append(out[:i], out[i+1:]...)
		}
	case 1: // insert
		i := r.Intn(n + 1)
		out = append(out[:i], append([]tok{rng.Pick(r, mutAlphabet)}, out[i:]...)...)
	case 2: // swap neighbours
		if n > 1 {
			i := r.Intn(n - 1)
			out[i], out[i+1] = out[i+1], out[i]
		}
	case 3: // replace
		if n > 0 {
			out[r.Intn(n)] = rng.Pick(r, mutAlphabet)
		}
	default: // duplicate
		if n > 0 {
			i := r.Intn(n)
			out = append(out[:i+1], out[i:]...)
		}
	}
	return out
}

// ---- families: wide and deep ----

func field(name string) *gSel { return &gSel{kind: "field", name: name} }

func shorthand(sub ...*gSel) []*gDef { return []*gDef{{kind: "op", sub: sub}} }

func repeatSel(n int, f func(i int) *gSel) []*gSel {
	out := make([]*gSel, n)
	for i := range out {
		out[i] = f(i)
	}
	return out
}

func intVal() *gValue { return &gValue{kind: "int", lit: "1"} }

func nestList(n int, leaf *gValue) *gValue {
	v := leaf
	for i := 0; i < n; i++ {
		v = &gValue{kind: "list", items: []*gValue{v}}
	}
	return v
}

func nestObj(n int, leaf *gValue) *gValue {
	v := leaf
	for i := 0; i < n; i++ {
		v = &gValue{kind: "obj", fnames: []string{"k"}, items: []*gValue{v}}
	}
	return v
}

func nestSel(n int) []*gSel { // n selection sets
	ss := []*gSel{field("a")}
	for i := 1; i < n; i++ {
		ss = []*gSel{{kind: "field", name: "a", sub: ss}}
	}
	return ss
}

func nestInline(n int, cond string) []*gSel {
	ss := []*gSel{field("a")}
	for i := 1; i < n; i++ {
		ss = []*gSel{{kind: "inline", cond: cond, sub: ss}}
	}
	return ss
}

func nestType(n int) *gType {
	t := &gType{kind: "named", name: "T"}
	for i := 0; i < n; i++ {
		t = &gType{kind: "list", inner: t}
		if i%3 == 1 {
			t = &gType{kind: "nonnull", inner: t}
		}
	}
	return t
}

type family struct {
	name string
	doc  func(n int) []*gDef
	val  func(n int) *gValue
	ns   []int
}

func around(c int) []int {
	return []int{c - 3, c - 2, c - 1, c, c + 1, c + 2, c + 3}
}

func families(thorough bool) []family {
	wide := []int{1, 2, 993, 994, 995, 1000, 1001, 2000}
	wide2 := []int{1000, 2500}
	if thorough {
		wide = append(wide, 990, 991, 992, 996, 997, 998, 999, 1002, 4000, 10000)
		wide2 = append(wide2, 999, 1001, 6000)
	}
	arg := func(v *gValue) []*gDef {
		return shorthand(&gSel{kind: "field", name: "a", args: []gArg{{"x", v}}})
	}
	fs := []family{
		{name: "wide", ns: wide, doc: func(n int) []*gDef { return shorthand(repeatSel(n, func(int) *gSel { return field("a") })...) }},
		{name: "wide", ns: wide2, doc: func(n int) []*gDef {
			return shorthand(repeatSel(n, func(i int) *gSel { return &gSel{kind: "spread", name: "F"} })...)
		}},
		{name: "wide", ns: wide2, doc: func(n int) []*gDef {
			return shorthand(repeatSel(n, func(i int) *gSel { return &gSel{kind: "inline", sub: []*gSel{field("a")}} })...)
		}},
		{name: "wide", ns: wide2, doc: func(n int) []*gDef {
			return shorthand(repeatSel(n, func(i int) *gSel { return &gSel{kind: "field", name: "a", alias: "b", sub: []*gSel{field("c")}} })...)
		}},
		{name: "wide", ns: wide2, doc: func(n int) []*gDef {
			args := make([]gArg, n)
			for i := range args {
				args[i] = gArg{"x", intVal()}
			}
			return shorthand(&gSel{kind: "field", name: "a", args: args})
		}},
		{name: "wide", ns: wide2, doc: func(n int) []*gDef {
			ds := make([]gDir, n)
			for i := range ds {
				ds[i] = gDir{name: "d"}
			}
			return shorthand(&gSel{kind: "field", name: "a", dirs: ds})
		}},
		{name: "wide", ns: wide2, doc: func(n int) []*gDef {
			items := make([]*gValue, n)
			for i := range items {
				items[i] = intVal()
			}
			return arg(&gValue{kind: "list", items: items})
		}},
		{name: "wide", ns: wide2, doc: func(n int) []*gDef {
			v := &gValue{kind: "obj"}
			for i := 0; i < n; i++ {
				v.fnames = append(v.fnames, "k")
				v.items = append(v.items, &gValue{kind: "var", name: "v"})
			}
			return arg(v)
		}},
		{name: "wide", ns: wide2, doc: func(n int) []*gDef {
			d := &gDef{kind: "op", optype: "query", sub: []*gSel{field("a")}}
			for i := 0; i < n; i++ {
				d.vars = append(d.vars, gVarDef{name: "v", typ: &gType{kind: "named", name: "T"}, def: intVal()})
			}
			return []*gDef{d}
		}},
		{name: "wide", ns: wide2, doc: func(n int) []*gDef {
			out := make([]*gDef, n)
			for i := range out {
				if i%2 == 0 {
					out[i] = &gDef{kind: "op", sub: []*gSel{field("a")}}
				} else {
					out[i] = &gDef{kind: "frag", name: "F", cond: "T", sub: []*gSel{field("a")}}
				}
			}
			return out
		}},
		{name: "wide", ns: wide2, doc: func(n int) []*gDef {
			out := make([]*gDef, n)
			for i := range out {
				out[i] = &gDef{kind: "op", optype: []string{"query", "mutation", "subscription"}[i%3], name: "Q",
					vars: []gVarDef{{name: "v", typ: &gType{kind: "nonnull", inner: &gType{kind: "named", name: "T"}}}},
					dirs: []gDir{{name: "d"}}, sub: []*gSel{{kind: "inline", cond: "T", sub: []*gSel{field("a")}}}}
			}
			return out
		}},
		{name: "wide", ns: wide2, val: func(n int) *gValue {
			items := make([]*gValue, n)
			for i := range items {
				items[i] = intVal()
			}
			return &gValue{kind: "list", items: items}
		}},
		// nesting around the recursion limit (the exact boundary is the model's business; the
		// ranges straddle it)
		{name: "deep", ns: around(249), doc: func(n int) []*gDef { return shorthand(nestSel(n)...) }},
		{name: "deep", ns: around(249), doc: func(n int) []*gDef {
			return []*gDef{{kind: "frag", name: "F", cond: "T", sub: nestSel(n)}}
		}},
		{name: "deep", ns: around(498), doc: func(n int) []*gDef { return shorthand(nestInline(n, "")...) }},
		{name: "deep", ns: around(497), doc: func(n int) []*gDef { return shorthand(nestInline(n, "T")...) }},
		{name: "deep", ns: around(990), doc: func(n int) []*gDef { return arg(nestList(n, intVal())) }},
		{name: "deep", ns: around(988), doc: func(n int) []*gDef { return arg(nestList(n, &gValue{kind: "var", name: "v"})) }},
		{name: "deep", ns: around(990), doc: func(n int) []*gDef { return arg(nestObj(n, intVal())) }},
		{name: "deep", ns: around(988), doc: func(n int) []*gDef {
			return shorthand(&gSel{kind: "field", name: "a", dirs: []gDir{{"d", []gArg{{"x", nestList(n, intVal())}}}}})
		}},
		{name: "deep", ns: around(992), doc: func(n int) []*gDef {
			return []*gDef{{kind: "op", optype: "query", vars: []gVarDef{{name: "v", typ: nestType(n)}}, sub: []*gSel{field("a")}}}
		}},
		{name: "deep", ns: around(993), doc: func(n int) []*gDef {
			return []*gDef{{kind: "op", optype: "query", vars: []gVarDef{{name: "v", typ: nestType(1), def: nestList(n, intVal())}}, sub: []*gSel{field("a")}}}
		}},
		{name: "deep", ns: around(999), val: func(n int) *gValue { return nestList(n, intVal()) }},
		{name: "deep", ns: around(997), val: func(n int) *gValue { return nestObj(n, &gValue{kind: "var", name: "v"}) }},
		{name: "deep", ns: []int{1200, 2500}, doc: func(n int) []*gDef { return shorthand(nestSel(n)...) }},
		{name: "deep", ns: []int{1500, 4000}, val: func(n int) *gValue { return nestList(n, intVal()) }},
	}
	return fs
}

// ---- hostile bytes ----

var hostileAlphabet = []string{"{", "}", "(", ")", ":", "$", ".", "..", "...", "\"", "\\", "#", "a", "on", "1", "e", "-", " ", "\n", "\r", ",", "@", "!",
	"[", "]", "=", "|", "&", "\ufeff", "é", "\xff", "\x00", "\"\"\"", "0", "1.", "1e", "\\u", "query", "fragment", "\U0001F47E", "\t", "x:"}

func hostile(r *rng.R) []byte {
	var b bytes.Buffer
	for n := r.Intn(14); n > 0; n-- {
		b.WriteString(rng.Pick(r, hostileAlphabet))
	}
	return b.Bytes()
}

func byteMutate(r *rng.R, src []byte) []byte {
	out := append([]byte{}, src...)
	if len(out) == 0 {
		return []byte(rng.Pick(r, hostileAlphabet))
	}
	i := r.Intn(len(out))
	ins := []byte(rng.Pick(r, hostileAlphabet))
	switch r.Intn(3) {
	case 0:
		out = append(out[:i], out[i+1:]...)
	case 1:
		out = append(out[:i], append(ins, out[i:]...)...)
	default:
		out = append(out[:i], append(ins, out[i+1:]...)...)
	}
	return out
}

func main() {
	hx.Main(func(h *hx.H) {
		initBlockLits()
		th := h.Thorough()
		if th {
			fromBytesLimit = 4096
		}
		scale := 1
		if th {
			scale = 20
		}

		// 1. fixed sources
		for _, s := range fixedDocs {
			s := s
			h.Case(func(r *rng.R) sexp.Node { return mkCase("doc", "fixed", none, []byte(s)) })
		}
		for _, s := range fixedValues {
			s := s
			h.Case(func(r *rng.R) sexp.Node { return mkCase("value", "fixed", none, []byte(s)) })
		}

		// 2. every token sequence up to a length
		if th {
			enumerate(h, "doc", docAlphabet, 5)
			enumerate(h, "doc", docAlphabetWide, 4)
			enumerate(h, "value", valAlphabet, 5)
		} else {
			enumerate(h, "doc", docAlphabet, 4)
			enumerate(h, "value", valAlphabet, 4)
		}

		// 3. random trees, two layouts each
		for i := 0; i < 2500*scale; i++ {
			h.Case(func(r *rng.R) sexp.Node {
				g := &gen{r: r, budget: 10 + r.Intn(60)}
				d := g.doc()
				ts := docToks(d)
				return mkCase("doc", "random", docExpect(d), render(r, randLayout(r), ts), render(r, randLayout(r), ts))
			})
		}
		for i := 0; i < 700*scale; i++ {
			h.Case(func(r *rng.R) sexp.Node {
				g := &gen{r: r, budget: 5 + r.Intn(30)}
				v := g.value(false, 4)
				ts := v.toks(nil)
				return mkCase("value", "random", v.expect(), render(r, randLayout(r), ts), render(r, randLayout(r), ts))
			})
		}

		// 4. single-token mutations of valid documents / values
		for i := 0; i < 3000*scale; i++ {
			h.Case(func(r *rng.R) sexp.Node {
				g := &gen{r: r, budget: 5 + r.Intn(25)}
				ts := mutate(r, docToks(g.doc()))
				return mkCase("doc", "mutation", none, render(r, randLayout(r), ts), render(r, randLayout(r), ts))
			})
		}
		for i := 0; i < 600*scale; i++ {
			h.Case(func(r *rng.R) sexp.Node {
				g := &gen{r: r, budget: 5 + r.Intn(15)}
				ts := mutate(r, g.value(false, 3).toks(nil))
				return mkCase("value", "mutation", none, render(r, randLayout(r), ts))
			})
		}

		// 5. wide and deep
		for _, f := range families(th) {
			for _, n := range f.ns {
				f, n := f, n
				h.Case(func(r *rng.R) sexp.Node {
					l := randLayout(r)
					if f.doc != nil {
						d := f.doc(n)
						return mkCase("doc", f.name, docExpect(d), render(r, l, docToks(d)))
					}
					v := f.val(n)
					return mkCase("value", f.name, v.expect(), render(r, l, v.toks(nil)))
				})
			}
		}

		// 6. hostile bytes
		for i := 0; i < 1500*scale; i++ {
			h.Case(func(r *rng.R) sexp.Node {
				entry := "doc"
				if r.Chance(1, 4) {
					entry = "value"
				}
				if r.Bool() {
					return mkCase(entry, "hostile", none, hostile(r))
				}
				g := &gen{r: r, budget: 5 + r.Intn(20)}
				var ts []tok
				if entry == "doc" {
					ts = docToks(g.doc())
				} else {
					ts = g.value(false, 3).toks(nil)
				}
				return mkCase(entry, "hostile", none, byteMutate(r, render(r, randLayout(r), ts)))
			})
		}
	})
}
