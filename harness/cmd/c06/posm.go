package main

// The Position() method of every AST node of a parsed tree, in a fixed pre-order (the node's own
// Position(), then its children's, in source order).  coq/Syn/PositionMethods.v computes the same
// list from the tree with the model's position functions; the two must be equal.
// (*Document).Position() is the constant {1, 1} and is left out.

import (
	"github.com/ccbrown/api-fu/graphql/ast"
	"github.com/ccbrown/api-fu/graphql/token"

	"verifharness/internal/sexp"
)

type posAcc struct{ out []sexp.Node }

func (a *posAcc) add(p token.Position) {
	a.out = append(a.out, sexp.Int(p.Line), sexp.Int(p.Column))
}

func (a *posAcc) variable(x *ast.Variable) {
	a.add(x.Position())
	a.add(x.Name.Position())
}

func (a *posAcc) value(v ast.Value) {
	switch v := v.(type) {
	case *ast.Variable:
		a.variable(v)
	case *ast.ListValue:
		a.add(v.Position())
		for _, x := range v.Values {
			a.value(x)
		}
	case *ast.ObjectValue:
		a.add(v.Position())
		for _, f := range v.Fields {
			a.add(f.Position())
			a.add(f.Name.Position())
			a.value(f.Value)
		}
	default:
		a.add(v.Position())
	}
}

func (a *posAcc) typ(t ast.Type) {
	a.add(t.Position())
	switch t := t.(type) {
	case *ast.NamedType:
		a.add(t.Name.Position())
	case *ast.ListType:
		a.typ(t.Type)
	case *ast.NonNullType:
		a.typ(t.Type)
	}
}

func (a *posAcc) arguments(args []*ast.Argument) {
	for _, x := range args {
		a.add(x.Position())
		a.add(x.Name.Position())
		a.value(x.Value)
	}
}

func (a *posAcc) directives(ds []*ast.Directive) {
	for _, d := range ds {
		a.add(d.Position())
		a.add(d.Name.Position())
		a.arguments(d.Arguments)
	}
}

func (a *posAcc) namedType(t *ast.NamedType) {
	a.add(t.Position())
	a.add(t.Name.Position())
}

func (a *posAcc) selection(s ast.Selection) {
	a.add(s.Position())
	switch s := s.(type) {
	case *ast.Field:
		if s.Alias != nil {
			a.add(s.Alias.Position())
		}
		a.add(s.Name.Position())
		a.arguments(s.Arguments)
		a.directives(s.Directives)
		if s.SelectionSet != nil {
			a.selSet(s.SelectionSet)
		}
	case *ast.FragmentSpread:
		a.add(s.FragmentName.Position())
		a.directives(s.Directives)
	case *ast.InlineFragment:
		if s.TypeCondition != nil {
			a.namedType(s.TypeCondition)
		}
		a.directives(s.Directives)
		a.selSet(s.SelectionSet)
	}
}

func (a *posAcc) selSet(ss *ast.SelectionSet) {
	a.add(ss.Position())
	for _, s := range ss.Selections {
		a.selection(s)
	}
}

func (a *posAcc) definition(d ast.Definition) {
	a.add(d.Position())
	switch d := d.(type) {
	case *ast.OperationDefinition:
		if d.OperationType != nil {
			a.add(d.OperationType.Position())
		}
		if d.Name != nil {
			a.add(d.Name.Position())
		}
		for _, v := range d.VariableDefinitions {
			a.add(v.Position())
			a.variable(v.Variable)
			a.typ(v.Type)
			if v.DefaultValue != nil {
				a.value(v.DefaultValue)
			}
		}
		a.directives(d.Directives)
		a.selSet(d.SelectionSet)
	case *ast.FragmentDefinition:
		a.add(d.Name.Position())
		a.namedType(d.TypeCondition)
		a.directives(d.Directives)
		a.selSet(d.SelectionSet)
	}
}

func pmDocument(d *ast.Document) sexp.Node {
	a := &posAcc{}
	if d != nil {
		for _, def := range d.Definitions {
			a.definition(def)
		}
	}
	return sexp.L(a.out...)
}

func pmValue(v ast.Value) sexp.Node {
	a := &posAcc{}
	if v != nil {
		a.value(v)
	}
	return sexp.L(a.out...)
}
