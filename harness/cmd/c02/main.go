// c02: execution plan trees against the real executor + future machinery.
//
// From a generated plan tree (selection sets of (response key, field plan); a field plan = the
// resolver's outcome, delivered synchronously or through a graphql.ResolvePromise, beneath a type
// shape of nullable / non-null wrappers, lists and objects) this command builds a real schema, a
// real query text and real resolvers, runs graphql.Execute with an IdleHandler that alone decides
// when each promise is fulfilled, and records: the ordered data, the errors (path + an index of
// the message text), the number of idle rounds, the resolvers' global event log.
//
//	c02 -mode c02   queries (and some mutations): property C02
//	c02 -mode c11   mutation documents with 2-4 root fields: property C11
//
// Schedule: every promise carries a static tag (preorder number of its field invocation in the
// plan) and the case assigns a rank to every tag; an idle round fulfils, in creation order, the
// outstanding promises of minimal rank.  Every fair schedule of a run is of this form (rank =
// round of fulfilment), so enumerating all ordered set partitions of the tags enumerates all
// schedules.
package main

import (
	"context"
	"errors"
	"flag"
	"fmt"
	"os"
	"reflect"
	"sort"
	"strconv"
	"strings"
	"time"

	"github.com/ccbrown/api-fu/graphql"
	"github.com/ccbrown/api-fu/graphql/executor"

	"verifharness/internal/hx"
	"verifharness/internal/rng"
	"verifharness/internal/sexp"
)

// ---------------------------------------------------------------------------------------------
// plan trees
// ---------------------------------------------------------------------------------------------

const (
	kLeaf = iota
	kList
	kObj
)

// leaf kinds: how a leaf value z crosses the result coercion of its scalar / enum type
const (
	lInt = iota
	lString
	lFloat
	lID
	lEnum
	lCustom
	nLeafKinds
)

type typ struct {
	nn      bool
	kind    int
	leaf    int      // kLeaf: lInt ...
	abs     int      // kObj: 0 object type, 1 behind an interface, 2 behind a union
	item    *typ     // kList
	fields  []*ftype // kObj
	gql     graphql.Type
	objName string // kObj: name of the concrete object type (set when the schema is built)
}

type zval int // the Go value a custom scalar's resolver returns

type badObj struct{} // a value no IsTypeOf accepts

type ftype struct {
	key, name string
	t         *typ
}

const (
	vNull = iota
	vLeaf
	vBad
	vList
	vObj
)

type val struct {
	kind   int
	z      int
	items  []*val
	fields []*fval // parallel to t.fields
	t      *typ
}

// typedNilErr: an error VALUE that is nil — an `error` interface holding a nil *typedNilErr.  The
// executor must treat it exactly like a nil error (executor.go isNil, future.Result.IsOk) on both
// delivery routes: returned next to the value by a resolver, or sent next to it through a promise.
type typedNilErr struct{}

func (*typedNilErr) Error() string { return "typed nil" }

// error values of every reflect kind: the nil-ness test of the executor must look at the kind before it
// calls reflect.Value.IsNil (which panics for most kinds), and must say the same on both delivery
// routes.  All of these ARE errors (only a nil pointer counts as "no error").
type structErr struct{}
type strErr string
type intErr int
type boolErr bool
type floatErr float64
type arrErr [1]int
type funcErr func()
type mapErr map[string]int
type sliceErr []int
type chanErr chan int
type ptrErr struct{}

func (structErr) Error() string { return "struct-kind error" }
func (e strErr) Error() string  { return string(e) }
func (intErr) Error() string    { return "int-kind error" }
func (boolErr) Error() string   { return "bool-kind error" }
func (floatErr) Error() string  { return "float-kind error" }
func (arrErr) Error() string    { return "array-kind error" }
func (funcErr) Error() string   { return "func-kind error" }
func (mapErr) Error() string    { return "map-kind error" }
func (sliceErr) Error() string  { return "slice-kind error" }
func (chanErr) Error() string   { return "chan-kind error" }
func (*ptrErr) Error() string   { return "pointer error" }

var errKinds = []struct {
	name string
	mk   func() error
}{
	{"plain", func() error { return errors.New("resolver failed") }},
	{"struct", func() error { return structErr{} }},
	{"string", func() error { return strErr("string-kind error") }},
	{"int", func() error { return intErr(1) }},
	{"bool", func() error { return boolErr(true) }},
	{"float", func() error { return floatErr(1) }},
	{"array", func() error { return arrErr{} }},
	{"func", func() error { return funcErr(func() {}) }},
	{"nil-func", func() error { return funcErr(nil) }},
	{"nil-map", func() error { return mapErr(nil) }},
	{"nil-slice", func() error { return sliceErr(nil) }},
	{"nil-chan", func() error { return chanErr(nil) }},
	{"pointer", func() error { return &ptrErr{} }},
}

type fval struct {
	ft   *ftype
	tag  int  // -1: synchronous
	pre  bool // asynchronous, and the resolver sends the result before it returns the channel
	tnil bool // the (successful) outcome is accompanied by a typed-nil error
	ek   int  // the failing outcome's error value: index into errKinds (0: errors.New)
	err  bool
	v    *val
	path []interface{}
}

func (v *val) goValue() interface{} {
	switch v.kind {
	case vNull:
		return nil
	case vLeaf:
		switch v.t.leaf {
		case lString:
			return strconv.Itoa(v.z)
		case lFloat:
			return float64(v.z)
		case lCustom:
			return zval(v.z)
		}
		return v.z // Int, ID (serialised as a string), enum (value z is named E<z>)
	case vBad:
		if v.t.kind == kList {
			return 7 // not a slice
		}
		if v.t.kind == kObj {
			return badObj{} // abstract type: no member type accepts it
		}
		switch v.t.leaf {
		case lString:
			return 7
		case lID:
			return struct{}{}
		case lEnum:
			return -1
		}
		return "bad" // not an Int / Float / custom scalar value
	case vList:
		out := make([]interface{}, len(v.items))
		for i, it := range v.items {
			out[i] = it.goValue()
		}
		return out
	}
	return v
}

// walk visits every field invocation in preorder.
func (v *val) walk(f func(*fval)) {
	switch v.kind {
	case vList:
		for _, it := range v.items {
			it.walk(f)
		}
	case vObj:
		for _, fv := range v.fields {
			f(fv)
			if !fv.err {
				fv.v.walk(f)
			}
		}
	}
}

func (v *val) setPaths(prefix []interface{}) {
	switch v.kind {
	case vList:
		for i, it := range v.items {
			it.setPaths(append(append([]interface{}{}, prefix...), i))
		}
	case vObj:
		for _, fv := range v.fields {
			fv.path = append(append([]interface{}{}, prefix...), fv.ft.key)
			if !fv.err {
				fv.v.setPaths(fv.path)
			}
		}
	}
}

func (v *val) clone() *val {
	c := *v
	c.items = nil
	for _, it := range v.items {
		c.items = append(c.items, it.clone())
	}
	c.fields = nil
	for _, fv := range v.fields {
		f := *fv
		if fv.v != nil {
			f.v = fv.v.clone()
		}
		c.fields = append(c.fields, &f)
	}
	return &c
}

// ---- s-expressions ----

func pathSexp(p []interface{}) sexp.Node {
	var items []sexp.Node
	for _, c := range p {
		switch c := c.(type) {
		case string:
			items = append(items, sexp.Str(c))
		case int:
			items = append(items, sexp.Int(c))
		default:
			items = append(items, sexp.Sym("unknown"))
		}
	}
	return sexp.L(items...)
}

func (v *val) sexp() sexp.Node {
	switch v.kind {
	case vNull:
		return sexp.Sym("null")
	case vLeaf:
		return sexp.T("leaf", sexp.Int(v.z))
	case vBad:
		return sexp.Sym("bad")
	case vList:
		items := []sexp.Node{sexp.Bool(v.t.item.nn)}
		for _, it := range v.items {
			items = append(items, it.sexp())
		}
		return sexp.T("list", items...)
	}
	return sexp.T("obj", v.selSexp()...)
}

func (v *val) selSexp() []sexp.Node {
	var out []sexp.Node
	for _, fv := range v.fields {
		tag := sexp.Sym("none")
		if fv.tag >= 0 {
			// a promise that is already fulfilled when its resolver returns carries a tag >= 2^32
			// (ExecAsync.pre_base); the schedule is indexed by the label below that
			if fv.pre {
				tag = sexp.Int64(int64(fv.tag) + 1<<32)
			} else {
				tag = sexp.Int(fv.tag)
			}
		}
		res := sexp.Sym("err")
		if !fv.err {
			res = fv.v.sexp()
		}
		out = append(out, sexp.L(sexp.Str(fv.ft.key), sexp.T("f", tag, sexp.Bool(fv.ft.t.nn), res)))
	}
	return out
}

// ---------------------------------------------------------------------------------------------
// schema + query text from the type skeleton
// ---------------------------------------------------------------------------------------------

type builder struct {
	n      int
	events *[]sexp.Node
	reg    *registry
	extra  []graphql.NamedType // object types reachable only through an interface
}

var enumType = func() *graphql.EnumType {
	e := &graphql.EnumType{Name: "E", Values: map[string]*graphql.EnumValueDefinition{}}
	for i := 0; i < 100; i++ {
		e.Values["E"+strconv.Itoa(i)] = &graphql.EnumValueDefinition{Value: i}
	}
	return e
}()

var customType = &graphql.ScalarType{
	Name: "Z",
	ResultCoercion: func(v interface{}) interface{} {
		if z, ok := v.(zval); ok {
			return int(z)
		}
		return nil
	},
}

func leafType(kind int) graphql.Type {
	switch kind {
	case lString:
		return graphql.StringType
	case lFloat:
		return graphql.FloatType
	case lID:
		return graphql.IDType
	case lEnum:
		return enumType
	case lCustom:
		return customType
	}
	return graphql.IntType
}

type promise struct {
	fv   *fval
	ch   graphql.ResolvePromise
	done bool
}

type registry struct {
	proms []*promise
}

func (p *promise) send() {
	if p.fv.err {
		p.ch <- graphql.ResolveResult{Error: errKinds[p.fv.ek].mk()}
	} else if p.fv.tnil {
		p.ch <- graphql.ResolveResult{Value: p.fv.v.goValue(), Error: (*typedNilErr)(nil)}
	} else {
		p.ch <- graphql.ResolveResult{Value: p.fv.v.goValue()}
	}
}

func (b *builder) gqlType(t *typ) graphql.Type {
	if t.gql != nil {
		return t.gql
	}
	var g graphql.Type
	switch t.kind {
	case kLeaf:
		g = leafType(t.leaf)
	case kList:
		g = graphql.NewListType(b.gqlType(t.item))
	case kObj:
		name := fmt.Sprintf("T%d", b.n)
		o := b.objType(name, t)
		isT := func(v interface{}) bool { x, ok := v.(*val); return ok && x.t == t }
		never := func(interface{}) bool { return false }
		switch t.abs {
		case 0:
			g = o
		case 1:
			iface := &graphql.InterfaceType{Name: "I" + name, Fields: o.Fields}
			decoy := &graphql.ObjectType{Name: "D" + name, Fields: o.Fields, IsTypeOf: never,
				ImplementedInterfaces: []*graphql.InterfaceType{iface}}
			o.ImplementedInterfaces = []*graphql.InterfaceType{iface}
			o.IsTypeOf = isT
			b.extra = append(b.extra, decoy, o)
			g = iface
		default:
			decoy := &graphql.ObjectType{Name: "D" + name, IsTypeOf: never, Fields: map[string]*graphql.FieldDefinition{
				"z": {Type: graphql.IntType, Resolve: func(graphql.FieldContext) (interface{}, error) { return 0, nil }},
			}}
			o.IsTypeOf = isT
			g = &graphql.UnionType{Name: "U" + name, MemberTypes: []*graphql.ObjectType{decoy, o}}
		}
	}
	if t.nn {
		g = graphql.NewNonNullType(g)
	}
	t.gql = g
	return g
}

func (b *builder) objType(name string, t *typ) *graphql.ObjectType {
	b.n++
	t.objName = name
	o := &graphql.ObjectType{Name: name, Fields: map[string]*graphql.FieldDefinition{}}
	for i, ft := range t.fields {
		i := i
		o.Fields[ft.name] = &graphql.FieldDefinition{
			Type: b.gqlType(ft.t),
			Resolve: func(ctx graphql.FieldContext) (interface{}, error) {
				if ctx.IsSubscribe {
					if !subscribing {
						panic("IsSubscribe outside Subscribe")
					}
					return ctx.Object, (*typedNilErr)(nil) // the event source (the one event itself), with a typed-nil error
				}
				if subscribing {
					panic("resolver called without IsSubscribe during Subscribe")
				}
				fv := ctx.Object.(*val).fields[i]
				*b.events = append(*b.events, sexp.T("start", pathSexp(fv.path)))
				if fv.tag >= 0 {
					p := &promise{fv: fv, ch: make(graphql.ResolvePromise, 1)}
					b.reg.proms = append(b.reg.proms, p)
					if fv.pre {
						p.done = true
						*b.events = append(*b.events, sexp.T("fulfil", pathSexp(fv.path)))
						p.send()
					}
					return p.ch, nil
				}
				if fv.err {
					return nil, errKinds[fv.ek].mk()
				}
				if fv.tnil {
					return fv.v.goValue(), (*typedNilErr)(nil)
				}
				return fv.v.goValue(), nil
			},
		}
	}
	return o
}

// qgen writes the query text of a type skeleton.  With r == nil the text is the plain one (every
// selection set spelled out once); otherwise the same grouped field sets are reached through inline
// fragments with and without type condition, named fragments, @include / @skip that keep a
// selection (constant or through a variable), fields that @skip / @include remove, and fields
// whose sub-selection is split over two occurrences that collectFields has to merge.  Abstract
// types are always selected through a type condition (a union must be; an interface may be).
type qgen struct {
	r     *rng.R
	frags []string
	nv    int
	useT  bool
	useF  bool
	feats map[string]bool
}

func (q *qgen) chance(n, d int) bool { return q.r != nil && q.r.Chance(n, d) }

func (q *qgen) keep() string {
	if !q.chance(1, 5) {
		return ""
	}
	q.feats["directives"] = true
	switch q.r.Intn(4) {
	case 0:
		return " @include(if: true)"
	case 1:
		return " @skip(if: false)"
	case 2:
		q.useT = true
		return " @include(if: $t)"
	}
	q.useF = true
	return " @skip(if: $f)"
}

func (q *qgen) drop() string {
	switch q.r.Intn(4) {
	case 0:
		return " @skip(if: true)"
	case 1:
		return " @include(if: false)"
	case 2:
		q.useT = true
		return " @skip(if: $t)"
	}
	q.useF = true
	return " @include(if: $f)"
}

func innermost(t *typ) *typ {
	for t.kind == kList {
		t = t.item
	}
	return t
}

func (q *qgen) sub(t *typ) string {
	t = innermost(t)
	if t.kind != kObj {
		return ""
	}
	return "{" + q.body(t, t.fields) + "}"
}

func (q *qgen) fieldText(ft *ftype, dir, sub string) string {
	s := ft.name
	if ft.key != ft.name {
		s = ft.key + ":" + ft.name
	}
	return s + dir + sub
}

func (q *qgen) body(t *typ, fields []*ftype) string {
	var parts, tail []string
	for _, ft := range fields {
		in := innermost(ft.t)
		if in.kind == kObj && len(in.fields) >= 2 && q.chance(1, 6) {
			k := 1 + q.r.Intn(len(in.fields)-1)
			parts = append(parts, q.fieldText(ft, q.keep(), "{"+q.body(in, in.fields[:k])+"}"))
			tail = append(tail, q.fieldText(ft, q.keep(), "{"+q.body(in, in.fields[k:])+"}"))
			q.feats["merged-fields"] = true
		} else {
			parts = append(parts, q.fieldText(ft, q.keep(), q.sub(ft.t)))
		}
		if q.chance(1, 8) {
			v := fields[q.r.Intn(len(fields))]
			plain := &qgen{feats: map[string]bool{}}
			parts = append(parts, fmt.Sprintf("van%d:%s%s%s", q.nv, v.name, q.drop(), plain.sub(v.t)))
			q.nv++
			q.feats["removed-field"] = true
		}
	}
	parts = append(parts, tail...)
	if len(parts) >= 1 && q.chance(1, 4) {
		i := q.r.Intn(len(parts))
		j := i + 1 + q.r.Intn(len(parts)-i)
		inner := strings.Join(parts[i:j], " ")
		var w string
		switch q.r.Intn(3) {
		case 0:
			w = "..." + q.keep() + " {" + inner + "}"
		case 1:
			w = "... on " + t.objName + q.keep() + " {" + inner + "}"
		default:
			name := fmt.Sprintf("F%d", len(q.frags))
			q.frags = append(q.frags, "fragment "+name+" on "+t.objName+" {"+inner+"}")
			w = "..." + name + q.keep()
		}
		parts = append(append(append([]string{}, parts[:i]...), w), parts[j:]...)
		q.feats["fragments"] = true
	}
	s := strings.Join(parts, " ")
	if t.abs == 2 || (t.abs == 1 && (q.r == nil || q.r.Bool())) {
		s = "... on " + t.objName + " {" + s + "}"
	}
	return s
}

// document returns the whole request text and its variable values.
func (q *qgen) document(root *typ, mutation bool) (string, map[string]interface{}) {
	body := "{" + q.body(root, root.fields) + "}"
	head := ""
	var decl []string
	vars := map[string]interface{}{}
	if q.useT {
		decl = append(decl, "$t: Boolean!")
		vars["t"] = true
	}
	if q.useF {
		decl = append(decl, "$f: Boolean!")
		vars["f"] = false
	}
	if mutation {
		head = "mutation"
	} else if len(decl) > 0 {
		head = "query"
	}
	if len(decl) > 0 {
		head += "(" + strings.Join(decl, ", ") + ")"
	}
	return head + body + " " + strings.Join(q.frags, " "), vars
}

func typeFeats(t *typ, feats map[string]bool) {
	switch t.kind {
	case kLeaf:
		if t.leaf != lInt {
			feats["scalar-kinds"] = true
		}
	case kList:
		typeFeats(t.item, feats)
	case kObj:
		if t.abs != 0 {
			feats["abstract-type"] = true
		}
		for _, ft := range t.fields {
			typeFeats(ft.t, feats)
		}
	}
}

// ---------------------------------------------------------------------------------------------
// running one case
// ---------------------------------------------------------------------------------------------

// asSubscription: the next query cases with a single root field are run as ONE EVENT of a
// subscription (graphql.Subscribe for the source, then graphql.Execute of the subscription
// operation with the event as initial value: executeSubscriptionEvent).  Set and reset by the
// generators around the cases they emit.
var asSubscription bool

// noIdle: the next cases are executed WITHOUT an idle handler (Request.IdleHandler == nil): wait()
// must answer "No idle handler defined." as soon as it would have to call one, and must not need
// one when every promise is already fulfilled.  Set and reset by the generators.
var noIdle bool

type stuck struct{}

var npanics int

var subscribing bool

type observation struct {
	status string
	resp   *graphql.Response
	rounds int
	proms  int
	events []sexp.Node
	feats  []string
}

// run executes the plan; r (may be nil) decides the spelling of the document.
func run(root *val, mutation bool, ranks []int, r *rng.R) observation {
	var events []sexp.Node
	reg := &registry{}
	b := &builder{events: &events, reg: reg}
	rootT := *root.t // fresh gql cache per run
	resetGql(&rootT)
	def := &graphql.SchemaDefinition{Directives: map[string]*graphql.DirectiveDefinition{
		"include": graphql.IncludeDirective, "skip": graphql.SkipDirective,
	}}
	dummy := &graphql.ObjectType{Name: "Q0", Fields: map[string]*graphql.FieldDefinition{
		"z": {Type: graphql.IntType, Resolve: func(graphql.FieldContext) (interface{}, error) { return 0, nil }},
	}}
	sub := asSubscription && !mutation && len(rootT.fields) == 1
	if mutation {
		def.Query = dummy
		def.Mutation = b.objType("Mutation", &rootT)
	} else if sub {
		def.Query = dummy
		def.Subscription = b.objType("Subscription", &rootT)
		r = nil // a subscription must select exactly one root field: plain spelling
	} else {
		def.Query = b.objType("Query", &rootT)
	}
	def.AdditionalTypes = b.extra
	q := &qgen{r: r, feats: map[string]bool{}}
	text, vars := q.document(&rootT, mutation)
	if sub {
		text = "subscription" + text
		q.feats["subscription-event"] = true
	}
	typeFeats(&rootT, q.feats)
	root.walk(func(fv *fval) {
		if fv.tnil {
			if fv.tag >= 0 {
				q.feats["typed-nil-error-through-promise"] = true
			} else {
				q.feats["typed-nil-error-sync"] = true
			}
		}
		if fv.err && fv.ek != 0 {
			q.feats["error-kind-"+errKinds[fv.ek].name] = true
			if fv.tag >= 0 {
				q.feats["kinded-error-through-promise"] = true
			} else {
				q.feats["kinded-error-sync"] = true
			}
		}
	})
	schema, err := graphql.NewSchema(def)
	if err != nil {
		panic(fmt.Sprintf("schema: %v (%s)", err, text))
	}

	obs := observation{}
	for f := range q.feats {
		obs.feats = append(obs.feats, f)
	}
	sort.Strings(obs.feats)
	limit := 4
	root.walk(func(fv *fval) { limit += 2 })
	idle := func() {
		obs.rounds++
		if obs.rounds > limit {
			panic(stuck{})
		}
		min := -1
		for _, p := range reg.proms {
			if !p.done && (min < 0 || ranks[p.fv.tag] < min) {
				min = ranks[p.fv.tag]
			}
		}
		if min < 0 {
			panic(stuck{}) // nothing outstanding: the executor would spin for ever
		}
		n := len(reg.proms) // promises created while fulfilling are not part of this round
		for _, p := range reg.proms[:n] {
			if !p.done && ranks[p.fv.tag] == min {
				p.done = true
				events = append(events, sexp.T("fulfil", pathSexp(p.fv.path)))
				p.send()
			}
		}
	}

	type outT struct {
		status string
		resp   *graphql.Response
	}
	done := make(chan outT, 1)
	go func() {
		defer func() {
			if e := recover(); e != nil {
				if _, ok := e.(stuck); ok {
					done <- outT{status: "stuck"}
				} else {
					if npanics < 5 {
						npanics++
						fmt.Fprintln(os.Stderr, "c02: panic during Execute:", e)
					}
					done <- outT{status: "panic"}
				}
			}
		}()
		if sub {
			// the source stream: the root resolver is called with IsSubscribe and hands back the event
			subscribing = true
			src, errs := graphql.Subscribe(&graphql.Request{Context: context.Background(), Schema: schema, Query: text,
				VariableValues: vars, InitialValue: root})
			subscribing = false
			if len(errs) > 0 || src != root {
				panic(fmt.Sprintf("subscribe: %v %v", errs, src))
			}
		}
		r := graphql.Execute(&graphql.Request{
			Context:        context.Background(),
			Schema:         schema,
			Query:          text,
			VariableValues: vars,
			InitialValue:   root,
			IdleHandler:    idleOrNil(idle),
		})
		if r.Data == nil && len(r.Errors) > 0 && r.Errors[0].Path == nil {
			// parse / validation error: the harness generated a bad document
			panic(fmt.Sprintf("document rejected: %v (%s)", r.Errors[0].Message, text))
		}
		done <- outT{status: "ok", resp: r}
	}()
	select {
	case o := <-done:
		obs.status, obs.resp = o.status, o.resp
	case <-time.After(10 * time.Second):
		obs.status = "hang"
	}
	obs.proms = len(reg.proms)
	obs.events = append([]sexp.Node(nil), events...)
	return obs
}

func idleOrNil(f func()) func() {
	if noIdle {
		return nil
	}
	return f
}

func resetGql(t *typ) {
	t.gql = nil
	t.objName = ""
	if t.item != nil {
		resetGql(t.item)
	}
	for _, ft := range t.fields {
		resetGql(ft.t)
	}
}

func dataSexp(v interface{}) sexp.Node {
	if v == nil {
		return sexp.Sym("null")
	}
	switch v := v.(type) {
	case *executor.OrderedMap:
		if v == nil {
			return sexp.Sym("null")
		}
		var items []sexp.Node
		for _, it := range v.Items() {
			items = append(items, sexp.L(sexp.Str(it.Key), dataSexp(it.Value)))
		}
		return sexp.T("obj", items...)
	case []interface{}:
		var items []sexp.Node
		for _, it := range v {
			items = append(items, dataSexp(it))
		}
		return sexp.T("list", items...)
	}
	switch x := v.(type) {
	case string: // String and ID carry z in decimal, an enum value is named E<z>
		if n, err := strconv.Atoi(strings.TrimPrefix(x, "E")); err == nil {
			return sexp.T("int", sexp.Int(n))
		}
		return sexp.T("int", sexp.Int(-1)) // no leaf value is negative: reported as differing data
	case float64:
		if float64(int(x)) == x {
			return sexp.T("int", sexp.Int(int(x)))
		}
		return sexp.T("int", sexp.Int(-1))
	}
	rv := reflect.ValueOf(v)
	switch rv.Kind() {
	case reflect.Int, reflect.Int8, reflect.Int16, reflect.Int32, reflect.Int64:
		return sexp.T("int", sexp.Int64(rv.Int()))
	case reflect.Ptr, reflect.Slice, reflect.Map, reflect.Interface:
		if rv.IsNil() {
			return sexp.Sym("null")
		}
	}
	return sexp.T("unknown", sexp.Str(fmt.Sprintf("%T", v)))
}

func (o observation) sexp() sexp.Node {
	out := []sexp.Node{sexp.T("status", sexp.Sym(o.status))}
	if o.resp != nil {
		var d interface{}
		if o.resp.Data != nil {
			d = *o.resp.Data
		}
		out = append(out, sexp.T("data", dataSexp(d)))
		msgs := map[string]int{}
		var errs []sexp.Node
		for _, e := range o.resp.Errors {
			id, ok := msgs[e.Message]
			if !ok {
				id = len(msgs)
				msgs[e.Message] = id
			}
			errs = append(errs, sexp.L(pathSexp(e.Path), sexp.Int(id)))
		}
		out = append(out, sexp.T("errors", errs...))
	}
	out = append(out, sexp.T("rounds", sexp.Int(o.rounds)), sexp.T("promises", sexp.Int(o.proms)),
		sexp.T("events", o.events...))
	return sexp.T("obs", out...)
}

// emit writes one enumerated case.  Half of them are left exactly as enumerated (Int leaves, plain
// object types, plain document, every promise fulfilled by the idle handler); the other half gets,
// from the case's own random stream, other leaf kinds, abstract types, a decorated document and
// some promises that are already fulfilled when the resolver returns.
func emit(h *hx.H, root *val, mutation bool, ranks []int) {
	h.Case(func(r *rng.R) sexp.Node {
		if r.Chance(1, 2) {
			decorateTypes(root.t, nil, true)
			setPrefill(root, nil)
			return caseSexp(root, mutation, ranks, nil)
		}
		decorateTypes(root.t, r, true)
		setPrefill(root, r)
		return caseSexp(root, mutation, ranks, r)
	})
}

// decorateTypes chooses leaf kinds and abstract wrappers (all plain when r == nil).
func decorateTypes(t *typ, r *rng.R, isRoot bool) {
	switch t.kind {
	case kLeaf:
		t.leaf = lInt
		if r != nil && r.Chance(1, 2) {
			t.leaf = r.Intn(nLeafKinds)
		}
	case kList:
		decorateTypes(t.item, r, false)
	case kObj:
		t.abs = 0
		if r != nil && !isRoot && r.Chance(1, 3) {
			t.abs = 1 + r.Intn(2)
		}
		for _, ft := range t.fields {
			decorateTypes(ft.t, r, false)
		}
	}
}

// setPrefill marks some asynchronous field invocations as fulfilled at creation (none when r == nil).
func setPrefill(root *val, r *rng.R) {
	some := r != nil && r.Chance(1, 3)
	tn := r != nil && r.Chance(1, 2)
	root.walk(func(fv *fval) {
		fv.pre = some && fv.tag >= 0 && r.Chance(1, 3)
		fv.tnil = tn && !fv.err && r.Chance(1, 3)
		fv.ek = 0
		if tn && fv.err && r.Chance(2, 3) {
			fv.ek = r.Intn(len(errKinds))
		}
	})
}

func caseSexp(root *val, mutation bool, ranks []int, r *rng.R) sexp.Node {
	root.setPaths(nil)
	wasNoIdle := noIdle
	o := run(root, mutation, ranks, r)
	mode := "query"
	if mutation {
		mode = "mutation"
	}
	var rk []sexp.Node
	for _, r := range ranks {
		rk = append(rk, sexp.Int(r))
	}
	pre := make([]sexp.Node, len(ranks))
	root.walk(func(fv *fval) {
		if fv.tag >= 0 {
			pre[fv.tag] = sexp.Bool(fv.pre)
		}
	})
	var feats []sexp.Node
	for _, f := range o.feats {
		feats = append(feats, sexp.Sym(f))
	}
	return sexp.T("case", sexp.T("mode", sexp.Sym(mode)), sexp.T("plan", sexp.L(root.selSexp()...)),
		sexp.T("ranks", sexp.L(rk...)), sexp.T("pre", sexp.L(pre...)), sexp.T("feat", feats...),
		sexp.T("noidle", sexp.Bool(wasNoIdle)), o.sexp())
}

// ---------------------------------------------------------------------------------------------
// generators
// ---------------------------------------------------------------------------------------------

func leafT(nn bool) *typ             { return &typ{nn: nn, kind: kLeaf} }
func listT(nn bool, it *typ) *typ    { return &typ{nn: nn, kind: kList, item: it} }
func objT(nn bool, f ...*ftype) *typ { return &typ{nn: nn, kind: kObj, fields: f} }
func fld(key string, t *typ) *ftype  { return &ftype{key: key, name: key, t: t} }

// outcome codes for leaves: 0 value, 1 null, 2 resolver error, 3 wrong kind
func leafVal(t *typ, code, z int) (*val, bool) {
	switch code {
	case 1:
		return &val{kind: vNull, t: t}, false
	case 2:
		return nil, true
	case 3:
		return &val{kind: vBad, t: t}, false
	}
	return &val{kind: vLeaf, z: z, t: t}, false
}

// assignTags numbers the asynchronous field invocations in preorder; async(i) decides for the
// i-th field invocation (preorder).  Returns the number of tags.
func assignTags(root *val, async func(i int) bool) int {
	i, n := 0, 0
	root.walk(func(fv *fval) {
		if async(i) {
			fv.tag = n
			n++
		} else {
			fv.tag = -1
		}
		i++
	})
	return n
}

func countFields(root *val) int {
	n := 0
	root.walk(func(*fval) { n++ })
	return n
}

// orderedPartitions calls f with every rank vector of n items that uses ranks 0..k-1 surjectively
// (= every ordered set partition; 1, 1, 3, 13, 75, 541, 4683 of them).
func orderedPartitions(n int, f func(ranks []int)) {
	ranks := make([]int, n)
	var rec func(i, used int)
	rec = func(i, used int) {
		if i == n {
			// surjective onto 0..max?
			seen := make([]bool, n+1)
			max := -1
			for _, r := range ranks {
				seen[r] = true
				if r > max {
					max = r
				}
			}
			for r := 0; r <= max; r++ {
				if !seen[r] {
					return
				}
			}
			f(append([]int(nil), ranks...))
			return
		}
		for r := 0; r < n; r++ {
			ranks[i] = r
			rec(i+1, used)
		}
	}
	if n == 0 {
		f(nil)
		return
	}
	rec(0, 0)
}

// allSchedules emits, for one plan tree, every async subset (when the tree has at most maxSub
// field invocations) x every schedule (when the subset has at most maxProm promises; otherwise
// nRandom random rank vectors).
func allSchedules(h *hx.H, root *val, mutation bool, maxProm int, r *rng.R) {
	n := countFields(root)
	for mask := 0; mask < 1<<uint(n); mask++ {
		mask := mask
		k := assignTags(root, func(i int) bool { return mask>>uint(i)&1 == 1 })
		if k <= maxProm {
			orderedPartitions(k, func(ranks []int) {
				assignTags(root, func(i int) bool { return mask>>uint(i)&1 == 1 })
				emit(h, root, mutation, ranks)
			})
		} else {
			for j := 0; j < 6; j++ {
				ranks := make([]int, k)
				levels := 1 + r.Intn(k)
				for i := range ranks {
					ranks[i] = r.Intn(levels)
				}
				emit(h, root, mutation, ranks)
			}
		}
	}
}

// ---- exhaustive flat family: n leaf fields x {Int, Int!} x outcome ----

func flatFamily(h *hx.H, n int, codes []int, mutation bool, maxProm int, r *rng.R) {
	total := 1
	per := 2 * len(codes)
	for i := 0; i < n; i++ {
		total *= per
	}
	for x := 0; x < total; x++ {
		y := x
		var fts []*ftype
		var fvs []*fval
		for i := 0; i < n; i++ {
			c := y % per
			y /= per
			t := leafT(c%2 == 1)
			ft := fld(string(rune('a'+i)), t)
			v, e := leafVal(t, codes[c/2], i+1)
			fts = append(fts, ft)
			fvs = append(fvs, &fval{ft: ft, err: e, v: v})
		}
		rt := objT(false, fts...)
		root := &val{kind: vObj, t: rt, fields: fvs}
		allSchedules(h, root, mutation, maxProm, r)
	}
}

// ---- structured templates ----

// A template is written in a small text language and expanded over its outcome holes:
//   sel   := field*            field := key ':' type '=' value
//   type  := 'i' | '[' type ']' | '{' sel-types '}'  followed by optional '!'
// To keep the harness simple the templates are built with Go constructors instead.

type tmpl struct {
	name string
	mk   func(c []int) *val // c: outcome codes for the holes
	hole int                // number of holes
	code []int              // codes each hole ranges over
}

func obj(t *typ, fs ...*fval) *val   { return &val{kind: vObj, t: t, fields: fs} }
func lst(t *typ, items ...*val) *val { return &val{kind: vList, t: t, items: items} }
func fv(ft *ftype, v *val) *fval     { return &fval{ft: ft, v: v} }
func fe(ft *ftype) *fval             { return &fval{ft: ft, err: true} }

func leafField(ft *ftype, code, z int) *fval {
	v, e := leafVal(ft.t, code, z)
	return &fval{ft: ft, v: v, err: e}
}

func templates() []tmpl {
	var ts []tmpl
	// {a {x y} b}: nested object, inner nullable / non-null leaves
	for _, objNN := range []bool{false, true} {
		for _, xNN := range []bool{false, true} {
			objNN, xNN := objNN, xNN
			ts = append(ts, tmpl{name: "nested", hole: 3, code: []int{0, 1, 2}, mk: func(c []int) *val {
				x, y := fld("x", leafT(xNN)), fld("y", leafT(false))
				a := fld("a", objT(objNN, x, y))
				b := fld("b", leafT(false))
				return obj(objT(false, a, b),
					fv(a, obj(a.t, leafField(x, c[0], 1), leafField(y, c[1], 2))),
					leafField(b, c[2], 3))
			}})
		}
	}
	// {l: [T]} lists of leaves beneath every wrapper combination, items ok / null / bad
	for w := 0; w < 4; w++ {
		w := w
		ts = append(ts, tmpl{name: "leaflist", hole: 2, code: []int{0, 1, 3}, mk: func(c []int) *val {
			it := leafT(w&1 == 1)
			l := fld("l", listT(w&2 == 2, it))
			b := fld("b", leafT(false))
			i0, _ := leafVal(it, c[0], 1)
			i1, _ := leafVal(it, c[1], 2)
			return obj(objT(false, l, b), fv(l, lst(l.t, i0, i1)), leafField(b, 0, 9))
		}})
	}
	// {l: [{x}]}: promise inside list (inside promise when l is asynchronous)
	for w := 0; w < 8; w++ {
		w := w
		ts = append(ts, tmpl{name: "objlist", hole: 2, code: []int{0, 1, 2}, mk: func(c []int) *val {
			x := fld("x", leafT(w&1 == 1))
			it := objT(w&2 == 2, x)
			l := fld("l", listT(w&4 == 4, it))
			return obj(objT(false, l),
				fv(l, lst(l.t, obj(it, leafField(x, c[0], 1)), obj(it, leafField(x, c[1], 2)))))
		}})
	}
	// {a {b {c}} d}: three levels
	ts = append(ts, tmpl{name: "deep", hole: 2, code: []int{0, 1, 2}, mk: func(c []int) *val {
		cc := fld("c", leafT(true))
		b := fld("b", objT(true, cc))
		a := fld("a", objT(false, b))
		d := fld("d", leafT(false))
		return obj(objT(false, a, d), fv(a, obj(a.t, fv(b, obj(b.t, leafField(cc, c[0], 1))))), leafField(d, c[1], 2))
	}})
	// list value null / bad / empty beneath wrappers
	for w := 0; w < 2; w++ {
		w := w
		ts = append(ts, tmpl{name: "listvalue", hole: 1, code: []int{0, 1, 3}, mk: func(c []int) *val {
			l := fld("l", listT(w == 1, leafT(false)))
			b := fld("b", leafT(false))
			var lv *val
			switch c[0] {
			case 0:
				lv = lst(l.t)
			case 1:
				lv = &val{kind: vNull, t: l.t}
			default:
				lv = &val{kind: vBad, t: l.t}
			}
			return obj(objT(false, l, b), fv(l, lv), leafField(b, 0, 1))
		}})
	}
	// [[Int!]]! nested lists
	ts = append(ts, tmpl{name: "listlist", hole: 2, code: []int{0, 1}, mk: func(c []int) *val {
		it := leafT(true)
		in := listT(false, it)
		l := fld("l", listT(true, in))
		a := fld("a", leafT(false))
		i0, _ := leafVal(it, c[0], 1)
		i1, _ := leafVal(it, c[1], 2)
		return obj(objT(false, l, a), fv(l, lst(l.t, lst(in, i0), lst(in, i1))), leafField(a, 0, 3))
	}})
	return ts
}

func expand(t tmpl, f func(*val)) {
	c := make([]int, t.hole)
	var rec func(i int)
	rec = func(i int) {
		if i == t.hole {
			f(t.mk(c))
			return
		}
		for _, x := range t.code {
			c[i] = x
			rec(i + 1)
		}
	}
	rec(0)
}

// ---- random trees ----

type gen struct {
	r      *rng.R
	budget int
	nkey   int
}

func (g *gen) typ(depth int, item bool) *typ {
	nn := g.r.Chance(2, 5)
	k := g.r.Intn(10)
	switch {
	case depth <= 0 || k < 4 || g.budget <= 0:
		return leafT(nn)
	case k < 6:
		return listT(nn, g.typ(depth-1, true))
	default:
		n := g.r.Range(1, 3)
		var fs []*ftype
		for i := 0; i < n; i++ {
			g.budget--
			name := fmt.Sprintf("f%d", i)
			key := name
			if g.r.Chance(1, 4) {
				key = fmt.Sprintf("k%d", i)
			}
			fs = append(fs, &ftype{key: key, name: name, t: g.typ(depth-1, false)})
		}
		return objT(nn, fs...)
	}
}

func (g *gen) val(t *typ) *val {
	// failures are rarer the deeper the tree so that large responses survive
	switch g.r.Intn(14) {
	case 0:
		return &val{kind: vNull, t: t}
	case 1:
		if t.kind != kObj || t.abs != 0 {
			return &val{kind: vBad, t: t}
		}
	}
	switch t.kind {
	case kLeaf:
		return &val{kind: vLeaf, z: g.r.Intn(100), t: t}
	case kList:
		n := g.r.Intn(4)
		v := &val{kind: vList, t: t}
		for i := 0; i < n; i++ {
			v.items = append(v.items, g.val(t.item))
		}
		return v
	}
	v := &val{kind: vObj, t: t}
	for _, ft := range t.fields {
		if g.r.Intn(12) == 0 {
			v.fields = append(v.fields, fe(ft))
		} else {
			v.fields = append(v.fields, fv(ft, g.val(ft.t)))
		}
	}
	return v
}

func randomRoot(r *rng.R, nroots, depth, budget int) *val {
	g := &gen{r: r, budget: budget}
	var fs []*ftype
	for i := 0; i < nroots; i++ {
		name := fmt.Sprintf("r%d", i)
		key := name
		if r.Chance(1, 4) {
			key = fmt.Sprintf("q%d", i)
		}
		fs = append(fs, &ftype{key: key, name: name, t: g.typ(depth, false)})
	}
	rt := objT(false, fs...)
	if r.Chance(2, 3) {
		decorateTypes(rt, r, true)
	}
	root := &val{kind: vObj, t: rt}
	for _, ft := range fs {
		if r.Intn(12) == 0 {
			root.fields = append(root.fields, fe(ft))
		} else {
			root.fields = append(root.fields, fv(ft, g.val(ft.t)))
		}
	}
	return root
}

func randomCase(r *rng.R, mutation bool, nroots int) sexp.Node {
	asSubscription = !mutation && nroots == 1 && r.Chance(1, 2)
	noIdle = r.Chance(1, 12)
	defer func() { asSubscription = false; noIdle = false }()
	root := randomRoot(r, nroots, r.Range(1, 4), r.Range(3, 12))
	density := r.Range(0, 4)
	k := assignTags(root, func(int) bool { return r.Intn(4) < density })
	ranks := make([]int, k)
	if k > 0 {
		levels := 1 + r.Intn(k)
		if r.Chance(1, 4) {
			levels = k
		}
		for i := range ranks {
			ranks[i] = r.Intn(levels)
		}
		if r.Chance(1, 5) { // a permutation: one promise per round
			for i := range ranks {
				ranks[i] = i
			}
			for i := k - 1; i > 0; i-- {
				j := r.Intn(i + 1)
				ranks[i], ranks[j] = ranks[j], ranks[i]
			}
		}
	}
	setPrefill(root, r)
	if r.Chance(1, 3) {
		return caseSexp(root, mutation, ranks, nil)
	}
	return caseSexp(root, mutation, ranks, r)
}

// ---------------------------------------------------------------------------------------------

func main() {
	mode := flag.String("mode", "c02", "c02 or c11")
	hx.Main(func(h *hx.H) {
		r := rng.New(h.Seed ^ 0x5eed)
		maxProm := 4
		if h.Thorough() {
			maxProm = 5
		}
		if *mode == "c11" {
			mainC11(h, r, maxProm)
			return
		}
		// 1. exhaustive: flat selection sets
		flatFamily(h, 1, []int{0, 1, 2, 3}, false, 5, r)
		flatFamily(h, 2, []int{0, 1, 2, 3}, false, 5, r)
		flatFamily(h, 3, []int{0, 1, 2}, false, 5, r)
		flatFamily(h, 2, []int{0, 1, 2}, true, 5, r)
		asSubscription = true
		flatFamily(h, 1, []int{0, 1, 2, 3}, false, 5, r)
		asSubscription = false
		// without an idle handler: every async subset of 1 and 2 fields, queries and mutations
		noIdle = true
		flatFamily(h, 1, []int{0, 1, 2, 3}, false, 5, r)
		flatFamily(h, 2, []int{0, 1, 2}, false, 5, r)
		flatFamily(h, 2, []int{0, 2}, true, 5, r)
		noIdle = false
		if h.Thorough() {
			flatFamily(h, 3, []int{0, 1, 2, 3}, false, 5, r)
			flatFamily(h, 4, []int{0, 2}, false, 5, r)
			flatFamily(h, 3, []int{0, 1, 2}, true, 5, r)
		}
		// 2. structured templates: every outcome assignment x async subset x schedule
		for _, t := range templates() {
			expand(t, func(root *val) { allSchedules(h, root, false, maxProm, r) })
		}
		// the single-root templates once more as subscription events
		asSubscription = true
		for _, t := range templates() {
			if t.name == "objlist" {
				expand(t, func(root *val) { allSchedules(h, root, false, maxProm, r) })
			}
		}
		asSubscription = false
		// 3. random trees, random async subsets, random schedules
		n := 6000
		if h.Thorough() {
			n = 300000
		}
		for i := 0; i < n; i++ {
			h.Case(func(r *rng.R) sexp.Node {
				return randomCase(r, r.Chance(1, 5), r.Range(1, 4))
			})
		}
	})
}

func mainC11(h *hx.H, r *rng.R, maxProm int) {
	// 1. exhaustive: 2 and 3 flat roots
	flatFamily(h, 2, []int{0, 1, 2, 3}, true, 5, r)
	flatFamily(h, 3, []int{0, 2}, true, 5, r)
	// 2. roots with nested asynchronous subtrees: every async subset x schedule
	for _, c0 := range []int{0, 2} {
		for _, w := range []int{0, 1, 2, 3} {
			x := fld("x", leafT(w&1 == 1))
			y := fld("y", leafT(false))
			a := fld("a", objT(w&2 == 2, x, y))
			b := fld("b", leafT(false))
			root := obj(objT(false, a, b),
				fv(a, obj(a.t, leafField(x, c0, 1), leafField(y, 0, 2))), leafField(b, 0, 3))
			allSchedules(h, root, true, maxProm, r)
		}
	}
	for _, c0 := range []int{0, 2} {
		x := fld("x", leafT(false))
		it := objT(false, x)
		l := fld("l", listT(false, it))
		b := fld("b", leafT(false))
		root := obj(objT(false, l, b),
			fv(l, lst(l.t, obj(it, leafField(x, c0, 1)), obj(it, leafField(x, 0, 2)))), leafField(b, 0, 3))
		allSchedules(h, root, true, maxProm, r)
	}
	{
		x := fld("x", leafT(false))
		a := fld("a", objT(false, x))
		y := fld("y", leafT(false))
		b := fld("b", objT(false, y))
		c := fld("c", leafT(false))
		root := obj(objT(false, a, b, c), fv(a, obj(a.t, leafField(x, 0, 1))), fv(b, obj(b.t, leafField(y, 0, 2))), leafField(c, 0, 3))
		allSchedules(h, root, true, maxProm, r)
	}
	// 3. random mutation documents with 2-4 roots
	n := 5000
	if h.Thorough() {
		n = 200000
	}
	for i := 0; i < n; i++ {
		h.Case(func(r *rng.R) sexp.Node {
			return randomCase(r, true, r.Range(2, 4))
		})
	}
}
