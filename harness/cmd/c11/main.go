// c11: mutation (and query) documents over execution plan trees against the real executor.
//
// From a generated plan tree (selection sets of (response key, field plan); a field plan = the
// resolver's outcome, delivered synchronously or through a graphql.ResolvePromise, beneath a type
// shape of nullable / non-null wrappers, lists and objects) this command builds a real schema, a
// real document text (root selections optionally spread over inline and named fragments) and real
// resolvers, runs graphql.Execute with an IdleHandler that alone decides when each promise is
// fulfilled, and records: the resolvers' global event log (start of every resolver, fulfilment of
// every promise, keyed by response path), the number of idle rounds, the root response keys in
// response order with the kind of their values, whether data is null, the number of errors, and the
// final state of every promise.
//
// Schedule: every promise carries a static tag (preorder number of its field invocation among the
// asynchronous ones of the plan) and the case assigns a rank to every tag; an idle round fulfils,
// in creation order, the outstanding promises of minimal rank.  Every fair schedule of a run is of
// this form (rank = round of fulfilment), so enumerating all ordered set partitions of the tags
// enumerates all schedules.
package main

import (
	"context"
	"encoding/json"
	"errors"
	"fmt"
	"net/http"
	"net/http/httptest"
	"reflect"
	"strings"
	"sync"
	"time"

	apifu "github.com/ccbrown/api-fu"
	"github.com/ccbrown/api-fu/graphql"
	"github.com/ccbrown/api-fu/graphql/executor"
	"github.com/gorilla/websocket"

	"verifharness/internal/hx"
	"verifharness/internal/rng"
	"verifharness/internal/sexp"
)

// ---------------------------------------------------------------------------------------------
// plan trees
// ---------------------------------------------------------------------------------------------

const (
	kLeaf = iota
	kList
	kObj
)

type typ struct {
	nn     bool
	kind   int
	abs    int      // kObj: 0 the field's type is the object type itself, 1 an interface it implements, 2 a union containing it
	name   string   // kObj: name of the concrete object type (set when the schema is built)
	item   *typ     // kList
	fields []*ftype // kObj
	gql    graphql.Type
}

type ftype struct {
	key, name string
	t         *typ
}

const (
	vNull = iota
	vLeaf
	vBad
	vList
	vObj
)

type val struct {
	kind   int
	z      int
	items  []*val
	fields []*fval // parallel to t.fields
	t      *typ
}

type fval struct {
	ft   *ftype
	tag  int // -1: synchronous
	err  bool
	tn   bool // the selection is __typename: no resolver
	v    *val
	path []interface{}
}

func (v *val) goValue() interface{} {
	switch v.kind {
	case vNull:
		return nil
	case vLeaf:
		return v.z
	case vBad:
		if v.t.kind == kList {
			return 7 // not a slice
		}
		return "bad" // not an Int
	case vList:
		out := make([]interface{}, len(v.items))
		for i, it := range v.items {
			out[i] = it.goValue()
		}
		return out
	}
	return v
}

// walk visits every field invocation in preorder.
func (v *val) walk(f func(*fval)) {
	switch v.kind {
	case vList:
		for _, it := range v.items {
			it.walk(f)
		}
	case vObj:
		for _, fv := range v.fields {
			if fv.tn {
				continue
			}
			f(fv)
			if !fv.err {
				fv.v.walk(f)
			}
		}
	}
}

func (v *val) setPaths(prefix []interface{}) {
	switch v.kind {
	case vList:
		for i, it := range v.items {
			it.setPaths(append(append([]interface{}{}, prefix...), i))
		}
	case vObj:
		for _, fv := range v.fields {
			fv.path = append(append([]interface{}{}, prefix...), fv.ft.key)
			if !fv.err && !fv.tn {
				fv.v.setPaths(fv.path)
			}
		}
	}
}

// ---- s-expressions ----

func pathSexp(p []interface{}) sexp.Node {
	var items []sexp.Node
	for _, c := range p {
		switch c := c.(type) {
		case string:
			items = append(items, sexp.Str(c))
		case int:
			items = append(items, sexp.Int(c))
		default:
			items = append(items, sexp.Sym("unknown"))
		}
	}
	return sexp.L(items...)
}

func (v *val) sexp() sexp.Node {
	switch v.kind {
	case vNull:
		return sexp.Sym("null")
	case vLeaf:
		return sexp.T("leaf", sexp.Int(v.z))
	case vBad:
		return sexp.Sym("bad")
	case vList:
		items := []sexp.Node{sexp.Bool(v.t.item.nn)}
		for _, it := range v.items {
			items = append(items, it.sexp())
		}
		return sexp.T("list", items...)
	}
	return sexp.T("obj", v.selSexp()...)
}

func (v *val) selSexp() []sexp.Node {
	var out []sexp.Node
	for _, fv := range v.fields {
		if fv.tn {
			out = append(out, sexp.L(sexp.Str(fv.ft.key), sexp.Sym("typename")))
			continue
		}
		tag := sexp.Sym("none")
		if fv.tag >= 0 {
			tag = sexp.Int(fv.tag)
		}
		res := sexp.Sym("err")
		if !fv.err {
			res = fv.v.sexp()
		}
		out = append(out, sexp.L(sexp.Str(fv.ft.key), sexp.T("f", tag, sexp.Bool(fv.ft.t.nn), res)))
	}
	return out
}

// ---------------------------------------------------------------------------------------------
// schema + document text from the type skeleton
// ---------------------------------------------------------------------------------------------

type promise struct {
	fv   *fval
	ch   graphql.ResolvePromise
	done bool
}

type builder struct {
	n       int
	events  *[]sexp.Node
	proms   *[]*promise
	counter *int // the state the resolvers share: read, then incremented, by every side effect
	api     bool // resolve asynchronous fields with apifu.Go instead of a harness promise
	mu      *sync.Mutex
	root    *val                // api mode: the object value of the root fields (apifu passes no InitialValue)
	batch   bool                // api mode: every second asynchronous field goes through apifu.Batch
	extra   []graphql.NamedType // object types only reachable through an interface they implement
}

func (b *builder) gqlType(t *typ) graphql.Type {
	if t.gql != nil {
		return t.gql
	}
	var g graphql.Type
	switch t.kind {
	case kLeaf:
		g = graphql.IntType
	case kList:
		g = graphql.NewListType(b.gqlType(t.item))
	case kObj:
		o := b.objType(fmt.Sprintf("T%d", b.n), t)
		t.name = o.Name
		g = o
		if t.abs != 0 {
			o.IsTypeOf = func(v interface{}) bool {
				x, ok := v.(*val)
				return ok && x.t == t
			}
			if t.abs == 1 {
				iface := &graphql.InterfaceType{Name: "I" + o.Name, Fields: o.Fields}
				o.ImplementedInterfaces = []*graphql.InterfaceType{iface}
				b.extra = append(b.extra, o)
				g = iface
			} else {
				g = &graphql.UnionType{Name: "U" + o.Name, MemberTypes: []*graphql.ObjectType{o}}
			}
		}
	}
	if t.nn {
		g = graphql.NewNonNullType(g)
	}
	t.gql = g
	return g
}

func (b *builder) objType(name string, t *typ) *graphql.ObjectType {
	b.n++
	o := &graphql.ObjectType{Name: name, Fields: map[string]*graphql.FieldDefinition{}}
	for i, ft := range t.fields {
		i := i
		if ft.name == "__typename" {
			continue
		}
		var batched func(graphql.FieldContext) (interface{}, error)
		if b.api {
			// one apifu.Batch per field definition: its items are resolved together at the next idle call
			batched = apifu.Batch(func(ctxs []graphql.FieldContext) []graphql.ResolveResult {
				out := make([]graphql.ResolveResult, len(ctxs))
				for j, c := range ctxs {
					fv := b.objectOf(c, t).fields[i]
					b.mu.Lock()
					*b.events = append(*b.events, sexp.T("fulfil", pathSexp(fv.path), sexp.Int(*b.counter)))
					*b.counter++
					b.mu.Unlock()
					if fv.err {
						out[j] = graphql.ResolveResult{Error: errors.New("resolver failed")}
					} else {
						out[j] = graphql.ResolveResult{Value: fv.v.goValue()}
					}
				}
				return out
			})
		}
		o.Fields[ft.name] = &graphql.FieldDefinition{
			Type: b.gqlType(ft.t),
			Resolve: func(ctx graphql.FieldContext) (interface{}, error) {
				if b.api {
					return b.resolveAPI(ctx, t, i, batched)
				}
				fv := ctx.Object.(*val).fields[i]
				*b.events = append(*b.events, sexp.T("start", pathSexp(fv.path), sexp.Int(*b.counter)))
				*b.counter++
				if fv.tag >= 0 {
					p := &promise{fv: fv, ch: make(graphql.ResolvePromise, 1)}
					*b.proms = append(*b.proms, p)
					return p.ch, nil
				}
				if fv.err {
					return nil, errors.New("resolver failed")
				}
				return fv.v.goValue(), nil
			},
		}
	}
	return o
}

// resolveAPI is the resolver of the apifu route: asynchronous fields run in an apifu.Go goroutine
// whose body logs the "fulfil" side effect (the asynchronous resolver finishing) before it returns.
func (b *builder) objectOf(ctx graphql.FieldContext, t *typ) *val {
	obj, _ := ctx.Object.(*val)
	if obj == nil || obj.t != t {
		obj = b.root
	}
	return obj
}

func (b *builder) resolveAPI(ctx graphql.FieldContext, t *typ, i int, batched func(graphql.FieldContext) (interface{}, error)) (interface{}, error) {
	fv := b.objectOf(ctx, t).fields[i]
	b.mu.Lock()
	*b.events = append(*b.events, sexp.T("start", pathSexp(fv.path), sexp.Int(*b.counter)))
	*b.counter++
	b.mu.Unlock()
	answer := func() (interface{}, error) {
		if fv.err {
			return nil, errors.New("resolver failed")
		}
		return fv.v.goValue(), nil
	}
	if fv.tag >= 0 && b.batch && fv.tag%2 == 1 {
		return batched(ctx)
	}
	if fv.tag >= 0 {
		return apifu.Go(ctx.Context, func() (interface{}, error) {
			b.mu.Lock()
			*b.events = append(*b.events, sexp.T("fulfil", pathSexp(fv.path), sexp.Int(*b.counter)))
			*b.counter++
			b.mu.Unlock()
			return answer()
		}), nil
	}
	return answer()
}

func selectionText(ft *ftype, sb *strings.Builder) {
	selectionTextPart(ft, sb, 0, -1)
}

// selectionTextPart writes the selection with the sub-selections lo..hi-1 only (hi < 0: all).
func selectionTextPart(ft *ftype, sb *strings.Builder, lo, hi int) {
	if ft.key != ft.name {
		sb.WriteString(ft.key + ":")
	}
	sb.WriteString(ft.name)
	subText(ft.t, sb, lo, hi)
}

func subFields(t *typ) []*ftype {
	for t.kind == kList {
		t = t.item
	}
	if t.kind != kObj {
		return nil
	}
	return t.fields
}

func subText(t *typ, sb *strings.Builder, lo, hi int) {
	fs := subFields(t)
	if fs == nil {
		return
	}
	if hi < 0 {
		hi = len(fs)
	}
	ot := t
	for ot.kind == kList {
		ot = ot.item
	}
	sb.WriteString("{")
	if ot.abs != 0 {
		sb.WriteString("... on " + ot.name + " {")
	}
	for i, ft := range fs[lo:hi] {
		if i > 0 {
			sb.WriteString(" ")
		}
		selectionText(ft, sb)
	}
	if ot.abs != 0 {
		sb.WriteString("}")
	}
	sb.WriteString("}")
}

// documentText writes the operation.  shape[i] says how the i-th root selection is written:
// 0 plain, 1 opens an inline fragment "... on <Root> {" that runs until the next selection whose
// shape is not 3, 2 likewise a named fragment, 3 continues the fragment opened before it.
// dups[i]: 0 the i-th root selection is written once; 1 it is written again, identically, after all
// root selections; 2 its sub-selection is split: the first occurrence carries the first half, a second
// occurrence after all root selections the rest (only for roots with at least two sub-selections).
func documentText(rootT *typ, mutation bool, rootName string, shape []int, dups []int) string {
	var sb, frags strings.Builder
	if mutation {
		sb.WriteString("mutation ")
	}
	sb.WriteString("{")
	nfrag := 0
	open := 0 // 0 none, 1 inline, 2 named
	cur := &sb
	closeFrag := func() {
		if open == 1 {
			sb.WriteString("}")
		} else if open == 2 {
			frags.WriteString("}")
		}
		open = 0
		cur = &sb
	}
	for i, ft := range rootT.fields {
		sh := 0
		if i < len(shape) {
			sh = shape[i]
		}
		if sh != 3 || open == 0 {
			closeFrag()
			switch sh {
			case 1:
				sb.WriteString(" ... on " + rootName + " {")
				open = 1
			case 2:
				nfrag++
				fmt.Fprintf(&sb, " ...F%d", nfrag)
				fmt.Fprintf(&frags, " fragment F%d on %s {", nfrag, rootName)
				open = 2
				cur = &frags
			}
		}
		cur.WriteString(" ")
		if i < len(dups) && dups[i] == 2 && len(subFields(ft.t)) >= 2 {
			selectionTextPart(ft, cur, 0, len(subFields(ft.t))/2)
		} else {
			selectionText(ft, cur)
		}
	}
	closeFrag()
	for i, ft := range rootT.fields {
		if i >= len(dups) || dups[i] == 0 {
			continue
		}
		sb.WriteString(" ")
		if dups[i] == 2 && len(subFields(ft.t)) >= 2 {
			n := len(subFields(ft.t))
			selectionTextPart(ft, &sb, n/2, n)
		} else {
			selectionText(ft, &sb)
		}
	}
	sb.WriteString("}")
	return sb.String() + frags.String()
}

// ---------------------------------------------------------------------------------------------
// running one case
// ---------------------------------------------------------------------------------------------

type stuck struct{}

type observation struct {
	status string
	resp   *graphql.Response
	rounds int
	proms  []*promise
	events []sexp.Node
}

func hasAbstract(t *typ) bool {
	if t.abs != 0 {
		return true
	}
	if t.item != nil && hasAbstract(t.item) {
		return true
	}
	for _, ft := range t.fields {
		if hasAbstract(ft.t) {
			return true
		}
	}
	return false
}

func resetGql(t *typ) {
	t.gql = nil
	if t.item != nil {
		resetGql(t.item)
	}
	for _, ft := range t.fields {
		resetGql(ft.t)
	}
}

type docOpts struct {
	shape  []int
	dups   []int
	noIdle bool
}

func run(root *val, mutation bool, ranks []int, opts docOpts) observation {
	var events []sexp.Node
	var proms []*promise
	counter := 0
	b := &builder{events: &events, proms: &proms, counter: &counter}
	resetGql(root.t)
	def := &graphql.SchemaDefinition{}
	dummy := &graphql.ObjectType{Name: "Q0", Fields: map[string]*graphql.FieldDefinition{
		"z": {Type: graphql.IntType, Resolve: func(graphql.FieldContext) (interface{}, error) { return 0, nil }},
	}}
	rootName := "Query"
	if mutation {
		rootName = "Mutation"
		def.Query = dummy
		def.Mutation = b.objType(rootName, root.t)
	} else {
		def.Query = b.objType(rootName, root.t)
	}
	doc := documentText(root.t, mutation, rootName, opts.shape, opts.dups)
	def.AdditionalTypes = b.extra
	schema, err := graphql.NewSchema(def)
	if err != nil {
		panic(fmt.Sprintf("schema: %v (%s)", err, doc))
	}

	obs := observation{}
	limit := 4
	root.walk(func(fv *fval) { limit += 2 })
	rank := func(p *promise) int {
		if p.fv.tag < len(ranks) {
			return ranks[p.fv.tag]
		}
		return 0
	}
	idle := func() {
		obs.rounds++
		if obs.rounds > limit {
			panic(stuck{})
		}
		min := -1
		for _, p := range proms {
			if !p.done && (min < 0 || rank(p) < min) {
				min = rank(p)
			}
		}
		if min < 0 {
			panic(stuck{}) // nothing outstanding: the executor would spin for ever
		}
		for _, p := range proms {
			if !p.done && rank(p) == min {
				p.done = true
				events = append(events, sexp.T("fulfil", pathSexp(p.fv.path), sexp.Int(counter)))
				counter++
				if p.fv.err {
					p.ch <- graphql.ResolveResult{Error: errors.New("promise failed")}
				} else {
					p.ch <- graphql.ResolveResult{Value: p.fv.v.goValue()}
				}
			}
		}
	}

	type outT struct {
		status string
		resp   *graphql.Response
	}
	done := make(chan outT, 1)
	go func() {
		defer func() {
			if e := recover(); e != nil {
				if _, ok := e.(stuck); ok {
					done <- outT{status: "stuck"}
				} else {
					done <- outT{status: "panic"}
				}
			}
		}()
		req := &graphql.Request{
			Context:      context.Background(),
			Schema:       schema,
			Query:        doc,
			InitialValue: root,
			IdleHandler:  idle,
		}
		if opts.noIdle {
			req.IdleHandler = nil
		}
		r := graphql.Execute(req)
		done <- outT{status: "ok", resp: r}
	}()
	select {
	case o := <-done:
		obs.status, obs.resp = o.status, o.resp
	case <-time.After(10 * time.Second):
		obs.status = "hang"
	}
	obs.proms = append([]*promise(nil), proms...)
	obs.events = append([]sexp.Node(nil), events...)
	return obs
}

// runAPI executes the mutation through apifu.API.ServeGraphQL: root fields registered with
// Config.AddMutation, asynchronous fields resolved by apifu.Go goroutines, the request's own idle
// handler.  The order in which goroutines finish is not under the harness's control.
func runAPI(root *val, opts docOpts, ws, batch bool) sexp.Node {
	var events []sexp.Node
	var proms []*promise
	counter := 0
	var mu sync.Mutex
	b := &builder{events: &events, proms: &proms, counter: &counter, api: true, mu: &mu, root: root, batch: batch}
	resetGql(root.t)
	var cfg apifu.Config
	cfg.AddQueryField("z", &graphql.FieldDefinition{Type: graphql.IntType, Resolve: func(graphql.FieldContext) (interface{}, error) { return 0, nil }})
	mt := b.objType("MutationProbe", root.t)
	for name, def := range mt.Fields {
		cfg.AddMutation(name, def)
	}
	api, err := apifu.NewAPI(&cfg)
	if err != nil {
		panic(fmt.Sprintf("NewAPI: %v", err))
	}
	doc := documentText(root.t, true, "Mutation", opts.shape, opts.dups)
	type outT struct {
		status string
		body   []byte
	}
	done := make(chan outT, 1)
	go func() {
		defer func() {
			if e := recover(); e != nil {
				done <- outT{status: "panic"}
			}
		}()
		if ws {
			body, err := wsExecute(api, doc)
			if err != nil {
				done <- outT{status: "wserror"}
				return
			}
			done <- outT{status: "ok", body: body}
			return
		}
		w := httptest.NewRecorder()
		r, _ := http.NewRequest("POST", "", strings.NewReader(doc))
		r.Header.Set("Content-Type", "application/graphql")
		api.ServeGraphQL(w, r)
		done <- outT{status: "ok", body: w.Body.Bytes()}
	}()
	var o outT
	select {
	case o = <-done:
	case <-time.After(10 * time.Second):
		o = outT{status: "hang"}
	}
	out := []sexp.Node{sexp.T("status", sexp.Sym(o.status))}
	if o.status == "ok" {
		out = append(out, sexp.T("data", apiDataSexp(o.body)))
	}
	mu.Lock()
	evs := append([]sexp.Node(nil), events...)
	mu.Unlock()
	out = append(out, sexp.T("rounds", sexp.Int(0)), sexp.T("events", evs...))
	return sexp.T("obs", out...)
}

// wsExecute runs one operation over a graphql-ws connection to api.ServeGraphQLWS and returns the
// payload of its data message.
func wsExecute(api *apifu.API, doc string) ([]byte, error) {
	ts := httptest.NewServer(http.HandlerFunc(api.ServeGraphQLWS))
	defer ts.Close()
	defer api.CloseHijackedConnections()
	dialer := &websocket.Dialer{HandshakeTimeout: 2 * time.Second, Subprotocols: []string{"graphql-ws"}}
	conn, _, err := dialer.Dial("ws"+strings.TrimPrefix(ts.URL, "http"), nil)
	if err != nil {
		return nil, err
	}
	defer conn.Close()
	conn.SetReadDeadline(time.Now().Add(8 * time.Second))
	if err := conn.WriteJSON(map[string]string{"id": "init", "type": "connection_init"}); err != nil {
		return nil, err
	}
	if err := conn.WriteJSON(map[string]interface{}{"id": "op", "type": "start", "payload": map[string]interface{}{"query": doc}}); err != nil {
		return nil, err
	}
	for {
		var msg struct {
			Id      string          `json:"id"`
			Type    string          `json:"type"`
			Payload json.RawMessage `json:"payload"`
		}
		if err := conn.ReadJSON(&msg); err != nil {
			return nil, err
		}
		if msg.Id == "op" && msg.Type == "data" {
			return msg.Payload, nil
		}
		if msg.Id == "op" && (msg.Type == "error" || msg.Type == "complete") {
			return nil, errors.New("no data message: " + msg.Type)
		}
	}
}

// apiDataSexp reads the root keys of "data" in response order with the kind of each value.
func apiDataSexp(body []byte) sexp.Node {
	var top struct {
		Data json.RawMessage `json:"data"`
	}
	if json.Unmarshal(body, &top) != nil || len(top.Data) == 0 || string(top.Data) == "null" {
		return sexp.Sym("null")
	}
	dec := json.NewDecoder(strings.NewReader(string(top.Data)))
	if tok, err := dec.Token(); err != nil || tok != json.Delim('{') {
		return sexp.Sym("unknown")
	}
	var items []sexp.Node
	for dec.More() {
		k, _ := dec.Token()
		var raw json.RawMessage
		if dec.Decode(&raw) != nil {
			return sexp.Sym("unknown")
		}
		var kind sexp.Node
		switch {
		case string(raw) == "null":
			kind = sexp.Sym("null")
		case raw[0] == '{':
			kind = sexp.Sym("obj")
		case raw[0] == '[':
			kind = sexp.Sym("list")
		case raw[0] == '"':
			kind = sexp.Sym("str")
		default:
			var n int64
			if json.Unmarshal(raw, &n) != nil {
				return sexp.Sym("unknown")
			}
			kind = sexp.T("int", sexp.Int64(n))
		}
		items = append(items, sexp.L(sexp.Str(k.(string)), kind))
	}
	return sexp.L(items...)
}

func apiCaseSexp(root *val, opts docOpts, ws, batch bool) sexp.Node {
	root.setPaths(nil)
	o := runAPI(root, opts, ws, batch)
	feat := []sexp.Node{sexp.Sym("apifu-go")}
	if batch {
		feat = append(feat, sexp.Sym("apifu-batch"))
	}
	if ws {
		feat = append(feat, sexp.Sym("graphql-ws"))
	}
	return sexp.T("case", sexp.T("mode", sexp.Sym("mutation")), sexp.T("plan", sexp.L(root.selSexp()...)),
		sexp.T("ranks", sexp.L()), sexp.T("idle", sexp.Bool(true)), sexp.T("feat", feat...), o)
}

// kindSexp abstracts a root value to what the model tracks: null / (int z) / list / obj.
func kindSexp(v interface{}) sexp.Node {
	if v == nil {
		return sexp.Sym("null")
	}
	switch v := v.(type) {
	case *executor.OrderedMap:
		if v == nil {
			return sexp.Sym("null")
		}
		return sexp.Sym("obj")
	case []interface{}:
		return sexp.Sym("list")
	}
	if _, ok := v.(string); ok {
		return sexp.Sym("str")
	}
	rv := reflect.ValueOf(v)
	switch rv.Kind() {
	case reflect.Int, reflect.Int8, reflect.Int16, reflect.Int32, reflect.Int64:
		return sexp.T("int", sexp.Int64(rv.Int()))
	case reflect.Ptr, reflect.Slice, reflect.Map, reflect.Interface:
		if rv.IsNil() {
			return sexp.Sym("null")
		}
	}
	return sexp.T("unknown", sexp.Str(fmt.Sprintf("%T", v)))
}

func (o observation) sexp() sexp.Node {
	out := []sexp.Node{sexp.T("status", sexp.Sym(o.status))}
	if o.resp != nil {
		if o.resp.Data == nil || *o.resp.Data == nil {
			out = append(out, sexp.T("data", sexp.Sym("null")))
		} else if m, ok := (*o.resp.Data).(*executor.OrderedMap); ok {
			if m == nil {
				out = append(out, sexp.T("data", sexp.Sym("null")))
			} else {
				var items []sexp.Node
				for _, it := range m.Items() {
					items = append(items, sexp.L(sexp.Str(it.Key), kindSexp(it.Value)))
				}
				out = append(out, sexp.T("data", sexp.L(items...)))
			}
		} else {
			out = append(out, sexp.T("data", sexp.Sym("unknown")))
		}
		out = append(out, sexp.T("nerrs", sexp.Int(len(o.resp.Errors))))
	}
	var ps []sexp.Node
	for _, p := range o.proms {
		ps = append(ps, sexp.L(pathSexp(p.fv.path), sexp.Bool(p.done)))
	}
	out = append(out, sexp.T("rounds", sexp.Int(o.rounds)), sexp.T("proms", ps...), sexp.T("events", o.events...))
	return sexp.T("obs", out...)
}

func caseSexp(root *val, mutation bool, ranks []int, opts docOpts) sexp.Node {
	root.setPaths(nil)
	o := run(root, mutation, ranks, opts)
	mode := "query"
	if mutation {
		mode = "mutation"
	}
	var rk []sexp.Node
	for _, r := range ranks {
		rk = append(rk, sexp.Int(r))
	}
	var feat []sexp.Node
	for _, sh := range opts.shape {
		if sh != 0 {
			feat = append(feat, sexp.Sym("root-in-fragments"))
			break
		}
	}
	d1, d2 := false, false
	for i, d := range opts.dups {
		if d == 1 || (d == 2 && i < len(root.t.fields) && len(subFields(root.t.fields[i].t)) < 2) {
			d1 = true
		} else if d == 2 {
			d2 = true
		}
	}
	if hasAbstract(root.t) {
		feat = append(feat, sexp.Sym("abstract-typed-field"))
	}
	if d1 {
		feat = append(feat, sexp.Sym("duplicate-root-key"))
	}
	if d2 {
		feat = append(feat, sexp.Sym("split-root-selection"))
	}
	return sexp.T("case", sexp.T("mode", sexp.Sym(mode)), sexp.T("plan", sexp.L(root.selSexp()...)),
		sexp.T("ranks", sexp.L(rk...)), sexp.T("idle", sexp.Bool(!opts.noIdle)), sexp.T("feat", feat...), o.sexp())
}

// ---------------------------------------------------------------------------------------------
// generators
// ---------------------------------------------------------------------------------------------

func leafT(nn bool) *typ             { return &typ{nn: nn, kind: kLeaf} }
func listT(nn bool, it *typ) *typ    { return &typ{nn: nn, kind: kList, item: it} }
func objT(nn bool, f ...*ftype) *typ { return &typ{nn: nn, kind: kObj, fields: f} }
func fld(key string, t *typ) *ftype  { return &ftype{key: key, name: key, t: t} }

// outcome codes for leaves: 0 value, 1 null, 2 resolver error, 3 wrong kind
func leafVal(t *typ, code, z int) (*val, bool) {
	switch code {
	case 1:
		return &val{kind: vNull, t: t}, false
	case 2:
		return nil, true
	case 3:
		return &val{kind: vBad, t: t}, false
	}
	return &val{kind: vLeaf, z: z, t: t}, false
}

// assignTags numbers the asynchronous field invocations in preorder; async(i) decides for the
// i-th field invocation (preorder).  Returns the number of tags.
func assignTags(root *val, async func(i int) bool) int {
	i, n := 0, 0
	root.walk(func(fv *fval) {
		if async(i) {
			fv.tag = n
			n++
		} else {
			fv.tag = -1
		}
		i++
	})
	return n
}

func countFields(root *val) int {
	n := 0
	root.walk(func(*fval) { n++ })
	return n
}

// orderedPartitions calls f with every rank vector of n items that uses ranks 0..k-1 surjectively
// (= every ordered set partition; 1, 1, 3, 13, 75, 541, 4683 of them).
func orderedPartitions(n int, f func(ranks []int)) {
	ranks := make([]int, n)
	var rec func(i int)
	rec = func(i int) {
		if i == n {
			seen := make([]bool, n+1)
			max := -1
			for _, r := range ranks {
				seen[r] = true
				if r > max {
					max = r
				}
			}
			for r := 0; r <= max; r++ {
				if !seen[r] {
					return
				}
			}
			f(append([]int(nil), ranks...))
			return
		}
		for r := 0; r < n; r++ {
			ranks[i] = r
			rec(i + 1)
		}
	}
	if n == 0 {
		f(nil)
		return
	}
	rec(0)
}

// allSchedules emits, for one plan tree, every async subset x every schedule (when the subset has
// at most maxProm promises; otherwise a few random rank vectors).
func allSchedules(h *hx.H, root *val, mutation bool, maxProm int, r *rng.R) {
	allSchedulesOpts(h, root, mutation, maxProm, r, docOpts{})
}

func allSchedulesOpts(h *hx.H, root *val, mutation bool, maxProm int, r *rng.R, opts docOpts) {
	n := countFields(root)
	for mask := 0; mask < 1<<uint(n); mask++ {
		mask := mask
		k := assignTags(root, func(i int) bool { return mask>>uint(i)&1 == 1 })
		if k <= maxProm {
			orderedPartitions(k, func(ranks []int) {
				h.Case(func(_ *rng.R) sexp.Node {
					assignTags(root, func(i int) bool { return mask>>uint(i)&1 == 1 })
					return caseSexp(root, mutation, ranks, opts)
				})
			})
		} else {
			for j := 0; j < 4; j++ {
				ranks := make([]int, k)
				levels := 1 + r.Intn(k)
				for i := range ranks {
					ranks[i] = r.Intn(levels)
				}
				h.Case(func(_ *rng.R) sexp.Node {
					assignTags(root, func(i int) bool { return mask>>uint(i)&1 == 1 })
					return caseSexp(root, mutation, ranks, opts)
				})
			}
		}
	}
}

// ---- exhaustive flat family: n leaf root fields x {Int, Int!} x outcome ----

func flatFamily(h *hx.H, n int, codes []int, mutation bool, maxProm int, r *rng.R) {
	total := 1
	per := 2 * len(codes)
	for i := 0; i < n; i++ {
		total *= per
	}
	for x := 0; x < total; x++ {
		y := x
		var fts []*ftype
		var fvs []*fval
		for i := 0; i < n; i++ {
			c := y % per
			y /= per
			t := leafT(c%2 == 1)
			ft := fld(string(rune('a'+i)), t)
			v, e := leafVal(t, codes[c/2], i+1)
			fts = append(fts, ft)
			fvs = append(fvs, &fval{ft: ft, err: e, v: v})
		}
		rt := objT(false, fts...)
		root := &val{kind: vObj, t: rt, fields: fvs}
		allSchedules(h, root, mutation, maxProm, r)
	}
}

func obj(t *typ, fs ...*fval) *val   { return &val{kind: vObj, t: t, fields: fs} }
func lst(t *typ, items ...*val) *val { return &val{kind: vList, t: t, items: items} }
func fv(ft *ftype, v *val) *fval     { return &fval{ft: ft, v: v} }
func fe(ft *ftype) *fval             { return &fval{ft: ft, err: true} }

func leafField(ft *ftype, code, z int) *fval {
	v, e := leafVal(ft.t, code, z)
	return &fval{ft: ft, v: v, err: e}
}

// structured: roots with nested subtrees; every async subset x every schedule
func structured(h *hx.H, mutation bool, maxProm int, r *rng.R) {
	// {a {x y} b}: nested object; x nullable / non-null, value / resolver error; a nullable / non-null
	for _, c0 := range []int{0, 2} {
		for _, w := range []int{0, 1, 2, 3} {
			x := fld("x", leafT(w&1 == 1))
			y := fld("y", leafT(false))
			a := fld("a", objT(w&2 == 2, x, y))
			b := fld("b", leafT(false))
			root := obj(objT(false, a, b),
				fv(a, obj(a.t, leafField(x, c0, 1), leafField(y, 0, 2))), leafField(b, 0, 3))
			allSchedules(h, root, mutation, maxProm, r)
		}
	}
	// {l [{x} {x}] b}: promises inside a list (inside a promise when l is asynchronous); items
	// nullable / non-null, first x value / error beneath Int!
	for _, c0 := range []int{0, 2} {
		for _, w := range []int{0, 1, 2} {
			x := fld("x", leafT(w&1 == 1))
			it := objT(w&2 == 2, x)
			l := fld("l", listT(false, it))
			b := fld("b", leafT(false))
			root := obj(objT(false, l, b),
				fv(l, lst(l.t, obj(it, leafField(x, c0, 1)), obj(it, leafField(x, 0, 2)))), leafField(b, 0, 3))
			allSchedules(h, root, mutation, maxProm, r)
		}
	}
	// {a {x} b {y} c}: three roots, two of them objects
	{
		x := fld("x", leafT(false))
		a := fld("a", objT(false, x))
		y := fld("y", leafT(false))
		b := fld("b", objT(false, y))
		c := fld("c", leafT(false))
		root := obj(objT(false, a, b, c), fv(a, obj(a.t, leafField(x, 0, 1))), fv(b, obj(b.t, leafField(y, 0, 2))), leafField(c, 0, 3))
		allSchedules(h, root, mutation, maxProm, r)
	}
	// {a {b {c}} d}: three levels
	for _, c0 := range []int{0, 2} {
		cc := fld("c", leafT(true))
		b := fld("b", objT(true, cc))
		a := fld("a", objT(false, b))
		d := fld("d", leafT(false))
		root := obj(objT(false, a, d), fv(a, obj(a.t, fv(b, obj(b.t, leafField(cc, c0, 1))))), leafField(d, 0, 2))
		allSchedules(h, root, mutation, maxProm, r)
	}
}

// extras: the document shapes and request variants beside the plain ones, every async subset x schedule
func extras(h *hx.H, maxProm int, r *rng.R) {
	mk := func(c0 int) (*val, *ftype, *ftype) {
		x := fld("x", leafT(true))
		y := fld("y", leafT(false))
		a := fld("a", objT(false, x, y))
		b := fld("b", leafT(false))
		return obj(objT(false, a, b), fv(a, obj(a.t, leafField(x, c0, 1), leafField(y, 0, 2))), leafField(b, 0, 3)), a, b
	}
	// mutation { a { ... on T {x y} } b }: a declared with an interface / a union type
	for _, abs := range []int{1, 2} {
		root, a, _ := mk(0)
		a.t.abs = abs
		allSchedulesOpts(h, root, true, maxProm, r, docOpts{})
	}
	for _, c0 := range []int{0, 2} {
		// mutation { a{x} b a{y} b }: a's selection split, b written twice
		root, _, _ := mk(c0)
		allSchedulesOpts(h, root, true, maxProm, r, docOpts{dups: []int{2, 1}})
		// no idle handler
		root, _, _ = mk(c0)
		allSchedulesOpts(h, root, true, maxProm, r, docOpts{noIdle: true})
		// mutation { a{x y} t: __typename b }
		root, a, b := mk(c0)
		tn := &ftype{key: "t", name: "__typename", t: leafT(true)}
		root.t = objT(false, a, tn, b)
		root.fields = []*fval{root.fields[0], {ft: tn, tn: true}, root.fields[1]}
		allSchedulesOpts(h, root, true, maxProm, r, docOpts{})
	}
}

// ---- random trees ----

type gen struct {
	r      *rng.R
	budget int
	abs    bool // object-typed fields may be declared with an interface or union type
}

func (g *gen) typ(depth int) *typ {
	nn := g.r.Chance(2, 5)
	k := g.r.Intn(10)
	switch {
	case depth <= 0 || k < 3 || g.budget <= 0:
		return leafT(nn)
	case k < 5:
		return listT(nn, g.typ(depth-1))
	default:
		n := g.r.Range(1, 3)
		var fs []*ftype
		if g.r.Chance(1, 8) {
			fs = append(fs, &ftype{key: "tn", name: "__typename", t: leafT(true)})
		}
		for i := 0; i < n; i++ {
			g.budget--
			name := fmt.Sprintf("f%d", i)
			key := name
			if g.r.Chance(1, 4) {
				key = fmt.Sprintf("k%d", i)
			}
			fs = append(fs, &ftype{key: key, name: name, t: g.typ(depth - 1)})
		}
		t := objT(nn, fs...)
		if g.abs && g.r.Chance(1, 3) {
			t.abs = g.r.Range(1, 2)
		}
		return t
	}
}

func (g *gen) val(t *typ, failDen int) *val {
	switch g.r.Intn(failDen) {
	case 0:
		return &val{kind: vNull, t: t}
	case 1:
		if t.kind != kObj {
			return &val{kind: vBad, t: t}
		}
	}
	switch t.kind {
	case kLeaf:
		return &val{kind: vLeaf, z: g.r.Intn(100), t: t}
	case kList:
		n := g.r.Intn(4)
		v := &val{kind: vList, t: t}
		for i := 0; i < n; i++ {
			v.items = append(v.items, g.val(t.item, failDen))
		}
		return v
	}
	v := &val{kind: vObj, t: t}
	for _, ft := range t.fields {
		if ft.name == "__typename" {
			v.fields = append(v.fields, &fval{ft: ft, tn: true})
			continue
		}
		if g.r.Intn(failDen) == 0 {
			v.fields = append(v.fields, fe(ft))
		} else {
			v.fields = append(v.fields, fv(ft, g.val(ft.t, failDen)))
		}
	}
	return v
}

func randomRoot(r *rng.R, nroots, depth, budget, failDen int, abs bool) *val {
	g := &gen{r: r, budget: budget, abs: abs}
	var fs []*ftype
	for i := 0; i < nroots; i++ {
		name := fmt.Sprintf("r%d", i)
		key := name
		if r.Chance(1, 4) {
			key = fmt.Sprintf("q%d", i)
		}
		fs = append(fs, &ftype{key: key, name: name, t: g.typ(depth)})
		if r.Chance(1, 10) {
			fs = append(fs, &ftype{key: fmt.Sprintf("t%d", i), name: "__typename", t: leafT(true)})
		}
	}
	rt := objT(false, fs...)
	root := &val{kind: vObj, t: rt}
	for _, ft := range fs {
		if ft.name == "__typename" {
			root.fields = append(root.fields, &fval{ft: ft, tn: true})
			continue
		}
		if r.Intn(failDen) == 0 {
			root.fields = append(root.fields, fe(ft))
		} else {
			root.fields = append(root.fields, fv(ft, g.val(ft.t, failDen)))
		}
	}
	return root
}

func randomCase(r *rng.R, mutation bool, nroots int) sexp.Node {
	failDen := 14
	if r.Chance(1, 3) {
		failDen = 1000 // (almost) failure-free trees: deep responses survive
	} else if r.Chance(1, 4) {
		failDen = 6
	}
	root := randomRoot(r, nroots, r.Range(1, 4), r.Range(3, 14), failDen, true)
	density := r.Range(1, 4)
	k := assignTags(root, func(int) bool { return r.Intn(4) < density })
	ranks := make([]int, k)
	if k > 0 {
		levels := 1 + r.Intn(k)
		if r.Chance(1, 4) {
			levels = k
		}
		for i := range ranks {
			ranks[i] = r.Intn(levels)
		}
		if r.Chance(1, 4) { // a permutation: one promise per round
			for i := range ranks {
				ranks[i] = i
			}
			for i := k - 1; i > 0; i-- {
				j := r.Intn(i + 1)
				ranks[i], ranks[j] = ranks[j], ranks[i]
			}
		} else if r.Chance(1, 6) { // last created first
			for i := range ranks {
				ranks[i] = k - 1 - i
			}
		}
	}
	// how the root selections are spread over fragments, which of them are written twice
	nsel := len(root.t.fields)
	opts := docOpts{shape: make([]int, nsel), dups: make([]int, nsel)}
	if r.Chance(1, 2) {
		for i := range opts.shape {
			opts.shape[i] = r.Intn(4)
		}
	}
	if r.Chance(1, 3) {
		for i := range opts.dups {
			if r.Chance(1, 2) {
				opts.dups[i] = r.Range(1, 2)
			}
		}
	}
	opts.noIdle = r.Chance(1, 25)
	return caseSexp(root, mutation, ranks, opts)
}

// ---------------------------------------------------------------------------------------------

func main() {
	hx.Main(func(h *hx.H) {
		r := rng.New(h.Seed ^ 0xc11)
		maxProm := 4
		if h.Thorough() {
			maxProm = 5
		}
		// 1. exhaustive: 2 and 3 flat roots, every outcome x async subset x schedule
		flatFamily(h, 2, []int{0, 1, 2, 3}, true, 5, r)
		flatFamily(h, 3, []int{0, 2}, true, 5, r)
		flatFamily(h, 2, []int{0, 2}, false, 5, r) // the same documents as queries: not serial
		if h.Thorough() {
			flatFamily(h, 3, []int{0, 1, 2}, true, 5, r)
			flatFamily(h, 4, []int{0, 2}, true, 5, r)
		}
		// 2. roots with nested asynchronous subtrees: every async subset x schedule
		structured(h, true, maxProm, r)
		extras(h, maxProm, r)
		if h.Thorough() {
			structured(h, false, maxProm, r)
		}
		// 3. random documents with 2-5 roots; one in six is a query
		n := 40000
		if h.Thorough() {
			n = 1000000
		}
		for i := 0; i < n; i++ {
			h.Case(func(r *rng.R) sexp.Node {
				return randomCase(r, !r.Chance(1, 6), r.Range(2, 5))
			})
		}
		// 4. mutations through apifu.API.ServeGraphQL with apifu.Go under the root fields
		na := 1500
		if h.Thorough() {
			na = 30000
		}
		for i := 0; i < na; i++ {
			i := i
			h.Case(func(r *rng.R) sexp.Node {
				failDen := 14
				if r.Chance(1, 2) {
					failDen = 1000
				}
				root := randomRoot(r, r.Range(2, 4), r.Range(1, 3), r.Range(3, 10), failDen, false)
				density := r.Range(1, 4)
				assignTags(root, func(int) bool { return r.Intn(4) < density })
				ws := i%5 == 4
				return apiCaseSexp(root, docOpts{}, ws, r.Chance(1, 2))
			})
		}
	})
}
