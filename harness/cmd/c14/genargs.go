// c14, round 3: list and input-object arguments / variables for cost functions.  Literals and Go
// values are written in the encoding of C05's check (Val/CoerceCheck.v: dec_lit, dec_jval, dec_gval,
// dec_sty, dec_indef, dec_vardef, dec_env_entry), which Cost/CostCheck.v reuses.
package main

import (
	"context"
	"fmt"
	"sort"
	"strings"

	"github.com/ccbrown/api-fu/graphql"

	"verifharness/internal/rng"
	"verifharness/internal/sexp"
)

const srcGen = 4

// a GraphQL literal
type glit struct {
	kind  string // int | null | var | list | obj
	i     int
	v     string
	items []glit
	keys  []string // obj: field names, parallel to items
}

func gi(i int) glit           { return glit{kind: "int", i: i} }
func gnull() glit             { return glit{kind: "null"} }
func gvar(v string) glit      { return glit{kind: "var", v: v} }
func glist(xs ...glit) glit   { return glit{kind: "list", items: xs} }
func gobj(kv ...interface{}) glit {
	l := glit{kind: "obj"}
	for i := 0; i+1 < len(kv); i += 2 {
		l.keys = append(l.keys, kv[i].(string))
		l.items = append(l.items, kv[i+1].(glit))
	}
	return l
}

func (l glit) text() string {
	switch l.kind {
	case "int":
		return fmt.Sprint(l.i)
	case "null":
		return "null"
	case "var":
		return "$" + l.v
	case "list":
		var parts []string
		for _, x := range l.items {
			parts = append(parts, x.text())
		}
		return "[" + strings.Join(parts, ", ") + "]"
	}
	var parts []string
	for i, x := range l.items {
		parts = append(parts, l.keys[i]+": "+x.text())
	}
	return "{" + strings.Join(parts, ", ") + "}"
}

// C05's literal encoding
func (l glit) sexp() sexp.Node {
	switch l.kind {
	case "int":
		return sexp.T("int", sexp.Int(l.i))
	case "null":
		return sexp.Sym("null")
	case "var":
		return sexp.T("var", sexp.Str(l.v))
	case "list":
		var xs []sexp.Node
		for _, x := range l.items {
			xs = append(xs, x.sexp())
		}
		return sexp.T("list", xs...)
	}
	var xs []sexp.Node
	for i, x := range l.items {
		xs = append(xs, sexp.L(sexp.Str(l.keys[i]), x.sexp()))
	}
	return sexp.T("obj", xs...)
}

// the AST below the value as ast.Inspect walks it
func (l glit) shape() sexp.Node {
	switch l.kind {
	case "var":
		return o(o()) // Variable -> Name
	case "list":
		var xs []sexp.Node
		for _, x := range l.items {
			xs = append(xs, x.shape())
		}
		return o(xs...)
	case "obj":
		var xs []sexp.Node
		for _, x := range l.items {
			xs = append(xs, o(o(), x.shape())) // ObjectField: Name, Value
		}
		return o(xs...)
	}
	return o()
}

func (l glit) vars(out map[string]bool) {
	if l.kind == "var" {
		out[l.v] = true
	}
	for _, x := range l.items {
		x.vars(out)
	}
}

// what a cost function of a generic field computes (integer expressions over ctx.Arguments,
// interpreted by CostCheck.eval_iexp)
type genSpec struct {
	r, m sexp.Node
	setc sexp.Node
}

func ie(tag string, args ...interface{}) sexp.Node {
	var xs []sexp.Node
	for _, a := range args {
		switch v := a.(type) {
		case string:
			xs = append(xs, sexp.Str(v))
		case int:
			xs = append(xs, sexp.Int(v))
		}
	}
	return sexp.T(tag, xs...)
}

func styNamed(n string) sexp.Node { return sexp.T("named", sexp.Str(n)) }
func styList(t sexp.Node) sexp.Node { return sexp.T("list", t) }

// a Go value in C05's gval encoding (schema defaults) / jval encoding (variable values): both
// spell int, nil, list and map the same way up to the tag of maps
func goValSexp(v interface{}, mapTag string) sexp.Node {
	switch x := v.(type) {
	case nil:
		if mapTag == "map" {
			return sexp.Sym("nil")
		}
		return sexp.Sym("null")
	case int:
		return sexp.T("int", sexp.Int(x))
	case string:
		return sexp.T("str", sexp.Str(x))
	case bool:
		return sexp.T("bool", sexp.Bool(x))
	case []interface{}:
		var xs []sexp.Node
		for _, e := range x {
			xs = append(xs, goValSexp(e, mapTag))
		}
		return sexp.T("list", xs...)
	case map[string]interface{}:
		var keys []string
		for k := range x {
			keys = append(keys, k)
		}
		sort.Strings(keys)
		var xs []sexp.Node
		for _, k := range keys {
			xs = append(xs, sexp.L(sexp.Str(k), goValSexp(x[k], mapTag)))
		}
		return sexp.T(mapTag, xs...)
	}
	return sexp.Sym("other")
}

var costInType = &graphql.InputObjectType{
	Name: "CostIn",
	// only used by introspection of the argument default of inpd
	ResultCoercion: func(v interface{}) (map[string]interface{}, error) { return v.(map[string]interface{}), nil },
	Fields: map[string]*graphql.InputValueDefinition{
		"r": {Type: graphql.IntType, DefaultValue: 2},
		"m": {Type: graphql.IntType},
		"n": {Type: graphql.NewListType(graphql.IntType)},
	},
}

// the input types of the direct schema, for C05's model
func envSexp() sexp.Node {
	none := sexp.None()
	return sexp.L(
		sexp.L(sexp.Str("Int"), sexp.T("scalar", sexp.Sym("int"))),
		sexp.L(sexp.Str("Boolean"), sexp.T("scalar", sexp.Sym("boolean"))),
		sexp.L(sexp.Str("CostIn"), sexp.T("input", sexp.Sym("none"),
			sexp.L(sexp.Str("r"), styNamed("Int"), sexp.Some(sexp.T("int", sexp.Int(2)))),
			sexp.L(sexp.Str("m"), styNamed("Int"), none),
			sexp.L(sexp.Str("n"), styList(styNamed("Int")), none))),
	)
}

func genFields() []fieldInfo {
	listInt := styList(styNamed("Int"))
	none := sexp.Sym("none")
	return []fieldInfo{
		// lst(xs: [Int]): costs the number of items (1 when not a list), multiplies by the first item
		{name: "lst", ret: "Obj", args: []argInfo{{name: "xs", typ: "[Int]", tySexp: listInt}},
			gen: &genSpec{r: ie("len", "xs", 1), m: ie("idx", "xs", 0, 0), setc: none}},
		// lstd(xs: [Int] = [2, 1], c: Int = 4): a list default handed over as it is; sets the context
		{name: "lstd", ret: "Obj", args: []argInfo{
			{name: "xs", typ: "[Int]", tySexp: listInt, gdef: []interface{}{2, 1}},
			{name: "c", typ: "Int", tySexp: styNamed("Int"), gdef: 4}},
			gen: &genSpec{r: ie("idx", "xs", 1, 0), m: ie("idx", "xs", 0, 0), setc: sexp.Some(sexp.Str("c"))}},
		// inp(o: CostIn): resolver cost o.r (field default 2), multiplier o.m, plus the length of o.n
		{name: "inp", ret: "Obj", args: []argInfo{{name: "o", typ: "CostIn", tySexp: styNamed("CostIn")}},
			gen: &genSpec{r: ie("fld", "o", "r", 1), m: ie("fld", "o", "m", 0), setc: none}},
		// inpd(o: CostIn = {m: 3, r: 2}): the argument default is a complete Go map
		{name: "inpd", args: []argInfo{{name: "o", typ: "CostIn", tySexp: styNamed("CostIn"),
			gdef: map[string]interface{}{"m": 3, "r": 2}}},
			gen: &genSpec{r: ie("fld", "o", "m", 7), m: ie("fldlen", "o", "n", 0), setc: none}},
	}
}

func argMapInt(v interface{}, key string) (int, bool) {
	m, ok := v.(map[string]interface{})
	if !ok {
		return 0, false
	}
	i, ok := m[key].(int)
	return i, ok
}

func listIdx(v interface{}, i, d int) int {
	l, ok := v.([]interface{})
	if !ok || i >= len(l) {
		return d
	}
	if x, ok := l[i].(int); ok {
		return x
	}
	return d
}

// the real cost functions of the generic fields
func genCostFn(name string) func(graphql.FieldCostContext) graphql.FieldCost {
	switch name {
	case "lst":
		return func(ctx graphql.FieldCostContext) graphql.FieldCost {
			r := 1
			if l, ok := ctx.Arguments["xs"].([]interface{}); ok {
				r = len(l)
			}
			return graphql.FieldCost{Resolver: r, Multiplier: listIdx(ctx.Arguments["xs"], 0, 0)}
		}
	case "lstd":
		return func(ctx graphql.FieldCostContext) graphql.FieldCost {
			fc := graphql.FieldCost{Resolver: listIdx(ctx.Arguments["xs"], 1, 0), Multiplier: listIdx(ctx.Arguments["xs"], 0, 0)}
			if c, ok := ctx.Arguments["c"].(int); ok {
				fc.Context = context.WithValue(ctx.Context, userKey, c)
			}
			return fc
		}
	case "inp":
		return func(ctx graphql.FieldCostContext) graphql.FieldCost {
			r, ok := argMapInt(ctx.Arguments["o"], "r")
			if !ok {
				r = 1
			}
			m, _ := argMapInt(ctx.Arguments["o"], "m")
			return graphql.FieldCost{Resolver: r, Multiplier: m}
		}
	case "inpd":
		return func(ctx graphql.FieldCostContext) graphql.FieldCost {
			r, ok := argMapInt(ctx.Arguments["o"], "m")
			if !ok {
				r = 7
			}
			m := 0
			if o, ok := ctx.Arguments["o"].(map[string]interface{}); ok {
				if l, ok := o["n"].([]interface{}); ok {
					m = len(l)
				}
			}
			return graphql.FieldCost{Resolver: r, Multiplier: m}
		}
	}
	return nil
}

func argType(a argInfo) graphql.Type {
	var t graphql.Type = graphql.IntType
	switch a.typ {
	case "[Int]":
		t = graphql.NewListType(graphql.IntType)
	case "CostIn":
		t = costInType
	}
	if a.nonnull {
		t = graphql.NewNonNullType(t)
	}
	return t
}

// a literal for a generic argument
func (g *gen) genSrc(a argInfo) argSrc {
	small := func() glit { return gi(rng.Pick(g.r, []int{0, 1, 2, 3, 3, 7})) }
	intItem := func() glit {
		switch x := g.r.Intn(8); {
		case x < 1:
			return gnull()
		case x < 2 && len(g.intVars(false)) > 0:
			return gvar(rng.Pick(g.r, g.intVars(false)))
		}
		return small()
	}
	x := g.r.Intn(12)
	switch {
	case x < 2:
		return argSrc{kind: srcAbsent}
	case x < 3:
		return argSrc{kind: srcNull}
	}
	var l glit
	switch a.typ {
	case "Int":
		return g.argSrc(argInfo{name: a.name}, []int{0, 1, 2, 3, 5})
	case "[Int]":
		switch {
		case x < 5:
			l = gvar(rng.Pick(g.r, []string{"l0", "l1"}))
		case x < 6:
			l = small() // a single item is wrapped into a list
		case x < 7:
			l = glist()
		default:
			n := g.r.Range(1, 4)
			var items []glit
			for i := 0; i < n; i++ {
				items = append(items, intItem())
			}
			l = glist(items...)
		}
	default: // CostIn
		switch {
		case x < 5:
			l = gvar(rng.Pick(g.r, []string{"o0", "o1"}))
		case x < 6:
			l = gobj()
		default:
			var kv []interface{}
			if g.r.Chance(2, 3) {
				kv = append(kv, "r", intItem())
			}
			if g.r.Chance(2, 3) {
				kv = append(kv, "m", intItem())
			}
			if g.r.Chance(1, 3) {
				n := g.r.Range(0, 3)
				var items []glit
				for i := 0; i < n; i++ {
					items = append(items, intItem())
				}
				kv = append(kv, "n", glist(items...))
			}
			l = gobj(kv...)
		}
	}
	return argSrc{kind: srcGen, g: &l}
}

// the variable pool of list / input-object type
func genericVars() []varDecl {
	d1 := glist(gi(2), gi(3))
	d2 := gobj("m", gi(2))
	return []varDecl{
		{name: "l0", typ: "[Int]", tySexp: styList(styNamed("Int"))},
		{name: "l1", typ: "[Int]", tySexp: styList(styNamed("Int")), hasDef: true, gdef: &d1},
		{name: "o0", typ: "CostIn", tySexp: styNamed("CostIn")},
		{name: "o1", typ: "CostIn", tySexp: styNamed("CostIn"), hasDef: true, gdef: &d2},
	}
}

func genericValue(r *rng.R, v varDecl, hostile bool) (interface{}, bool) {
	x := r.Intn(10)
	if x < 3 {
		return nil, false // not provided
	}
	if x < 4 {
		return nil, true
	}
	if hostile && x < 5 {
		if v.typ == "[Int]" {
			return []interface{}{"x"}, true
		}
		return map[string]interface{}{"zz": 1}, true
	}
	small := func() interface{} { return rng.Pick(r, []int{0, 1, 2, 3, 5}) }
	if v.typ == "[Int]" {
		switch {
		case x < 6:
			return small(), true // a single value is wrapped
		case x < 7:
			return []interface{}{}, true
		}
		n := r.Range(1, 3)
		var l []interface{}
		for i := 0; i < n; i++ {
			if r.Chance(1, 8) {
				l = append(l, nil)
			} else {
				l = append(l, small())
			}
		}
		return l, true
	}
	m := map[string]interface{}{}
	if r.Chance(2, 3) {
		m["r"] = small()
	}
	if r.Chance(2, 3) {
		m["m"] = small()
	}
	if r.Chance(1, 4) {
		m["n"] = []interface{}{small(), small()}
	}
	if r.Chance(1, 8) {
		m["r"] = nil
	}
	return m, true
}

// the values of the generic variables, in C05's jval encoding
func xvarsSexp(d *doc, vals map[string]interface{}) sexp.Node {
	var out []sexp.Node
	for _, v := range d.vars {
		if v.typ == "" {
			continue
		}
		if val, ok := vals[v.name]; ok {
			out = append(out, sexp.L(sexp.Str(v.name), goValSexp(val, "obj")))
		}
	}
	return sexp.L(out...)
}
