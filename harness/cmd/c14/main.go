// c14: operation cost.  Generates abstract documents (operations, named fragments, fields whose
// cost functions are known to the generator), renders them to GraphQL text, runs the REAL
// graphql.ParseAndValidate with graphql.ValidateCost on them (route "direct") or serves them through
// apifu.API.ServeGraphQL observing RequestInfo.Cost in Config.Execute (route "apifu"), and writes the
// abstract document + limit + what the implementation reported.  The Coq side (Cost/CostCheck.v)
// decodes the document into the model's tree, runs the model and the unbounded-Z reference.
package main

import (
	"bytes"
	"context"
	"crypto/sha256"
	"encoding/hex"
	"encoding/json"
	"fmt"
	"math"
	"net/http"
	"net/http/httptest"
	"os"
	"reflect"
	"sort"
	"strings"
	"sync"
	"time"

	"github.com/gorilla/websocket"

	apifu "github.com/ccbrown/api-fu"
	"github.com/ccbrown/api-fu/graphql"
	"github.com/ccbrown/api-fu/graphql/ast"
	"github.com/ccbrown/api-fu/graphql/parser"
	"github.com/ccbrown/api-fu/graphql/validator"

	"verifharness/internal/hx"
	"verifharness/internal/rng"
	"verifharness/internal/sexp"
)

const maxInt = math.MaxInt64

// ---------------------------------------------------------------------------------------------
// the value table of the tbl cost functions.  The first nNonNeg entries are the property's domain
// (non-negative); the rest is only used by the hostile stream.
// ---------------------------------------------------------------------------------------------
var table = []int{0, 1, 2, 3, 1 << 31, 1 << 62, maxInt, maxInt - 1, 1 << 32, 3037000499, 3037000500, maxInt - (1 << 31), 7, 10,
	-1, math.MinInt64, -3}

const nNonNeg = 14

// zint writes an int; values whose decimal spelling has 19 digits are written as #x... (the shared
// writer emits decimals below 2^61, the shared reader refuses decimals longer than 18 digits)
func zint(i int) sexp.Node {
	if i >= 1000000000000000000 && i < 1<<61 {
		return sexp.Sym(fmt.Sprintf("#x%x", i))
	}
	if i <= -1000000000000000000 && i > -(1<<61) {
		return sexp.Sym(fmt.Sprintf("-#x%x", -i))
	}
	return sexp.Int(i)
}

func tbl(i int) int {
	n := len(table)
	return table[((i%n)+n)%n]
}

// constant cost fields k0..k7 of Obj: (resolver, multiplier)
var konst = [][2]int{{1, 2}, {0, 1 << 62}, {1, 1 << 31}, {maxInt, 0}, {0, maxInt}, {3, 3}, {maxInt - 1, 1}, {1 << 62, 1 << 31}}

// ---------------------------------------------------------------------------------------------
// abstract documents
// ---------------------------------------------------------------------------------------------
const (
	srcAbsent = iota
	srcNull
	srcLit
	srcVar
)

type argSrc struct {
	kind int
	lit  int
	v    string
	g    *glit // srcGen
}

// C05's literal encoding of the source (not absent)
func (a argSrc) litSexp() sexp.Node {
	switch a.kind {
	case srcNull:
		return sexp.Sym("null")
	case srcLit:
		return sexp.T("int", sexp.Int(a.lit))
	case srcVar:
		return sexp.T("var", sexp.Str(a.v))
	}
	return a.g.sexp()
}

// the AST below the argument's value
func (a argSrc) shape() sexp.Node {
	switch a.kind {
	case srcVar:
		return o(o())
	case srcGen:
		return a.g.shape()
	}
	return o()
}

func (a argSrc) sexp() sexp.Node {
	switch a.kind {
	case srcNull:
		return sexp.Sym("null")
	case srcLit:
		return sexp.T("lit", sexp.Int(a.lit))
	case srcVar:
		return sexp.T("var", sexp.Str(a.v))
	}
	return sexp.Sym("absent")
}

func (a argSrc) text() string {
	switch a.kind {
	case srcNull:
		return "null"
	case srcLit:
		return fmt.Sprint(a.lit)
	case srcVar:
		return "$" + a.v
	case srcGen:
		return a.g.text()
	}
	return ""
}

// an argument definition of the harness schema
type argInfo struct {
	name    string
	nonnull bool
	def     *int // default value, nil: none
	// generic fields (genargs.go): GraphQL type text, C05 encoding of the type, Go default value
	typ    string
	tySexp sexp.Node
	gdef   interface{}
}

func (a argInfo) defSexp() sexp.Node {
	if a.def == nil {
		return sexp.Sym("none")
	}
	return sexp.T("int", sexp.Int(*a.def))
}

// (a DEFAULT SRC) / (a DEFAULT SRC nn)
func (a argInfo) aform(src argSrc) sexp.Node {
	flag := "n"
	if a.nonnull {
		flag = "nn"
	}
	return sexp.T("a", a.defSexp(), src.sexp(), sexp.Sym(flag), sexp.Str(a.name))
}

type fieldInfo struct {
	name string
	ret  string // "" (leaf), "Obj", "I", or a type name of the apifu schema
	args []argInfo
	// cost function description given the (a DEFAULT SRC) forms of the arguments, in args order
	cfd func(a []sexp.Node) sexp.Node
	gen *genSpec // a generic field (list / input-object arguments): cfd is not used
}

func ip(i int) *int { return &i }

func nocost(a []sexp.Node) sexp.Node { return sexp.Sym("nocost") }
func constCfd(r, m int) func([]sexp.Node) sexp.Node {
	return func([]sexp.Node) sexp.Node { return sexp.T("const", sexp.Int(r), sexp.Int(m)) }
}

var objFields, ifaceFields, mutFields []fieldInfo

func init() {
	objFields = []fieldInfo{
		{name: "leaf", cfd: nocost},
		{name: "obj", ret: "Obj", cfd: nocost},
		{name: "iface", ret: "I", cfd: nocost},
		{name: "free", cfd: constCfd(0, 0)},
		{name: "d", ret: "Obj", args: []argInfo{{name: "r", def: ip(2)}, {name: "m"}},
			cfd: func(a []sexp.Node) sexp.Node { return sexp.T("direct", a[0], a[1]) }},
		{name: "t", ret: "Obj", args: []argInfo{{name: "i", def: ip(1)}, {name: "j"}},
			cfd: func(a []sexp.Node) sexp.Node { return sexp.T("tbl", a[0], a[1]) }},
		{name: "setc", ret: "Obj", args: []argInfo{{name: "c", def: ip(5)}},
			cfd: func(a []sexp.Node) sexp.Node { return sexp.T("setc", a[0], sexp.Int(1), sexp.Int(0)) }},
		{name: "setm", ret: "Obj", args: []argInfo{{name: "c"}},
			cfd: func(a []sexp.Node) sexp.Node { return sexp.T("setc", a[0], sexp.Int(0), sexp.Int(3)) }},
		{name: "rc", cfd: func([]sexp.Node) sexp.Node { return sexp.T("rc") }},
		{name: "mc", ret: "Obj", cfd: func([]sexp.Node) sexp.Node { return sexp.T("mc", sexp.Int(1)) }},
		{name: "req", args: []argInfo{{name: "n", nonnull: true}},
			cfd: func(a []sexp.Node) sexp.Node { return sexp.T("req", a[0]) }},
	}
	for i, k := range konst {
		objFields = append(objFields, fieldInfo{name: fmt.Sprintf("k%d", i), ret: "Obj", cfd: constCfd(k[0], k[1])})
	}
	objFields = append(objFields, genFields()...)
	// the interface declares some of the fields again, with DIFFERENT costs and defaults: a selection
	// made in the scope of I is costed with I's definition
	// the mutation root: its own definitions (the scope of an operation's top level is its root type)
	mutFields = []fieldInfo{
		{name: "leaf", cfd: constCfd(4, 0)},
		{name: "obj", ret: "Obj", cfd: nocost},
		{name: "k5", ret: "Obj", cfd: constCfd(2, 5)},
		{name: "t", ret: "Obj", args: []argInfo{{name: "i", def: ip(3)}, {name: "j"}},
			cfd: func(a []sexp.Node) sexp.Node { return sexp.T("tbl", a[0], a[1]) }},
	}
	ifaceFields = []fieldInfo{
		{name: "leaf", cfd: constCfd(2, 0)},
		{name: "obj", ret: "Obj", cfd: nocost},
		{name: "k0", ret: "Obj", cfd: constCfd(5, 3)},
		{name: "t", ret: "Obj", args: []argInfo{{name: "i", def: ip(2)}, {name: "j"}},
			cfd: func(a []sexp.Node) sexp.Node { return sexp.T("tbl", a[0], a[1]) }},
	}
}

func fieldsOf(scope string) []fieldInfo {
	switch scope {
	case "Mut":
		return mutFields
	case "Obj":
		return objFields
	case "I":
		return ifaceFields
	}
	return nil
}

func findField(scope, name string) *fieldInfo {
	if apiMode {
		return apiFieldInfo(scope, name)
	}
	for i, f := range fieldsOf(scope) {
		if f.name == name {
			return &fieldsOf(scope)[i]
		}
	}
	return nil
}

type dirSpec struct {
	name string // skip | include
	lit  bool
	v    string // "" : literal
}

const (
	kField = iota
	kTypename
	kInline
	kSpread
)

type sel struct {
	kind   int
	scope  string // the scope this selection is made in (decides the field definition)
	alias  string
	name   string
	args   []argSrc // parallel to the field's args (srcAbsent: not written)
	dirs   []dirSpec
	hasSet bool
	kids   []*sel
	cond   string // inline: type condition, "" none
	frag   string // spread
	// apifu route: a cursor argument written verbatim (name, string literal) and the number of edges
	// that lie beyond it
	rawArgName, rawArgVal string
	// hostile stream: the first argument of a generic field written a second time with this value
	dupArg *glit
	between               int
}

type fragDef struct {
	name, cond string
	kids       []*sel
}

type varDecl struct {
	name    string
	isBool  bool
	nonnull bool
	hasDef  bool
	defNull bool
	def     int
	// generic variables (genargs.go)
	typ    string
	tySexp sexp.Node
	gdef   *glit
}

func (v varDecl) text() string {
	if v.typ != "" {
		s := "$" + v.name + ": " + v.typ
		if v.hasDef {
			s += " = " + v.gdef.text()
		}
		return s
	}
	t := "Int"
	if v.isBool {
		t = "Boolean"
	}
	if v.nonnull {
		t += "!"
	}
	s := "$" + v.name + ": " + t
	if v.hasDef {
		if v.isBool {
			s += " = false"
		} else if v.defNull {
			s += " = null"
		} else {
			s += fmt.Sprintf(" = %d", v.def)
		}
	}
	return s
}

type opDef struct {
	name      string // "" anonymous
	shorthand bool   // `{...}` without the query keyword
	mutation  bool
	kids      []*sel
}

type doc struct {
	ops   []opDef
	frags []fragDef
	vars  []varDecl // the variable pool of this document
}

func (d *doc) frag(name string) *fragDef {
	// like the implementation's map: the LAST definition with that name
	for i := len(d.frags) - 1; i >= 0; i-- {
		if d.frags[i].name == name {
			return &d.frags[i]
		}
	}
	return nil
}

func (d *doc) decl(name string) *varDecl {
	for i := range d.vars {
		if d.vars[i].name == name {
			return &d.vars[i]
		}
	}
	return nil
}

// variables used below a selection list, through fragments (visited guards against cycles)
func (d *doc) usedVars(ss []*sel, out map[string]bool, visited map[string]bool) {
	for _, s := range ss {
		for _, a := range s.args {
			if a.kind == srcVar {
				out[a.v] = true
			}
			if a.kind == srcGen {
				a.g.vars(out)
			}
		}
		for _, x := range s.dirs {
			if x.v != "" {
				out[x.v] = true
			}
		}
		if s.kind == kSpread {
			if !visited[s.frag] {
				visited[s.frag] = true
				if f := d.frag(s.frag); f != nil {
					d.usedVars(f.kids, out, visited)
				}
			}
		}
		d.usedVars(s.kids, out, visited)
	}
}

func (d *doc) opVars(o *opDef) []varDecl {
	used := map[string]bool{}
	d.usedVars(o.kids, used, map[string]bool{})
	var names []string
	for n := range used {
		names = append(names, n)
	}
	sort.Strings(names)
	// the default of v1 differs from operation to operation: the coerced variables must be those of
	// the CHOSEN operation
	index := 0
	for i := range d.ops {
		if &d.ops[i] == o {
			index = i
		}
	}
	var out []varDecl
	for _, n := range names {
		if v := d.decl(n); v != nil {
			x := *v
			if x.name == "v1" && x.hasDef && !x.defNull {
				x.def += index
			}
			out = append(out, x)
		}
	}
	return out
}

// ---- rendering to GraphQL text ----

func dirsText(ds []dirSpec) string {
	s := ""
	for _, x := range ds {
		val := fmt.Sprint(x.lit)
		if x.v != "" {
			val = "$" + x.v
		}
		s += " @" + x.name + "(if: " + val + ")"
	}
	return s
}

func selsText(b *strings.Builder, ss []*sel) {
	b.WriteString("{")
	for i, s := range ss {
		if i > 0 {
			b.WriteString(" ")
		}
		switch s.kind {
		case kField, kTypename:
			if s.alias != "" {
				b.WriteString(s.alias + ": ")
			}
			b.WriteString(s.name)
			var parts []string
			fi := findField(s.scope, s.name)
			for j, a := range s.args {
				if a.kind != srcAbsent && fi != nil && j < len(fi.args) {
					parts = append(parts, fi.args[j].name+": "+a.text())
				}
			}
			if s.rawArgName != "" {
				parts = append(parts, s.rawArgName+": "+fmt.Sprintf("%q", s.rawArgVal))
			}
			if s.dupArg != nil && fi != nil && len(fi.args) > 0 {
				parts = append(parts, fi.args[0].name+": "+s.dupArg.text())
			}
			if len(parts) > 0 {
				b.WriteString("(" + strings.Join(parts, ", ") + ")")
			}
			b.WriteString(dirsText(s.dirs))
			if s.hasSet {
				b.WriteString(" ")
				selsText(b, s.kids)
			}
		case kInline:
			b.WriteString("...")
			if s.cond != "" {
				b.WriteString(" on " + s.cond)
			}
			b.WriteString(dirsText(s.dirs) + " ")
			selsText(b, s.kids)
		case kSpread:
			b.WriteString("..." + s.frag + dirsText(s.dirs))
		}
	}
	b.WriteString("}")
}

func (d *doc) text() string {
	var b strings.Builder
	for i := range d.ops {
		o := &d.ops[i]
		if !o.shorthand {
			if o.mutation {
				b.WriteString("mutation")
			} else {
				b.WriteString("query")
			}
			if o.name != "" {
				b.WriteString(" " + o.name)
			}
			if vs := d.opVars(o); len(vs) > 0 {
				var parts []string
				for _, v := range vs {
					parts = append(parts, v.text())
				}
				b.WriteString("(" + strings.Join(parts, ", ") + ")")
			}
			b.WriteString(" ")
		}
		selsText(&b, o.kids)
		b.WriteString("\n")
	}
	for _, f := range d.frags {
		b.WriteString("fragment " + f.name + " on " + f.cond + " ")
		selsText(&b, f.kids)
		b.WriteString("\n")
	}
	return b.String()
}

// ---- the same document as the tree ast.Inspect walks ----
// every AST node is written; nodes that are neither a field nor a spread are (o ...)

func o(kids ...sexp.Node) sexp.Node { return sexp.T("o", kids...) }

func dirsNodes(ds []dirSpec) []sexp.Node {
	var out []sexp.Node
	for _, x := range ds {
		val := o() // BooleanValue
		if x.v != "" {
			val = o(o()) // Variable -> Name
		}
		out = append(out, o(o(), o(o(), val))) // Directive: Name, Argument(Name, Value)
	}
	return out
}

func selSetNode(ss []*sel) sexp.Node {
	var kids []sexp.Node
	for _, s := range ss {
		kids = append(kids, selNode(s))
	}
	return o(kids...)
}

func selNode(s *sel) sexp.Node {
	switch s.kind {
	case kField, kTypename:
		fi := findField(s.scope, s.name)
		var kids []sexp.Node
		if s.alias != "" {
			kids = append(kids, o())
		}
		kids = append(kids, o()) // Name
		var argForms, genDefs, genArgs []sexp.Node
		if fi != nil {
			for j, ai := range fi.args {
				src := argSrc{}
				if j < len(s.args) {
					src = s.args[j]
				}
				if fi.gen != nil {
					dflt := sexp.None()
					if ai.gdef != nil {
						dflt = sexp.Some(goValSexp(ai.gdef, "map"))
					}
					genDefs = append(genDefs, sexp.L(sexp.Str(ai.name), ai.tySexp, dflt))
					if src.kind != srcAbsent {
						genArgs = append(genArgs, sexp.L(sexp.Str(ai.name), src.litSexp()))
					}
				} else {
					argForms = append(argForms, ai.aform(src))
				}
				if src.kind != srcAbsent {
					kids = append(kids, o(o(), src.shape())) // Argument: Name, Value
				}
			}
		}
		if s.rawArgName != "" {
			kids = append(kids, o(o(), o())) // Argument: Name, StringValue
		}
		if s.dupArg != nil && fi != nil && fi.gen != nil && len(fi.args) > 0 {
			genArgs = append(genArgs, sexp.L(sexp.Str(fi.args[0].name), s.dupArg.sexp()))
			kids = append(kids, o(o(), s.dupArg.shape()))
		}
		kids = append(kids, dirsNodes(s.dirs)...)
		if s.hasSet {
			kids = append(kids, selSetNode(s.kids))
		}
		if s.kind == kTypename {
			return sexp.T("t", kids...)
		}
		if fi == nil {
			return sexp.T("u", kids...)
		}
		label := sexp.Str(s.scope + "." + s.name)
		if fi.gen != nil {
			cfd := sexp.T("gen", sexp.L(genDefs...), sexp.L(genArgs...), fi.gen.r, fi.gen.m, fi.gen.setc)
			return sexp.T("f", append([]sexp.Node{sexp.T("named", label, cfd)}, kids...)...)
		}
		return sexp.T("f", append([]sexp.Node{sexp.T("named", label, fi.cfd(argForms))}, kids...)...)
	case kInline:
		var kids []sexp.Node
		if s.cond != "" {
			kids = append(kids, o(o())) // NamedType -> Name
		}
		kids = append(kids, dirsNodes(s.dirs)...)
		kids = append(kids, selSetNode(s.kids))
		return o(kids...)
	default: // spread
		kids := []sexp.Node{sexp.Str(s.frag), o()}
		kids = append(kids, dirsNodes(s.dirs)...)
		return sexp.T("s", kids...)
	}
}

func (d *doc) opsSexp() sexp.Node {
	var out []sexp.Node
	for i := range d.ops {
		op := &d.ops[i]
		name := sexp.Sym("none")
		if op.name != "" {
			name = sexp.Some(sexp.Str(op.name))
		}
		var vds, xvds, kids []sexp.Node
		if !op.shorthand {
			kids = append(kids, o()) // OperationType
			if op.name != "" {
				kids = append(kids, o())
			}
			for _, v := range d.opVars(op) {
				typ := o(o()) // NamedType -> Name
				if v.typ == "[Int]" {
					typ = o(typ) // ListType
				}
				if v.nonnull {
					typ = o(typ)
				}
				vk := []sexp.Node{o(o()), typ}
				if v.hasDef {
					if v.typ != "" {
						vk = append(vk, v.gdef.shape())
					} else {
						vk = append(vk, o())
					}
				}
				kids = append(kids, o(vk...))
				if v.typ != "" {
					dflt := sexp.None()
					if v.hasDef {
						dflt = sexp.Some(v.gdef.sexp())
					}
					xvds = append(xvds, sexp.L(sexp.Str(v.name), v.tySexp, dflt))
				} else if !v.isBool {
					def := sexp.Sym("none")
					if v.hasDef {
						if v.defNull {
							def = sexp.Some(sexp.Sym("null"))
						} else {
							def = sexp.Some(sexp.T("int", sexp.Int(v.def)))
						}
					}
					vds = append(vds, sexp.L(sexp.Str(v.name), sexp.Bool(v.nonnull), def))
				}
			}
		}
		kids = append(kids, selSetNode(op.kids))
		out = append(out, sexp.T("op", name, sexp.L(vds...), o(kids...), sexp.L(xvds...)))
	}
	return sexp.L(out...)
}

func (d *doc) fragsSexp() sexp.Node {
	var out []sexp.Node
	for _, f := range d.frags {
		// FragmentDefinition: Name, Directives, SelectionSet (Inspect does not descend into the type condition)
		out = append(out, sexp.L(sexp.Str(f.name), o(o(), selSetNode(f.kids))))
	}
	return sexp.L(out...)
}

// ---- cross-check of the abstraction: the emitted tree must have exactly the shape the real
// ast.Inspect walks on the real parser's AST (f: *ast.Field, s: *ast.FragmentSpread, o: any other node)

func shapeOfSexp(b *strings.Builder, n sexp.Node) {
	if n.Kind != 'l' || len(n.List) == 0 || n.List[0].Kind != 'y' {
		panic("shapeOfSexp: not a node")
	}
	kids := n.List[1:]
	switch n.List[0].Sym {
	case "o":
		b.WriteString("o(")
	case "f":
		b.WriteString("f(")
		kids = kids[1:] // the cost function description
	case "t", "u":
		b.WriteString("f(")
	case "s":
		b.WriteString("s(")
		kids = kids[1:] // the fragment name
	default:
		panic("shapeOfSexp: unknown node " + n.List[0].Sym)
	}
	for _, k := range kids {
		shapeOfSexp(b, k)
	}
	b.WriteString(")")
}

func shapeOfAST(b *strings.Builder, node ast.Node) {
	ast.Inspect(node, func(n ast.Node) bool {
		switch n.(type) {
		case nil:
			b.WriteString(")")
		case *ast.Field:
			b.WriteString("f(")
		case *ast.FragmentSpread:
			b.WriteString("s(")
		default:
			b.WriteString("o(")
		}
		return true
	})
}

// assertShape panics (a harness bug, reported by ./check under the key "panic") when the tree handed
// to the model is not the tree the implementation walks
func assertShape(query string, ops, frags sexp.Node) {
	parsed, errs := parser.ParseDocument([]byte(query))
	if len(errs) > 0 {
		panic("generated document does not parse: " + errs[0].Message + ": " + query)
	}
	var want, got strings.Builder
	for _, def := range parsed.Definitions {
		shapeOfAST(&want, def)
		want.WriteString(";")
	}
	for _, op := range ops.List {
		shapeOfSexp(&got, op.List[3])
		got.WriteString(";")
	}
	for _, fr := range frags.List {
		shapeOfSexp(&got, fr.List[1])
		got.WriteString(";")
	}
	if want.String() != got.String() {
		panic("AST shape mismatch for " + query + "\n impl:  " + want.String() + "\n model: " + got.String())
	}
}

// ---------------------------------------------------------------------------------------------
// the real schema for the direct route
// ---------------------------------------------------------------------------------------------
type userKeyT int

var userKey userKeyT

func argInt(ctx graphql.FieldCostContext, name string) (int, bool) {
	v, ok := ctx.Arguments[name].(int)
	return v, ok
}

func userVal(ctx graphql.FieldCostContext) int {
	v, _ := ctx.Context.Value(userKey).(int)
	return v
}

func costFn(scope, name string) func(graphql.FieldCostContext) graphql.FieldCost {
	switch name {
	case "leaf":
		if scope == "I" {
			return graphql.FieldResolverCost(2)
		}
		if scope == "Mut" {
			return graphql.FieldResolverCost(4)
		}
		return nil
	case "obj", "iface":
		return nil
	case "free":
		return graphql.FieldResolverCost(0)
	case "d":
		return func(ctx graphql.FieldCostContext) graphql.FieldCost {
			r, ok := argInt(ctx, "r")
			if !ok {
				r = 1
			}
			m, _ := argInt(ctx, "m")
			return graphql.FieldCost{Resolver: r, Multiplier: m}
		}
	case "t":
		return func(ctx graphql.FieldCostContext) graphql.FieldCost {
			i, _ := argInt(ctx, "i")
			fc := graphql.FieldCost{Resolver: tbl(i)}
			if j, ok := argInt(ctx, "j"); ok {
				fc.Multiplier = tbl(j)
			}
			return fc
		}
	case "setc", "setm":
		r, m := 1, 0
		if name == "setm" {
			r, m = 0, 3
		}
		return func(ctx graphql.FieldCostContext) graphql.FieldCost {
			fc := graphql.FieldCost{Resolver: r, Multiplier: m}
			if c, ok := argInt(ctx, "c"); ok {
				fc.Context = context.WithValue(ctx.Context, userKey, c)
			}
			return fc
		}
	case "rc":
		return func(ctx graphql.FieldCostContext) graphql.FieldCost {
			return graphql.FieldCost{Resolver: userVal(ctx)}
		}
	case "mc":
		return func(ctx graphql.FieldCostContext) graphql.FieldCost {
			return graphql.FieldCost{Resolver: 1, Multiplier: userVal(ctx)}
		}
	case "req":
		return func(ctx graphql.FieldCostContext) graphql.FieldCost {
			n, _ := argInt(ctx, "n")
			return graphql.FieldCost{Resolver: n}
		}
	}
	if strings.HasPrefix(name, "k") {
		var i int
		fmt.Sscanf(name[1:], "%d", &i)
		k := konst[i]
		if scope == "I" {
			k = [2]int{5, 3}
		}
		if scope == "Mut" {
			k = [2]int{2, 5}
		}
		return func(graphql.FieldCostContext) graphql.FieldCost {
			return graphql.FieldCost{Resolver: k[0], Multiplier: k[1]}
		}
	}
	panic("no cost function for " + name)
}

var directSchema *graphql.Schema

// thorough tier: C04's whole ValidateDocument model is run on the single-field projections of one
// validated case in four only (it dominates the model's running time); quick tier: on all of them
var thoroughTier bool

func projFlag(q string) sexp.Node { return sexp.T("proj", sexp.Bool(!thoroughTier || len(q)%4 == 0)) }

// the calls the cost functions of the direct schema receive, in order: (label, user context value,
// argument map) — the cost functions are harness code, so what they are handed is observable
var callLog []sexp.Node

func recorded(label string, fn func(graphql.FieldCostContext) graphql.FieldCost) func(graphql.FieldCostContext) graphql.FieldCost {
	if fn == nil {
		return nil
	}
	return func(ctx graphql.FieldCostContext) graphql.FieldCost {
		user := sexp.None()
		if v, ok := ctx.Context.Value(userKey).(int); ok {
			user = sexp.Some(sexp.Int(v))
		}
		args := map[string]interface{}{}
		for k, v := range ctx.Arguments {
			args[k] = v
		}
		callLog = append(callLog, sexp.L(sexp.Str(label), user, goValSexp(args, "map")))
		return fn(ctx)
	}
}

func buildDirectSchema() *graphql.Schema {
	obj := &graphql.ObjectType{Name: "Obj"}
	iface := &graphql.InterfaceType{Name: "I"}
	typeOf := func(ret string) graphql.Type {
		switch ret {
		case "Obj":
			return obj
		case "I":
			return iface
		}
		return graphql.IntType
	}
	mk := func(scope string, fs []fieldInfo) map[string]*graphql.FieldDefinition {
		out := map[string]*graphql.FieldDefinition{}
		for _, f := range fs {
			def := &graphql.FieldDefinition{Type: typeOf(f.ret)}
			if f.gen != nil {
				def.Cost = recorded(scope+"."+f.name, genCostFn(f.name))
			} else {
				def.Cost = recorded(scope+"."+f.name, costFn(scope, f.name))
			}
			if len(f.args) > 0 {
				def.Arguments = map[string]*graphql.InputValueDefinition{}
				for _, a := range f.args {
					iv := &graphql.InputValueDefinition{Type: argType(a)}
					if a.def != nil {
						iv.DefaultValue = *a.def
					}
					if a.gdef != nil {
						iv.DefaultValue = a.gdef
					}
					def.Arguments[a.name] = iv
				}
			}
			def.Resolve = func(graphql.FieldContext) (interface{}, error) { return nil, nil }
			out[f.name] = def
		}
		return out
	}
	obj.Fields = mk("Obj", objFields)
	iface.Fields = mk("I", ifaceFields)
	mut := &graphql.ObjectType{Name: "Mut", Fields: mk("Mut", mutFields)}
	obj.ImplementedInterfaces = []*graphql.InterfaceType{iface}
	obj.IsTypeOf = func(interface{}) bool { return true }
	def := &graphql.SchemaDefinition{
		Query:    obj,
		Mutation: mut,
		Directives: map[string]*graphql.DirectiveDefinition{
			"include": graphql.IncludeDirective,
			"skip":    graphql.SkipDirective,
		},
	}
	// the same definition through SchemaDefinition.Clone(), as api-fu's Config builds its schema when
	// PreprocessGraphQLSchemaDefinition is set: the cost functions of the ORIGINAL definition (objects,
	// interfaces, the mutation root) must still be the ones the rule calls
	cloned := def.Clone()
	s, err := graphql.NewSchema(def)
	if err != nil {
		panic(err)
	}
	sc, err := graphql.NewSchema(cloned)
	if err != nil {
		panic(err)
	}
	directSchemaPlain, directSchemaCloned = s, sc
	return s
}

var directSchemaPlain, directSchemaCloned *graphql.Schema

// ---------------------------------------------------------------------------------------------
// generator of valid documents
// ---------------------------------------------------------------------------------------------
type gen struct {
	r       *rng.R
	nAlias  int
	frags   []fragDef // conditions known up front, bodies filled in order
	vars    []varDecl
	hostile bool // may pick negative table entries / direct values
	// fragments reached from the top level of each fragment without passing through a field (the
	// pinned tree's overlapping-fields rule rejects a selection set that reaches a fragment twice, DESIGN
	// section 6 row 9: such documents are kept rare so that most cases exercise the verdict)
	reach map[string]map[string]bool
}

func (g *gen) scopeReach(ss []*sel, out map[string]bool) {
	for _, s := range ss {
		switch s.kind {
		case kSpread:
			out[s.frag] = true
			for k := range g.reach[s.frag] {
				out[k] = true
			}
		case kInline:
			g.scopeReach(s.kids, out)
		}
	}
}

func (g *gen) alias() string {
	g.nAlias++
	return fmt.Sprintf("a%d", g.nAlias)
}

func (g *gen) intVars(nonnullOnly bool) []string {
	var out []string
	for _, v := range g.vars {
		if !v.isBool && v.typ == "" && (!nonnullOnly || v.nonnull) {
			out = append(out, v.name)
		}
	}
	return out
}

func (g *gen) dirs() []dirSpec {
	if !g.r.Chance(1, 8) {
		return nil
	}
	d := dirSpec{name: rng.Pick(g.r, []string{"skip", "include"}), lit: g.r.Bool()}
	if g.r.Chance(1, 3) {
		for _, v := range g.vars {
			if v.isBool {
				d.v = v.name
			}
		}
	}
	return []dirSpec{d}
}

// a source for an Int argument whose interesting values are vals
func (g *gen) argSrc(a argInfo, vals []int) argSrc {
	if a.nonnull {
		if vs := g.intVars(true); len(vs) > 0 && g.r.Chance(1, 3) {
			return argSrc{kind: srcVar, v: rng.Pick(g.r, vs)}
		}
		return argSrc{kind: srcLit, lit: rng.Pick(g.r, vals)}
	}
	switch x := g.r.Intn(10); {
	case x < 3:
		return argSrc{kind: srcAbsent}
	case x < 4:
		return argSrc{kind: srcNull}
	case x < 6 && len(g.intVars(false)) > 0:
		return argSrc{kind: srcVar, v: rng.Pick(g.r, g.intVars(false))}
	default:
		return argSrc{kind: srcLit, lit: rng.Pick(g.r, vals)}
	}
}

func (g *gen) tableIndex() []int {
	var out []int
	for i := 0; i < nNonNeg; i++ {
		out = append(out, i)
	}
	// favour small multipliers so that sums stay below / around the boundary often enough
	out = append(out, 0, 0, 0, 1, 1, 1, 1, 2, 2, 2, 2, 3, 3, 3, 3, 12, 12, 12, 13, 13, 13, 4, 8, 0, 1, 2, 3, 12, 13)
	if g.hostile {
		out = append(out, nNonNeg, nNonNeg+1, nNonNeg+2, -1)
	}
	return out
}

func (g *gen) field(scope string, depth int, fragFrom int) *sel {
	fs := fieldsOf(scope)
	var fi fieldInfo
	for {
		fi = rng.Pick(g.r, fs)
		if fi.ret != "" && depth <= 0 {
			continue // only leaves at the bottom
		}
		if fi.name == "req" && !g.r.Chance(1, 3) {
			continue
		}
		if (fi.name == "k1" || fi.name == "k3" || fi.name == "k4" || fi.name == "k6" || fi.name == "k7") && !g.r.Chance(1, 3) {
			continue // the huge constants: kept, but not in every document
		}
		break
	}
	s := &sel{kind: kField, scope: scope, name: fi.name, alias: g.alias(), dirs: g.dirs()}
	for _, a := range fi.args {
		if fi.gen != nil {
			s.args = append(s.args, g.genSrc(a))
			continue
		}
		var vals []int
		switch fi.name {
		case "t":
			vals = g.tableIndex()
		case "d":
			vals = []int{0, 1, 2, 3, 10, 2147483647, 46341, 65536}
			if g.hostile {
				vals = append(vals, -1, -2147483648)
			}
		case "req":
			vals = []int{0, 1, 4, 2147483647}
		default:
			vals = []int{0, 1, 2, 3, 5, 1000, 2147483647}
		}
		s.args = append(s.args, g.argSrc(a, vals))
	}
	if fi.ret != "" {
		s.hasSet = true
		s.kids = g.sels(fi.ret, depth-1, fragFrom)
	}
	return s
}

func (g *gen) sels(scope string, depth int, fragFrom int) []*sel {
	return g.selsIn(scope, depth, fragFrom, map[string]bool{})
}

func (g *gen) selsIn(scope string, depth int, fragFrom int, reached map[string]bool) []*sel {
	n := g.r.Range(1, 3)
	if depth <= 0 {
		n = g.r.Range(1, 2)
	}
	var out []*sel
	for i := 0; i < n; i++ {
		if scope == "Mut" {
			switch x := g.r.Intn(10); {
			case x < 1 && depth > 0:
				out = append(out, &sel{kind: kInline, scope: scope, cond: rng.Pick(g.r, []string{"", "Mut"}), kids: g.selsIn(scope, depth-1, fragFrom, reached), hasSet: true})
			case x < 2:
				out = append(out, &sel{kind: kTypename, scope: scope, name: "__typename", alias: g.alias()})
			default:
				out = append(out, g.field(scope, depth, fragFrom))
			}
			continue
		}
		switch x := g.r.Intn(20); {
		case x < 3 && fragFrom < len(g.frags):
			name := g.frags[g.r.Range(fragFrom, len(g.frags)-1)].name
			clash := reached[name]
			for k := range g.reach[name] {
				clash = clash || reached[k]
			}
			if clash && !g.r.Chance(1, 8) {
				out = append(out, g.field(scope, depth, fragFrom))
				continue
			}
			reached[name] = true
			for k := range g.reach[name] {
				reached[k] = true
			}
			out = append(out, &sel{kind: kSpread, scope: scope, frag: name, dirs: g.dirs()})
		case x < 5 && depth > 0:
			cond := rng.Pick(g.r, []string{"", "Obj", "I", scope})
			sc := cond
			if sc == "" {
				sc = scope
			}
			out = append(out, &sel{kind: kInline, scope: scope, cond: cond, dirs: g.dirs(), kids: g.selsIn(sc, depth-1, fragFrom, reached), hasSet: true})
		case x < 6:
			out = append(out, &sel{kind: kTypename, scope: scope, name: "__typename", alias: g.alias()})
		default:
			out = append(out, g.field(scope, depth, fragFrom))
		}
	}
	return out
}

func reachableFrags(d *doc, ss []*sel, seen map[string]bool) {
	for _, s := range ss {
		if s.kind == kSpread && !seen[s.frag] {
			seen[s.frag] = true
			if f := d.frag(s.frag); f != nil {
				reachableFrags(d, f.kids, seen)
			}
		}
		reachableFrags(d, s.kids, seen)
	}
}

func genDoc(r *rng.R, hostile bool) *doc {
	g := &gen{r: r, hostile: hostile}
	g.vars = []varDecl{
		{name: "v0"},
		{name: "v1", hasDef: true, def: r.Range(0, 4)},
		{name: "v2", nonnull: true},
		{name: "v3", hasDef: true, defNull: true},
		{name: "v4", nonnull: true, hasDef: true, def: 2},
		{name: "b0", isBool: true, hasDef: true},
	}
	g.vars = append(g.vars, genericVars()...)
	nf := rng.Pick(r, []int{0, 0, 1, 2, 3, 4})
	for i := 0; i < nf; i++ {
		g.frags = append(g.frags, fragDef{name: fmt.Sprintf("F%d", i), cond: rng.Pick(r, []string{"Obj", "Obj", "I"})})
	}
	d := &doc{vars: g.vars}
	g.reach = map[string]map[string]bool{}
	for i := len(g.frags) - 1; i >= 0; i-- {
		g.frags[i].kids = g.sels(g.frags[i].cond, r.Range(0, 2), i+1)
		m := map[string]bool{}
		g.scopeReach(g.frags[i].kids, m)
		g.reach[g.frags[i].name] = m
	}
	nops := rng.Pick(r, []int{1, 1, 1, 1, 2, 3})
	depth := r.Range(1, 4)
	for i := 0; i < nops; i++ {
		op := opDef{name: fmt.Sprintf("Q%d", i)}
		if nops == 1 {
			switch r.Intn(3) {
			case 0:
				op.name, op.shorthand = "", true
			case 1:
				op.name = ""
			}
		}
		root := "Obj"
		if !op.shorthand && r.Chance(1, 6) {
			op.mutation, root = true, "Mut"
			if depth < 1 {
				depth = 1
			}
		}
		op.kids = g.sels(root, depth, 0)
		d.ops = append(d.ops, op)
	}
	d.frags = g.frags
	// every fragment must be used: spread the unreachable ones from the last operation
	seen := map[string]bool{}
	for i := range d.ops {
		reachableFrags(d, d.ops[i].kids, seen)
	}
	last := &d.ops[len(d.ops)-1]
	for _, f := range d.frags {
		if !seen[f.name] {
			sp := &sel{kind: kSpread, scope: "Obj", frag: f.name}
			if last.mutation { // a fragment on Obj / I cannot be spread at the mutation root
				sp = &sel{kind: kField, scope: "Mut", name: "obj", alias: g.alias(), hasSet: true, kids: []*sel{sp}}
			}
			last.kids = append(last.kids, sp)
			reachableFrags(d, last.kids, seen)
		}
	}
	// a shorthand operation cannot declare variables
	for i := range d.ops {
		if d.ops[i].shorthand && len(d.opVars(&d.ops[i])) > 0 {
			d.ops[i].shorthand = false
		}
	}
	return d
}

// variable values: mostly coercible
func genVars(r *rng.R, d *doc, hostile bool) map[string]interface{} {
	vals := map[string]interface{}{}
	for _, v := range d.vars {
		if v.isBool {
			if r.Chance(1, 3) {
				vals[v.name] = r.Bool()
			}
			continue
		}
		if v.typ != "" {
			if val, ok := genericValue(r, v, hostile); ok {
				vals[v.name] = val
			}
			continue
		}
		x := r.Intn(10)
		switch {
		case v.nonnull && !v.hasDef:
			if hostile && x == 0 {
				continue // missing required variable
			}
			if hostile && x == 1 {
				vals[v.name] = nil
				continue
			}
			vals[v.name] = r.Range(0, nNonNeg-1)
		case v.nonnull:
			if x < 5 {
				vals[v.name] = r.Range(0, nNonNeg-1)
			}
		default:
			if x < 5 {
				vals[v.name] = r.Range(0, nNonNeg-1)
			} else if x < 7 {
				vals[v.name] = nil
			}
		}
	}
	return vals
}

func varsSexp(vals map[string]interface{}) sexp.Node {
	var names []string
	for n := range vals {
		if strings.HasPrefix(n, "l") || strings.HasPrefix(n, "o") {
			continue // generic variables: xvars
		}
		names = append(names, n)
	}
	sort.Strings(names)
	var out []sexp.Node
	for _, n := range names {
		switch v := vals[n].(type) {
		case nil:
			out = append(out, sexp.L(sexp.Str(n), sexp.Sym("null")))
		case int:
			out = append(out, sexp.L(sexp.Str(n), sexp.T("int", sexp.Int(v))))
		}
	}
	return sexp.L(out...)
}

// ---------------------------------------------------------------------------------------------
// running the implementation
// ---------------------------------------------------------------------------------------------
const unsetMark = -7777

var debug = os.Getenv("C14_DEBUG") != ""

func actualSexp(a int) sexp.Node {
	if a == unsetMark {
		return sexp.Sym("unset")
	}
	return sexp.T("int", zint(a))
}

func tableSexp() sexp.Node {
	var t []sexp.Node
	for _, v := range table {
		t = append(t, sexp.Int(v))
	}
	return sexp.L(t...)
}

// stdErrors is the number of errors the standard validation rules alone report (0 = the document is valid)
func stdErrors(query string) int {
	_, errs := graphql.ParseAndValidate(query, directSchema, nil)
	return len(errs)
}

// validate runs the cost rule and returns the number of errors and the reported cost.  For a
// document the standard rules accept this is graphql.ParseAndValidate with the rule as an
// additional rule (the route applications use).  ValidateDocument runs additional rules only on
// documents the standard rules accept, so for an invalid document (std > 0: outside the property's
// quantifier, kept for the tie between model and code) the rule is applied to the parsed document
// directly, as validator.ValidateDocument applied it before it was given that guard.
func validate(query, opName string, vars map[string]interface{}, max int, dc graphql.FieldCost, std int) (nerrs int, actual int) {
	actual = unsetMark
	rule := graphql.ValidateCost(opName, vars, max, &actual, dc)
	if std > 0 {
		doc, perrs := parser.ParseDocument([]byte(query))
		if len(perrs) > 0 || doc == nil {
			return std, actual
		}
		errs := rule(doc, directSchema, nil, validator.NewTypeInfo(doc, directSchema, nil))
		return len(errs), actual
	}
	_, errs := graphql.ParseAndValidate(query, directSchema, nil, rule)
	if debug && max == -1 {
		for _, e := range errs {
			fmt.Fprintln(os.Stderr, "DEBUG", e.Message)
		}
	}
	return len(errs), actual
}

func pickLimit(r *rng.R, a0 int) int {
	if a0 == unsetMark {
		return rng.Pick(r, []int{-1, 0, 5})
	}
	clip := func(x int) int {
		if x < 0 {
			return 0
		}
		return x
	}
	up := a0
	if a0 < maxInt {
		up = a0 + 1
	}
	return rng.Pick(r, []int{-1, -1, 0, 1, 2, clip(a0 - 1), a0, a0, up, maxInt, maxInt - 1, 1 << uint(r.Range(2, 62)), r.Range(0, 40)})
}

func directCase(d *doc, opName string, vars map[string]interface{}, dc graphql.FieldCost, limit func(a0 int) int) sexp.Node {
	q := d.text()
	assertShape(q, d.opsSexp(), d.fragsSexp())
	// one case in three runs against the schema built from the cloned definition
	schemaMode := "plain"
	directSchema = directSchemaPlain
	if len(q)%3 == 1 {
		schemaMode, directSchema = "cloned", directSchemaCloned
	}
	defer func() { directSchema = directSchemaPlain }()
	var observed sexp.Node
	var calls []sexp.Node
	max := -1
	std := 0
	func() {
		defer func() {
			if e := recover(); e != nil {
				observed = sexp.Sym("panic")
			}
		}()
		std = stdErrors(q)
		callLog = nil
		e0, a0 := validate(q, opName, vars, -1, dc, std)
		calls = callLog
		max = limit(a0)
		e1, a1 := validate(q, opName, vars, max, dc, std)
		observed = sexp.L(sexp.Int(e0), actualSexp(a0), sexp.Int(e1), actualSexp(a1))
	}()
	return sexp.T("case", sexp.T("route", sexp.Sym("direct")),
		sexp.T("default", sexp.Int(dc.Resolver), sexp.Int(dc.Multiplier)),
		sexp.T("table", tableSexp()), sexp.T("opname", sexp.Str(opName)), sexp.T("vars", varsSexp(vars)),
		sexp.T("ops", d.opsSexp()), sexp.T("frags", d.fragsSexp()), sexp.T("max", zint(max)),
		sexp.T("conns", sexp.L()), sexp.T("observed", observed), sexp.T("std", sexp.Int(std)),
		sexp.T("env", envSexp()), sexp.T("xvars", xvarsSexp(d, vars)), sexp.T("calls", sexp.L(calls...)),
		sexp.T("varshape", sexp.Sym(directShape(vars))), projFlag(q), sexp.T("schemamode", sexp.Sym(schemaMode)), sexp.T("query", sexp.Str(q)))
}

func apiShape(shape string, vars map[string]interface{}) string {
	switch {
	case shape == "absent":
		return "key-absent"
	case shape == "null":
		return "null"
	case len(vars) == 0:
		return "empty-map"
	}
	return "map"
}

func directShape(vars map[string]interface{}) string {
	if vars == nil {
		return "nil-map"
	}
	if len(vars) == 0 {
		return "empty-map"
	}
	return "map"
}

var defaultCosts = []graphql.FieldCost{{Resolver: 1}, {Resolver: 1}, {}, {Resolver: 2, Multiplier: 2}, {Resolver: 0, Multiplier: 1 << 31}, {Resolver: maxInt}}

func pickOpName(r *rng.R, d *doc) string {
	x := r.Intn(20)
	if len(d.ops) == 1 {
		switch {
		case x < 19 && d.ops[0].name != "" && x%2 == 0:
			return d.ops[0].name
		case x < 19:
			return ""
		}
		return "Nope"
	}
	switch {
	case x < 18:
		return d.ops[r.Intn(len(d.ops))].name
	case x < 19:
		return ""
	}
	return "Nope"
}

// ---------------------------------------------------------------------------------------------
// hand-written and exhaustive small documents
// ---------------------------------------------------------------------------------------------
func f(scope, name string, kids ...*sel) *sel {
	fi := findField(scope, name)
	s := &sel{kind: kField, scope: scope, name: name}
	if fi != nil {
		s.args = make([]argSrc, len(fi.args))
	}
	if len(kids) > 0 {
		s.hasSet, s.kids = true, kids
	}
	return s
}
func fa(scope, name string, args []argSrc, kids ...*sel) *sel {
	s := f(scope, name, kids...)
	s.args = args
	return s
}
func lit(i int) argSrc     { return argSrc{kind: srcLit, lit: i} }
func spread(n string) *sel { return &sel{kind: kSpread, frag: n} }
func oneOp(kids ...*sel) *doc {
	return &doc{ops: []opDef{{shorthand: true, kids: kids}}}
}

type fixedCase struct {
	d    *doc
	op   string
	vars map[string]interface{}
	dc   graphql.FieldCost
}

func fixedCases() []fixedCase {
	one := graphql.FieldCost{Resolver: 1}
	var out []fixedCase
	add := func(d *doc) { out = append(out, fixedCase{d: d, dc: one}) }
	big := func(kids ...*sel) *sel { return f("Obj", "k1", kids...) } // (0, 2^62)
	// defect 18 and its neighbours
	add(oneOp(big(big(big(f("Obj", "free"))))))
	add(oneOp(big(big(f("Obj", "free")))))
	add(oneOp(big(big(f("Obj", "leaf")))))
	add(oneOp(big(f("Obj", "free"), f("Obj", "leaf"))))
	add(oneOp(big(f("Obj", "leaf"), f("Obj", "leaf"))))
	add(oneOp(big(big(f("Obj", "free"), f("Obj", "k1", f("Obj", "free"))))))
	add(oneOp(big(big(&sel{kind: kTypename, name: "__typename"}))))
	// the same through fragments spread at two depths
	d := oneOp(big(spread("A")), spread("A"))
	d.frags = []fragDef{{name: "A", cond: "Obj", kids: []*sel{big(spread("B"))}}, {name: "B", cond: "Obj", kids: []*sel{f("Obj", "free")}}}
	add(d)
	d = oneOp(big(spread("A")), f("Obj", "obj", spread("A")))
	d.frags = []fragDef{{name: "A", cond: "Obj", kids: []*sel{big(spread("B"))}}, {name: "B", cond: "Obj", kids: []*sel{f("Obj", "leaf")}}}
	add(d)
	// sums hitting the boundary exactly: MaxInt-1 (+1 default), MaxInt, MaxInt + 1
	add(oneOp(f("Obj", "k6", f("Obj", "leaf"))))
	add(oneOp(f("Obj", "k6", f("Obj", "leaf"), f("Obj", "leaf"))))
	add(oneOp(f("Obj", "k3", f("Obj", "free"))))
	add(oneOp(f("Obj", "k3", f("Obj", "leaf"))))
	add(oneOp(f("Obj", "k4", f("Obj", "leaf"))))
	add(oneOp(f("Obj", "k4", f("Obj", "leaf"), f("Obj", "leaf"))))
	add(oneOp(fa("Obj", "t", []argSrc{lit(0), lit(9)}, fa("Obj", "t", []argSrc{lit(0), lit(9)}, f("Obj", "leaf")))))   // 3037000499^2
	add(oneOp(fa("Obj", "t", []argSrc{lit(0), lit(10)}, fa("Obj", "t", []argSrc{lit(0), lit(10)}, f("Obj", "leaf"))))) // 3037000500^2 > MaxInt
	add(oneOp(fa("Obj", "t", []argSrc{lit(0), lit(4)}, fa("Obj", "t", []argSrc{lit(0), lit(8)}, f("Obj", "leaf")))))   // 2^63
	// typename only, empty-ish
	add(oneOp(&sel{kind: kTypename, name: "__typename"}, &sel{kind: kTypename, name: "__typename", alias: "t"}))
	// the interface's definition is used in the interface's scope
	add(oneOp(f("Obj", "iface", f("I", "k0", f("Obj", "leaf")), f("I", "leaf")), f("Obj", "k0", f("Obj", "leaf"))))
	// contexts
	add(oneOp(fa("Obj", "setc", []argSrc{lit(10)}, f("Obj", "rc"), f("Obj", "mc", f("Obj", "leaf"))), f("Obj", "rc")))
	// invalid documents: cycle, undefined fragment, unknown field, required argument, selection on a scalar
	d = oneOp(spread("A"))
	d.frags = []fragDef{{name: "A", cond: "Obj", kids: []*sel{f("Obj", "leaf"), spread("A")}}}
	add(d)
	d = oneOp(spread("A"))
	d.frags = []fragDef{{name: "A", cond: "Obj", kids: []*sel{f("Obj", "obj", spread("B"))}}, {name: "B", cond: "Obj", kids: []*sel{spread("A")}}}
	add(d)
	add(oneOp(f("Obj", "leaf"), spread("Nope")))
	add(oneOp(f("Obj", "nosuch"), f("Obj", "leaf")))
	add(oneOp(f("Obj", "req")))
	add(oneOp(f("Obj", "leaf", f("", "leaf"))))
	// duplicate fragment and operation names
	d = oneOp(spread("A"))
	d.frags = []fragDef{{name: "A", cond: "Obj", kids: []*sel{f("Obj", "leaf")}}, {name: "A", cond: "Obj", kids: []*sel{f("Obj", "k5", f("Obj", "leaf"))}}}
	add(d)
	d = &doc{ops: []opDef{{name: "Q", kids: []*sel{f("Obj", "leaf")}}, {name: "Q", kids: []*sel{f("Obj", "k5", f("Obj", "leaf"))}}}}
	out = append(out, fixedCase{d: d, op: "Q", dc: one}, fixedCase{d: d, op: "", dc: one})
	// the same fragment twice in one selection set, and a diamond
	d = oneOp(f("Obj", "k5", spread("A"), spread("A")))
	d.frags = []fragDef{{name: "A", cond: "Obj", kids: []*sel{f("Obj", "leaf")}}}
	add(d)
	d = oneOp(f("Obj", "k5", spread("A"), spread("B")))
	d.frags = []fragDef{{name: "A", cond: "Obj", kids: []*sel{spread("C")}}, {name: "B", cond: "Obj", kids: []*sel{spread("C")}}, {name: "C", cond: "Obj", kids: []*sel{f("Obj", "leaf")}}}
	add(d)
	// variables: default of the variable, default of the argument, explicit null, required and missing
	vd := []varDecl{{name: "v0"}, {name: "v1", hasDef: true, def: 3}, {name: "v2", nonnull: true}}
	mk := func(src argSrc) *doc {
		x := oneOp(fa("Obj", "t", []argSrc{src, {kind: srcVar, v: "v0"}}, f("Obj", "leaf")), fa("Obj", "req", []argSrc{{kind: srcVar, v: "v2"}}))
		x.ops[0].shorthand = false
		x.vars = vd
		return x
	}
	for _, vars := range []map[string]interface{}{{"v2": 1}, {"v0": 3, "v2": 2}, {"v0": nil, "v1": nil, "v2": 2}, {"v0": 2, "v1": 4}, {"v2": nil}} {
		out = append(out, fixedCase{d: mk(argSrc{kind: srcVar, v: "v1"}), vars: vars, dc: one})
		out = append(out, fixedCase{d: mk(argSrc{kind: srcVar, v: "v0"}), vars: vars, dc: one})
	}
	return out
}

// all chains x{y{z}} over a field alphabet, fragment-free
func chainAlphabet() []func(kids ...*sel) *sel {
	var out []func(kids ...*sel) *sel
	for i := range konst {
		name := fmt.Sprintf("k%d", i)
		out = append(out, func(kids ...*sel) *sel { return f("Obj", name, kids...) })
	}
	out = append(out, func(kids ...*sel) *sel { return f("Obj", "obj", kids...) })
	return out
}

var leafAlphabet = []string{"free", "leaf", "__typename"}

func leafSel(name string) *sel {
	if name == "__typename" {
		return &sel{kind: kTypename, name: name}
	}
	return f("Obj", name)
}

// ---------------------------------------------------------------------------------------------
// hostile stream: mutations that make the document invalid or leave the property's domain
// ---------------------------------------------------------------------------------------------
func allSels(d *doc) []*[]*sel {
	var out []*[]*sel
	var rec func(ss *[]*sel)
	rec = func(ss *[]*sel) {
		out = append(out, ss)
		for _, s := range *ss {
			if s.hasSet {
				rec(&s.kids)
			}
		}
	}
	for i := range d.ops {
		rec(&d.ops[i].kids)
	}
	for i := range d.frags {
		rec(&d.frags[i].kids)
	}
	return out
}

func mutate(r *rng.R, d *doc) {
	lists := allSels(d)
	ss := lists[r.Intn(len(lists))]
	which := r.Intn(11)
	if which >= 7 {
		// the generic fields exist on Obj only
		scope := ""
		for _, x := range *ss {
			if x.scope != "" {
				scope = x.scope
				break
			}
		}
		if scope != "Obj" {
			which = 0
		}
	}
	switch which {
	case 0: // spread of an undefined fragment
		*ss = append(*ss, spread("Undefined"))
	case 1: // unknown field
		*ss = append(*ss, &sel{kind: kField, scope: "Obj", name: "nosuch", alias: "zz"})
	case 2: // cycle
		if len(d.frags) > 0 {
			fr := &d.frags[r.Intn(len(d.frags))]
			tgt := d.frags[r.Intn(len(d.frags))].name
			fr.kids = append(fr.kids, spread(tgt))
			if r.Bool() {
				d.frags[0].kids = append(d.frags[0].kids, spread(fr.name))
			}
		} else {
			d.frags = append(d.frags, fragDef{name: "Z", cond: "Obj", kids: []*sel{f("Obj", "leaf"), spread("Z")}})
			*ss = append(*ss, spread("Z"))
		}
	case 3: // duplicate fragment name with another body
		if len(d.frags) > 0 {
			d.frags = append(d.frags, fragDef{name: d.frags[0].name, cond: d.frags[0].cond, kids: []*sel{f(d.frags[0].cond, "leaf")}})
		}
	case 4: // duplicate operation name
		d.ops = append(d.ops, opDef{name: d.ops[0].name, kids: []*sel{f("Obj", "k5", f("Obj", "leaf"))}})
	case 5: // required argument missing
		*ss = append(*ss, &sel{kind: kField, scope: "Obj", name: "req", alias: "zr", args: []argSrc{{}}})
	case 6: // the same fragment twice in one selection set
		if len(d.frags) > 0 {
			n := d.frags[len(d.frags)-1].name
			*ss = append(*ss, spread(n), spread(n))
		}
	case 7: // an argument given twice (5.4.2)
		a, b := glist(gi(1)), glist(gi(2), gi(3))
		*ss = append(*ss, &sel{kind: kField, scope: "Obj", name: "lst", alias: "zd", args: []argSrc{{kind: srcGen, g: &a}}, dupArg: &b,
			hasSet: true, kids: []*sel{f("Obj", "leaf")}})
	case 8: // an input-object field given twice (5.6.3)
		l := gobj("r", gi(1), "m", gi(2), "r", gi(3))
		*ss = append(*ss, &sel{kind: kField, scope: "Obj", name: "inp", alias: "zo", args: []argSrc{{kind: srcGen, g: &l}},
			hasSet: true, kids: []*sel{f("Obj", "leaf")}})
	case 10: // a variable of the wrong type (5.8.5): an Int where an input object is expected
		l := gvar("v0")
		*ss = append(*ss, &sel{kind: kField, scope: "Obj", name: "inp", alias: "zw", args: []argSrc{{kind: srcGen, g: &l}},
			hasSet: true, kids: []*sel{f("Obj", "leaf")}})
	case 9: // a variable of the wrong type (5.8.5): an input object where a list is expected
		l := gvar("o0")
		*ss = append(*ss, &sel{kind: kField, scope: "Obj", name: "lst", alias: "zv", args: []argSrc{{kind: srcGen, g: &l}},
			hasSet: true, kids: []*sel{f("Obj", "leaf")}})
	}
}

// ---------------------------------------------------------------------------------------------
// route 2: apifu.API with connections and their default costs
// ---------------------------------------------------------------------------------------------
type connInfo struct {
	dir   apifu.ConnectionDirection
	avail int
}

var connFields = map[string]map[string]connInfo{
	"Query": {"items": {apifu.ConnectionDirectionBidirectional, 7}},
	"Item": {"kids": {apifu.ConnectionDirectionForwardOnly, 4}, "rkids": {apifu.ConnectionDirectionBackwardOnly, 3},
		"both": {apifu.ConnectionDirectionBidirectional, 5},
		// a TimeBasedConnection (Connection with a ResolveEdges callback built from EdgeGetter): its getter
		// ignores the limit and hands over every edge of the time range
		"timed": {apifu.ConnectionDirectionBidirectional, 6}},
}

type apiUnderTest struct {
	api  *apifu.API
	mu   sync.Mutex
	cost int
	ran  bool
	srv  *httptest.Server // websocket endpoint (ServeGraphQLWS)
}

func (a *apiUnderTest) reset() {
	a.mu.Lock()
	a.ran, a.cost = false, unsetMark
	a.mu.Unlock()
}

func (a *apiUnderTest) seen() (bool, int) {
	a.mu.Lock()
	defer a.mu.Unlock()
	return a.ran, a.cost
}

// one request over the graphql-ws protocol: connection_init, start, read until complete
func (a *apiUnderTest) overWS(query string, vars map[string]interface{}, opName string) (data interface{}, nerrs int) {
	return a.overWSPayload(map[string]interface{}{"query": query, "variables": vars, "operationName": opName})
}

// the same with the start payload given as it is (the "variables" key may be missing or null)
func (a *apiUnderTest) overWSPayload(payload map[string]interface{}) (data interface{}, nerrs int) {
	conn, _, err := (&websocket.Dialer{Subprotocols: []string{"graphql-ws"}, HandshakeTimeout: 5 * time.Second}).Dial("ws"+strings.TrimPrefix(a.srv.URL, "http"), nil)
	if err != nil {
		panic(err)
	}
	defer conn.Close()
	conn.SetReadDeadline(time.Now().Add(10 * time.Second))
	if err := conn.WriteJSON(map[string]interface{}{"type": "connection_init", "payload": map[string]interface{}{}}); err != nil {
		panic(err)
	}
	if err := conn.WriteJSON(map[string]interface{}{"id": "1", "type": "start", "payload": payload}); err != nil {
		panic(err)
	}
	for {
		var msg struct {
			Type    string
			Id      string
			Payload struct {
				Data   interface{}
				Errors []interface{}
			}
		}
		if err := conn.ReadJSON(&msg); err != nil {
			panic(err)
		}
		switch msg.Type {
		case "data":
			data, nerrs = msg.Payload.Data, len(msg.Payload.Errors)
		case "complete":
			return data, nerrs
		case "error", "connection_error":
			panic("graphql-ws error message")
		}
	}
}

// persisted-query storage (Config.PersistedQueryStorage): requests without the extension are not affected
type pqStore struct {
	mu sync.Mutex
	m  map[string]string
}

func (p *pqStore) GetPersistedQuery(ctx context.Context, hash []byte) string {
	p.mu.Lock()
	defer p.mu.Unlock()
	return p.m[string(hash)]
}
func (p *pqStore) PersistQuery(ctx context.Context, query string, hash []byte) {
	p.mu.Lock()
	defer p.mu.Unlock()
	p.m[string(hash)] = query
}

// one POST to ServeGraphQL
func (a *apiUnderTest) post(payload map[string]interface{}) (data interface{}, nerrs int, raw string) {
	body, _ := json.Marshal(payload)
	hr := httptest.NewRequest("POST", "/graphql", bytes.NewReader(body))
	hr.Header.Set("Content-Type", "application/json")
	w := httptest.NewRecorder()
	a.api.ServeGraphQL(w, hr)
	var resp struct {
		Data   interface{}
		Errors []interface{}
	}
	if err := json.Unmarshal(w.Body.Bytes(), &resp); err != nil {
		panic(err)
	}
	return resp.Data, len(resp.Errors), w.Body.String()
}

var timedBase = time.Date(2020, 1, 1, 0, 0, 0, 0, time.UTC)

// the cursor of item j of the time-based connection
func timedCursor(j int) apifu.TimeBasedCursor {
	return apifu.NewTimeBasedCursor(timedBase.Add(time.Duration(j)*time.Second), fmt.Sprint(j))
}

func buildAPI(dc graphql.FieldCost) *apiUnderTest {
	a := &apiUnderTest{}
	cfg := &apifu.Config{DefaultFieldCost: dc, PersistedQueryStorage: &pqStore{m: map[string]string{}}}
	item := &graphql.ObjectType{Name: "Item", Fields: map[string]*graphql.FieldDefinition{}}
	item.Fields["id"] = &graphql.FieldDefinition{Type: graphql.IntType, Resolve: func(ctx graphql.FieldContext) (interface{}, error) { return ctx.Object, nil }}
	item.Fields["w"] = &graphql.FieldDefinition{Type: graphql.IntType, Cost: graphql.FieldResolverCost(2), Resolve: func(ctx graphql.FieldContext) (interface{}, error) { return 2, nil }}
	thing := apifu.ConnectionInterface(&apifu.ConnectionInterfaceConfig{
		NamePrefix:    "Thing",
		HasTotalCount: true,
		EdgeFields:    map[string]*graphql.FieldDefinition{"node": {Type: item}},
	})
	mkConn := func(prefix string, ci connInfo) *graphql.FieldDefinition {
		var ifaces []*graphql.InterfaceType
		if prefix == "ItemKids" {
			ifaces = []*graphql.InterfaceType{thing}
		}
		return apifu.Connection(&apifu.ConnectionConfig{
			ImplementedInterfaces: ifaces,
			NamePrefix:            prefix,
			Direction:             ci.dir,
			ResolveAllEdges: func(ctx graphql.FieldContext) (interface{}, func(a, b interface{}) bool, error) {
				xs := make([]int, ci.avail)
				for i := range xs {
					xs[i] = i + 1
				}
				return xs, func(a, b interface{}) bool { return a.(int) < b.(int) }, nil
			},
			CursorType: reflect.TypeOf(0),
			EdgeCursor: func(e interface{}) interface{} { return e },
			EdgeFields: map[string]*graphql.FieldDefinition{
				"node": {Type: item, Resolve: func(ctx graphql.FieldContext) (interface{}, error) { return ctx.Object, nil }},
			},
		})
	}
	for name, ci := range connFields["Item"] {
		if name == "timed" {
			avail := ci.avail
			item.Fields[name] = apifu.TimeBasedConnection(&apifu.TimeBasedConnectionConfig{
				NamePrefix: "ItemTimed",
				EdgeCursor: func(e interface{}) apifu.TimeBasedCursor { return timedCursor(e.(int)) },
				EdgeFields: map[string]*graphql.FieldDefinition{
					"node": {Type: item, Resolve: func(ctx graphql.FieldContext) (interface{}, error) { return ctx.Object, nil }},
				},
				EdgeGetter: func(ctx graphql.FieldContext, minTime, maxTime time.Time, limit int) (interface{}, error) {
					var xs []int
					for i := 1; i <= avail; i++ {
						if t := timedBase.Add(time.Duration(i) * time.Second); !t.Before(minTime) && !t.After(maxTime) {
							xs = append(xs, i)
						}
					}
					return xs, nil // every edge of the range, whatever the limit
				},
				ResolveTotalCount: func(ctx graphql.FieldContext) (interface{}, error) { return avail, nil },
			})
			continue
		}
		item.Fields[name] = mkConn("Item"+strings.Title(name), ci)
	}
	cfg.AddQueryField("items", mkConn("QueryItems", connFields["Query"]["items"]))
	cfg.AddQueryField("item", &graphql.FieldDefinition{Type: item, Resolve: func(ctx graphql.FieldContext) (interface{}, error) { return 1, nil }})
	cfg.Execute = func(r *graphql.Request, info *apifu.RequestInfo) *graphql.Response {
		a.mu.Lock()
		a.cost, a.ran = info.Cost, true
		a.mu.Unlock()
		return graphql.Execute(r)
	}
	api, err := apifu.NewAPI(cfg)
	if err != nil {
		panic(err)
	}
	a.api = api
	a.srv = httptest.NewServer(http.HandlerFunc(api.ServeGraphQLWS))
	return a
}

// abstract selections of the apifu schema reuse sel; scope is the type name
func apiFieldInfo(scope, name string) *fieldInfo {
	connArgs := func(ci connInfo) []argInfo {
		switch ci.dir {
		case apifu.ConnectionDirectionForwardOnly:
			return []argInfo{{name: "first", nonnull: true}}
		case apifu.ConnectionDirectionBackwardOnly:
			return []argInfo{{name: "last", nonnull: true}}
		}
		return []argInfo{{name: "first"}, {name: "last"}}
	}
	absent := sexp.T("a", sexp.Sym("none"), sexp.Sym("absent"))
	if ci, ok := connFields[scope][name]; ok {
		return &fieldInfo{name: name, ret: "Conn:" + scope + ":" + name, args: connArgs(ci), cfd: func(a []sexp.Node) sexp.Node {
			switch ci.dir {
			case apifu.ConnectionDirectionForwardOnly:
				return sexp.T("conn", a[0], absent)
			case apifu.ConnectionDirectionBackwardOnly:
				return sexp.T("conn", absent, a[0])
			}
			return sexp.T("conn", a[0], a[1])
		}}
	}
	switch {
	case scope == "Query" && name == "item":
		return &fieldInfo{name: name, ret: "Item", cfd: nocost}
	case scope == "Item" && name == "id":
		return &fieldInfo{name: name, cfd: nocost}
	case scope == "Item" && name == "w":
		return &fieldInfo{name: name, cfd: constCfd(2, 0)}
	case strings.HasPrefix(scope, "Conn:"):
		switch name {
		case "edges":
			return &fieldInfo{name: name, ret: "Edge:" + scope, cfd: func([]sexp.Node) sexp.Node { return sexp.T("edges") }}
		case "pageInfo":
			return &fieldInfo{name: name, ret: "PageInfo", cfd: constCfd(0, 0)}
		case "totalCount":
			return &fieldInfo{name: name, cfd: nocost}
		}
	case strings.HasPrefix(scope, "Edge:"):
		switch name {
		case "cursor":
			return &fieldInfo{name: name, cfd: constCfd(0, 0)}
		case "node":
			return &fieldInfo{name: name, ret: "Item", cfd: nocost}
		}
	case scope == "PageInfo":
		return &fieldInfo{name: name, cfd: constCfd(0, 0)}
	}
	return nil
}

var apiMode bool // findField consults the apifu catalogue

type apiGen struct {
	r      *rng.R
	nAlias int
	vars   []varDecl
}

func (g *apiGen) alias() string { g.nAlias++; return fmt.Sprintf("a%d", g.nAlias) }

func (g *apiGen) countSrc(nonnull bool) argSrc {
	vals := []int{0, 1, 2, 3, 5, 10, 100, 2147483647, -1}
	x := g.r.Intn(10)
	switch {
	case x < 2:
		var vs []string
		for _, v := range g.vars {
			if !nonnull || v.nonnull {
				vs = append(vs, v.name)
			}
		}
		return argSrc{kind: srcVar, v: rng.Pick(g.r, vs)}
	case x < 3 && !nonnull:
		return argSrc{kind: srcNull}
	}
	return argSrc{kind: srcLit, lit: rng.Pick(g.r, vals)}
}

func (g *apiGen) conn(scope, name string, depth int) *sel {
	ci := connFields[scope][name]
	s := &sel{kind: kField, scope: scope, name: name, alias: g.alias(), hasSet: true}
	switch ci.dir {
	case apifu.ConnectionDirectionBidirectional:
		switch g.r.Intn(8) {
		case 0:
			s.args = []argSrc{{}, {}} // neither: resolver error
		case 1:
			s.args = []argSrc{g.countSrc(false), g.countSrc(false)} // both: resolver error
		case 2, 3, 4:
			s.args = []argSrc{g.countSrc(false), {}}
		default:
			s.args = []argSrc{{}, g.countSrc(false)}
		}
	default:
		s.args = []argSrc{g.countSrc(true)}
	}
	s.between = ci.avail
	if g.r.Chance(1, 4) {
		// a cursor: the items are 1..avail, the cursor of item j is the serialized int j
		j := g.r.Range(0, ci.avail+1)
		var cv interface{} = j
		if name == "timed" {
			cv = timedCursor(j)
		}
		c, err := apifu.SerializeCursor(cv)
		if err != nil {
			panic(err)
		}
		switch {
		case ci.dir == apifu.ConnectionDirectionForwardOnly || (ci.dir == apifu.ConnectionDirectionBidirectional && g.r.Bool()):
			s.rawArgName, s.rawArgVal = "after", c
			s.between = ci.avail - j
			if j > ci.avail {
				s.between = 0
			}
		default:
			s.rawArgName, s.rawArgVal = "before", c
			s.between = j - 1
			if j < 1 {
				s.between = 0
			}
			if j > ci.avail {
				s.between = ci.avail
			}
		}
	}
	cs := "Conn:" + scope + ":" + name
	if g.r.Chance(5, 6) {
		e := &sel{kind: kField, scope: cs, name: "edges", alias: g.alias(), hasSet: true}
		es := "Edge:" + cs
		if g.r.Chance(1, 3) {
			e.kids = append(e.kids, &sel{kind: kField, scope: es, name: "cursor", alias: g.alias()})
		}
		if g.r.Chance(4, 5) || len(e.kids) == 0 {
			e.kids = append(e.kids, &sel{kind: kField, scope: es, name: "node", alias: g.alias(), hasSet: true, kids: g.item(depth - 1)})
		}
		s.kids = append(s.kids, e)
	}
	if g.r.Chance(1, 3) || len(s.kids) == 0 {
		s.kids = append(s.kids, &sel{kind: kField, scope: cs, name: "pageInfo", alias: g.alias(), hasSet: true,
			kids: []*sel{{kind: kField, scope: "PageInfo", name: rng.Pick(g.r, []string{"hasNextPage", "hasPreviousPage", "startCursor", "endCursor"}), alias: g.alias()}}})
	}
	if g.r.Chance(1, 3) {
		s.kids = append(s.kids, &sel{kind: kField, scope: cs, name: "totalCount", alias: g.alias()})
	}
	// the kids connection implements the Thing connection interface: selections made through the
	// interface are costed with the interface's field definitions (ConnectionInterface)
	if name == "kids" && g.r.Chance(1, 2) {
		for _, k := range s.kids {
			if k.name == "edges" && g.r.Bool() {
				k.kids = []*sel{{kind: kInline, scope: k.scope, cond: "ThingEdge", hasSet: true, kids: k.kids}}
			}
		}
		s.kids = []*sel{{kind: kInline, scope: cs, cond: "ThingConnection", hasSet: true, kids: s.kids}}
	}
	return s
}

// the fields of a selection list, looking through inline fragments
func flatFields(ss []*sel) []*sel {
	var out []*sel
	for _, s := range ss {
		if s.kind == kInline {
			out = append(out, flatFields(s.kids)...)
		} else {
			out = append(out, s)
		}
	}
	return out
}

func (g *apiGen) item(depth int) []*sel {
	var out []*sel
	n := g.r.Range(1, 3)
	for i := 0; i < n; i++ {
		if depth > 0 && g.r.Chance(1, 2) {
			out = append(out, g.conn("Item", rng.Pick(g.r, []string{"kids", "rkids", "both", "timed"}), depth))
		} else {
			out = append(out, &sel{kind: kField, scope: "Item", name: rng.Pick(g.r, []string{"id", "w"}), alias: g.alias()})
		}
	}
	return out
}

// every instance of a connection field in the response: (ARG-first ARG-last available observed)
func walkConns(ss []*sel, data interface{}, out *[]sexp.Node) {
	switch v := data.(type) {
	case []interface{}:
		for _, x := range v {
			walkConns(ss, x, out)
		}
	case map[string]interface{}:
		for _, s := range flatFields(ss) {
			if s.kind != kField {
				continue
			}
			val, present := v[s.alias]
			if ci, ok := connFields[s.scope][s.name]; ok && present {
				fi := apiFieldInfo(s.scope, s.name)
				var forms []sexp.Node
				for j, ai := range fi.args {
					forms = append(forms, ai.aform(s.args[j]))
				}
				absent := sexp.T("a", sexp.Sym("none"), sexp.Sym("absent"))
				first, last := absent, absent
				switch ci.dir {
				case apifu.ConnectionDirectionForwardOnly:
					first = forms[0]
				case apifu.ConnectionDirectionBackwardOnly:
					last = forms[0]
				default:
					first, last = forms[0], forms[1]
				}
				var edgesSel *sel
				for _, k := range flatFields(s.kids) {
					if k.name == "edges" {
						edgesSel = k
					}
				}
				// the edges are only visible when the document selects them
				if m, ok := val.(map[string]interface{}); !ok {
					*out = append(*out, sexp.L(first, last, sexp.Int(s.between), sexp.Sym("none")))
				} else if edgesSel != nil {
					if es, ok := m[edgesSel.alias].([]interface{}); ok {
						*out = append(*out, sexp.L(first, last, sexp.Int(s.between), sexp.Int(len(es))))
					}
				}
			}
			if s.hasSet && present {
				walkConns(s.kids, val, out)
			}
		}
	}
}

func apiCase(r *rng.R, apis []*apiUnderTest, dcs []graphql.FieldCost) sexp.Node {
	apiMode = true
	defer func() { apiMode = false }()
	g := &apiGen{r: r}
	g.vars = []varDecl{{name: "n0", nonnull: true}, {name: "n1", nonnull: true, hasDef: true, def: 2}}
	d := &doc{vars: g.vars}
	var kids []*sel
	n := r.Range(1, 2)
	for i := 0; i < n; i++ {
		if r.Chance(3, 4) {
			kids = append(kids, g.conn("Query", "items", r.Range(0, 2)))
		} else {
			kids = append(kids, &sel{kind: kField, scope: "Query", name: "item", alias: g.alias(), hasSet: true, kids: g.item(r.Range(0, 2))})
		}
	}
	d.ops = []opDef{{name: "Q", kids: kids}}
	vars := map[string]interface{}{"n0": rng.Pick(r, []int{0, 1, 2, 3, 6, 50})}
	if r.Bool() {
		vars["n1"] = rng.Pick(r, []int{0, 1, 4})
	}
	which := r.Intn(len(apis))
	route := "apifu"
	if r.Chance(1, 6) {
		route = "apifu-ws"
	} else if r.Chance(1, 5) {
		route = "apifu-pq"
	}
	return runAPI(d, vars, "map", route, apis[which], dcs[which])
}

// runAPI serves one request on one of the apifu routes and writes the case.  shape says how the
// variables travel: "map" (the map as it is, possibly empty), "absent" (no "variables" key at all),
// "null" ("variables": null); for the last two the request has no variable values.
func runAPI(d *doc, vars map[string]interface{}, shape, route string, a *apiUnderTest, dc graphql.FieldCost) sexp.Node {
	apiMode = true
	defer func() { apiMode = false }()
	q := d.text()
	assertShape(q, d.opsSexp(), d.fragsSexp())
	payload := func(withQuery bool) map[string]interface{} {
		p := map[string]interface{}{"operationName": "Q"}
		if withQuery {
			p["query"] = q
		}
		switch shape {
		case "map":
			p["variables"] = vars
		case "null":
			p["variables"] = nil
		}
		return p
	}
	if shape != "map" {
		vars = nil
	}
	a.reset()
	var observed sexp.Node
	var conns []sexp.Node
	func() {
		defer func() {
			if e := recover(); e != nil {
				if debug {
					fmt.Fprintln(os.Stderr, "DEBUG panic", e)
				}
				observed = sexp.Sym("panic")
			}
		}()
		// HTTP first, also for the websocket route: a panic of the code under test on the websocket
		// route happens in a goroutine of the library that nobody recovers and would take the harness
		// process down; the same request over HTTP panics in this goroutine, where it is caught
		data, ne, raw := a.post(payload(true))
		if debug && ne > 0 {
			fmt.Fprintln(os.Stderr, "DEBUG apifu", q, raw)
		}
		if route == "apifu-ws" {
			a.reset()
			data, ne = a.overWSPayload(payload(true))
		}
		if route == "apifu-pq" {
			// Apollo persisted queries: register the query with its hash, then send the hash alone;
			// the cost observed is that of the request served from the store
			sum := sha256.Sum256([]byte(q))
			ext := map[string]interface{}{"persistedQuery": map[string]interface{}{"version": 1, "sha256Hash": hex.EncodeToString(sum[:])}}
			p1 := payload(true)
			p1["extensions"] = ext
			a.post(p1)
			a.reset()
			p2 := payload(false)
			p2["extensions"] = ext
			data, ne, _ = a.post(p2)
		}
		if ran, cost := a.seen(); ran {
			observed = sexp.L(sexp.Int(0), actualSexp(cost), sexp.Int(0), actualSexp(cost))
			walkConns(d.ops[0].kids, data, &conns)
		} else {
			observed = sexp.L(sexp.Int(ne), sexp.Sym("unset"), sexp.Int(ne), sexp.Sym("unset"))
		}
	}()
	return sexp.T("case", sexp.T("route", sexp.Sym(route)),
		sexp.T("default", sexp.Int(dc.Resolver), sexp.Int(dc.Multiplier)),
		sexp.T("table", tableSexp()), sexp.T("opname", sexp.Str("Q")), sexp.T("vars", varsSexp(vars)),
		sexp.T("ops", d.opsSexp()), sexp.T("frags", d.fragsSexp()), sexp.T("max", sexp.Int(-1)),
		sexp.T("conns", sexp.L(conns...)), sexp.T("observed", observed),
		sexp.T("timed", sexp.Bool(strings.Contains(q, ": timed("))),
		sexp.T("varshape", sexp.Sym(apiShape(shape, vars))), projFlag(q), sexp.T("query", sexp.Str(q)))
}

// ---------------------------------------------------------------------------------------------
// systematic: (kind of variable feeding a cost-relevant argument) x (shape of the variable map)
// ---------------------------------------------------------------------------------------------
type varKind struct {
	decl varDecl
	tag  string
}

func varKinds(name string) []varKind {
	return []varKind{
		{varDecl{name: name, hasDef: true, def: 3}, "default"},
		{varDecl{name: name}, "plain"},
		{varDecl{name: name, nonnull: true}, "nonnull"},
		{varDecl{name: name, nonnull: true, hasDef: true, def: 2}, "nonnull-default"},
		{varDecl{name: name, hasDef: true, defNull: true}, "default-null"},
	}
}

// the shapes of the variable map for a variable x next to an unrelated declared variable u
type varShape struct {
	tag  string
	vars map[string]interface{}
}

func varShapes() []varShape {
	return []varShape{
		{"nil", nil},
		{"empty", map[string]interface{}{}},
		{"unrelated-undeclared", map[string]interface{}{"zz": 1}},
		{"unrelated-declared", map[string]interface{}{"u": 2}},
		{"null", map[string]interface{}{"x": nil}},
		{"value", map[string]interface{}{"x": 1}},
		{"value-and-unrelated", map[string]interface{}{"x": 2, "u": 3}},
	}
}

func sv(v string) argSrc { return argSrc{kind: srcVar, v: v} }

// direct route: documents whose costs depend on $x (and on the unrelated $u: Int = 1)
func varDocs(k varKind) []*doc {
	u := varDecl{name: "u", hasDef: true, def: 1}
	mk := func(kids ...*sel) *doc {
		d := &doc{ops: []opDef{{name: "Q", kids: kids}}, vars: []varDecl{k.decl, u}}
		return d
	}
	unrelated := fa("Obj", "t", []argSrc{sv("u"), {}}, f("Obj", "leaf"))
	unrelated.alias = "zu"
	var out []*doc
	out = append(out, mk(fa("Obj", "d", []argSrc{sv("x"), sv("x")}, f("Obj", "leaf")), unrelated))
	out = append(out, mk(fa("Obj", "t", []argSrc{sv("x"), sv("x")}, f("Obj", "leaf")), unrelated))
	out = append(out, mk(fa("Obj", "setc", []argSrc{sv("x")}, f("Obj", "rc"), f("Obj", "mc", f("Obj", "leaf"))), unrelated))
	if !k.decl.nonnull {
		// inside a list and inside an input object (an Int! variable is fine there too, kept small)
		l := glist(gvar("x"), gi(1))
		o := gobj("m", gvar("x"))
		out = append(out, mk(&sel{kind: kField, scope: "Obj", name: "lst", args: []argSrc{{kind: srcGen, g: &l}}, hasSet: true, kids: []*sel{f("Obj", "leaf")}}, unrelated))
		out = append(out, mk(&sel{kind: kField, scope: "Obj", name: "inp", args: []argSrc{{kind: srcGen, g: &o}}, hasSet: true, kids: []*sel{f("Obj", "leaf")}}, unrelated))
	}
	// through a fragment
	d := mk(spread("A"), unrelated)
	d.frags = []fragDef{{name: "A", cond: "Obj", kids: []*sel{fa("Obj", "d", []argSrc{sv("x"), sv("x")}, f("Obj", "leaf"))}}}
	out = append(out, d)
	return out
}

// apifu routes: a connection whose count is $x, next to one whose count is the unrelated $u: Int = 1
func apiVarDoc(k varKind, last bool) *doc {
	apiMode = true
	defer func() { apiMode = false }()
	u := varDecl{name: "u", hasDef: true, def: 1}
	mkConn := func(alias string, args []argSrc) *sel {
		cs := "Conn:Query:items"
		node := &sel{kind: kField, scope: "Edge:" + cs, name: "node", alias: alias + "n", hasSet: true,
			kids: []*sel{{kind: kField, scope: "Item", name: "id", alias: alias + "i"}}}
		edges := &sel{kind: kField, scope: cs, name: "edges", alias: alias + "e", hasSet: true, kids: []*sel{node}}
		return &sel{kind: kField, scope: "Query", name: "items", alias: alias, hasSet: true, args: args, kids: []*sel{edges},
			between: connFields["Query"]["items"].avail}
	}
	args := []argSrc{sv("x"), {}}
	if last {
		args = []argSrc{{}, sv("x")}
	}
	return &doc{ops: []opDef{{name: "Q", kids: []*sel{mkConn("a", args), mkConn("b", []argSrc{{}, sv("u")})}}},
		vars: []varDecl{k.decl, u}}
}

// ---------------------------------------------------------------------------------------------
func main() {
	directSchema = buildDirectSchema()
	hx.Main(func(h *hx.H) {
		thoroughTier = h.Thorough()
		one := graphql.FieldCost{Resolver: 1}
		limits := func(r *rng.R) func(int) int { return func(a0 int) int { return pickLimit(r, a0) } }

		// 1. hand-written cases, each under several limits
		for _, fc := range fixedCases() {
			fc := fc
			for k := 0; k < 6; k++ {
				k := k
				h.Case(func(r *rng.R) sexp.Node {
					return directCase(fc.d, fc.op, fc.vars, fc.dc, func(a0 int) int {
						if a0 == unsetMark {
							return []int{-1, 0, 1, 5, maxInt, 7}[k]
						}
						up := a0
						if a0 < maxInt {
							up++
						}
						dn := a0
						if a0 > 0 {
							dn--
						}
						return []int{-1, 0, dn, a0, up, maxInt}[k]
					})
				})
			}
		}

		// 1b. systematic: kind of variable x shape of the variable map, direct route (nil and empty map,
		// only unrelated variables, explicit null, value), each under the limits -1 / exact / one below
		for _, k := range varKinds("x") {
			for _, d := range varDocs(k) {
				for _, sh := range varShapes() {
					d, sh := d, sh
					for lk := 0; lk < 3; lk++ {
						lk := lk
						h.Case(func(r *rng.R) sexp.Node {
							return directCase(d, "Q", sh.vars, one, func(a0 int) int {
								if a0 == unsetMark || a0 <= 0 {
									return []int{-1, 0, 5}[lk]
								}
								return []int{-1, a0, a0 - 1}[lk]
							})
						})
					}
				}
			}
		}

		// 2. exhaustive: all fragment-free chains of depth <= 2 (quick) / 3 (thorough) over the constant
		// fields, every leaf, limits -1 / exact / one below
		alpha := chainAlphabet()
		maxDepth := 2
		if h.Thorough() {
			maxDepth = 3
		}
		var rec func(prefix []int, depth int)
		rec = func(prefix []int, depth int) {
			for _, leaf := range leafAlphabet {
				s := leafSel(leaf)
				for i := len(prefix) - 1; i >= 0; i-- {
					s = alpha[prefix[i]](s)
				}
				d := oneOp(s)
				for k := 0; k < 3; k++ {
					k := k
					h.Case(func(r *rng.R) sexp.Node {
						return directCase(d, "", nil, one, func(a0 int) int {
							if a0 <= 0 {
								return []int{-1, 0, maxInt}[k]
							}
							return []int{-1, a0, a0 - 1}[k]
						})
					})
				}
			}
			if depth == maxDepth {
				return
			}
			for i := range alpha {
				rec(append(append([]int(nil), prefix...), i), depth+1)
			}
		}
		rec(nil, 0)

		// 3. random valid documents: fragments at several depths, variables, contexts, several operations
		n := 11000
		if h.Thorough() {
			n = 256000
		}
		for i := 0; i < n; i++ {
			h.Case(func(r *rng.R) sexp.Node {
				d := genDoc(r, false)
				return directCase(d, pickOpName(r, d), genVars(r, d, false), rng.Pick(r, defaultCosts), limits(r))
			})
		}

		// 4. hostile: invalid documents, uncoercible variables, negative costs
		n = 2400
		if h.Thorough() {
			n = 41000
		}
		for i := 0; i < n; i++ {
			h.Case(func(r *rng.R) sexp.Node {
				d := genDoc(r, r.Chance(1, 2))
				if r.Chance(2, 3) {
					mutate(r, d)
				}
				dc := rng.Pick(r, defaultCosts)
				if r.Chance(1, 10) {
					dc = graphql.FieldCost{Resolver: -1}
				}
				return directCase(d, pickOpName(r, d), genVars(r, d, true), dc, limits(r))
			})
		}

		// 5. connections with their default costs through apifu.API.ServeGraphQL
		dcs := []graphql.FieldCost{{}, {Resolver: 1}, {Resolver: 3, Multiplier: 2}}
		var apis []*apiUnderTest
		if h.Only < 0 || true {
			for _, dc := range dcs {
				apis = append(apis, buildAPI(dc))
			}
		}
		// 5a. a history on one graphql-ws connection: subscription (events cost A), another start message
		// (cost B), one more event: each execution's RequestInfo.Cost is its own operation's cost
		for _, ab := range [][2]int{{50, 1}, {3, 7}, {1, 0}, {2147483647, 2}} {
			ab := ab
			for k := 0; k < 3; k++ {
				k := k
				h.Case(func(r *rng.R) sexp.Node { return wsSubCase(ab[0], ab[1], k) })
			}
		}

		// 5b. systematic on the apifu routes: kind of variable x how the variables travel (no
		// "variables" key, null, {}, only unrelated, explicit null, value) x HTTP / graphql-ws / persisted query
		for _, k := range varKinds("x") {
			for _, last := range []bool{false, true} {
				d := apiVarDoc(k, last)
				for _, route := range []string{"apifu", "apifu-ws", "apifu-pq"} {
					route := route
					for _, shape := range []string{"absent", "null"} {
						shape := shape
						h.Case(func(r *rng.R) sexp.Node { return runAPI(d, nil, shape, route, apis[1], dcs[1]) })
					}
					for _, sh := range varShapes() {
						if sh.vars == nil {
							continue
						}
						sh := sh
						h.Case(func(r *rng.R) sexp.Node { return runAPI(d, sh.vars, "map", route, apis[1], dcs[1]) })
					}
				}
			}
		}

		n = 2400
		if h.Thorough() {
			n = 31000
		}
		for i := 0; i < n; i++ {
			h.Case(func(r *rng.R) sexp.Node { return apiCase(r, apis, dcs) })
		}
	})
}
