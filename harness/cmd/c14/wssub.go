// c14: a multi-step history on ONE graphql-ws connection: a subscription whose events cost A, then
// another operation costing B on the same connection, then one more event of the subscription.  The
// cost reported to Config.Execute (RequestInfo.Cost) for each execution must be that of ITS operation.
package main

import (
	"fmt"
	"net/http"
	"net/http/httptest"
	"strings"
	"sync"
	"time"

	"github.com/gorilla/websocket"

	apifu "github.com/ccbrown/api-fu"
	"github.com/ccbrown/api-fu/graphql"

	"verifharness/internal/sexp"
)

type wsExec struct {
	query string
	cost  int
}

// runs the history and returns the executions in order: event 1 of the subscription, the query, event 2
func wsSubHistory(a, b int) []wsExec {
	events := make(chan int)
	var mu sync.Mutex
	var execs []wsExec
	got := make(chan struct{}, 16)
	cfg := &apifu.Config{DefaultFieldCost: graphql.FieldCost{Resolver: b}}
	cfg.Execute = func(r *graphql.Request, info *apifu.RequestInfo) *graphql.Response {
		mu.Lock()
		execs = append(execs, wsExec{r.Query, info.Cost})
		mu.Unlock()
		got <- struct{}{}
		return graphql.Execute(r)
	}
	cfg.AddQueryField("foo", &graphql.FieldDefinition{Type: graphql.BooleanType,
		Resolve: func(ctx graphql.FieldContext) (interface{}, error) { return true, nil }})
	cfg.AddSubscription("ticks", &graphql.FieldDefinition{Type: graphql.NewNonNullType(graphql.IntType),
		Cost: graphql.FieldResolverCost(a),
		Resolve: func(ctx graphql.FieldContext) (interface{}, error) {
			if ctx.IsSubscribe {
				return &apifu.SubscriptionSourceStream{EventChannel: events, Stop: func() {}}, nil
			}
			return ctx.Object, nil
		}})
	api, err := apifu.NewAPI(cfg)
	if err != nil {
		panic(err)
	}
	srv := httptest.NewServer(http.HandlerFunc(api.ServeGraphQLWS))
	defer srv.Close()
	defer api.CloseHijackedConnections()
	conn, _, err := (&websocket.Dialer{Subprotocols: []string{"graphql-ws"}, HandshakeTimeout: 5 * time.Second}).Dial("ws"+strings.TrimPrefix(srv.URL, "http"), nil)
	if err != nil {
		panic(err)
	}
	defer conn.Close()
	conn.SetReadDeadline(time.Now().Add(10 * time.Second))
	send := func(m map[string]interface{}) {
		if err := conn.WriteJSON(m); err != nil {
			panic(err)
		}
	}
	waitExec := func() {
		select {
		case <-got:
		case <-time.After(5 * time.Second):
			panic("timed out waiting for an execution")
		}
	}
	waitData := func(id string) {
		for {
			var msg struct{ Type, Id string }
			if err := conn.ReadJSON(&msg); err != nil {
				panic(err)
			}
			if msg.Type == "data" && msg.Id == id {
				return
			}
		}
	}
	push := func(i int) {
		select {
		case events <- i:
		case <-time.After(5 * time.Second):
			panic("the subscription did not take the event")
		}
	}
	send(map[string]interface{}{"type": "connection_init", "payload": map[string]interface{}{}})
	send(map[string]interface{}{"id": "sub", "type": "start", "payload": map[string]interface{}{"query": "subscription {ticks}"}})
	push(1)
	waitExec()
	waitData("sub")
	send(map[string]interface{}{"id": "q", "type": "start", "payload": map[string]interface{}{"query": "{foo}"}})
	waitExec()
	waitData("q")
	push(2)
	waitExec()
	waitData("sub")
	mu.Lock()
	defer mu.Unlock()
	return append([]wsExec(nil), execs...)
}

// the k-th execution of the history as a case of route apifu-ws
func wsSubCase(a, b, k int) sexp.Node {
	var observed sexp.Node
	q := ""
	func() {
		defer func() {
			if e := recover(); e != nil {
				observed = sexp.Sym("panic")
			}
		}()
		ex := wsSubHistory(a, b)
		if k >= len(ex) {
			panic("missing execution")
		}
		q = ex[k].query
		observed = sexp.L(sexp.Int(0), actualSexp(ex[k].cost), sexp.Int(0), actualSexp(ex[k].cost))
	}()
	var body sexp.Node
	if k == 1 { // {foo}: OperationDefinition -> SelectionSet -> Field -> Name
		q = "{foo}"
		body = o(o(sexp.T("f", sexp.T("named", sexp.Str("Query.foo"), sexp.Sym("nocost")), o())))
	} else { // subscription {ticks}: OperationType, SelectionSet -> Field -> Name
		q = "subscription {ticks}"
		body = o(o(), o(sexp.T("f", sexp.T("named", sexp.Str("Subscription.ticks"), sexp.T("const", sexp.Int(a), sexp.Int(0))), o())))
	}
	ops := sexp.L(sexp.T("op", sexp.Sym("none"), sexp.L(), body, sexp.L()))
	assertShape(q, ops, sexp.L())
	return sexp.T("case", sexp.T("route", sexp.Sym("apifu-ws")),
		sexp.T("default", sexp.Int(b), sexp.Int(0)),
		sexp.T("table", tableSexp()), sexp.T("opname", sexp.Str("")), sexp.T("vars", sexp.L()),
		sexp.T("ops", ops), sexp.T("frags", sexp.L()), sexp.T("max", sexp.Int(-1)),
		sexp.T("conns", sexp.L()), sexp.T("observed", observed),
		sexp.T("history", sexp.Sym(fmt.Sprintf("ws-subscription-then-start-%d", k))), sexp.T("query", sexp.Str(q)))
}
