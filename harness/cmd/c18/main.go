// c18: persisted-query histories against the real PersistedQueryExtension, directly and through
// API.ServeGraphQL (POST json and GET), with a recording storage.
package main

import (
	"fmt"
	"bytes"
	"context"
	"crypto/sha256"
	"encoding/hex"
	"encoding/json"
	"net/http"
	"net/http/httptest"
	"net/url"
	"strings"

	apifu "github.com/ccbrown/api-fu"
	"github.com/ccbrown/api-fu/graphql"

	"verifharness/internal/hx"
	"verifharness/internal/rng"
	"verifharness/internal/sexp"
)

// ---- requests as the generator sees them ----

type req struct {
	Query   string
	ExtKind int         // 0 no extensions at all, 1 extensions without persistedQuery, 2 persistedQuery not an object, 3 object
	Version interface{} // nil = absent
	Hash    interface{} // nil = absent
}

// texts: valid documents, a layout variant with another digest, the empty text, an invalid one
// (round 2, after seeded change C18-4) and white-space-only texts, which are texts, not absent texts
// (round 4, after seeded change C18-11) a text with a leading byte order mark: a valid document whose
// digest is the digest of ALL its bytes
var texts = []string{"{a}", "{b}", " {a}", "{a b}", "", "garbage(", " ", "\n\t ", "\ufeff{a}"}
var valid = map[string]bool{"{a}": true, "{b}": true, " {a}": true, "{a b}": true, "\ufeff{a}": true}

func sha(t string) []byte { h := sha256.Sum256([]byte(t)); return h[:] }
func hexOf(t string) string { return hex.EncodeToString(sha(t)) }

// hash spellings for a text t
func spellings(t string) []interface{} {
	h := hexOf(t)
	return []interface{}{
		h, strings.ToUpper(h), h[:62], h + "00", h + "zz", h + "0", "z" + h[1:], h[:63] + "g",
		"", nil, 12345.0, " " + h, h[:32],
	}
}

func (r req) extensions() map[string]interface{} {
	switch r.ExtKind {
	case 0:
		return nil
	case 1:
		return map[string]interface{}{"other": map[string]interface{}{"version": 1.0}}
	case 2:
		return map[string]interface{}{"persistedQuery": "version=1"}
	}
	pq := map[string]interface{}{}
	if r.Version != nil {
		pq["version"] = r.Version
	}
	if r.Hash != nil {
		pq["sha256Hash"] = r.Hash
	}
	return map[string]interface{}{"persistedQuery": pq}
}

// abstraction to the model's request (mirrors Go's type assertions on the decoded JSON)
func (r req) sexp() sexp.Node {
	ext := sexp.Sym("none")
	if r.ExtKind == 3 {
		one := false
		switch v := r.Version.(type) {
		case float64:
			one = v == 1.0
		case int:
			one = v == 1
		}
		h, _ := r.Hash.(string)
		ext = sexp.T("v1", sexp.Bool(one), sexp.Str(h))
	}
	return sexp.T("req", sexp.Str(r.Query), ext)
}

// ---- recording storage: a plain map, "" when absent ----

// With writeBehind (round 4, after seeded change C18-10) the storage is still a map, but one that
// applies its writes late: PersistQuery keeps the (query, hash slice) pair as handed over and the
// map is brought up to date at the next lookup - a write-behind cache.  On code that hands the
// storage a digest of its own, this is indistinguishable from the eager map.
type storage struct {
	m           map[string]string
	calls       []sexp.Node
	writeBehind bool
	pending     []pendingPut
}

type pendingPut struct {
	query string
	hash  []byte
}

func (s *storage) flush() {
	for _, p := range s.pending {
		s.m[string(p.hash)] = p.query
	}
	s.pending = nil
}

func (s *storage) GetPersistedQuery(ctx context.Context, hash []byte) string {
	s.flush()
	s.calls = append(s.calls, sexp.T("get", sexp.Bytes(hash)))
	return s.m[string(hash)]
}
func (s *storage) PersistQuery(ctx context.Context, query string, hash []byte) {
	s.calls = append(s.calls, sexp.T("put", sexp.Str(query), sexp.Bytes(hash)))
	if s.writeBehind {
		s.pending = append(s.pending, pendingPut{query, hash})
		return
	}
	s.m[string(hash)] = query
}
func (s *storage) take() sexp.Node { c := s.calls; s.calls = nil; return sexp.L(c...) }

// ---- routes ----

func obs(action sexp.Node, calls sexp.Node) sexp.Node { return sexp.T("obs", action, calls) }

// extKey identifies the content of a request's extension map (requests with one key may share one map object)
func (r req) extKey() string { b, _ := json.Marshal(r.extensions()); return fmt.Sprintf("%d|%s", r.ExtKind, b) }

// runDirect drives PersistedQueryExtension directly.  With shared = true (round 2, after seeded change
// C18-9) requests of one history whose extensions have the same content hand the SAME map object to the
// function, as an application re-sending a prepared request would; the function must not change its
// caller's map (checked after every call against a copy: action "unexpected" if it did).
func runDirect(hist []req, shared bool, writeBehind bool) []sexp.Node {
	maps := map[string]map[string]interface{}{}
	st := &storage{m: map[string]string{}, writeBehind: writeBehind}
	var executed *string
	f := apifu.PersistedQueryExtension(st, func(r *graphql.Request) *graphql.Response {
		q := r.Query
		executed = &q
		return &graphql.Response{}
	})
	var out []sexp.Node
	for _, r := range hist {
		executed = nil
		ext := r.extensions()
		if shared && ext != nil {
			if m, ok := maps[r.extKey()]; ok {
				ext = m
			} else {
				maps[r.extKey()] = ext
			}
		}
		before, _ := json.Marshal(ext)
		in := &graphql.Request{Context: context.Background(), Query: r.Query, Extensions: ext}
		resp := f(in)
		after, _ := json.Marshal(ext)
		var a sexp.Node
		switch {
		case !bytes.Equal(before, after):
			a = sexp.T("unexpected") // the caller's extension map was modified
		case in.Query != r.Query || in.OperationName != "" || in.VariableValues != nil:
			// (round 4, after seeded change C18-12) the caller's request object was modified: a
			// caller that re-sends it with another hash would no longer send a hash-only request
			a = sexp.T("unexpected")
		case executed != nil:
			a = sexp.T("exec", sexp.Str(*executed))
		case len(resp.Errors) == 1 && resp.Errors[0].Message == "PersistedQueryNotFound":
			a = sexp.T("notfound")
		default:
			a = sexp.T("unexpected")
		}
		out = append(out, obs(a, st.take()))
	}
	return out
}

func newAPI(st *storage, executed **string) *apifu.API {
	cfg := &apifu.Config{PersistedQueryStorage: st}
	cfg.AddQueryField("a", &graphql.FieldDefinition{Type: graphql.IntType, Resolve: func(ctx graphql.FieldContext) (interface{}, error) { return 1, nil }})
	cfg.AddQueryField("b", &graphql.FieldDefinition{Type: graphql.IntType, Resolve: func(ctx graphql.FieldContext) (interface{}, error) { return 2, nil }})
	cfg.Execute = func(r *graphql.Request, info *apifu.RequestInfo) *graphql.Response {
		q := r.Query
		*executed = &q
		return graphql.Execute(r)
	}
	api, err := apifu.NewAPI(cfg)
	if err != nil {
		panic(err)
	}
	return api
}

// runHTTP: GET (everything in the URL), POST application/json (everything in the body), or - urlText,
// round 2 after seeded change C18-8 - POST application/json with the query TEXT in the URL (?query=) and
// only the extensions in the body.
func runHTTP(hist []req, get bool, urlText bool) []sexp.Node {
	st := &storage{m: map[string]string{}}
	var executed *string
	api := newAPI(st, &executed)
	var out []sexp.Node
	for _, r := range hist {
		executed = nil
		var hr *http.Request
		if get {
			v := url.Values{}
			if r.Query != "" {
				v.Set("query", r.Query)
			}
			if e := r.extensions(); e != nil {
				b, _ := json.Marshal(e)
				v.Set("extensions", string(b))
			}
			hr = httptest.NewRequest("GET", "/graphql?"+v.Encode(), nil)
		} else {
			body := map[string]interface{}{}
			target := "/graphql"
			if r.Query != "" {
				if urlText {
					target += "?" + url.Values{"query": {r.Query}}.Encode()
				} else {
					body["query"] = r.Query
				}
			}
			if e := r.extensions(); e != nil {
				body["extensions"] = e
			}
			b, _ := json.Marshal(body)
			hr = httptest.NewRequest("POST", target, bytes.NewReader(b))
			hr.Header.Set("Content-Type", "application/json")
		}
		w := httptest.NewRecorder()
		api.ServeGraphQL(w, hr)
		var resp struct {
			Data   interface{}
			Errors []struct{ Message string }
		}
		var a sexp.Node
		if w.Code != 200 || json.Unmarshal(w.Body.Bytes(), &resp) != nil {
			a = sexp.T("unexpected")
		} else if executed != nil {
			a = sexp.T("exec", sexp.Str(*executed))
		} else if len(resp.Errors) == 1 && resp.Errors[0].Message == "PersistedQueryNotFound" {
			a = sexp.T("notfound")
		} else if len(resp.Errors) > 0 {
			a = sexp.T("exec-error") // handed to parse/validate, which refused it
		} else {
			a = sexp.T("unexpected")
		}
		out = append(out, obs(a, st.take()))
	}
	return out
}

func caseOf(route string, hist []req) sexp.Node {
	var shas, hs []sexp.Node
	for _, t := range texts {
		shas = append(shas, sexp.L(sexp.Str(t), sexp.Bytes(sha(t)), sexp.Bool(valid[t])))
	}
	for _, r := range hist {
		hs = append(hs, r.sexp())
	}
	var o []sexp.Node
	switch route {
	case "direct":
		o = runDirect(hist, false, false)
	case "direct-shared":
		o = runDirect(hist, true, false)
	case "direct-wb":
		o = runDirect(hist, false, true)
	case "post":
		o = runHTTP(hist, false, false)
	case "post-url":
		o = runHTTP(hist, false, true)
	case "get":
		o = runHTTP(hist, true, false)
	}
	return sexp.T("case", sexp.T("route", sexp.Sym(route)), sexp.T("shas", sexp.L(shas...)),
		sexp.T("history", sexp.L(hs...)), sexp.T("observed", sexp.L(o...)))
}

// the request alphabet for exhaustive enumeration (kept small; the random stream uses everything)
func alphabet() []req {
	var a []req
	for _, t := range []string{"{a}", " {a}"} {
		a = append(a, req{Query: t})                                             // query only
		a = append(a, req{Query: t, ExtKind: 3, Version: 1.0, Hash: hexOf(t)})   // query + matching hash
		a = append(a, req{Query: t, ExtKind: 3, Version: 1.0, Hash: hexOf("{b}")}) // query + mismatching hash
		a = append(a, req{ExtKind: 3, Version: 1.0, Hash: hexOf(t)})             // hash only
		a = append(a, req{ExtKind: 3, Version: 1.0, Hash: strings.ToUpper(hexOf(t))})
		a = append(a, req{ExtKind: 3, Version: 1.0, Hash: hexOf(t) + "zz"})
		a = append(a, req{ExtKind: 3, Version: 1.0, Hash: hexOf(t) + "0"})
		a = append(a, req{ExtKind: 3, Version: 1.0, Hash: hexOf(t)[:62]})
		a = append(a, req{ExtKind: 3, Version: 2.0, Hash: hexOf(t)}) // wrong version
	}
	a = append(a, req{ExtKind: 3, Version: 1.0, Hash: hexOf("")})
	a = append(a, req{Query: " ", ExtKind: 3, Version: 1.0, Hash: hexOf("{a}")}) // white-space-only text + hash of a registered document
	a = append(a, req{Query: " ", ExtKind: 3, Version: 1.0, Hash: hexOf(" ")})
	a = append(a, req{Query: "\ufeff{a}", ExtKind: 3, Version: 1.0, Hash: hexOf("\ufeff{a}")}) // text with a leading BOM + its own digest
	a = append(a, req{ExtKind: 3, Version: 1.0, Hash: hexOf("\ufeff{a}")})
	a = append(a, req{ExtKind: 3, Version: 1.0})
	a = append(a, req{Query: "{a}", ExtKind: 2})
	a = append(a, req{ExtKind: 2})
	return a
}

func randomReq(r *rng.R) req {
	q := req{}
	if r.Chance(1, 2) {
		q.Query = rng.Pick(r, texts)
	}
	q.ExtKind = rng.Pick(r, []int{0, 1, 2, 3, 3, 3, 3, 3, 3, 3})
	if q.ExtKind == 3 {
		q.Version = rng.Pick(r, []interface{}{1.0, 1.0, 1.0, 1.0, 1.0, 1.0, 2.0, "1", nil, 1.5, true})
		q.Hash = rng.Pick(r, spellings(rng.Pick(r, texts)))
	}
	return q
}

func main() {
	hx.Main(func(h *hx.H) {
		routes := []string{"direct", "post", "get", "direct-shared", "post-url", "direct-wb"}
		alpha := alphabet()
		maxLen := 2
		if h.Thorough() {
			maxLen = 3
		}
		// all histories over the alphabet up to maxLen, through the direct route; length <= 2 through all routes
		var rec func(prefix []req, depth int)
		rec = func(prefix []req, depth int) {
			if len(prefix) > 0 {
				hist := append([]req(nil), prefix...)
				for _, route := range routes {
					if route != "direct" && route != "direct-shared" && route != "direct-wb" && len(hist) > 2 {
						continue
					}
					route := route
					h.Case(func(*rng.R) sexp.Node { return caseOf(route, hist) })
				}
			}
			if depth == maxLen {
				return
			}
			for _, x := range alpha {
				rec(append(prefix, x), depth+1)
			}
		}
		rec(nil, 0)
		// random longer histories over the full alphabet
		n := 1500
		if h.Thorough() {
			n = 30000
		}
		for i := 0; i < n; i++ {
			route := routes[i%len(routes)]
			h.Case(func(r *rng.R) sexp.Node {
				l := r.Range(2, 9)
				hist := make([]req, l)
				var registered []string
				for j := range hist {
					hist[j] = randomReq(r)
					// bias: half of the hash-only requests ask for something registered earlier
					if len(registered) > 0 && hist[j].Query == "" && r.Chance(1, 2) {
						t := rng.Pick(r, registered)
						hist[j] = req{ExtKind: 3, Version: 1.0, Hash: rng.Pick(r, spellings(t)[:5])}
					}
					if hist[j].Query != "" && hist[j].ExtKind == 3 && hist[j].Version == 1.0 {
						registered = append(registered, hist[j].Query)
					}
				}
				return caseOf(route, hist)
			})
		}
	})
}
