package main

// The APIs under test: one apifu.API per configuration
// (± PreprocessGraphQLSchemaDefinition, ± Features, ± DefaultFieldCost, ± Execute hook,
// ± PersistedQueryStorage), all over the same schema, with resolvers that log every call together
// with the Go dynamic types of the arguments they received.

import (
	"encoding/json"
	"context"
	"errors"
	"fmt"
	"math"
	"sort"
	"strings"
	"sync"

	apifu "github.com/ccbrown/api-fu"
	"github.com/ccbrown/api-fu/graphql"
)

type ctxKey int

const featKey ctxKey = 1

// operations costing more than this are refused by the Execute hook (configurations with a hook)
const costLimit = 40

// recorder is shared by all transports of one API; the harness drives one request at a time.
type recorder struct {
	mu        sync.Mutex
	resolvers []string
	hooks     []string
}

func (r *recorder) resolver(s string) {
	r.mu.Lock()
	r.resolvers = append(r.resolvers, s)
	r.mu.Unlock()
}

func (r *recorder) hook(s string) {
	r.mu.Lock()
	r.hooks = append(r.hooks, s)
	r.mu.Unlock()
}

func (r *recorder) take() (resolvers, hooks string) {
	r.mu.Lock()
	defer r.mu.Unlock()
	resolvers, hooks = strings.Join(r.resolvers, ";"), strings.Join(r.hooks, ";")
	r.resolvers, r.hooks = nil, nil
	return
}

type config struct {
	Clone, Features, Cost, Hook, PQ bool
}

func (c config) String() string {
	b := func(x bool) byte {
		if x {
			return '1'
		}
		return '0'
	}
	return string([]byte{b(c.Clone), b(c.Features), b(c.Cost), b(c.Hook), b(c.PQ)})
}

type mapStorage struct {
	mu sync.Mutex
	m  map[string]string
}

func (s *mapStorage) GetPersistedQuery(ctx context.Context, hash []byte) string {
	s.mu.Lock()
	defer s.mu.Unlock()
	return s.m[string(hash)]
}
func (s *mapStorage) PersistQuery(ctx context.Context, query string, hash []byte) {
	s.mu.Lock()
	defer s.mu.Unlock()
	s.m[string(hash)] = query
}

type obj struct{ depth int }

const sentinelQuery = "{__typename #sentinel\n}"

func argsDump(ctx graphql.FieldContext) string {
	keys := make([]string, 0, len(ctx.Arguments))
	for k := range ctx.Arguments {
		keys = append(keys, k)
	}
	sort.Strings(keys)
	parts := make([]string, len(keys))
	for i, k := range keys {
		parts[i] = k + "=" + dumpGo(ctx.Arguments[k])
	}
	return strings.Join(parts, ",")
}

func featuresDump(f graphql.FeatureSet) string {
	keys := make([]string, 0, len(f))
	for k := range f {
		keys = append(keys, k)
	}
	sort.Strings(keys)
	return strings.Join(keys, "+")
}

var sharedColor = &graphql.EnumType{
	Name: "Color",
	Values: map[string]*graphql.EnumValueDefinition{
		"RED": {Value: "red"}, "GREEN": {Value: "green"}, "BLUE": {Value: "blue"},
	},
}

var sharedInp = func() *graphql.InputObjectType {
	inp := &graphql.InputObjectType{Name: "Inp"}
	inp.Fields = map[string]*graphql.InputValueDefinition{
		"i":      {Type: graphql.IntType},
		"f":      {Type: graphql.FloatType, DefaultValue: 1.5},
		"s":      {Type: graphql.StringType},
		"b":      {Type: graphql.BooleanType},
		"id":     {Type: graphql.IDType},
		"e":      {Type: sharedColor},
		"es":     {Type: graphql.NewListType(graphql.NewNonNullType(sharedColor))},
		"l":      {Type: graphql.NewListType(graphql.IntType)},
		"nested": {Type: inp},
	}
	inp.ResultCoercion = func(v interface{}) (map[string]interface{}, error) {
		m, _ := v.(map[string]interface{})
		return m, nil
	}
	return inp
}()

var sharedColorList = graphql.NewListType(graphql.NewNonNullType(sharedColor))

func newAPI(c config, rec *recorder) *apifu.API {
	cfg := &apifu.Config{}
	logged := func(name string, f func(ctx graphql.FieldContext) (interface{}, error)) func(ctx graphql.FieldContext) (interface{}, error) {
		return func(ctx graphql.FieldContext) (interface{}, error) {
			rec.resolver(name + "(" + argsDump(ctx) + ")[" + featuresDump(ctx.Features) + "]")
			return f(ctx)
		}
	}
	echo := func(name string, t graphql.Type) {
		cfg.AddQueryField(name, &graphql.FieldDefinition{
			Type:      t,
			Arguments: map[string]*graphql.InputValueDefinition{"x": {Type: t}},
			Resolve:   logged(name, func(ctx graphql.FieldContext) (interface{}, error) { return ctx.Arguments["x"], nil }),
		})
	}
	// the enum, the input object and the wrapper types around them are package-level values shared
	// by every API of the run (the usual way type definitions are written), so that an API built
	// through the clone path and one built directly start from the very same definitions
	color, inp := sharedColor, sharedInp
	objType := &graphql.ObjectType{Name: "Obj"}
	objType.Fields = map[string]*graphql.FieldDefinition{
		"a":      {Type: graphql.IntType, Resolve: logged("Obj.a", func(ctx graphql.FieldContext) (interface{}, error) { return ctx.Object.(*obj).depth, nil })},
		"fail":   {Type: graphql.IntType, Resolve: logged("Obj.fail", func(ctx graphql.FieldContext) (interface{}, error) { return nil, errors.New("obj failure") })},
		"failNN": {Type: graphql.NewNonNullType(graphql.IntType), Resolve: logged("Obj.failNN", func(ctx graphql.FieldContext) (interface{}, error) { return nil, errors.New("obj non-null failure") })},
		"child": {Type: objType, Cost: graphql.FieldResolverCost(2), Resolve: logged("Obj.child", func(ctx graphql.FieldContext) (interface{}, error) {
			return &obj{depth: ctx.Object.(*obj).depth + 1}, nil
		})},
		"s": {Type: graphql.StringType, Arguments: map[string]*graphql.InputValueDefinition{"x": {Type: graphql.StringType, DefaultValue: "dflt"}},
			Resolve: logged("Obj.s", func(ctx graphql.FieldContext) (interface{}, error) { return ctx.Arguments["x"], nil })},
	}

	echo("echoInt", graphql.IntType)
	echo("echoFloat", graphql.FloatType)
	echo("echoString", graphql.StringType)
	echo("echoBool", graphql.BooleanType)
	echo("echoID", graphql.IDType)
	echo("echoEnum", color)
	cfg.AddQueryField("echoList", &graphql.FieldDefinition{
		Type:      graphql.NewListType(graphql.IntType),
		Arguments: map[string]*graphql.InputValueDefinition{"x": {Type: graphql.NewListType(graphql.NewNonNullType(graphql.IntType))}},
		Resolve:   logged("echoList", func(ctx graphql.FieldContext) (interface{}, error) { return ctx.Arguments["x"], nil }),
	})
	cfg.AddQueryField("echoEnums", &graphql.FieldDefinition{
		Type:      sharedColorList,
		Arguments: map[string]*graphql.InputValueDefinition{"x": {Type: sharedColorList}},
		Resolve:   logged("echoEnums", func(ctx graphql.FieldContext) (interface{}, error) { return ctx.Arguments["x"], nil }),
	})
	cfg.AddQueryField("echoInput", &graphql.FieldDefinition{
		Type:      graphql.StringType,
		Arguments: map[string]*graphql.InputValueDefinition{"x": {Type: inp}},
		Resolve: logged("echoInput", func(ctx graphql.FieldContext) (interface{}, error) {
			if ctx.Arguments["x"] == nil {
				return nil, nil
			}
			return dumpGo(ctx.Arguments["x"]), nil
		}),
	})
	cfg.AddQueryField("sum", &graphql.FieldDefinition{
		Type:      graphql.FloatType,
		Arguments: map[string]*graphql.InputValueDefinition{"xs": {Type: graphql.NewNonNullType(graphql.NewListType(graphql.NewNonNullType(graphql.FloatType)))}},
		Resolve: logged("sum", func(ctx graphql.FieldContext) (interface{}, error) {
			s := 0.0
			for _, x := range ctx.Arguments["xs"].([]interface{}) {
				s += x.(float64)
			}
			if math.IsInf(s, 0) || math.IsNaN(s) {
				// a non-finite Float does not marshal (HTTP 500 / no data frame): C03's subject, not C17's
				return nil, errors.New("sum overflows")
			}
			return s, nil
		}),
	})
	cfg.AddQueryField("fail", &graphql.FieldDefinition{Type: graphql.IntType,
		Resolve: logged("fail", func(ctx graphql.FieldContext) (interface{}, error) { return nil, errors.New("root failure") })})
	cfg.AddQueryField("obj", &graphql.FieldDefinition{Type: objType,
		Resolve: logged("obj", func(ctx graphql.FieldContext) (interface{}, error) { return &obj{}, nil })})
	cfg.AddQueryField("objs", &graphql.FieldDefinition{
		Type:      graphql.NewListType(objType),
		Arguments: map[string]*graphql.InputValueDefinition{"n": {Type: graphql.IntType, DefaultValue: 2}},
		Cost: func(ctx graphql.FieldCostContext) graphql.FieldCost {
			n, _ := ctx.Arguments["n"].(int)
			if n < 0 || n > 1000 {
				n = 1000
			}
			return graphql.FieldCost{Resolver: 3, Multiplier: n}
		},
		Resolve: logged("objs", func(ctx graphql.FieldContext) (interface{}, error) {
			n, _ := ctx.Arguments["n"].(int)
			if n < 0 || n > 4 {
				return nil, fmt.Errorf("n out of range")
			}
			out := make([]interface{}, n)
			for i := range out {
				out[i] = &obj{depth: 10 * i}
			}
			return out, nil
		}),
	})
	cfg.AddQueryField("gated", &graphql.FieldDefinition{Type: graphql.IntType, RequiredFeatures: graphql.NewFeatureSet("beta"),
		Resolve: logged("gated", func(ctx graphql.FieldContext) (interface{}, error) { return 42, nil })})

	cfg.AddMutation("bump", &graphql.FieldDefinition{
		Type:      graphql.IntType,
		Arguments: map[string]*graphql.InputValueDefinition{"by": {Type: graphql.NewNonNullType(graphql.IntType)}},
		Resolve:   logged("bump", func(ctx graphql.FieldContext) (interface{}, error) { return 2 * ctx.Arguments["by"].(int), nil }),
	})
	cfg.AddMutation("setS", &graphql.FieldDefinition{
		Type:      graphql.StringType,
		Arguments: map[string]*graphql.InputValueDefinition{"s": {Type: graphql.StringType}},
		Resolve:   logged("setS", func(ctx graphql.FieldContext) (interface{}, error) { return ctx.Arguments["s"], nil }),
	})

	cfg.AddSubscription("ticks", &graphql.FieldDefinition{
		Type:      graphql.IntType,
		Arguments: map[string]*graphql.InputValueDefinition{"n": {Type: graphql.IntType, DefaultValue: 2}},
		Resolve: logged("ticks", func(ctx graphql.FieldContext) (interface{}, error) {
			if ctx.IsSubscribe {
				n, _ := ctx.Arguments["n"].(int)
				if n < 0 || n > 3 {
					return nil, fmt.Errorf("n out of range")
				}
				ch := make(chan int, n)
				for i := 1; i <= n; i++ {
					ch <- i
				}
				close(ch)
				return &apifu.SubscriptionSourceStream{EventChannel: ch, Stop: func() {}}, nil
			} else if ctx.Object != nil {
				return ctx.Object, nil
			}
			return nil, fmt.Errorf("subscriptions are not supported using this protocol")
		}),
	})

	// a subscription that stays active: one event, then nothing until it is stopped
	cfg.AddSubscription("hold", &graphql.FieldDefinition{
		Type: graphql.IntType,
		Resolve: logged("hold", func(ctx graphql.FieldContext) (interface{}, error) {
			if ctx.IsSubscribe {
				ch := make(chan int, 1)
				ch <- 1
				return &apifu.SubscriptionSourceStream{EventChannel: ch, Stop: func() {}}, nil
			} else if ctx.Object != nil {
				return ctx.Object, nil
			}
			return nil, fmt.Errorf("subscriptions are not supported using this protocol")
		}),
	})

	if c.Features {
		cfg.Features = func(ctx context.Context) graphql.FeatureSet {
			if on, _ := ctx.Value(featKey).(bool); on {
				return graphql.NewFeatureSet("beta")
			}
			return graphql.NewFeatureSet()
		}
	}
	// the principal of a socket connection arrives in the connection_init payload ({"plan":"beta"})
	// and is installed into the connection's context by this hook; Config.Features reads it from
	// there (over HTTP the harness's middleware installs it from the X-Plan header)
	cfg.HandleGraphQLWSInit = func(ctx context.Context, parameters json.RawMessage) (context.Context, error) {
		var p struct {
			Plan string `json:"plan"`
		}
		if len(parameters) > 0 {
			if err := json.Unmarshal(parameters, &p); err != nil {
				return nil, err
			}
		}
		if p.Plan == "deny" {
			return nil, errors.New("unknown principal")
		}
		return context.WithValue(ctx, featKey, p.Plan == "beta"), nil
	}
	if c.Cost {
		cfg.DefaultFieldCost = graphql.FieldCost{Resolver: 1}
	}
	if c.Hook {
		cfg.Execute = func(r *graphql.Request, info *apifu.RequestInfo) *graphql.Response {
			if r.Query != sentinelQuery {
				rec.hook(fmt.Sprintf("q=%q n=%q v=%s f=[%s] cost=%d doc=%v", r.Query, r.OperationName,
					dumpGo(map[string]interface{}(r.VariableValues)), featuresDump(r.Features), info.Cost, r.Document != nil))
			}
			if info.Cost > costLimit {
				// a cost limit, the way an application enforces one through Config.Execute
				return &graphql.Response{Errors: []*graphql.Error{{Message: "cost limit exceeded"}}}
			}
			return graphql.Execute(r)
		}
	}
	if c.PQ {
		cfg.PersistedQueryStorage = &mapStorage{m: map[string]string{}}
	}
	if c.Clone {
		// the documented use: last-minute modifications on a clone of the schema definition
		cfg.PreprocessGraphQLSchemaDefinition = func(def *graphql.SchemaDefinition) error {
			def.Query.Description = "injected documentation"
			if f := def.Query.Fields["echoInt"]; f != nil {
				f.Description = "injected"
			}
			return nil
		}
	}
	api, err := apifu.NewAPI(cfg)
	if err != nil {
		panic(err)
	}
	return api
}
