package main

// The harness's own JSON value trees.  Every JSON text the implementation is asked to parse is
// produced from such a tree by render (or is a deliberately malformed text), so the "parsed
// envelope" handed to the Coq model comes from the generator, not from encoding/json or jsoniter.

import (
	"bytes"
	"encoding/json"
	"fmt"
	"io"
	"math"
	"sort"
	"strconv"
	"strings"

	"verifharness/internal/sexp"
)

type kv struct {
	K string
	V *J
}

// J is a JSON value.  Numbers keep the exact token that is sent.
type J struct {
	Kind byte // 'z' null, 'b' bool, 'n' number, 's' string, 'a' array, 'o' object
	B    bool
	Num  string
	S    string
	A    []*J
	O    []kv
}

func jnull() *J           { return &J{Kind: 'z'} }
func jbool(b bool) *J     { return &J{Kind: 'b', B: b} }
func jnum(tok string) *J  { return &J{Kind: 'n', Num: tok} }
func jstr(s string) *J    { return &J{Kind: 's', S: s} }
func jarr(xs ...*J) *J    { return &J{Kind: 'a', A: xs} }
func jobj(kvs ...kv) *J   { return &J{Kind: 'o', O: kvs} }
func (j *J) isNull() bool { return j == nil || j.Kind == 'z' }

// render styles
const (
	styleCompact = iota
	styleSpaced  // whitespace between all tokens
	styleEscaped // every non-ASCII and some ASCII characters as \uXXXX escapes
)

func renderString(b *strings.Builder, s string, style int) {
	b.WriteByte('"')
	for _, r := range s {
		switch {
		case r == '"':
			b.WriteString(`\"`)
		case r == '\\':
			b.WriteString(`\\`)
		case r == '\n' && style != styleEscaped:
			b.WriteString(`\n`)
		case r == '\t' && style != styleEscaped:
			b.WriteString(`\t`)
		case r < 0x20 || r == 0x7f:
			fmt.Fprintf(b, `\u%04x`, r)
		case style == styleEscaped && (r > 0x7e || r == '/' || r == 'e'):
			if r > 0xffff {
				r -= 0x10000
				fmt.Fprintf(b, `\u%04x\u%04x`, 0xd800+(r>>10), 0xdc00+(r&0x3ff))
			} else {
				fmt.Fprintf(b, `\u%04X`, r)
			}
		default:
			b.WriteRune(r)
		}
	}
	b.WriteByte('"')
}

func (j *J) render(b *strings.Builder, style int) {
	sp := ""
	if style == styleSpaced {
		sp = " "
	}
	switch j.Kind {
	case 'z':
		b.WriteString("null")
	case 'b':
		if j.B {
			b.WriteString("true")
		} else {
			b.WriteString("false")
		}
	case 'n':
		b.WriteString(j.Num)
	case 's':
		renderString(b, j.S, style)
	case 'a':
		b.WriteString("[" + sp)
		for i, x := range j.A {
			if i > 0 {
				b.WriteString(sp + "," + sp)
			}
			x.render(b, style)
		}
		b.WriteString(sp + "]")
	case 'o':
		b.WriteString("{" + sp)
		for i, e := range j.O {
			if i > 0 {
				b.WriteString(sp + "," + sp)
			}
			renderString(b, e.K, style)
			b.WriteString(sp + ":" + sp)
			e.V.render(b, style)
		}
		b.WriteString(sp + "}")
	}
}

func (j *J) text(style int) string {
	var b strings.Builder
	if style == styleSpaced {
		b.WriteString(" \n")
	}
	j.render(&b, style)
	if style == styleSpaced {
		b.WriteString("\t\r\n ")
	}
	return b.String()
}

// sexp of a tree as the model's [json]: null | (b true) | (n bits) | nr | (s "..") | (a ..) | (o ("k" v) ..)
func (j *J) sexp() sexp.Node {
	switch j.Kind {
	case 'z':
		return sexp.Sym("null")
	case 'b':
		return sexp.T("b", sexp.Bool(j.B))
	case 'n':
		f, err := strconv.ParseFloat(j.Num, 64)
		if err != nil || math.IsInf(f, 0) {
			return sexp.Sym("nr") // a number token outside the float64 range
		}
		return sexp.T("n", sexp.Uint64(math.Float64bits(f)))
	case 's':
		return sexp.T("s", sexp.Str(j.S))
	case 'a':
		items := make([]sexp.Node, 0, len(j.A)+1)
		items = append(items, sexp.Sym("a"))
		for _, x := range j.A {
			items = append(items, x.sexp())
		}
		return sexp.L(items...)
	default:
		items := make([]sexp.Node, 0, len(j.O)+1)
		items = append(items, sexp.Sym("o"))
		for _, e := range j.O {
			items = append(items, sexp.L(sexp.Str(e.K), e.V.sexp()))
		}
		return sexp.L(items...)
	}
}

// goValueSexp abstracts a value decoded by the implementation (encoding/json or jsoniter into
// interface{}) to the same [json] representation: maps with sorted keys, float64 as its bits.
func goValueSexp(v interface{}) sexp.Node {
	switch x := v.(type) {
	case nil:
		return sexp.Sym("null")
	case bool:
		return sexp.T("b", sexp.Bool(x))
	case float64:
		return sexp.T("n", sexp.Uint64(math.Float64bits(x)))
	case string:
		return sexp.T("s", sexp.Str(x))
	case []interface{}:
		items := []sexp.Node{sexp.Sym("a")}
		for _, e := range x {
			items = append(items, goValueSexp(e))
		}
		return sexp.L(items...)
	case map[string]interface{}:
		return goMapSexp(x)
	default:
		return sexp.T("other", sexp.Str(fmt.Sprintf("%T", v)))
	}
}

func goMapSexp(m map[string]interface{}) sexp.Node {
	keys := make([]string, 0, len(m))
	for k := range m {
		keys = append(keys, k)
	}
	sort.Strings(keys)
	items := []sexp.Node{sexp.Sym("o")}
	for _, k := range keys {
		items = append(items, sexp.L(sexp.Str(k), goValueSexp(m[k])))
	}
	return sexp.L(items...)
}

// optional map: (none) for a nil map, (some (o ..)) otherwise
func goOptMapSexp(m map[string]interface{}) sexp.Node {
	if m == nil {
		return sexp.None()
	}
	return sexp.Some(goMapSexp(m))
}

// dumpGo prints a coerced Go value with its dynamic types (what a resolver sees): used in the
// resolver call log, so that number typing differences between transports become visible.
func dumpGo(v interface{}) string {
	switch x := v.(type) {
	case nil:
		return "nil"
	case bool:
		return fmt.Sprintf("bool:%v", x)
	case int:
		return fmt.Sprintf("int:%d", x)
	case float64:
		return fmt.Sprintf("float64:%016x", math.Float64bits(x))
	case string:
		return fmt.Sprintf("string:%q", x)
	case []interface{}:
		parts := make([]string, len(x))
		for i, e := range x {
			parts[i] = dumpGo(e)
		}
		return "[" + strings.Join(parts, ",") + "]"
	case map[string]interface{}:
		keys := make([]string, 0, len(x))
		for k := range x {
			keys = append(keys, k)
		}
		sort.Strings(keys)
		parts := make([]string, len(keys))
		for i, k := range keys {
			parts[i] = k + "=" + dumpGo(x[k])
		}
		return "{" + strings.Join(parts, ",") + "}"
	default:
		return fmt.Sprintf("%T:%v", v, v)
	}
}

// ---- canonical form of a GraphQL response ----
//
// data: verbatim, object key order kept, number tokens kept; errors: projected to message,
// locations, path and sorted (the order of independent errors is not part of the property).

type ord struct { // an order-preserving JSON value read back from the implementation
	tok  json.Token // for scalars (json.Number for numbers)
	arr  []*ord
	keys []string
	vals []*ord
	kind byte // 'v' scalar, 'a', 'o'
}

func readOrd(dec *json.Decoder) (*ord, error) {
	t, err := dec.Token()
	if err != nil {
		return nil, err
	}
	if d, ok := t.(json.Delim); ok {
		switch d {
		case '[':
			o := &ord{kind: 'a'}
			for dec.More() {
				x, err := readOrd(dec)
				if err != nil {
					return nil, err
				}
				o.arr = append(o.arr, x)
			}
			_, err := dec.Token()
			return o, err
		case '{':
			o := &ord{kind: 'o'}
			for dec.More() {
				k, err := dec.Token()
				if err != nil {
					return nil, err
				}
				x, err := readOrd(dec)
				if err != nil {
					return nil, err
				}
				o.keys = append(o.keys, k.(string))
				o.vals = append(o.vals, x)
			}
			_, err := dec.Token()
			return o, err
		}
		return nil, fmt.Errorf("unexpected delimiter")
	}
	return &ord{kind: 'v', tok: t}, nil
}

func (o *ord) write(b *bytes.Buffer) {
	switch o.kind {
	case 'v':
		switch x := o.tok.(type) {
		case nil:
			b.WriteString("null")
		case bool:
			fmt.Fprintf(b, "%v", x)
		case json.Number:
			b.WriteString(string(x))
		case string:
			b.WriteString(strconv.QuoteToASCII(x))
		}
	case 'a':
		b.WriteByte('[')
		for i, x := range o.arr {
			if i > 0 {
				b.WriteByte(',')
			}
			x.write(b)
		}
		b.WriteByte(']')
	case 'o':
		b.WriteByte('{')
		for i, k := range o.keys {
			if i > 0 {
				b.WriteByte(',')
			}
			b.WriteString(strconv.QuoteToASCII(k))
			b.WriteByte(':')
			o.vals[i].write(b)
		}
		b.WriteByte('}')
	}
}

func (o *ord) get(k string) *ord {
	if o == nil || o.kind != 'o' {
		return nil
	}
	for i, x := range o.keys {
		if x == k {
			return o.vals[i]
		}
	}
	return nil
}

// canonResponse returns the canonical text of a response body, or ok=false when it is not a JSON
// object followed by nothing.
func canonResponse(body []byte) (string, bool) {
	dec := json.NewDecoder(bytes.NewReader(body))
	dec.UseNumber()
	o, err := readOrd(dec)
	if err != nil || o.kind != 'o' {
		return "", false
	}
	if _, err := dec.Token(); err != io.EOF {
		return "", false
	}
	var b bytes.Buffer
	b.WriteString("{")
	first := true
	for i, k := range o.keys {
		if k == "errors" {
			continue
		}
		if !first {
			b.WriteByte(',')
		}
		first = false
		b.WriteString(strconv.QuoteToASCII(k))
		b.WriteByte(':')
		o.vals[i].write(&b)
	}
	if errs := o.get("errors"); errs != nil {
		var items []string
		if errs.kind == 'a' {
			for _, e := range errs.arr {
				var eb bytes.Buffer
				eb.WriteString("{")
				for j, k := range []string{"message", "locations", "path"} {
					if j > 0 {
						eb.WriteByte(',')
					}
					eb.WriteString(strconv.Quote(k) + ":")
					if x := e.get(k); x != nil {
						x.write(&eb)
					} else {
						eb.WriteString("absent")
					}
				}
				eb.WriteString("}")
				items = append(items, eb.String())
			}
		} else {
			items = append(items, "not-a-list")
		}
		sort.Strings(items)
		if !first {
			b.WriteByte(',')
		}
		b.WriteString(`"errors":[` + strings.Join(items, ",") + "]")
	}
	b.WriteString("}")
	return b.String(), true
}
