package main

// Raw JSON texts: envelopes written byte by byte rather than rendered from a value tree, aimed at
// the text layer of the two JSON libraries (invalid UTF-8, surrogate escapes, member names beyond
// ASCII, escapes in member names, number spellings, nesting, white space that is not JSON white
// space, truncated escapes ...).  The model parses these bytes itself (coq/Transport/JsonText.v);
// no value tree is supplied for them.

import (
	"encoding/json"
	"strings"

	"verifharness/internal/rng"
)

type rawText struct {
	Label string
	Text  string
}

// the canonical body of o with the closing quote of the query string replaced by tail + quote,
// and "variables" / "operationName" spelled by the given member names
func rawBody(o *opReq, queryTail, varsName, opName string) string {
	q := quoteJSON(o.Query)
	parts := []string{`"query":` + q[:len(q)-1] + queryTail + `"`}
	if o.Vars != nil {
		parts = append(parts, `"`+varsName+`":`+o.Vars.text(styleCompact))
	}
	if o.OpName != "" {
		parts = append(parts, `"`+opName+`":`+quoteJSON(o.OpName))
	}
	return "{" + strings.Join(parts, ",") + "}"
}

const echoStringQ = `"query":"query Q($s: String) { echoString(x: $s) }"`

// nestFull: the nesting-limit texts at their real size (9999 / 10000 arrays inside the body object, 20 kB
// each).  They cost the extracted model seconds per parse, so the real size is used only by the two
// dedicated cases of the thorough tier (each text once per transport); everywhere else the two kinds
// are 1/50 of the size (plain deep nesting, far from the limit).
var nestFull = false

func rawTexts(o *opReq) []rawText {
	deep := strings.Repeat("[", 40) + "1" + strings.Repeat("]", 40)
	gt := bodyObj(o, true).text(styleCompact)
	return []rawText{
		// ---- texts encoding/json accepts ----
		{"utf8-invalid-query", rawBody(o, " #\xff\xc0\xaf\xed\xa0\x80\xe2\x82\xf4\x90\x80\x80\xe2\x82\xac", "variables", "operationName")},
		{"utf8-invalid-var", "{" + echoStringQ + `,"variables":{"s":"a` + "\xff" + `b` + "\xf0\x9f" + `","k` + "\xfe" + `":1}}`},
		{"surrogates-query", rawBody(o, ` #\ud800 \udc00 \ud83d\ude00 \uD83D\uDE00 \ud800\ud800\udc00 \udc00\ud800\udc00 \ud800\u0041 \udbff\udfff \ud800`, "variables", "operationName")},
		{"surrogates-var", "{" + echoStringQ + `,"variables":{"s":"\ud800\ud800\udc00x\udfff\ud83d\ude00\ud800\n"}}`},
		{"name-long-s", rawBody(o, "", "variable\u017f", "operationName")},
		{"name-long-s-escaped", "{" + echoStringQ + `,"variable\u017f":{"s":"v"},"extension\u017F":{"e":1}}`},
		{"name-dotted-i", rawBody(o, "", "var\u0130ables", "operat\u0130onName")},
		{"name-kelvin", "{" + echoStringQ + `,"variables":{"s":"v"},"` + "\u212a" + `":1,"\u212A":{"x":[1e400]}}`},
		{"name-escaped", strings.Replace(strings.Replace(rawBody(o, "", `\u0076ariable\u0073`, `operation\u004eame`), `"query"`, `"qu\u0065ry"`, 1), `\u004e`, `\u004E`, 1)},
		{"escapes", rawBody(o, ` #\/\b\f\t\u0000\u007f\u00e9\u20AC\"\\`, "variables", "operationName")},
		{"null-body", rng.Pick(rng.New(uint64(len(o.Query))), []string{"null", " null\n", "\tnull "})},
		{"deep", "{" + echoStringQ + `,"variables":{"s":"d","unused":` + deep + `},"extra":{"a":{"b":{"c":` + deep + `}}}}`},
		{"number-spellings", `{"query":"query Q($f: Float, $g: Float, $h: Float) { echoFloat(x: $f) a: echoFloat(x: $g) b: echoFloat(x: $h) }","variables":{"f":1E+2,"g":-0.0e-0,"h":0.5E-1,"i":123456789012345678901234567890,"j":1.7976931348623157e308,"k":4.9e-324,"l":2.2250738585072011e-308,"m":-0,"n":10.0e00}}`},
		{"inner-space", "{\n\t\"query\"\r:\n" + quoteJSON(o.Query) + "\t,\"variables\" : { \"s\" : [ ] , \"t\":{ } } }\r\n"},
		{"empty-object", rng.Pick(rng.New(uint64(len(o.OpName))), []string{"{}", "{ }", " {\n}\t"})},
		{"dup-null-then-value", `{"query":null,"variables":null,"query":` + quoteJSON(o.Query) + `,"variables":{"s":"n"},"variables":{"t":1},"operationName":` + quoteJSON(o.OpName) + `}`},
		// ---- texts encoding/json rejects ----
		{"bad-hex", rawBody(o, ` #\u12G4`, "variables", "operationName")},
		{"bad-hex-after-surrogate", rawBody(o, ` #\ud800\u12`, "variables", "operationName")},
		{"short-hex", rawBody(o, ` #\u12`, "variables", "operationName")},
		{"escape-at-end", `{"query":"{a}\`},
		{"bad-escape-x", rawBody(o, ` #\x41`, "variables", "operationName")},
		{"del-is-fine-nul-is-not", rawBody(o, " #\x7f\x00", "variables", "operationName")},
		{"number-dot-end", "{" + echoStringQ + `,"variables":{"i":1.}}`},
		{"number-dot-start", "{" + echoStringQ + `,"variables":{"i":.5}}`},
		{"number-exp-empty", "{" + echoStringQ + `,"variables":{"i":1e}}`},
		{"number-exp-sign-only", "{" + echoStringQ + `,"variables":{"i":1e+}}`},
		{"number-minus", "{" + echoStringQ + `,"variables":{"i":-}}`},
		{"number-dot-exp", "{" + echoStringQ + `,"variables":{"i":1.e5}}`},
		{"number-hex", "{" + echoStringQ + `,"variables":{"i":0x10}}`},
		{"number-two-dots", "{" + echoStringQ + `,"unread":1.5.3}`},
		{"number-minus-minus", "{" + echoStringQ + `,"unread":--1}`},
		{"literal-short", "{" + echoStringQ + `,"unread":tru}`},
		{"literal-long", "{" + echoStringQ + `,"unread":nulll}`},
		{"literal-case", "{" + echoStringQ + `,"unread":True}`},
		{"array-trailing-comma", "{" + echoStringQ + `,"unread":[1,]}`},
		{"array-leading-comma", "{" + echoStringQ + `,"unread":[,1]}`},
		{"array-unclosed", "{" + echoStringQ + `,"unread":[1}`},
		{"member-no-colon", "{" + echoStringQ + `,"unread" 1}`},
		{"member-no-value", "{" + echoStringQ + `,"unread":}`},
		{"member-only-comma", `{,}`},
		{"member-unquoted", "{" + echoStringQ + `,unread:1}`},
		{"member-number-name", "{" + echoStringQ + `,1:1}`},
		{"member-null-name", "{" + echoStringQ + `,null:1}`},
		{"space-vt", "{\x0b" + echoStringQ + "}"},
		{"space-ff", "{" + echoStringQ + "\x0c}"},
		{"space-nbsp", "{\u00a0" + echoStringQ + "}"},
		{"space-bom-inside", "{\ufeff" + echoStringQ + "}"},
		{"wrong-closer", `{"query":"{a}"]`},
		{"lone-quote", `"`},
		{"nul-after", gt + "\x00"},
		{"comment", gt + " // c"},
		// ---- the nesting limit of the library: 10000 open arrays / objects (the body object is one) ----
		{"nest-at-limit", "{" + echoStringQ + `,"unread":` + strings.Repeat("[", nestN(9999)) + strings.Repeat("]", nestN(9999)) + "}"},
		{"nest-over-limit", "{" + echoStringQ + `,"unread":` + strings.Repeat("[", nestN(10000)) + strings.Repeat("]", nestN(10000)) + "}"},
	}
}

const nRawKinds = 53

// one raw text as a POST application/json body or as a start / subscribe payload
func rawSub(o *opReq, kind int, r *rng.R, id func() string) *submission {
	choice := r.Intn(3)
	if o.Sub && choice == 0 {
		choice = 1
	}
	return rawSubOn(o, kind, choice, id)
}

func rawSubOn(o *opReq, kind int, choice int, id func() string) *submission {
	rts := rawTexts(o)
	if len(rts) != nRawKinds {
		panic("harness bug: nRawKinds")
	}
	rt := rts[kind]
	valid := json.Valid([]byte(rt.Text))
	role := "other"
	if !valid {
		role = "malformed"
	}
	switch choice {
	case 0:
		return &submission{Transport: "post-json", Role: role, Label: "raw-" + rt.Label, HTTP: &httpEnv{Method: "POST", ContentType: "application/json", Body: rt.Text}}
	default:
		proto := "gws"
		if choice == 2 {
			proto = "tws"
		}
		i := id()
		text := rt.Text
		raw := frameText("itp", startType(proto), i, &text)
		if !json.Valid([]byte(raw)) {
			// the payload is part of the frame: the frame is not a deserialisable message (the
			// harness's opinion; the model splits the frame text itself)
			return &submission{Transport: proto, Role: role, Label: "raw-" + rt.Label, WS: &wsEnv{Proto: proto, Bad: true, ID: i, Raw: raw}}
		}
		return &submission{Transport: proto, Role: role, Label: "raw-" + rt.Label, WS: &wsEnv{Proto: proto, Type: startType(proto), ID: i, Payload: &text, Raw: raw}}
	}
}

// raw texts as the "variables" (or "extensions") URL parameter of a GET: the third place where JSON
// text is read (json.Unmarshal into a nil map)
var rawVarTexts = []rawText{
	{"utf8-invalid", "{\"s\":\"a\xffb\xf0\x9f\",\"k\xfe\":1}"},
	{"surrogates", `{"s":"\ud800\ud800\udc00x\udfff\ud83d\ude00\ud800"}`},
	{"numbers", `{"f":1E+2,"g":-0.0e-0,"s":"n","i":123456789012345678901234567890}`},
	{"deep", `{"s":"d","u":` + strings.Repeat("[", 30) + strings.Repeat("]", 30) + `}`},
	{"escapes", `{"s":"\u0000\/\b\f\"\\\u00e9","\u0073":"dup"}`},
	{"spaced", " {\n\"s\"\t:\r\"w\" } "},
	{"dup-merge", `{"s":"first","s":"second","t":{"a":1},"t":{"b":2}}`},
	{"bad-number", `{"s":1.}`},
	{"bad-control", "{\"s\":\"\x01\"}"},
	{"bad-bom", "\ufeff{}"},
	{"bad-literal", `{"a":tru}`},
	{"bad-nbsp", "{\u00a0}"},
	{"bad-hex", `{"s":"\u12G4"}`},
}

func rawGetSub(kind int, name string) *submission {
	rt := rawVarTexts[kind]
	role := "other"
	if !json.Valid([]byte(rt.Text)) {
		role = "malformed"
	}
	ps := [][2]string{{"query", "query Q($s: String) { echoString(x: $s) }"}, {name, rt.Text}}
	return &submission{Transport: "get", Role: role, Label: "raw-" + name + "-" + rt.Label, HTTP: &httpEnv{Method: "GET", Params: ps}}
}

func nestN(n int) int {
	if nestFull {
		return n
	}
	return n / 50
}
