package main

// Generators: operations (query text, variables, operationName) and the envelopes that carry them.

import (
	"fmt"
	"sort"
	"strings"

	"verifharness/internal/rng"
)

// opReq is the (query, variables, operationName) triple the property quantifies over.
type opReq struct {
	Query   string
	Vars    *J // nil: no variables at all; otherwise a JSON object
	OpName  string
	Sub     bool     // the selected operation is a subscription (HTTP transports do not carry it)
	Classes []string // evidence classes
}

type varDecl struct{ Name, Type, Default string }

type snippet struct {
	Text  string // with %a replaced by a fresh alias
	Vars  []varDecl
	Frag  string // fragment definition needed
	Class string
}

var (
	vI   = varDecl{"i", "Int", ""}
	vID  = varDecl{"i", "Int", "3"}
	vF   = varDecl{"f", "Float", ""}
	vS   = varDecl{"s", "String", ""}
	vB   = varDecl{"b", "Boolean", ""}
	vId  = varDecl{"id", "ID", ""}
	vE   = varDecl{"e", "Color", ""}
	vEs  = varDecl{"es", "[Color!]", ""}
	vL   = varDecl{"l", "[Int!]", ""}
	vIn  = varDecl{"in", "Inp", ""}
	vFs  = varDecl{"fs", "[Float!]!", ""}
	vN   = varDecl{"n", "Int", "2"}
	vOn  = varDecl{"on", "Boolean!", ""}
	vBy  = varDecl{"by", "Int!", ""}
	fragF = "fragment F on Query { fr1: echoString(x: \"frag\") fr2: obj { a } }"
)

var querySnippets = []snippet{
	{"%a: echoInt(x: $i)", []varDecl{vI}, "", "var-int"},
	{"%a: echoInt(x: $i)", []varDecl{vID}, "", "var-int"},
	{"%a: echoInt(x: 7)", nil, "", ""},
	{"%a: echoFloat(x: $f)", []varDecl{vF}, "", "var-float"},
	{"%a: echoString(x: $s)", []varDecl{vS}, "", "var-string"},
	{"%a: echoString(x: \"lit # & + % = ; \\u00e9 \\\" é\")", nil, "", ""},
	{"%a: echoBool(x: $b)", []varDecl{vB}, "", "var-bool"},
	{"%a: echoID(x: $id)", []varDecl{vId}, "", "var-id"},
	{"%a: echoEnum(x: $e)", []varDecl{vE}, "", "var-enum"},
	{"%a: echoEnums(x: $es)", []varDecl{vEs}, "", "var-enum-list"},
	{"%a: echoList(x: $l)", []varDecl{vL}, "", "var-list"},
	{"%a: echoInput(x: $in)", []varDecl{vIn}, "", "var-input"},
	{"%a: echoInput(x: {i: $i, s: $s, nested: {f: $f, l: [1, $i]}})", []varDecl{vI, vS, vF}, "", "var-input"},
	{"%a: sum(xs: $fs)", []varDecl{vFs}, "", "var-list"},
	{"%a: fail", nil, "", "exec-error"},
	{"%a: obj { a fail s(x: $s) }", []varDecl{vS}, "", "exec-error"},
	{"%a: obj { child { failNN } a }", nil, "", "exec-error"},
	{"%a: objs(n: $n) { a child { fail a } }", []varDecl{vN}, "", "exec-error"},
	{"%a: gated", nil, "", "gated"},
	{"%a: __typename", nil, "", ""},
	{"... @include(if: $on) { %a: echoInt(x: 1) }", []varDecl{vOn}, "", "directive"},
	{"%a: echoInt(x: 1) @skip(if: $on)", []varDecl{vOn}, "", "directive"},
	{"...F", nil, fragF, "fragment"},
	{"%a: __type(name: \"Inp\") { kind name }", nil, "", ""},
	{"# a comment with & and + and %\n %a: echoBool(x: true)", nil, "", ""},
}

var mutationSnippets = []snippet{
	{"%a: bump(by: $by)", []varDecl{vBy}, "", "var-int"},
	{"%a: bump(by: 3)", nil, "", ""},
	{"%a: setS(s: $s)", []varDecl{vS}, "", "var-string"},
	{"%a: bump(by: 2147483647)", nil, "", "exec-error"},
}

var subscriptionSnippets = []snippet{
	{"ticks(n: $n)", []varDecl{vN}, "", "subscription"},
	{"ticks", nil, "", "subscription"},
	{"t: ticks(n: 0)", nil, "", "subscription"},
	{"ticks(n: 9)", nil, "", "subscription"},
}

// invalid or degenerate documents
var badDocs = []string{
	"", " ", "{", "query {", "{ unknownField }", "{ echoInt(x: \"s\") }", "{ echoInt(y: 1) }",
	"query A { a: __typename } query A { b: __typename }", "\x00", "{ a: echoInt(x: 1) a: echoInt(x: 2) }",
	"query ($i: Nope) { echoInt(x: $i) }", "{ echoInt(x: $undeclared) }", "subscription { ticks a: ticks }",
	"{ ...Missing }", "fragment F on Query { __typename }", "{ __typename } { __typename }", "mutation { echoInt(x: 1) }",
	"{ obj }", "{ echoInt { a } }", "{ é }",
}

type genOp struct {
	Kind string // query, mutation, subscription
	Name string
	Body string
	Vars []varDecl
}

func buildDoc(r *rng.R) (doc string, ops []genOp, classes []string) {
	nOps := rng.Pick(r, []int{1, 1, 1, 2, 2, 3})
	names := []string{"A", "B", "C"}
	frags := map[string]bool{}
	alias := 0
	cls := map[string]bool{}
	for k := 0; k < nOps; k++ {
		op := genOp{Kind: rng.Pick(r, []string{"query", "query", "query", "query", "mutation", "subscription"}), Name: names[k]}
		if nOps == 1 && r.Chance(1, 2) {
			op.Name = ""
		}
		pool := querySnippets
		n := r.Range(1, 4)
		switch op.Kind {
		case "mutation":
			pool, n = mutationSnippets, r.Range(1, 2)
		case "subscription":
			pool, n = subscriptionSnippets, 1
		}
		seen := map[string]bool{}
		var parts []string
		for j := 0; j < n; j++ {
			s := rng.Pick(r, pool)
			alias++
			parts = append(parts, strings.ReplaceAll(s.Text, "%a", fmt.Sprintf("a%d", alias)))
			for _, v := range s.Vars {
				if !seen[v.Name] {
					seen[v.Name] = true
					op.Vars = append(op.Vars, v)
				}
			}
			if s.Frag != "" {
				frags[s.Frag] = true
			}
			if s.Class != "" {
				cls[s.Class] = true
			}
		}
		op.Body = strings.Join(parts, " ")
		ops = append(ops, op)
	}
	var b strings.Builder
	for k, op := range ops {
		if k > 0 {
			b.WriteString("\n")
		}
		if op.Name == "" && op.Kind == "query" && len(op.Vars) == 0 && r.Chance(1, 2) {
			b.WriteString("{ " + op.Body + " }")
			continue
		}
		b.WriteString(op.Kind)
		if op.Name != "" {
			b.WriteString(" " + op.Name)
		}
		if len(op.Vars) > 0 {
			var ds []string
			for _, v := range op.Vars {
				d := "$" + v.Name + ": " + v.Type
				if v.Default != "" {
					d += " = " + v.Default
				}
				ds = append(ds, d)
			}
			b.WriteString("(" + strings.Join(ds, ", ") + ")")
		}
		b.WriteString(" { " + op.Body + " }")
	}
	if frags[fragF] {
		b.WriteString("\n" + fragF)
	}
	for c := range cls {
		classes = append(classes, c)
	}
	sort.Strings(classes)
	return b.String(), ops, classes
}

// ---- variable values ----

var intToks = []string{"0", "1", "-1", "7", "2147483647", "-2147483648", "1.0", "1e2", "1E0", "-0", "3"}
var intOdd = []string{"2147483648", "5.5", "9007199254740993", "1e10", "-2147483649", "0.1"}
var floatToks = []string{"0", "1", "-1.5", "0.1", "1e-7", "3.141592653589793", "1.7976931348623157e308", "5e-324",
	"123456789012345678901234567890", "0.30000000000000004", "2.5E+3", "100", "-0.0", "0.1234567890123456789012345", "4.35", "1e23", "8.41e21",
	"2.2250738585072011e-308", "9007199254740993", "0.000001", "179769313486231570000000000000000000000000000000000000000000000000000000000000000000000000000000000000000000000000000000000000000000000000000000000000000000000000000000000000000000000000000000000000000000000000000000000000000000000000000000000000000000000000000000000000000000000000000000000000000000"}
var stringVals = []string{"", "hello", `he said "hi"`, "line\nbreak\ttab", "é😀", "a&b=c+d%20e#f;g?h/i\\j", "\x01", " lead and trail ", "null", "{}", "日本語", "%zz", "+"}

func wrongType(r *rng.R, not byte) *J {
	for {
		j := rng.Pick(r, []*J{jstr("5"), jnum("5"), jbool(true), jarr(jnum("1")), jobj(kv{"k", jnum("1")}), jnum("1.5")})
		if j.Kind != not {
			return j
		}
	}
}

func genInp(r *rng.R, depth int) *J {
	var kvs []kv
	if r.Chance(1, 2) {
		kvs = append(kvs, kv{"i", jnum(rng.Pick(r, intToks))})
	}
	if r.Chance(1, 3) {
		kvs = append(kvs, kv{"f", jnum(rng.Pick(r, floatToks))})
	}
	if r.Chance(1, 3) {
		kvs = append(kvs, kv{"s", jstr(rng.Pick(r, stringVals))})
	}
	if r.Chance(1, 4) {
		kvs = append(kvs, kv{"b", jbool(r.Bool())})
	}
	if r.Chance(1, 4) {
		kvs = append(kvs, kv{"id", rng.Pick(r, []*J{jstr("x1"), jnum("7"), jnum("7.0")})})
	}
	if r.Chance(1, 4) {
		kvs = append(kvs, kv{"e", jstr(rng.Pick(r, []string{"RED", "GREEN", "BLUE"}))})
	}
	if r.Chance(1, 3) {
		kvs = append(kvs, kv{"l", jarr(jnum("1"), jnull(), jnum(rng.Pick(r, intToks)))})
	}
	if depth < 2 && r.Chance(1, 3) {
		kvs = append(kvs, kv{"nested", genInp(r, depth+1)})
	}
	if r.Chance(1, 12) {
		kvs = append(kvs, kv{"zzz", jnum("1")}) // unknown input field: coercion error
	}
	// key order is the client's business: shuffle
	for i := len(kvs) - 1; i > 0; i-- {
		j := r.Intn(i + 1)
		kvs[i], kvs[j] = kvs[j], kvs[i]
	}
	return jobj(kvs...)
}

// genValue returns a JSON value for a variable of the given GraphQL type, mostly well-typed.
func genValue(r *rng.R, typ string) *J {
	if r.Chance(1, 24) {
		return jnull()
	}
	bad := r.Chance(1, 18)
	switch typ {
	case "Int", "Int!":
		if bad {
			if r.Bool() {
				return jnum(rng.Pick(r, intOdd))
			}
			return wrongType(r, 'n')
		}
		return jnum(rng.Pick(r, intToks))
	case "Float":
		if bad {
			return wrongType(r, 'n')
		}
		return jnum(rng.Pick(r, floatToks))
	case "String":
		if bad {
			return wrongType(r, 's')
		}
		return jstr(rng.Pick(r, stringVals))
	case "Boolean", "Boolean!":
		if bad {
			return wrongType(r, 'b')
		}
		return jbool(r.Bool())
	case "ID":
		if bad {
			return rng.Pick(r, []*J{jnum("5.5"), jbool(true), jarr(), jnum("1e30")})
		}
		return rng.Pick(r, []*J{jstr("abc"), jstr(""), jnum("5"), jnum("5.0"), jnum("1e3"), jnum("-3"), jstr("é")})
	case "Color":
		if bad {
			return rng.Pick(r, []*J{jstr("PURPLE"), jnum("1"), jstr("red"), jbool(false)})
		}
		return jstr(rng.Pick(r, []string{"RED", "GREEN", "BLUE"}))
	case "[Color!]":
		if bad {
			return rng.Pick(r, []*J{jarr(jstr("RED"), jnull()), jstr("red"), jarr(jnum("1")), jarr(jstr("PURPLE"))})
		}
		return rng.Pick(r, []*J{jarr(), jarr(jstr("RED")), jarr(jstr("GREEN"), jstr("BLUE"), jstr("GREEN")), jstr("BLUE")})
	case "[Int!]":
		if bad {
			return rng.Pick(r, []*J{jarr(jnum("1"), jnull()), jstr("x"), jarr(jnum("1.5")), jarr(jarr(jnum("1")))})
		}
		return rng.Pick(r, []*J{jarr(), jarr(jnum("1"), jnum("2"), jnum("3")), jnum("5"), jarr(jnum("1.0"), jnum("2e0")), jarr(jnum(rng.Pick(r, intToks)))})
	case "[Float!]!":
		if bad {
			return rng.Pick(r, []*J{jarr(jnum("1"), jstr("x")), jstr("x"), jarr(jnull())})
		}
		return rng.Pick(r, []*J{jarr(), jarr(jnum("1"), jnum("2.5")), jarr(jnum("0.1"), jnum("0.2")), jarr(jnum(rng.Pick(r, floatToks)), jnum(rng.Pick(r, floatToks))), jnum("2")})
	case "Inp":
		if bad {
			return rng.Pick(r, []*J{jnum("5"), jarr(), jstr("x"), jobj(kv{"i", jstr("x")})})
		}
		return genInp(r, 0)
	}
	return jnull()
}

// genOp builds a whole (query, variables, operationName) request.
func genOpReq(r *rng.R) *opReq {
	if r.Chance(1, 12) {
		o := &opReq{Query: rng.Pick(r, badDocs), Classes: []string{"invalid-doc"}}
		if r.Chance(1, 3) {
			o.Vars = jobj(kv{"i", jnum("1")})
		}
		if r.Chance(1, 4) {
			o.OpName = "A"
		}
		return o
	}
	doc, ops, classes := buildDoc(r)
	o := &opReq{Query: doc, Classes: classes}
	// operationName
	sel := -1
	if len(ops) == 1 {
		switch x := r.Intn(20); {
		case x < 12 || (x < 18 && ops[0].Name == ""):
			sel = 0
		case x < 18:
			o.OpName, sel = ops[0].Name, 0
		case x < 19:
			o.OpName = "Nope"
			o.Classes = append(o.Classes, "opname-unknown")
		default:
			o.OpName = "a"
			o.Classes = append(o.Classes, "opname-unknown")
		}
	} else {
		switch x := r.Intn(20); {
		case x < 17:
			sel = r.Intn(len(ops))
			o.OpName = ops[sel].Name
			o.Classes = append(o.Classes, "opname-select")
		case x < 19:
			o.Classes = append(o.Classes, "opname-missing")
		default:
			o.OpName = "Nope"
			o.Classes = append(o.Classes, "opname-unknown")
		}
	}
	// a document containing a subscription next to other operations, or selected: decide who carries it.
	// IsSubscription(doc, name) is true exactly when the named (or only) operation is a subscription.
	if sel >= 0 && ops[sel].Kind == "subscription" {
		o.Sub = true
	}
	if sel >= 0 {
		o.Classes = append(o.Classes, ops[sel].Kind)
	}
	// variables: for the declared variables of all operations, mostly present
	var kvs []kv
	seen := map[string]bool{}
	for _, op := range ops {
		for _, v := range op.Vars {
			if seen[v.Name] {
				continue
			}
			seen[v.Name] = true
			if r.Chance(6, 7) {
				kvs = append(kvs, kv{v.Name, genValue(r, v.Type)})
			}
		}
	}
	if r.Chance(1, 10) {
		kvs = append(kvs, kv{"unused", rng.Pick(r, []*J{jnum("1"), jobj(kv{"deep", jarr(jnum("1e2"), jnull(), jobj())}), jstr("x")})})
	}
	if len(kvs) > 0 || r.Chance(1, 4) {
		o.Vars = jobj(kvs...)
	}
	return o
}

// hand-picked operations for the exhaustive part (every configuration x feature state)
func baseOps() []*opReq {
	return []*opReq{
		{Query: "{ a: echoInt(x: 1) }"},
		{Query: "query Q($i: Int, $f: Float, $s: String, $b: Boolean, $id: ID, $e: Color, $l: [Int!], $in: Inp) { echoInt(x: $i) echoFloat(x: $f) echoString(x: $s) echoBool(x: $b) echoID(x: $id) echoEnum(x: $e) echoList(x: $l) echoInput(x: $in) }",
			Vars: jobj(kv{"i", jnum("1e2")}, kv{"f", jnum("3")}, kv{"s", jstr("a&b=c+d%e#f é😀")}, kv{"b", jbool(true)}, kv{"id", jnum("5.0")}, kv{"e", jstr("GREEN")},
				kv{"l", jarr(jnum("1"), jnum("2.0"))}, kv{"in", jobj(kv{"s", jstr("x")}, kv{"i", jnum("-0")}, kv{"nested", jobj(kv{"l", jarr(jnum("1"), jnull())}, kv{"id", jnum("7")})})}),
			Classes: []string{"var-int", "var-float", "var-string", "var-bool", "var-id", "var-enum", "var-list", "var-input"}},
		{Query: "query A { a: echoInt(x: 1) } query B { b: echoInt(x: 2) } mutation C { bump(by: 4) }", OpName: "B", Classes: []string{"opname-select", "query"}},
		{Query: "query A { a: echoInt(x: 1) } query B { b: echoInt(x: 2) } mutation C { bump(by: 4) }", OpName: "C", Classes: []string{"opname-select", "mutation"}},
		{Query: "query A { a: echoInt(x: 1) } query B { b: echoInt(x: 2) }", Classes: []string{"opname-missing"}},
		{Query: "{ gated a: echoInt(x: 1) }", Classes: []string{"gated"}},
		{Query: "query ($es: [Color!]) { echoEnums(x: $es) l: echoEnums(x: [BLUE]) echoInput(x: {es: $es}) }", Vars: jobj(kv{"es", jarr(jstr("RED"), jstr("BLUE"))}), Classes: []string{"var-enum-list"}},
		{Query: "{ fail obj { a fail child { failNN } } objs(n: 3) { a child { fail } } }", Classes: []string{"exec-error"}},
		{Query: "query ($i: Int!) { echoInt(x: $i) }", Vars: jobj(kv{"i", jstr("not a number")}), Classes: []string{"var-int"}},
		{Query: "{ unknownField }", Classes: []string{"invalid-doc"}},
		{Query: "{ echoInt(x: ", Classes: []string{"invalid-doc"}},
		{Query: "mutation M($by: Int!) { bump(by: $by) }", Vars: jobj(kv{"by", jnum("21")}), OpName: "M", Classes: []string{"mutation", "var-int"}},
		{Query: "subscription S($n: Int) { ticks(n: $n) }", Vars: jobj(kv{"n", jnum("3")}), OpName: "S", Sub: true, Classes: []string{"subscription"}},
		{Query: "subscription { ticks(n: 9) }", Sub: true, Classes: []string{"subscription"}},
		{Query: "query Q($n: Int = 2) { objs(n: $n) { a child { a } } }", Vars: jobj(kv{"n", jnum("4")}), Classes: []string{"var-int"}},
		{Query: ""},
	}
}
