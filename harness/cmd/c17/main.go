// c17: the same (query, variables, operationName) through every transport of one apifu.API —
// HTTP GET, POST application/json, POST application/graphql, graphql-ws start,
// graphql-transport-ws subscribe — for every configuration, plus alias and malformed envelopes.
// One case = one configuration pair (with and without the schema-preprocessing clone path), one
// request, the parsed envelope of every submission and what the implementation did with it.
package main

import (
	"crypto/sha256"
	"encoding/hex"
	"encoding/json"
	"fmt"
	"math"
	"sort"
	"strconv"
	"strings"

	"verifharness/internal/hx"
	"verifharness/internal/rng"
	"verifharness/internal/sexp"
)

// ---------------------------------------------------------------------------------------------
// the JSON text table of a case: text -> what a JSON parser makes of it
// ---------------------------------------------------------------------------------------------

type table struct {
	order []string
	m     map[string]sexp.Node
}

func (t *table) put(text string, n sexp.Node) {
	if t.m == nil {
		t.m = map[string]sexp.Node{}
	}
	if old, ok := t.m[text]; ok {
		if old.String() != n.String() {
			panic(fmt.Sprintf("harness bug: two parses for %q: %s / %s", text, old, n))
		}
		return
	}
	t.m[text] = n
	t.order = append(t.order, text)
}

// self-checks of the generator's claims about its own texts (assertions only; the parse handed to
// the model always comes from the generator)
func (t *table) tree(text string, j *J) {
	if !json.Valid([]byte(text)) {
		panic(fmt.Sprintf("harness bug: %q was generated as a JSON text but is not one", text))
	}
	t.put(text, sexp.T("tree", j.sexp()))
}
func (t *table) bad(text string) {
	if json.Valid([]byte(text)) {
		panic(fmt.Sprintf("harness bug: %q was generated as malformed JSON but is well-formed", text))
	}
	t.put(text, sexp.Sym("bad"))
}
func (t *table) trail(text string, j *J) {
	if json.Valid([]byte(text)) {
		panic(fmt.Sprintf("harness bug: %q was generated as JSON with trailing bytes but is well-formed", text))
	}
	t.put(text, sexp.T("trail", j.sexp()))
}

// numTokens: the number tokens of a text the model will ask about (maximal runs of number
// characters outside strings) with their float64 bits as strconv.ParseFloat gives them; "nr" for a
// token outside the float64 range.  This is all the model is told about a JSON text: it parses the
// raw bytes itself.
func numTokens(text string, into map[string]sexp.Node, order *[]string) {
	isNum := func(c byte) bool {
		return (c >= '0' && c <= '9') || c == '-' || c == '+' || c == '.' || c == 'e' || c == 'E'
	}
	for i := 0; i < len(text); {
		c := text[i]
		switch {
		case c == '"':
			i++
			for i < len(text) && text[i] != '"' {
				if text[i] == '\\' {
					i++
				}
				i++
			}
			i++
		case isNum(c):
			j := i
			for j < len(text) && isNum(text[j]) {
				j++
			}
			tok := text[i:j]
			i = j
			if _, ok := into[tok]; ok {
				continue
			}
			f, err := strconv.ParseFloat(tok, 64)
			if err != nil {
				if ne, ok := err.(*strconv.NumError); !ok || ne.Err != strconv.ErrRange {
					continue // not a number
				}
				into[tok] = sexp.L(sexp.Str(tok), sexp.Sym("nr"))
			} else if math.IsInf(f, 0) {
				into[tok] = sexp.L(sexp.Str(tok), sexp.Sym("nr"))
			} else {
				into[tok] = sexp.L(sexp.Str(tok), sexp.Uint64(math.Float64bits(f)))
			}
			*order = append(*order, tok)
		default:
			i++
		}
	}
}

func numsOf(subs []submission) []sexp.Node {
	m := map[string]sexp.Node{}
	var order []string
	for _, s := range subs {
		if s.HTTP != nil {
			numTokens(s.HTTP.Body, m, &order)
			for _, p := range s.HTTP.Params {
				numTokens(p[1], m, &order)
			}
		} else {
			numTokens(s.WS.Raw, m, &order)
			if s.WS.Payload != nil {
				numTokens(*s.WS.Payload, m, &order)
			}
		}
	}
	out := make([]sexp.Node, 0, len(order))
	for _, k := range order {
		out = append(out, m[k])
	}
	return out
}

func (t *table) sexp() sexp.Node {
	var items []sexp.Node
	for _, k := range t.order {
		items = append(items, sexp.L(sexp.Str(k), t.m[k]))
	}
	return sexp.L(items...)
}

// ---------------------------------------------------------------------------------------------
// submissions
// ---------------------------------------------------------------------------------------------

type submission struct {
	Transport string // get, post-json, post-graphql, post-url, gws, tws
	Role      string // canonical, alias, other, malformed
	Label     string
	HTTP      *httpEnv
	WS        *wsEnv
}

func bodyObj(o *opReq, withQuery bool) *J {
	var kvs []kv
	if withQuery {
		kvs = append(kvs, kv{"query", jstr(o.Query)})
	}
	if o.Vars != nil {
		kvs = append(kvs, kv{"variables", o.Vars})
	}
	if o.OpName != "" {
		kvs = append(kvs, kv{"operationName", jstr(o.OpName)})
	}
	return jobj(kvs...)
}

func getParams(t *table, o *opReq, style int) [][2]string {
	ps := [][2]string{{"query", o.Query}}
	if o.Vars != nil {
		txt := o.Vars.text(style)
		t.tree(txt, o.Vars)
		ps = append(ps, [2]string{"variables", txt})
	}
	if o.OpName != "" {
		ps = append(ps, [2]string{"operationName", o.OpName})
	}
	return ps
}

func wsSub(t *table, proto, role, label, id string, payload *J, style int, order string) submission {
	txt := payload.text(style)
	t.tree(txt, payload)
	return submission{Transport: proto, Role: role, Label: label,
		WS: &wsEnv{Proto: proto, Type: startType(proto), ID: id, Payload: &txt, Raw: frameText(order, startType(proto), id, &txt)}}
}

// the canonical envelope of o for every transport that can carry it
func canonical(t *table, o *opReq, id func() string) []submission {
	var subs []submission
	body := bodyObj(o, true)
	if !o.Sub {
		subs = append(subs, submission{Transport: "get", Role: "canonical", HTTP: &httpEnv{Method: "GET", Params: getParams(t, o, styleCompact)}})
		txt := body.text(styleCompact)
		t.tree(txt, body)
		subs = append(subs, submission{Transport: "post-json", Role: "canonical", HTTP: &httpEnv{Method: "POST", ContentType: "application/json", Body: txt}})
		if o.Vars == nil && o.OpName == "" {
			subs = append(subs, submission{Transport: "post-graphql", Role: "canonical", HTTP: &httpEnv{Method: "POST", ContentType: "application/graphql", Body: o.Query}})
		}
		// the sixth shape: POST application/json with the query in the URL
		rest := bodyObj(o, false)
		rtxt := rest.text(styleCompact)
		t.tree(rtxt, rest)
		subs = append(subs, submission{Transport: "post-url", Role: "canonical", HTTP: &httpEnv{Method: "POST", ContentType: "application/json", Params: [][2]string{{"query", o.Query}}, Body: rtxt}})
	}
	subs = append(subs, wsSub(t, "gws", "canonical", "", id(), body, styleCompact, "itp"))
	subs = append(subs, wsSub(t, "tws", "canonical", "", id(), body, styleCompact, "itp"))
	return subs
}

// reuseSubs: per-connection histories that reuse an operation id.  All socket submissions of a case
// share one connection per protocol, so a second start / subscribe with the id of the canonical
// submission is a reuse of that id after the server completed the first operation (data ...,
// complete) — legal in both protocols, and to be answered like the first.  "client-complete": the
// client additionally sends its own stop / complete for the finished operation before reusing the id.
func reuseSubs(subs []submission, which int) []submission {
	var out []submission
	for _, s := range subs {
		if s.WS == nil || s.Role != "canonical" {
			continue
		}
		e := *s.WS
		label := "reuse-id"
		if which == 1 {
			label = "reuse-id-after-client-complete"
			stop := "stop"
			if e.Proto == "tws" {
				stop = "complete"
			}
			e.Pre = []string{frameText("it", stop, e.ID, nil)}
		}
		out = append(out, submission{Transport: s.Transport, Role: "alias", Label: label, WS: &e})
	}
	return out
}

// framedSubs: every canonical POST of the case once more as a chunked stream (no Content-Length)
func framedSubs(subs []submission, k int) []submission {
	var out []submission
	for _, s := range subs {
		if s.HTTP == nil || s.Role != "canonical" || s.HTTP.Method != "POST" {
			continue
		}
		e := *s.HTTP
		e.Framing = []string{"chunked-3", "chunked-1", "chunked-all"}[k%3]
		out = append(out, submission{Transport: s.Transport, Role: "alias", Label: e.Framing, HTTP: &e})
		k++
	}
	return out
}

// activeIdSubs: a history around an id held by an ACTIVE subscription, on the case's connection of
// protocol proto: (setup) a subscription that stays active takes the id; a query / mutation started
// with the same id is executed and answered like its HTTP twin (HandleStart only looks at the
// subscription table for subscriptions); a SUBSCRIPTION started with the same id is dropped, silently,
// in both protocols; (setup) the client stops the held subscription and gets its complete; the id is
// reused once more.  Roles: "setup" is not judged, "held-sub" must be dropped.
func activeIdSubs(t *table, o *opReq, proto string, id string) []submission {
	start := func(role, label string, payload *J, hold, quiet bool) submission {
		s := wsSub(t, proto, role, label, id, payload, styleCompact, "itp")
		s.WS.Hold, s.WS.Quiet = hold, quiet
		return s
	}
	stop := "stop"
	if proto == "tws" {
		stop = "complete"
	}
	release := submission{Transport: proto, Role: "setup", Label: "release-id",
		WS: &wsEnv{Proto: proto, Type: stop, ID: id, Raw: frameText("it", stop, id, nil), Quiet: true}}
	body := bodyObj(o, true)
	return []submission{
		start("setup", "hold-id", jobj(kv{"query", jstr("subscription { hold }")}), true, false),
		start("alias", "id-held-by-subscription", body, false, false),
		start("held-sub", "subscription-on-held-id", jobj(kv{"query", jstr("subscription { ticks(n: 1) }")}), false, true),
		release,
		start("alias", "reuse-id-after-release", body, false, false),
	}
}

func withNulls(o *opReq) *J {
	kvs := []kv{{"query", jstr(o.Query)}}
	if o.Vars != nil {
		kvs = append(kvs, kv{"variables", o.Vars})
	} else {
		kvs = append(kvs, kv{"variables", jnull()})
	}
	if o.OpName != "" {
		kvs = append(kvs, kv{"operationName", jstr(o.OpName)})
	} else {
		kvs = append(kvs, kv{"operationName", jnull()})
	}
	return jobj(kvs...)
}

func recase(j *J, r *rng.R) *J {
	out := jobj()
	for _, e := range j.O {
		k := e.K
		switch r.Intn(3) {
		case 0:
			k = strings.ToUpper(k)
		case 1:
			k = strings.ToLower(k)
		default:
			k = strings.ToUpper(k[:1]) + k[1:]
		}
		out.O = append(out.O, kv{k, e.V})
	}
	return out
}

func extraFields(j *J) *J {
	out := jobj(kv{"id", jnum("5")})
	out.O = append(out.O, j.O...)
	out.O = append(out.O, kv{"extra", jobj(kv{"x", jarr(jnum("1"), jnum("1e400"), jobj(kv{"y", jnull()}))})}, kv{"querie", jstr("{nope}")})
	return out
}

func dupKeys(j *J) *J {
	out := jobj(kv{"query", jstr("{ bogus }")}, kv{"operationName", jstr("Bogus")}, kv{"variables", jnull()})
	out.O = append(out.O, j.O...)
	return out
}

const nAliasKinds = 25

// alias envelopes: other spellings a client may use; the decoders are expected to read the same
// request from most of them (the model decides; all envelopes the model decodes to the same request
// must be answered identically)
func aliasSub(t *table, o *opReq, kind int, r *rng.R, id func() string) *submission {
	body := bodyObj(o, true)
	postJSON := func(label string, j *J, style int, ct string, params [][2]string) *submission {
		txt := j.text(style)
		t.tree(txt, j)
		return &submission{Transport: "post-json", Role: "alias", Label: label, HTTP: &httpEnv{Method: "POST", ContentType: ct, Params: params, Body: txt}}
	}
	if o.Sub && (kind < 14 || kind >= 22) {
		return nil
	}
	switch kind {
	case 0:
		return postJSON("spaced", body, styleSpaced, "application/json", nil)
	case 1:
		return postJSON("escaped", body, styleEscaped, "application/json", nil)
	case 2:
		return postJSON("key-case", recase(body, r), styleCompact, "application/json", nil)
	case 3:
		return postJSON("explicit-nulls", withNulls(o), styleCompact, "application/json", nil)
	case 4:
		return postJSON("extra-fields", extraFields(body), styleCompact, "application/json", nil)
	case 5:
		return postJSON("dup-keys", dupKeys(body), styleCompact, "application/json", nil)
	case 6:
		return postJSON("url-ignored", body, styleCompact, "application/json", [][2]string{{"query", "{ urlBogus }"}, {"variables", `{"i":99}`}, {"operationName", "Zzz"}})
	case 7:
		return postJSON("content-type-params", body, styleCompact, rng.Pick(r, []string{"application/json; charset=utf-8", "APPLICATION/JSON", "application/json;", "Application/Json ; charset=\"utf-8\"", " application/json", "application/json; charset", "application/json; =x"}), nil)
	case 8:
		ps := getParams(t, o, styleCompact)
		ps = append(ps, [2]string{"query", "{ second }"}, [2]string{"foo", "bar"})
		if o.OpName == "" {
			ps = append(ps, [2]string{"operationName", ""})
		}
		if o.Vars == nil {
			ps = append([][2]string{{"variables", ""}}, ps...)
		}
		ps = append(ps, [2]string{"variables", "not json"}, [2]string{"operationName", "Second"})
		return &submission{Transport: "get", Role: "alias", Label: "extra-params", HTTP: &httpEnv{Method: "GET", Params: ps}}
	case 9:
		if o.Vars == nil {
			t.tree("null", jnull())
			return &submission{Transport: "get", Role: "alias", Label: "variables-null", HTTP: &httpEnv{Method: "GET", Params: [][2]string{{"variables", "null"}, {"query", o.Query}, {"operationName", o.OpName}}}}
		}
		return &submission{Transport: "get", Role: "alias", Label: "spaced", HTTP: &httpEnv{Method: "GET", Params: getParams(t, o, rng.Pick(r, []int{styleSpaced, styleEscaped}))}}
	case 10:
		// GET ignores body and content type
		return &submission{Transport: "get", Role: "alias", Label: "with-body", HTTP: &httpEnv{Method: "GET", ContentType: "application/json", Params: getParams(t, o, styleCompact), Body: `{"query":"{ bodyBogus }"}`}}
	case 11:
		ext := jobj(kv{"foo", jarr(jnum("1"), jstr("x"))})
		t.tree(ext.text(styleCompact), ext)
		ps := append(getParams(t, o, styleCompact), [2]string{"extensions", ext.text(styleCompact)})
		return &submission{Transport: "get", Role: "alias", Label: "extensions", HTTP: &httpEnv{Method: "GET", Params: ps}}
	case 12:
		j := bodyObj(o, true)
		j.O = append(j.O, kv{"extensions", jobj(kv{"foo", jnum("1")}, kv{"bar", jnull()})})
		return postJSON("extensions", j, styleCompact, "application/json", nil)
	case 13:
		// application/graphql: the URL may not carry variables / operationName (the code reads none)
		ps := [][2]string{}
		if o.Vars != nil {
			ps = append(ps, [2]string{"variables", o.Vars.text(styleCompact)})
		}
		if o.OpName != "" {
			ps = append(ps, [2]string{"operationName", o.OpName})
		}
		e := &httpEnv{Method: "POST", ContentType: rng.Pick(r, []string{"application/graphql", "application/graphql; charset=utf-8", "Application/GraphQL"}), Params: ps, Body: o.Query}
		if r.Chance(1, 3) {
			e.Params = append(e.Params, [2]string{"query", o.Query})
			e.Body = ""
		} else if r.Chance(1, 3) {
			e.Params = append(e.Params, [2]string{"query", "{ urlBogus }"})
		}
		return &submission{Transport: "post-graphql", Role: "alias", Label: "url-params", HTTP: e}
	case 14:
		p := rng.Pick(r, []string{"gws", "tws"})
		s := wsSub(t, p, "alias", "spaced", id(), body, rng.Pick(r, []int{styleSpaced, styleEscaped}), "itp")
		return &s
	case 15:
		p := rng.Pick(r, []string{"gws", "tws"})
		s := wsSub(t, p, "alias", "key-case", id(), recase(body, r), styleCompact, "itp")
		return &s
	case 16:
		p := rng.Pick(r, []string{"gws", "tws"})
		j := extraFields(body)
		j.O = append(j.O, kv{"extensions", jobj(kv{"foo", jnum("1")})}) // not read by the WebSocket decoders
		s := wsSub(t, p, "alias", "extra-fields", id(), j, styleCompact, "itp")
		return &s
	case 17:
		p := rng.Pick(r, []string{"gws", "tws"})
		s := wsSub(t, p, "alias", "frame-member-order", id(), body, styleCompact, rng.Pick(r, []string{"pti", "tip", "pit"}))
		return &s
	case 18:
		p := rng.Pick(r, []string{"gws", "tws"})
		s := wsSub(t, p, "alias", "explicit-nulls", id(), withNulls(o), styleCompact, "itp")
		return &s
	case 19:
		p := rng.Pick(r, []string{"gws", "tws"})
		s := wsSub(t, p, "alias", "dup-keys", id(), dupKeys(body), styleCompact, "itp")
		return &s
	case 20:
		// duplicate string member whose last value is null: encoding/json keeps the earlier value,
		// jsoniter resets it (the model knows)
		j := bodyObj(o, true)
		j.O = append(j.O, kv{"query", jnull()}, kv{"operationName", jnull()})
		if r.Bool() && !o.Sub {
			s := postJSON("dup-null", j, styleCompact, "application/json", nil)
			s.Role = "other"
			return s
		}
		s := wsSub(t, rng.Pick(r, []string{"gws", "tws"}), "other", "dup-null", id(), j, styleCompact, "itp")
		return &s
	case 23:
		// the body of a POST as a chunked stream (no Content-Length): the same request
		fr := rng.Pick(r, []string{"chunked-1", "chunked-3", "chunked-all"})
		if o.Vars == nil && o.OpName == "" && r.Bool() {
			return &submission{Transport: "post-graphql", Role: "alias", Label: fr, HTTP: &httpEnv{Method: "POST", ContentType: "application/graphql", Body: o.Query, Framing: fr}}
		}
		s := postJSON(fr, body, styleCompact, "application/json", nil)
		s.HTTP.Framing = fr
		return s
	case 24:
		// a Content-Length that does not match the bytes sent: one short (the handler sees a prefix:
		// for JSON a truncated value, for application/graphql another document), or larger than what
		// arrives before the client stops (the stream ends early: a malformed envelope)
		fr := rng.Pick(r, []string{"cl-short", "cl-long"})
		role := "malformed"
		if o.Vars == nil && o.OpName == "" && r.Bool() {
			if fr == "cl-short" {
				role = "other"
			}
			return &submission{Transport: "post-graphql", Role: role, Label: fr, HTTP: &httpEnv{Method: "POST", ContentType: "application/graphql", Body: o.Query, Framing: fr}}
		}
		txt := body.text(styleCompact)
		if fr == "cl-short" {
			t.bad(txt[:len(txt)-1])
		} else {
			t.tree(txt, body)
		}
		return &submission{Transport: "post-json", Role: role, Label: fr, HTTP: &httpEnv{Method: "POST", ContentType: "application/json", Body: txt, Framing: fr}}
	case 22:
		// persisted-query lookup of a hash that was never registered: with a storage configured the
		// answer is PersistedQueryNotFound, without one the empty query is executed; either way an
		// ordinary 200 application/json response
		sum := sha256.Sum256([]byte(o.Query + "#never-registered"))
		ext := jobj(kv{"persistedQuery", jobj(kv{"version", jnum(rng.Pick(r, []string{"1", "1.0", "1e0"}))}, kv{"sha256Hash", jstr(hex.EncodeToString(sum[:]))})})
		if r.Bool() {
			j := jobj(kv{"extensions", ext})
			if o.Vars != nil {
				j.O = append(j.O, kv{"variables", o.Vars})
			}
			s := postJSON("pq-not-found", j, styleCompact, "application/json", nil)
			s.Role = "other"
			return s
		}
		t.tree(ext.text(styleCompact), ext)
		return &submission{Transport: "get", Role: "other", Label: "pq-not-found", HTTP: &httpEnv{Method: "GET", Params: [][2]string{{"extensions", ext.text(styleCompact)}}}}
	case 21:
		// variables given twice: both decoders merge into one map
		j := jobj(kv{"variables", jobj(kv{"i", jnum("41")}, kv{"zz", jnum("1")})})
		j.O = append(j.O, bodyObj(o, true).O...)
		if r.Bool() && !o.Sub {
			s := postJSON("dup-variables", j, styleCompact, "application/json", nil)
			s.Role = "other"
			return s
		}
		s := wsSub(t, rng.Pick(r, []string{"gws", "tws"}), "other", "dup-variables", id(), j, styleCompact, "itp")
		return &s
	}
	return nil
}

// ---- malformed envelopes ----

type badBody struct {
	Label string
	Text  string
	Trail *J // non-nil: a JSON value followed by other bytes
	Tree  *J // non-nil: well-formed JSON of the wrong shape
}

func badBodies(o *opReq) []badBody {
	good := bodyObj(o, true)
	gt := good.text(styleCompact)
	shape := func(label string, j *J) badBody { return badBody{Label: label, Text: j.text(styleCompact), Tree: j} }
	return []badBody{
		{Label: "empty", Text: ""},
		{Label: "truncated", Text: gt[:len(gt)-1]},
		{Label: "truncated-string", Text: `{"query":"{a`},
		{Label: "open-brace", Text: "{"},
		{Label: "not-json", Text: "query=" + o.Query},
		{Label: "single-quotes", Text: `{'query':'{a}'}`},
		{Label: "trailing-comma", Text: gt[:len(gt)-1] + ",}"},
		{Label: "bad-escape", Text: `{"query":"\q"}`},
		{Label: "raw-control-char", Text: "{\"query\":\"a\tb\"}"},
		{Label: "bom", Text: "\ufeff" + gt},
		{Label: "leading-garbage", Text: "x" + gt},
		{Label: "literal-prefix", Text: "nul"},
		{Label: "leading-zero", Text: `{"query":"{a}","variables":{"i":01}}`},
		{Label: "plus-number", Text: `{"query":"{a}","variables":{"i":+1}}`},
		{Label: "trailing-brace", Text: gt + "}", Trail: good},
		{Label: "trailing-word", Text: gt + " trailing", Trail: good},
		{Label: "two-values", Text: gt + gt, Trail: good},
		{Label: "trailing-bracket", Text: gt + "\n]", Trail: good},
		shape("array", jarr(good)),
		shape("string", jstr(gt)),
		shape("number", jnum("123")),
		shape("true", jbool(true)),
		shape("query-number", jobj(kv{"query", jnum("5")})),
		shape("query-array", jobj(kv{"query", jarr(jstr(o.Query))})),
		shape("query-object", jobj(kv{"query", jobj()})),
		shape("query-bool", jobj(kv{"QUERY", jbool(false)})),
		shape("variables-string", jobj(kv{"query", jstr(o.Query)}, kv{"variables", jstr("{}")})),
		shape("variables-array", jobj(kv{"query", jstr(o.Query)}, kv{"variables", jarr(jnum("1"))})),
		shape("variables-number", jobj(kv{"query", jstr(o.Query)}, kv{"Variables", jnum("0")})),
		shape("variables-range", jobj(kv{"query", jstr(o.Query)}, kv{"variables", jobj(kv{"f", jnum("1e400")})})),
		shape("variables-range-nested", jobj(kv{"query", jstr(o.Query)}, kv{"variables", jobj(kv{"in", jobj(kv{"l", jarr(jnum("1"), jnum("-1e999"))})})})),
		shape("opname-number", jobj(kv{"query", jstr(o.Query)}, kv{"operationName", jnum("1")})),
		shape("opname-object", jobj(kv{"query", jstr(o.Query)}, kv{"operationname", jobj()})),
		shape("late-type-error", jobj(kv{"query", jstr(o.Query)}, kv{"variables", jobj()}, kv{"query", jnum("1")})),
	}
}

func (b badBody) register(t *table) {
	switch {
	case b.Trail != nil:
		t.trail(b.Text, b.Trail)
	case b.Tree != nil:
		t.tree(b.Text, b.Tree)
	default:
		t.bad(b.Text)
	}
}

// malformed envelopes of every kind for o; the generator picks from this list
func malformedSubs(t *table, o *opReq, r *rng.R, id func() string) []func() submission {
	var out []func() submission
	good := bodyObj(o, true)
	gt := good.text(styleCompact)
	add := func(f func() submission) { out = append(out, f) }
	// methods
	for _, m := range []string{"PUT", "DELETE", "PATCH", "HEAD", "OPTIONS", "get", "post", "TRACE", "QUERY"} {
		m := m
		add(func() submission {
			t.tree(gt, good)
			if o.Vars != nil {
				t.tree(o.Vars.text(styleCompact), o.Vars)
			}
			return submission{Transport: "post-json", Role: "malformed", Label: "method-" + m, HTTP: &httpEnv{Method: m, ContentType: "application/json", Params: getParams(t, o, styleCompact), Body: gt}}
		})
	}
	// content types
	for _, ct := range []string{"", "text/plain", "application/x-www-form-urlencoded", "multipart/form-data; boundary=x", "application/jsonx", "json", "application/json/extra",
		"; charset=utf-8", "application/json, application/graphql", "text/json", "application/graphql+json", "*/*"} {
		ct := ct
		add(func() submission {
			t.tree(gt, good)
			return submission{Transport: "post-json", Role: "malformed", Label: "content-type", HTTP: &httpEnv{Method: "POST", ContentType: ct, Body: gt}}
		})
	}
	// POST application/json bodies
	for _, b := range badBodies(o) {
		b := b
		add(func() submission {
			b.register(t)
			return submission{Transport: "post-json", Role: "malformed", Label: "body-" + b.Label, HTTP: &httpEnv{Method: "POST", ContentType: "application/json", Body: b.Text}}
		})
		if strings.HasPrefix(b.Label, "variables-") || strings.HasPrefix(b.Label, "query-") {
			add(func() submission { // the same with the query in the URL
				b.register(t)
				return submission{Transport: "post-url", Role: "malformed", Label: "body-" + b.Label, HTTP: &httpEnv{Method: "POST", ContentType: "application/json", Params: [][2]string{{"query", o.Query}}, Body: b.Text}}
			})
		}
	}
	// GET parameters
	type badParam struct {
		Label, Text string
		Tree, Trail *J
	}
	for _, p := range []badParam{
		{"word", "foo", nil, nil}, {"array", "[1]", jarr(jnum("1")), nil}, {"string", `"{}"`, jstr("{}"), nil}, {"number", "5", jnum("5"), nil},
		{"truncated", `{"a":`, nil, nil}, {"range", `{"f":1e400}`, jobj(kv{"f", jnum("1e400")}), nil}, {"trailing", "{}}", nil, jobj()},
		{"two-values", "{} {}", nil, jobj()}, {"true", "true", jbool(true), nil}, {"unquoted-key", "{a:1}", nil, nil}, {"space", " ", nil, nil},
	} {
		p := p
		for _, name := range []string{"variables", "extensions"} {
			name := name
			add(func() submission {
				switch {
				case p.Tree != nil:
					t.tree(p.Text, p.Tree)
				case p.Trail != nil:
					t.trail(p.Text, p.Trail)
				default:
					t.bad(p.Text)
				}
				ps := [][2]string{{"query", o.Query}, {name, p.Text}}
				if o.OpName != "" {
					ps = append(ps, [2]string{"operationName", o.OpName})
				}
				return submission{Transport: "get", Role: "malformed", Label: name + "-" + p.Label, HTTP: &httpEnv{Method: "GET", Params: ps}}
			})
		}
	}
	// WebSocket payloads and frames
	for _, proto := range []string{"gws", "tws"} {
		proto := proto
		for _, b := range badBodies(o) {
			b := b
			if b.Tree == nil {
				continue // a payload that is not JSON makes the frame itself malformed (below)
			}
			add(func() submission {
				b.register(t)
				i := id()
				return submission{Transport: proto, Role: "malformed", Label: "payload-" + b.Label,
					WS: &wsEnv{Proto: proto, Type: startType(proto), ID: i, Payload: &b.Text, Raw: frameText("itp", startType(proto), i, &b.Text)}}
			})
		}
		add(func() submission {
			i := id()
			return submission{Transport: proto, Role: "malformed", Label: "payload-absent",
				WS: &wsEnv{Proto: proto, Type: startType(proto), ID: i, Raw: frameText("it", startType(proto), i, nil)}}
		})
		for _, f := range []struct{ Label, Raw string }{
			{"frame-not-json", startType(proto)},
			{"frame-truncated", `{"type":"` + startType(proto) + `","id":"x","payload":` + gt},
			{"frame-id-number", `{"type":"` + startType(proto) + `","id":5,"payload":` + gt + `}`},
			{"frame-type-number", `{"type":5,"id":"x","payload":` + gt + `}`},
			{"frame-array", `[]`},
			{"frame-trailing", `{"type":"` + startType(proto) + `","id":"x","payload":` + gt + `}}`},
			{"frame-payload-not-json", `{"type":"` + startType(proto) + `","id":"x","payload":{'query':'{a}'}}`},
			{"frame-empty", ``},
		} {
			f := f
			add(func() submission {
				return submission{Transport: proto, Role: "malformed", Label: f.Label, WS: &wsEnv{Proto: proto, Bad: true, ID: "x", Raw: f.Raw}}
			})
		}
		// the other protocol's message type: not a start message here
		add(func() submission {
			other := "subscribe"
			if proto == "tws" {
				other = "start"
			}
			t.tree(gt, good)
			i := id()
			return submission{Transport: proto, Role: "malformed", Label: "wrong-message-type",
				WS: &wsEnv{Proto: proto, Type: other, ID: i, Payload: &gt, Raw: frameText("itp", other, i, &gt)}}
		})
	}
	return out
}

// a well-formed start message sent before connection_init: never executed
func preInitSub(t *table, o *opReq, proto string, id func() string) submission {
	s := wsSub(t, proto, "malformed", "before-init", id(), bodyObj(o, true), styleCompact, "itp")
	s.WS.PreInit = true
	return s
}

// ---------------------------------------------------------------------------------------------
// running a case
// ---------------------------------------------------------------------------------------------

type world struct {
	servers map[config]*server
	dec     *decoderServer
	caseNo  int
}

func (w *world) server(c config) *server {
	s := w.servers[c]
	if s == nil {
		s = newServer(c)
		w.servers[c] = s
	}
	return s
}

func optVars(j *J) sexp.Node {
	if j == nil {
		return sexp.None()
	}
	return sexp.Some(j.sexp())
}

func (w *world) run(cfg config, feat bool, o *opReq, t *table, subs []submission) sexp.Node {
	w.caseNo++
	variants := []*server{}
	for _, clone := range []bool{false, true} {
		c := cfg
		c.Clone = clone
		variants = append(variants, w.server(c))
	}
	decs := make([]sexp.Node, len(subs))
	obs := make([][]sexp.Node, len(subs))
	// HTTP first: a panic of the shared pipeline is caught there and not repeated on a socket
	for pass := 0; pass < 2; pass++ {
		for k, s := range subs {
			if (s.HTTP != nil) != (pass == 0) {
				continue
			}
			if s.HTTP != nil {
				decs[k] = decodeHTTP(*s.HTTP)
				for _, v := range variants {
					ob := v.serveHTTP(*s.HTTP, feat)
					if ob.Kind == "panic" {
						panic(fmt.Sprintf("ServeGraphQL panicked on %s %s %q", s.HTTP.Method, s.HTTP.url(), s.HTTP.Body))
					}
					obs[k] = appendObs(obs[k], ob.sexp())
				}
			} else {
				decs[k] = w.dec.decodeWS(*s.WS, w.caseNo)
				// a subscription is answered asynchronously; a message the decoder does not hand to
				// HandleStart is not answered at all, so there is nothing to wait for
				// (an alias envelope may select another operation of the document than the case's: any
				// started document that mentions a subscription is awaited by its own complete)
				async := (o.Sub || strings.Contains(s.WS.Raw, "subscription")) && len(decs[k].List) > 0 && decs[k].List[0].Sym == "start"
				if s.Label == "release-id" {
					async = true // the stopped subscription answers with its complete
				}
				if s.Role == "held-sub" {
					async = false // dropped: nothing will come
				}
				for _, v := range variants {
					obs[k] = appendObs(obs[k], v.serveWS(*s.WS, feat, async, w.caseNo).sexp())
				}
			}
		}
	}
	var items []sexp.Node
	for k, s := range subs {
		env := sexp.Node{}
		if s.HTTP != nil {
			env = s.HTTP.sexp()
		} else {
			env = s.WS.sexp()
		}
		label := s.Label
		if label == "" {
			label = "-"
		}
		items = append(items, sexp.T("sub", sexp.Sym(s.Transport), sexp.Sym(s.Role), sexp.Sym(label), env, decs[k], sexp.L(obs[k]...)))
	}
	classes := append([]string(nil), o.Classes...)
	sort.Strings(classes)
	var cl []sexp.Node
	for _, c := range classes {
		cl = append(cl, sexp.Sym(c))
	}
	return sexp.T("case",
		sexp.T("cfg", sexp.Sym("c"+cfg.String()), sexp.Bool(feat)),
		sexp.T("inits", initNodes(initsFor(cfg, feat))...),
		sexp.T("op", sexp.Str(o.Query), optVars(o.Vars), sexp.Str(o.OpName), sexp.Bool(o.Sub)),
		sexp.T("classes", cl...),
		sexp.T("json", t.sexp()),
		sexp.T("nums", numsOf(subs)...),
		sexp.T("subs", items...))
}

// appendObs: an observation identical to the previous one of the submission (the usual case: the API
// built through the clone path answers like the one built directly) is written as (same)
func appendObs(list []sexp.Node, n sexp.Node) []sexp.Node {
	if len(list) > 0 {
		prev := list[len(list)-1]
		for i := len(list) - 1; i >= 0 && len(prev.List) == 1 && prev.List[0].Sym == "same"; i-- {
			prev = list[i]
		}
		if prev.String() == n.String() {
			return append(list, sexp.T("same"))
		}
	}
	return append(list, n)
}

func initNodes(plans []string) []sexp.Node {
	var out []sexp.Node
	for _, p := range plans {
		out = append(out, sexp.Str(p))
	}
	return out
}

func allConfigs() []config {
	var out []config
	for i := 0; i < 16; i++ {
		out = append(out, config{Features: i&1 != 0, Cost: i&2 != 0, Hook: i&4 != 0, PQ: i&8 != 0})
	}
	return out
}

func main() {
	hx.Main(func(h *hx.H) {
		w := &world{servers: map[config]*server{}, dec: newDecoderServer()}
		defer func() {
			for _, s := range w.servers {
				s.close()
			}
			w.dec.ts.Close()
		}()
		ids := func(idx int) func() string {
			n := 0
			// every few ids carry characters that jsoniter's string encoder escapes in the answer frames
			special := []string{"", "", "", " sp ", `"q"`, "<&>", "é\u2028", "a\\b", "tab\there", "\x01\x7f"}
			return func() string { n++; return fmt.Sprintf("c%d-%d%s", idx, n, special[(idx+n)%len(special)]) }
		}
		cfgs := allConfigs()

		// 1. exhaustive: every configuration x feature state x base operation, all canonical envelopes
		for _, cfg := range cfgs {
			for _, feat := range []bool{false, true} {
				for _, o := range baseOps() {
					cfg, feat, o, idx := cfg, feat, o, h.Index()
					h.Case(func(r *rng.R) sexp.Node {
						t := &table{}
						subs := canonical(t, o, ids(idx))
						subs = append(subs, reuseSubs(subs, idx%2)...)
						subs = append(subs, framedSubs(subs, idx)...)
						if !o.Sub && idx%4 == 1 {
							subs = append(subs, activeIdSubs(t, o, []string{"gws", "tws"}[(idx/4)%2], fmt.Sprintf("h%d", idx))...)
						}
						return w.run(cfg, feat, o, t, subs)
					})
				}
			}
		}
		// 2. exhaustive: every alias kind and every malformed envelope kind on two operations
		probe := []*opReq{
			{Query: "query Q($i: Int) { echoInt(x: $i) }", Vars: jobj(kv{"i", jnum("7")}), OpName: "Q", Classes: []string{"var-int"}},
			{Query: "{ a: echoInt(x: 1) }"},
		}
		for pi, o := range probe {
			cfg := cfgs[(5+8*pi)%len(cfgs)]
			for k := 0; k < nAliasKinds; k++ {
				o, k, idx := o, k, h.Index()
				h.Case(func(r *rng.R) sexp.Node {
					t := &table{}
					id := ids(idx)
					subs := canonical(t, o, id)
					if a := aliasSub(t, o, k, r, id); a != nil {
						subs = append(subs, *a)
					}
					return w.run(cfg, true, o, t, subs)
				})
			}
			for k := 0; k < nRawKinds; k++ {
				o, k, idx := o, k, h.Index()
				h.Case(func(r *rng.R) sexp.Node {
					t := &table{}
					id := ids(idx)
					subs := canonical(t, o, id)
					for choice := 0; choice < 3; choice++ {
						subs = append(subs, *rawSubOn(o, k, choice, id))
					}
					return w.run(cfg, true, o, t, subs)
				})
			}
			for k := range rawVarTexts {
				o, k, idx := o, k, h.Index()
				h.Case(func(r *rng.R) sexp.Node {
					t := &table{}
					subs := append(canonical(t, o, ids(idx)), *rawGetSub(k, "variables"), *rawGetSub(k, "extensions"))
					return w.run(cfg, true, o, t, subs)
				})
			}
			if h.Thorough() && pi == 0 {
				// the library's nesting limit at its real size: each of the two texts once per transport
				for k := nRawKinds - 2; k < nRawKinds; k++ {
					o, k, idx := o, k, h.Index()
					h.Case(func(r *rng.R) sexp.Node {
						nestFull = true
						defer func() { nestFull = false }()
						t := &table{}
						id := ids(idx)
						subs := canonical(t, o, id)
						for choice := 0; choice < 3; choice++ {
							subs = append(subs, *rawSubOn(o, k, choice, id))
						}
						return w.run(cfg, true, o, t, subs)
					})
				}
			}
			n := len(malformedSubs(&table{}, o, rng.New(1), ids(0)))
			for k := 0; k < n; k += 4 {
				o, k, idx := o, k, h.Index()
				h.Case(func(r *rng.R) sexp.Node {
					t := &table{}
					id := ids(idx)
					subs := canonical(t, o, id)
					ms := malformedSubs(t, o, r, id)
					for j := k; j < k+4 && j < len(ms); j++ {
						subs = append(subs, ms[j]())
					}
					return w.run(cfg, true, o, t, subs)
				})
			}
			for _, proto := range []string{"gws", "tws"} {
				o, proto, idx := o, proto, h.Index()
				h.Case(func(r *rng.R) sexp.Node {
					t := &table{}
					id := ids(idx)
					subs := append(canonical(t, o, id), preInitSub(t, o, proto, id))
					return w.run(cfg, true, o, t, subs)
				})
			}
		}
		// 3. random requests, random configuration, with alias and malformed envelopes mixed in
		n := 2200
		if h.Thorough() {
			// bounded by the size of the case file (about 8 kB per case) and the run time of the
			// extracted model: about 150 MB and 6 minutes
			n = 17000
		}
		for i := 0; i < n; i++ {
			idx := h.Index()
			h.Case(func(r *rng.R) sexp.Node {
				cfg := rng.Pick(r, cfgs)
				feat := r.Chance(2, 3)
				o := genOpReq(r)
				t := &table{}
				id := ids(idx)
				subs := canonical(t, o, id)
				for j, na := 0, r.Intn(3); j < na; j++ {
					if a := aliasSub(t, o, r.Intn(nAliasKinds), r, id); a != nil {
						subs = append(subs, *a)
					}
				}
				if r.Chance(1, 3) {
					ms := malformedSubs(t, o, r, id)
					for j, nm := 0, r.Range(1, 3); j < nm; j++ {
						subs = append(subs, rng.Pick(r, ms)())
					}
				}
				if r.Chance(1, 3) {
					for j, nr := 0, r.Range(1, 2); j < nr; j++ {
						subs = append(subs, *rawSub(o, r.Intn(nRawKinds), r, id))
					}
				}
				if !o.Sub && r.Chance(1, 8) {
					subs = append(subs, *rawGetSub(r.Intn(len(rawVarTexts)), rng.Pick(r, []string{"variables", "variables", "extensions"})))
				}
				if r.Chance(1, 4) {
					subs = append(subs, framedSubs(subs[:len(canonical(&table{}, o, ids(0)))], r.Intn(3))...)
				}
				if r.Chance(1, 4) {
					subs = append(subs, reuseSubs(subs[:len(canonical(&table{}, o, ids(0)))], r.Intn(2))...)
				}
				if !o.Sub && r.Chance(1, 10) {
					subs = append(subs, activeIdSubs(t, o, rng.Pick(r, []string{"gws", "tws"}), fmt.Sprintf("h%d", idx))...)
				}
				if r.Chance(1, 40) {
					subs = append(subs, preInitSub(t, o, rng.Pick(r, []string{"gws", "tws"}), id))
				}
				return w.run(cfg, feat, o, t, subs)
			})
		}
	})
}
