package main

// Plumbing of the five transports: HTTP through API.ServeGraphQL (httptest recorder), WebSockets
// through API.ServeGraphQLWS with a real gorilla client over loopback, and the decoder-level
// observations (graphql.NewRequestFromHTTP called directly; the two Connection types driven with a
// recording ConnectionHandler).

import (
	"net"
	"bufio"
	"context"
	"encoding/json"
	"fmt"
	"io"
	"mime"
	"net/http"
	"net/http/httptest"
	"net/url"
	"os"
	"strconv"
	"strings"
	"sync"
	"time"

	"github.com/gorilla/websocket"
	"github.com/sirupsen/logrus"

	apifu "github.com/ccbrown/api-fu"
	"github.com/ccbrown/api-fu/graphql"
	"github.com/ccbrown/api-fu/graphql/transport/graphqltransportws"
	"github.com/ccbrown/api-fu/graphql/transport/graphqlws"

	"verifharness/internal/sexp"
)

func init() {
	logrus.SetOutput(io.Discard)
}

// ---------------------------------------------------------------------------------------------
// envelopes
// ---------------------------------------------------------------------------------------------

type httpEnv struct {
	Method      string
	ContentType string      // header value; "" = header absent
	Params      [][2]string // URL query parameters, in order
	Body        string
	// how the body travels: "" = Content-Length, in memory; "chunked-1" / "chunked-3" / "chunked-all":
	// Transfer-Encoding: chunked (1-byte chunks, three chunks, one chunk) over a real connection;
	// "cl-short": Content-Length one less than the bytes sent (the server hands the handler a prefix);
	// "cl-long": Content-Length larger than the bytes sent, then the client stops sending (the
	// stream ends before the announced length)
	Framing string
}

// the bytes the handler can read from the request body, and whether the stream ends early
func (e httpEnv) effectiveBody() (string, bool) {
	switch e.Framing {
	case "cl-short":
		if len(e.Body) > 0 {
			return e.Body[:len(e.Body)-1], false
		}
	case "cl-long":
		return e.Body, true
	}
	return e.Body, false
}

type earlyEOF struct{ r io.Reader }

func (x earlyEOF) Read(p []byte) (int, error) {
	n, err := x.r.Read(p)
	if err == io.EOF {
		err = io.ErrUnexpectedEOF
	}
	return n, err
}

func (e httpEnv) url() string {
	var parts []string
	for _, p := range e.Params {
		parts = append(parts, url.QueryEscape(p[0])+"="+url.QueryEscape(p[1]))
	}
	if len(parts) == 0 {
		return "/graphql"
	}
	return "/graphql?" + strings.Join(parts, "&")
}

func (e httpEnv) request() *http.Request {
	var body io.Reader
	eff, early := e.effectiveBody()
	if e.Body != "" || e.Method == "POST" || e.Method == "PUT" {
		body = strings.NewReader(eff)
	}
	switch {
	case strings.HasPrefix(e.Framing, "chunked"):
		// what net/http hands a handler for a chunked request: no Content-Length, a body of unknown length
		body = io.MultiReader(strings.NewReader(eff))
	case early:
		body = earlyEOF{strings.NewReader(eff)}
	}
	r := httptest.NewRequest(e.Method, e.url(), body)
	if strings.HasPrefix(e.Framing, "chunked") {
		r.TransferEncoding = []string{"chunked"}
	}
	if early {
		r.ContentLength = int64(len(eff)) + 7
	}
	if e.ContentType != "" {
		r.Header.Set("Content-Type", e.ContentType)
	}
	return r
}

// the parsed envelope handed to the model: method, media type as mime.ParseMediaType returns it,
// URL parameters as an association list, body bytes
func (e httpEnv) sexp() sexp.Node {
	media, _, _ := mime.ParseMediaType(e.ContentType)
	var ps []sexp.Node
	for _, p := range e.Params {
		ps = append(ps, sexp.L(sexp.Str(p[0]), sexp.Str(p[1])))
	}
	// with a framing: the bytes SENT and the framing; the model works out what the handler can read
	switch e.Framing {
	case "":
		return sexp.T("http", sexp.Str(e.Method), sexp.Str(media), sexp.L(ps...), sexp.Str(e.Body))
	case "cl-short":
		return sexp.T("http", sexp.Str(e.Method), sexp.Str(media), sexp.L(ps...), sexp.Str(e.Body), sexp.T("cl", sexp.Int(len(e.Body)-1)))
	case "cl-long":
		return sexp.T("http", sexp.Str(e.Method), sexp.Str(media), sexp.L(ps...), sexp.Str(e.Body), sexp.T("cl", sexp.Int(len(e.Body)+7)))
	}
	var sizes []sexp.Node
	switch e.Framing {
	case "chunked-1":
		for i := 0; i < len(e.Body); i++ {
			sizes = append(sizes, sexp.Int(1))
		}
	case "chunked-3":
		a, c := len(e.Body)/3, 2*len(e.Body)/3
		sizes = []sexp.Node{sexp.Int(a), sexp.Int(c - a)}
	}
	return sexp.T("http", sexp.Str(e.Method), sexp.Str(media), sexp.L(ps...), sexp.Str(e.Body), sexp.T("chunked", sizes...))
}

type wsEnv struct {
	Proto   string  // "gws" (graphql-ws) or "tws" (graphql-transport-ws)
	PreInit bool    // sent before connection_init
	Bad     bool    // Raw is not a deserialisable Message
	Type    string  // message type
	ID      string  // operation id
	Payload *string // raw payload text; nil = no payload member
	Raw     string  // the frame text that is sent
	// history on the connection: frames sent right before Raw (e.g. the client's own complete / stop
	// for an id that is about to be reused); they are not answered
	Pre []string
	// Hold: the operation is a subscription that stays active: its first data frame ends the exchange
	Hold bool
	// Quiet: a silent message is expected and does not close a graphql-transport-ws connection
	Quiet bool
}

func (e wsEnv) sexp() sexp.Node {
	fr := sexp.Sym("bad-frame")
	if !e.Bad {
		p := sexp.None()
		if e.Payload != nil {
			p = sexp.Some(sexp.Str(*e.Payload))
		}
		fr = sexp.T("frame", sexp.Str(e.Type), sexp.Str(e.ID), p)
	}
	return sexp.T("ws", sexp.Sym(e.Proto), sexp.Bool(!e.PreInit), fr, sexp.Str(e.Raw))
}

func startType(proto string) string {
	if proto == "tws" {
		return "subscribe"
	}
	return "start"
}

func quoteJSON(s string) string {
	var b strings.Builder
	renderString(&b, s, styleCompact)
	return b.String()
}

// frame text with members in the given order ("itp" = id, type, payload)
func frameText(order string, typ, id string, payload *string) string {
	var parts []string
	for _, c := range order {
		switch c {
		case 'i':
			parts = append(parts, `"id":`+quoteJSON(id))
		case 't':
			parts = append(parts, `"type":`+quoteJSON(typ))
		case 'p':
			if payload != nil {
				parts = append(parts, `"payload":`+*payload)
			}
		}
	}
	return "{" + strings.Join(parts, ",") + "}"
}

// ---------------------------------------------------------------------------------------------
// observations
// ---------------------------------------------------------------------------------------------

// apiObs is what one submission produced at the API level.
type apiObs struct {
	Kind      string // "status" (HTTP), "data" (WS answered), "ignored", "closed", "timeout", "panic"
	Code      int
	Payloads  []string // canonical response(s); for HTTP 200 exactly one
	Completed bool
	Resolvers string
	Hooks     string
	// the answer as it was on the wire
	HasHTTP bool
	CType   string // Content-Type header
	CLen    int    // Content-Length header, -1 when absent
	Body    []byte
	HasWS   bool
	Frames  [][]byte // the text frames received for the operation id, in order, byte for byte
	Raws    [][]byte // the payload bytes of the data / next frames, as the harness cut them out
}

func (o apiObs) sexp() sexp.Node {
	var ps []sexp.Node
	for _, p := range o.Payloads {
		ps = append(ps, sexp.Str(p))
	}
	wire := sexp.T("wire-none")
	if o.HasHTTP {
		wire = sexp.T("wire-http", sexp.Str(o.CType), sexp.Int(o.CLen), sexp.Str(string(o.Body)))
	} else if o.HasWS {
		var fs, rs []sexp.Node
		for _, f := range o.Frames {
			fs = append(fs, sexp.Str(string(f)))
		}
		for _, r := range o.Raws {
			rs = append(rs, sexp.Str(string(r)))
		}
		wire = sexp.T("wire-ws", sexp.L(fs...), sexp.L(rs...))
	}
	return sexp.T("obs", sexp.T(o.Kind, sexp.Int(o.Code)), sexp.L(ps...), sexp.Bool(o.Completed), sexp.Str(o.Resolvers), sexp.Str(o.Hooks), wire)
}

type server struct {
	cfg   config
	api   *apifu.API
	rec   *recorder
	ts    *httptest.Server
	conns map[string]*wsClient // proto + feat
}

func newServer(c config) *server {
	s := &server{cfg: c, rec: &recorder{}, conns: map[string]*wsClient{}}
	s.api = newAPI(c, s.rec)
	s.ts = httptest.NewServer(http.HandlerFunc(func(w http.ResponseWriter, r *http.Request) {
		if websocket.IsWebSocketUpgrade(r) {
			s.api.ServeGraphQLWS(w, r)
		} else {
			planMiddleware(s.api.ServeGraphQL)(w, r)
		}
	}))
	return s
}

func (s *server) close() {
	for _, c := range s.conns {
		c.conn.Close()
	}
	s.api.CloseHijackedConnections()
	s.ts.Close()
}

// rawRequest: the request as bytes on a connection, with the body framed as e.Framing says
func (e httpEnv) rawRequest(feat bool) (req []byte, halfClose bool) {
	var b strings.Builder
	fmt.Fprintf(&b, "%s %s HTTP/1.1\r\nHost: harness\r\nConnection: close\r\nX-Plan: %s\r\n", e.Method, e.url(), planOf(feat))
	if e.ContentType != "" {
		fmt.Fprintf(&b, "Content-Type: %s\r\n", e.ContentType)
	}
	switch e.Framing {
	case "cl-short":
		fmt.Fprintf(&b, "Content-Length: %d\r\n\r\n%s", len(e.Body)-1, e.Body)
	case "cl-long":
		fmt.Fprintf(&b, "Content-Length: %d\r\n\r\n%s", len(e.Body)+7, e.Body)
		halfClose = true
	default: // chunked
		b.WriteString("Transfer-Encoding: chunked\r\n\r\n")
		var chunks []string
		switch e.Framing {
		case "chunked-1":
			for i := 0; i < len(e.Body); i++ {
				chunks = append(chunks, e.Body[i:i+1])
			}
		case "chunked-3":
			a, c := len(e.Body)/3, 2*len(e.Body)/3
			chunks = []string{e.Body[:a], e.Body[a:c], e.Body[c:]}
		default:
			chunks = []string{e.Body}
		}
		for _, c := range chunks {
			if len(c) > 0 {
				fmt.Fprintf(&b, "%x\r\n%s\r\n", len(c), c)
			}
		}
		b.WriteString("0\r\n\r\n")
	}
	return []byte(b.String()), halfClose
}

// serveRaw sends the request over a real connection to the case's server
func (s *server) serveRaw(e httpEnv, feat bool) (o apiObs) {
	s.rec.take()
	req, halfClose := e.rawRequest(feat)
	conn, err := net.DialTimeout("tcp", s.ts.Listener.Addr().String(), 5*time.Second)
	if err != nil {
		panic(err)
	}
	defer conn.Close()
	conn.SetDeadline(time.Now().Add(10 * time.Second))
	if _, err := conn.Write(req); err != nil {
		panic(err)
	}
	if halfClose {
		conn.(*net.TCPConn).CloseWrite()
	}
	resp, err := http.ReadResponse(bufio.NewReader(conn), nil)
	if err != nil {
		o.Kind = "timeout"
		o.Resolvers, o.Hooks = s.rec.take()
		return o
	}
	body, _ := io.ReadAll(resp.Body)
	resp.Body.Close()
	o.Resolvers, o.Hooks = s.rec.take()
	o.Kind, o.Code, o.Completed = "status", resp.StatusCode, true
	o.HasHTTP, o.CType, o.CLen, o.Body = true, resp.Header.Get("Content-Type"), int(resp.ContentLength), body
	if resp.StatusCode == 200 {
		if c, ok := canonResponse(body); ok {
			o.Payloads = []string{c}
		} else {
			o.Payloads = []string{"unparseable:" + string(body)}
		}
	}
	return o
}

func (s *server) serveHTTP(e httpEnv, feat bool) (o apiObs) {
	if e.Framing != "" {
		return s.serveRaw(e, feat)
	}
	s.rec.take()
	r := e.request()
	r.Header.Set("X-Plan", planOf(feat))
	w := httptest.NewRecorder()
	func() {
		defer func() {
			if p := recover(); p != nil {
				o.Kind = "panic"
			}
		}()
		planMiddleware(s.api.ServeGraphQL)(w, r)
	}()
	o.Resolvers, o.Hooks = s.rec.take()
	if o.Kind == "panic" {
		return o
	}
	o.Kind, o.Code, o.Completed = "status", w.Code, true
	o.HasHTTP, o.CType, o.CLen, o.Body = true, w.Header().Get("Content-Type"), -1, append([]byte(nil), w.Body.Bytes()...)
	if cl := w.Header().Get("Content-Length"); cl != "" {
		if n, err := strconv.Atoi(cl); err == nil {
			o.CLen = n
		}
	}
	if w.Code == 200 {
		if c, ok := canonResponse(w.Body.Bytes()); ok {
			o.Payloads = []string{c}
		} else {
			o.Payloads = []string{"unparseable:" + w.Body.String()}
		}
	}
	return o
}

// ---------------------------------------------------------------------------------------------
// WebSocket client
// ---------------------------------------------------------------------------------------------

type wsClient struct {
	conn  *websocket.Conn
	proto string
	dead  bool
	// set for the pre-init probe: the silent message there is the no-op that follows the init
	noCloseWait bool
	primedFor   int // case number the connection was last primed for
	inits       []string // plans of the connection_init messages to send ("" = no payload)
}

// Connections are reused.  So that state leaking from one operation of a connection into the next
// (a decoded payload, a feature set, a subscription table) shows inside a single case, and
// therefore replays, every case first runs a primer operation with distinctive variables and
// operation name on each connection it uses.
const primerPayload = `{"query":"query Primer($i: Int, $leak: Boolean) { primer: echoInt(x: $i) l: echoBool(x: $leak) }","variables":{"i":41,"leak":true},"operationName":"Primer"}`

const primerSubscription = `{"query":"subscription PrimerSub { ticks(n: 1) }"}`

func (c *wsClient) prime(caseNo int) {
	if c.primedFor == caseNo || c.dead {
		return
	}
	c.primedFor = caseNo
	id := fmt.Sprintf("primer-%d", caseNo)
	sub := primerSubscription
	c.exchange(frameText("itp", startType(c.proto), id+"-sub", &sub), id+"-sub", id+"-sub-s", true)
	pl := primerPayload
	c.exchange(frameText("itp", startType(c.proto), id, &pl), id, id+"-s", false)
}

type wsMsg struct {
	ID      string          `json:"id"`
	Type    string          `json:"type"`
	Payload json.RawMessage `json:"payload"`
	Raw     []byte          `json:"-"` // the frame as received
}

func planOf(feat bool) string {
	if feat {
		return "beta"
	}
	return "free"
}

// planMiddleware is the application's authentication middleware over HTTP: the principal's plan from a
// header into the request context, where Config.Features finds it
func planMiddleware(next http.HandlerFunc) http.HandlerFunc {
	return func(w http.ResponseWriter, r *http.Request) {
		next(w, r.WithContext(context.WithValue(r.Context(), featKey, r.Header.Get("X-Plan") == "beta")))
	}
}

// initsFor: the connection_init sequence of the connections of a server for a principal: the
// principal's own plan last; before it, for some configurations, inits of the other plan (a repeated
// connection_init replaces the context and recomputes the feature set)
func initsFor(c config, feat bool) []string {
	switch {
	case c.Cost && c.Hook:
		return []string{planOf(feat), planOf(!feat), planOf(feat)}
	case c.Cost:
		return []string{planOf(!feat), planOf(feat)}
	}
	return []string{planOf(feat)}
}

func dialWS(httpURL, proto string, inits []string, doInit bool) *wsClient {
	sub := graphqlws.WebSocketSubprotocol
	if proto == "tws" {
		sub = graphqltransportws.WebSocketSubprotocol
	}
	d := &websocket.Dialer{HandshakeTimeout: 5 * time.Second, Subprotocols: []string{sub}}
	u := "ws" + strings.TrimPrefix(httpURL, "http")
	var conn *websocket.Conn
	var err error
	for i := 0; i < 50; i++ {
		conn, _, err = d.Dial(u, nil)
		if err == nil {
			break
		}
		time.Sleep(10 * time.Millisecond)
	}
	if err != nil {
		panic(fmt.Sprintf("cannot dial %s: %v", u, err))
	}
	c := &wsClient{conn: conn, proto: proto, inits: inits}
	if doInit {
		if _, err := c.init(); err != nil {
			panic(err)
		}
	}
	return c
}

func (c *wsClient) init() ([]wsMsg, error) {
	var before []wsMsg
	for _, plan := range c.inits {
		frame := `{"type":"connection_init"}`
		if plan != "" {
			frame = `{"type":"connection_init","payload":{"plan":"` + plan + `"}}`
		}
		if err := c.conn.WriteMessage(websocket.TextMessage, []byte(frame)); err != nil {
			return nil, err
		}
		for {
			m, code, err := c.read(5 * time.Second)
			if err != nil || code != 0 {
				return before, fmt.Errorf("no connection_ack (%v, close %d)", err, code)
			}
			if m.Type == "connection_ack" {
				break
			}
			before = append(before, m)
		}
	}
	return before, nil
}

// read returns the next message, or a close code, or an error (time-out etc.)
func (c *wsClient) read(d time.Duration) (wsMsg, int, error) {
	c.conn.SetReadDeadline(time.Now().Add(d))
	_, p, err := c.conn.ReadMessage()
	if err != nil {
		c.dead = true
		if ce, ok := err.(*websocket.CloseError); ok {
			return wsMsg{}, ce.Code, nil
		}
		return wsMsg{}, 0, err
	}
	var m wsMsg
	if err := json.Unmarshal(p, &m); err != nil {
		return wsMsg{}, 0, fmt.Errorf("server sent a frame that is not a message: %q", p)
	}
	m.Raw = p
	return m, 0, nil
}

func (c *wsClient) sendAll(frames []string) {
	for _, f := range frames {
		c.conn.SetWriteDeadline(time.Now().Add(5 * time.Second))
		if err := c.conn.WriteMessage(websocket.TextMessage, []byte(f)); err != nil {
			c.dead = true
			return
		}
	}
}

type wsResult struct {
	Kind      string // data, ignored, closed, timeout
	Code      int
	Payloads  [][]byte
	Frames    [][]byte
	Completed bool
}

// exchange sends one frame and collects what the server answers for operation id.  Queries and
// mutations are answered synchronously inside the read loop, so a sentinel operation sent right
// after the frame delimits the answer ("nothing before the sentinel's complete" = ignored).
// Subscriptions complete asynchronously: for those (async) the operation's own complete is awaited.
func (c *wsClient) exchange(raw string, id string, sentinelID string, async bool) (res wsResult) {
	return c.exchangeMode(raw, id, sentinelID, async, false, false)
}

func (c *wsClient) exchangeMode(raw string, id string, sentinelID string, async, hold, quiet bool) (res wsResult) {
	if os.Getenv("C17_DEBUG") != "" {
		t0 := time.Now()
		defer func() {
			if d := time.Since(t0); d > 100*time.Millisecond {
				fmt.Fprintf(os.Stderr, "slow exchange %v proto=%s async=%v kind=%s raw=%.200q\n", d, c.proto, async, res.Kind, raw)
			}
		}()
	}
	c.conn.SetWriteDeadline(time.Now().Add(5 * time.Second))
	if err := c.conn.WriteMessage(websocket.TextMessage, []byte(raw)); err != nil {
		c.dead = true
		res.Kind = "timeout"
		return
	}
	sp := `{"query":` + quoteJSON(sentinelQuery) + `}`
	// a write error here means the server already closed the connection; the read below reports it
	c.conn.WriteMessage(websocket.TextMessage, []byte(frameText("itp", startType(c.proto), sentinelID, &sp)))
	sentinelDone := false
	for {
		if sentinelDone && (res.Completed || (len(res.Payloads) == 0 && !async) || (hold && len(res.Payloads) > 0)) {
			break
		}
		m, code, err := c.read(10 * time.Second)
		if err != nil {
			res.Kind = "timeout"
			return
		}
		if code != 0 {
			res.Kind, res.Code = "closed", code
			return
		}
		switch {
		case m.ID == id && id != "" && (m.Type == "data" || m.Type == "next"):
			res.Payloads = append(res.Payloads, []byte(m.Payload))
			res.Frames = append(res.Frames, m.Raw)
		case m.ID == id && id != "" && m.Type == "complete":
			res.Completed = true
			res.Frames = append(res.Frames, m.Raw)
		case m.ID == id && id != "":
			res.Payloads = append(res.Payloads, []byte("unexpected-frame-type:"+m.Type))
			res.Frames = append(res.Frames, m.Raw)
		case m.ID == sentinelID && m.Type == "complete":
			sentinelDone = true
		}
	}
	if len(res.Payloads) > 0 || res.Completed {
		res.Kind = "data"
		return
	}
	res.Kind = "ignored"
	if c.proto == "tws" && !c.noCloseWait && !quiet {
		// graphql-transport-ws answers a bad message by closing the connection, but its read loop
		// keeps serving what follows (the sentinel) until the close handshake is through: the close
		// frame comes after the sentinel's answer.  Nothing else is pending, so wait for it briefly;
		// the connection is not reused after a silent message either way.
		_, code, err := c.read(5 * time.Second)
		c.dead = true
		if err == nil && code != 0 {
			res.Kind, res.Code = "closed", code
		}
	}
	return
}

// preInitExchange sends the frame on a fresh connection before connection_init, then initialises
// the connection and delimits with a sentinel as usual.
func preInitExchange(httpURL, proto string, inits []string, raw, id string) (res wsResult) {
	c := dialWS(httpURL, proto, inits, false)
	defer c.conn.Close()
	if err := c.conn.WriteMessage(websocket.TextMessage, []byte(raw)); err != nil {
		panic(err)
	}
	before, err := c.init()
	if err != nil {
		res.Kind = "closed"
		return
	}
	c.noCloseWait = true
	res = c.exchange(`{"type":"pong"}`, id, id+"-s", false) // "pong": a no-op in both protocols
	for _, m := range before {
		if m.ID == id {
			res.Payloads = append([][]byte{[]byte(m.Payload)}, res.Payloads...)
			res.Frames = append([][]byte{m.Raw}, res.Frames...)
			res.Kind = "data"
		}
	}
	return
}

func (s *server) wsConn(proto string, feat bool) *wsClient {
	key := fmt.Sprintf("%s-%v", proto, feat)
	c := s.conns[key]
	if c == nil || c.dead {
		if c != nil {
			c.conn.Close()
		}
		c = dialWS(s.ts.URL, proto, initsFor(s.cfg, feat), true)
		s.conns[key] = c
	}
	return c
}

func (s *server) serveWS(e wsEnv, feat bool, async bool, caseNo int) (o apiObs) {
	var r wsResult
	if e.PreInit {
		s.rec.take()
		r = preInitExchange(s.ts.URL, e.Proto, initsFor(s.cfg, feat), e.Raw, e.ID)
	} else {
		s.wsConn(e.Proto, feat).prime(caseNo)
		c := s.wsConn(e.Proto, feat)
		c.primedFor = caseNo
		s.rec.take()
		c.sendAll(e.Pre)
		r = c.exchangeMode(e.Raw, e.ID, e.ID+"-s", async || e.Hold, e.Hold, e.Quiet)
	}
	o.Resolvers, o.Hooks = s.rec.take()
	o.Kind, o.Code, o.Completed = r.Kind, r.Code, r.Completed
	o.HasWS, o.Frames, o.Raws = true, r.Frames, r.Payloads
	for _, p := range r.Payloads {
		if c, ok := canonResponse(p); ok {
			o.Payloads = append(o.Payloads, c)
		} else {
			o.Payloads = append(o.Payloads, "unparseable:"+string(p))
		}
	}
	return o
}

// ---------------------------------------------------------------------------------------------
// decoder-level observations
// ---------------------------------------------------------------------------------------------

func decodeHTTP(e httpEnv) sexp.Node {
	req, code, err := graphql.NewRequestFromHTTP(e.request())
	if err != nil || req == nil {
		return sexp.T("reject", sexp.Int(code))
	}
	return sexp.T("accept", sexp.Str(req.Query), goOptMapSexp(req.VariableValues), sexp.Str(req.OperationName), goOptMapSexp(req.Extensions))
}

type startArgs struct {
	Query, OperationName string
	Variables            map[string]interface{}
}

type sender interface {
	SendData(ctx context.Context, id string, response *graphql.Response) error
	SendComplete(ctx context.Context, id string) error
}

// recHandler implements the ConnectionHandler interface of both WebSocket packages.
type recHandler struct {
	conn  sender
	store *sync.Map
}

func (h *recHandler) HandleInit(parameters json.RawMessage) error { return nil }
func (h *recHandler) HandleStart(id string, query string, variables map[string]interface{}, operationName string) {
	h.store.Store(id, startArgs{Query: query, OperationName: operationName, Variables: variables})
	h.conn.SendData(context.Background(), id, &graphql.Response{})
	h.conn.SendComplete(context.Background(), id)
}
func (h *recHandler) HandleStop(id string) {}
func (h *recHandler) LogError(err error)   {}
func (h *recHandler) Cancel()              {}
func (h *recHandler) HandleClose()         {}

type decoderServer struct {
	ts    *httptest.Server
	store sync.Map
	conns map[string]*wsClient
}

func newDecoderServer() *decoderServer {
	d := &decoderServer{conns: map[string]*wsClient{}}
	d.ts = httptest.NewServer(http.HandlerFunc(func(w http.ResponseWriter, r *http.Request) {
		up := websocket.Upgrader{Subprotocols: []string{graphqlws.WebSocketSubprotocol, graphqltransportws.WebSocketSubprotocol}}
		conn, err := up.Upgrade(w, r, nil)
		if err != nil {
			return
		}
		h := &recHandler{store: &d.store}
		if conn.Subprotocol() == graphqltransportws.WebSocketSubprotocol {
			c := &graphqltransportws.Connection{Handler: h}
			h.conn = c
			c.Serve(conn)
		} else {
			c := &graphqlws.Connection{Handler: h}
			h.conn = c
			c.Serve(conn)
		}
	}))
	return d
}

func (d *decoderServer) decodeWS(e wsEnv, caseNo int) sexp.Node {
	var r wsResult
	if e.PreInit {
		r = preInitExchange(d.ts.URL, e.Proto, []string{""}, e.Raw, e.ID)
	} else {
		c := d.conns[e.Proto]
		if c == nil || c.dead {
			if c != nil {
				c.conn.Close()
			}
			c = dialWS(d.ts.URL, e.Proto, []string{""}, true)
			d.conns[e.Proto] = c
		}
		c.prime(caseNo)
		d.store.Delete(fmt.Sprintf("primer-%d", caseNo))
		d.store.Delete(fmt.Sprintf("primer-%d-sub", caseNo))
		c.sendAll(e.Pre)
		r = c.exchangeMode(e.Raw, e.ID, e.ID+"-s", false, false, e.Quiet)
	}
	switch r.Kind {
	case "data":
		if a, ok := d.store.LoadAndDelete(e.ID); ok {
			sa := a.(startArgs)
			return sexp.T("start", sexp.Str(e.ID), sexp.Str(sa.Query), goOptMapSexp(sa.Variables), sexp.Str(sa.OperationName))
		}
		return sexp.T("start-unknown")
	case "closed":
		return sexp.T("closed", sexp.Int(r.Code))
	default:
		return sexp.T(r.Kind)
	}
}
