package main

import (
	"fmt"
	"math"
	"math/big"
	"sort"
	"strconv"
	"strings"
	"time"

	"verifharness/internal/sexp"
)

// ---- float64 <-> exact dyadic (m, e), canonical: m odd, or 0*2^0 (negative zero is sent as zero) ----

func dyadic(f float64) (*big.Int, int) {
	if f == 0 {
		return big.NewInt(0), 0
	}
	frac, exp := math.Frexp(f) // f = frac * 2^exp, 0.5 <= |frac| < 1
	m := int64(frac * (1 << 53))
	e := exp - 53
	for m%2 == 0 {
		m /= 2
		e++
	}
	return big.NewInt(m), e
}

func floatSexp(tag string, f float64) sexp.Node {
	if math.IsNaN(f) || math.IsInf(f, 0) {
		return sexp.Sym("other")
	}
	m, e := dyadic(f)
	return sexp.T(tag, sexp.Big(m), sexp.Int(e))
}

// ---- AST literals ----

// Lit kinds: 'v' variable, 'i' int, 'f' float (M * 10^Exp), 's' string, 'b' bool, '0' null,
// 'e' enum, 'l' list, 'o' object.
type Lit struct {
	K      byte
	Name   string // variable / enum name
	Int    *big.Int
	Exp    int
	Str    string
	Bool   bool
	Items  []*Lit
	Fields []LField
}

type LField struct {
	Name string
	V    *Lit
}

func lVar(n string) *Lit       { return &Lit{K: 'v', Name: n} }
func lInt(i int64) *Lit        { return &Lit{K: 'i', Int: big.NewInt(i)} }
func lBig(s string) *Lit       { z, _ := new(big.Int).SetString(s, 10); return &Lit{K: 'i', Int: z} }
func lFloat(m int64, e int) *Lit { return &Lit{K: 'f', Int: big.NewInt(m), Exp: e} }
func lStr(s string) *Lit       { return &Lit{K: 's', Str: s} }
func lBool(b bool) *Lit        { return &Lit{K: 'b', Bool: b} }
func lNull() *Lit              { return &Lit{K: '0'} }
func lEnum(n string) *Lit      { return &Lit{K: 'e', Name: n} }
func lList(items ...*Lit) *Lit { return &Lit{K: 'l', Items: items} }
func lObj(kv ...interface{}) *Lit {
	l := &Lit{K: 'o'}
	for i := 0; i+1 < len(kv); i += 2 {
		l.Fields = append(l.Fields, LField{kv[i].(string), kv[i+1].(*Lit)})
	}
	return l
}

func pow2(k int) *big.Int { return new(big.Int).Lsh(big.NewInt(1), uint(k)) }

func quoteGraphQL(s string) string {
	var b strings.Builder
	b.WriteByte('"')
	for _, r := range s {
		switch {
		case r == '"':
			b.WriteString(`\"`)
		case r == '\\':
			b.WriteString(`\\`)
		case r == '\n':
			b.WriteString(`\n`)
		case r < 0x20:
			fmt.Fprintf(&b, `\u%04X`, r)
		default:
			b.WriteRune(r)
		}
	}
	b.WriteByte('"')
	return b.String()
}

// floatText renders M * 10^Exp as a GraphQL FloatValue.
func floatText(m *big.Int, e int) string {
	digits := new(big.Int).Abs(m).String()
	sign := ""
	if m.Sign() < 0 {
		sign = "-"
	}
	if e < 0 && e >= -6 {
		for len(digits) <= -e {
			digits = "0" + digits
		}
		return sign + digits[:len(digits)+e] + "." + digits[len(digits)+e:]
	}
	return sign + digits + "e" + strconv.Itoa(e)
}

func (l *Lit) text() string {
	switch l.K {
	case 'v':
		return "$" + l.Name
	case 'i':
		return l.Int.String()
	case 'f':
		return floatText(l.Int, l.Exp)
	case 's':
		return quoteGraphQL(l.Str)
	case 'b':
		return strconv.FormatBool(l.Bool)
	case '0':
		return "null"
	case 'e':
		return l.Name
	case 'l':
		parts := make([]string, len(l.Items))
		for i, x := range l.Items {
			parts[i] = x.text()
		}
		return "[" + strings.Join(parts, ", ") + "]"
	}
	parts := make([]string, len(l.Fields))
	for i, f := range l.Fields {
		parts[i] = f.Name + ": " + f.V.text()
	}
	return "{" + strings.Join(parts, ", ") + "}"
}

func (l *Lit) sexp() sexp.Node {
	switch l.K {
	case 'v':
		return sexp.T("var", sexp.Str(l.Name))
	case 'i':
		return sexp.T("int", sexp.Big(l.Int))
	case 'f':
		return sexp.T("float", sexp.Big(l.Int), sexp.Int(l.Exp))
	case 's':
		return sexp.T("str", sexp.Str(l.Str))
	case 'b':
		return sexp.T("bool", sexp.Bool(l.Bool))
	case '0':
		return sexp.Sym("null")
	case 'e':
		return sexp.T("enum", sexp.Str(l.Name))
	case 'l':
		items := make([]sexp.Node, len(l.Items))
		for i, x := range l.Items {
			items[i] = x.sexp()
		}
		return sexp.T("list", items...)
	}
	fs := make([]sexp.Node, len(l.Fields))
	for i, f := range l.Fields {
		fs[i] = sexp.L(sexp.Str(f.Name), f.V.sexp())
	}
	return sexp.T("obj", fs...)
}

func (l *Lit) hasVar() bool {
	switch l.K {
	case 'v':
		return true
	case 'l':
		for _, x := range l.Items {
			if x.hasVar() {
				return true
			}
		}
	case 'o':
		for _, f := range l.Fields {
			if f.V.hasVar() {
				return true
			}
		}
	}
	return false
}

// goInt marks a JSON-route value that is sent as a Go int rather than a float64.
type goInt int

// json gives the variable-transport counterpart of a constant literal: what a JSON client would
// send for the same value (numbers become float64, enum names become strings).  ok is false when
// there is none (a variable inside, a float literal out of range).
func (l *Lit) json() (interface{}, bool) {
	switch l.K {
	case 'v':
		return nil, false
	case 'i':
		f, _ := new(big.Float).SetInt(l.Int).Float64()
		if math.IsInf(f, 0) {
			return nil, false
		}
		return f, true
	case 'f':
		f, err := strconv.ParseFloat(floatText(l.Int, l.Exp), 64)
		if err != nil || math.IsInf(f, 0) {
			return nil, false
		}
		return f, true
	case 's':
		return l.Str, true
	case 'b':
		return l.Bool, true
	case '0':
		return nil, true
	case 'e':
		return l.Name, true
	case 'l':
		out := make([]interface{}, len(l.Items))
		for i, x := range l.Items {
			v, ok := x.json()
			if !ok {
				return nil, false
			}
			out[i] = v
		}
		return out, true
	}
	out := map[string]interface{}{}
	for _, f := range l.Fields {
		v, ok := f.V.json()
		if !ok {
			return nil, false
		}
		if _, dup := out[f.Name]; dup {
			return nil, false
		}
		out[f.Name] = v
	}
	return out, true
}

// jv encodes a variable value (a Go value in Request.VariableValues) as a jval s-expression.
func jv(x interface{}) sexp.Node {
	switch v := x.(type) {
	case nil:
		return sexp.Sym("null")
	case bool:
		return sexp.T("bool", sexp.Bool(v))
	case float64:
		return floatSexp("num", v)
	case goInt:
		return sexp.T("int", sexp.Int(int(v)))
	case int:
		return sexp.T("int", sexp.Int(v))
	case string:
		return sexp.T("str", sexp.Str(v))
	case []interface{}:
		items := make([]sexp.Node, len(v))
		for i, e := range v {
			items[i] = jv(e)
		}
		return sexp.T("list", items...)
	case map[string]interface{}:
		keys := make([]string, 0, len(v))
		for k := range v {
			keys = append(keys, k)
		}
		sort.Strings(keys)
		out := make([]sexp.Node, len(keys))
		for i, k := range keys {
			out[i] = sexp.L(sexp.Str(k), jv(v[k]))
		}
		return sexp.T("obj", out...)
	}
	return sexp.Sym("other")
}

// plain replaces the harness' goInt marker by a real Go int before the value is handed to the library.
func plain(x interface{}) interface{} {
	switch v := x.(type) {
	case goInt:
		return int(v)
	case []interface{}:
		out := make([]interface{}, len(v))
		for i, e := range v {
			out[i] = plain(e)
		}
		return out
	case map[string]interface{}:
		out := map[string]interface{}{}
		for k, e := range v {
			out[k] = plain(e)
		}
		return out
	}
	return x
}

// ---- the RFC 3339 verdict table: every string of the case, judged by the standard library ----

func collectStringsLit(l *Lit, into map[string]bool) {
	switch l.K {
	case 's':
		into[l.Str] = true
	case 'l':
		for _, x := range l.Items {
			collectStringsLit(x, into)
		}
	case 'o':
		for _, f := range l.Fields {
			collectStringsLit(f.V, into)
		}
	}
}

func collectStringsJSON(x interface{}, into map[string]bool) {
	switch v := x.(type) {
	case string:
		into[v] = true
	case []interface{}:
		for _, e := range v {
			collectStringsJSON(e, into)
		}
	case map[string]interface{}:
		for _, e := range v {
			collectStringsJSON(e, into)
		}
	}
}

func dtTable(strs map[string]bool) sexp.Node {
	keys := make([]string, 0, len(strs))
	for k := range strs {
		keys = append(keys, k)
	}
	sort.Strings(keys)
	out := make([]sexp.Node, len(keys))
	for i, k := range keys {
		t := time.Time{}
		if err := t.UnmarshalText([]byte(k)); err == nil {
			out[i] = sexp.L(sexp.Str(k), sexp.Some(sexp.Str(timeCanon(t))))
		} else {
			out[i] = sexp.L(sexp.Str(k), sexp.None())
		}
	}
	return sexp.L(out...)
}
