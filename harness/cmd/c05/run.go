package main

import (
	"context"
	"fmt"
	"sort"
	"strings"

	"github.com/ccbrown/api-fu/graphql"
	"github.com/ccbrown/api-fu/graphql/schema"

	"verifharness/internal/sexp"
)

type VarDef struct {
	Name string
	T    *Ty
	Def  *Lit // nil: no default
}

// Case is one request against one schema: a field f(args) (site "field") or a directive
// @flt(args) on a field g (site "directive"), an operation with variable definitions, the
// argument literals and the raw variable values.
type Case struct {
	Reg     *Registry
	Site    string
	ArgDefs []InDef
	VarDefs []VarDef
	Args    []LField
	Vars    map[string]interface{} // nil entries are explicit nulls; may hold goInt markers
	Tag     string                 // generator stream / spelling, for the evidence only
}

func (c *Case) document() string {
	var b strings.Builder
	b.WriteString("query Q")
	if len(c.VarDefs) > 0 {
		parts := make([]string, len(c.VarDefs))
		for i, v := range c.VarDefs {
			parts[i] = "$" + v.Name + ": " + v.T.String()
			if v.Def != nil {
				parts[i] += " = " + v.Def.text()
			}
		}
		b.WriteString("(" + strings.Join(parts, ", ") + ")")
	}
	args := ""
	if len(c.Args) > 0 {
		parts := make([]string, len(c.Args))
		for i, a := range c.Args {
			parts[i] = a.Name + ": " + a.V.text()
		}
		args = "(" + strings.Join(parts, ", ") + ")"
	}
	switch c.Site {
	case "field":
		b.WriteString(" { f" + args + " }")
	case "skip", "include": // the built-in directives, argument "if: Boolean!"
		b.WriteString(" { g @" + c.Site + args + " }")
	default:
		b.WriteString(" { g @flt" + args + " }")
	}
	return b.String()
}

type recorder struct {
	calls []sexp.Node // arguments seen by the resolver of f / the filter of @flt
	cost  []sexp.Node // arguments seen by the cost function of f
	ran   bool        // the resolver of g ran
}

func argsSexp(m map[string]interface{}) sexp.Node { return sexp.L(mapEntries(m)...) }

func (c *Case) schema(rec *recorder) *graphql.Schema {
	argMap := map[string]*graphql.InputValueDefinition{}
	var tys []*Ty
	for _, a := range c.ArgDefs {
		argMap[a.Name] = &graphql.InputValueDefinition{Type: c.Reg.ty(a.T), DefaultValue: a.Def}
		tys = append(tys, a.T)
	}
	for _, v := range c.VarDefs {
		tys = append(tys, v.T)
	}
	fArgs, dArgs := argMap, map[string]*graphql.InputValueDefinition{}
	if c.Site != "field" {
		fArgs, dArgs = nil, argMap
	}
	query := &graphql.ObjectType{Name: "Query", Fields: map[string]*graphql.FieldDefinition{
		"f": {Type: graphql.IntType, Arguments: fArgs,
			Cost: func(ctx graphql.FieldCostContext) graphql.FieldCost {
				rec.cost = append(rec.cost, argsSexp(ctx.Arguments))
				return graphql.FieldCost{Resolver: 1}
			},
			Resolve: func(ctx graphql.FieldContext) (interface{}, error) {
				rec.calls = append(rec.calls, argsSexp(ctx.Arguments))
				return 1, nil
			}},
		"g": {Type: graphql.IntType, Resolve: func(ctx graphql.FieldContext) (interface{}, error) {
			rec.ran = true
			return 1, nil
		}},
	}}
	def := &graphql.SchemaDefinition{Query: query, Directives: map[string]*graphql.DirectiveDefinition{
		"flt": {Arguments: dArgs, Locations: []schema.DirectiveLocation{schema.DirectiveLocationField},
			FieldCollectionFilter: func(arguments map[string]interface{}) bool {
				rec.calls = append(rec.calls, argsSexp(arguments))
				return true
			}},
		"skip": graphql.SkipDirective, "include": graphql.IncludeDirective,
	}}
	if c.Site == "skip" || c.Site == "include" {
		// the library's own definition, its filter wrapped so that what it is handed is recorded
		builtin := *def.Directives[c.Site]
		filter := builtin.FieldCollectionFilter
		builtin.FieldCollectionFilter = func(arguments map[string]interface{}) bool {
			rec.calls = append(rec.calls, argsSexp(arguments))
			return filter(arguments)
		}
		def.Directives[c.Site] = &builtin
	}
	for _, n := range c.Reg.closure(tys...) {
		def.AdditionalTypes = append(def.AdditionalTypes, c.Reg.gql[n])
	}
	s, err := graphql.NewSchema(def)
	if err != nil {
		panic(fmt.Sprintf("harness: schema rejected: %v (%s)", err, c.document()))
	}
	return s
}

func guarded(f func()) (panicked bool, msg string) {
	defer func() {
		if e := recover(); e != nil {
			panicked, msg = true, fmt.Sprint(e)
		}
	}()
	f()
	return
}

func (c *Case) run() sexp.Node {
	rec := &recorder{}
	s := c.schema(rec)
	query := c.document()
	vars := map[string]interface{}{}
	for k, v := range c.Vars {
		vars[k] = plain(v)
	}

	static, exec := "ok", "none"
	var errs []*graphql.Error
	if p, _ := guarded(func() { _, errs = graphql.ParseAndValidate(query, s, graphql.FeatureSet{}) }); p {
		static = "panic"
	} else if len(errs) > 0 {
		static = "reject"
		for _, e := range errs {
			if strings.HasPrefix(e.Message, "Syntax error") {
				panic("harness: generated document does not parse: " + query + ": " + e.Message)
			}
		}
	}
	if static == "ok" {
		var resp *graphql.Response
		if p, _ := guarded(func() {
			resp = graphql.Execute(&graphql.Request{Context: context.Background(), Query: query, Schema: s, VariableValues: vars})
		}); p {
			exec = "panic"
		} else if len(resp.Errors) > 0 {
			exec = "error"
		} else {
			exec = "ok"
		}
	}
	// the cost function observes arguments during validation (ValidateCost rule), whatever the
	// other rules say about the document
	costPanic := false
	if c.Site == "field" {
		var actual int
		costPanic, _ = guarded(func() {
			graphql.ParseAndValidate(query, s, graphql.FeatureSet{}, graphql.ValidateCost("", vars, -1, &actual, graphql.FieldCost{Resolver: 1}))
		})
	}

	// the case as the model sees it
	strs := map[string]bool{}
	var argdefs, vardefs, args, rawvars []sexp.Node
	var tys []*Ty
	for _, a := range c.ArgDefs {
		argdefs = append(argdefs, sexp.L(sexp.Str(a.Name), a.T.sexp(), defSexp(a.Def)))
		tys = append(tys, a.T)
	}
	for _, v := range c.VarDefs {
		d := sexp.None()
		if v.Def != nil {
			d = sexp.Some(v.Def.sexp())
			collectStringsLit(v.Def, strs)
		}
		vardefs = append(vardefs, sexp.L(sexp.Str(v.Name), v.T.sexp(), d))
		tys = append(tys, v.T)
	}
	for _, a := range c.Args {
		args = append(args, sexp.L(sexp.Str(a.Name), a.V.sexp()))
		collectStringsLit(a.V, strs)
	}
	keys := make([]string, 0, len(c.Vars))
	for k := range c.Vars {
		keys = append(keys, k)
	}
	sort.Strings(keys)
	for _, k := range keys {
		rawvars = append(rawvars, sexp.L(sexp.Str(k), jv(c.Vars[k])))
		collectStringsJSON(c.Vars[k], strs)
	}
	return sexp.T("case",
		sexp.T("tag", sexp.Sym(c.Tag)),
		sexp.T("env", c.Reg.envSexp(c.Reg.closure(tys...))),
		sexp.T("site", sexp.Sym(c.Site)),
		sexp.T("argdefs", sexp.L(argdefs...)),
		sexp.T("vardefs", sexp.L(vardefs...)),
		sexp.T("args", sexp.L(args...)),
		sexp.T("vars", sexp.L(rawvars...)),
		sexp.T("dt", dtTable(strs)),
		sexp.T("observed",
			sexp.T("static", sexp.Sym(static)), sexp.T("exec", sexp.Sym(exec)),
			sexp.T("calls", sexp.L(rec.calls...)), sexp.T("ran", sexp.Bool(rec.ran)),
			sexp.T("cost", sexp.L(rec.cost...)), sexp.T("costpanic", sexp.Bool(costPanic))),
		sexp.T("doc", sexp.Str(query)))
}
