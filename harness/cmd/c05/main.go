// c05: input coercion as resolvers, directive filters and cost functions observe it.
//
// For generated (type environment, argument definitions, variable definitions, argument literals,
// raw variable values) the harness builds a real schema with a field f(args) (or a directive
// @flt(args)), sends the document through graphql.ParseAndValidate + graphql.Execute, and records
// what the resolver / filter / cost function saw as typed values, or that nothing was called.
package main

import (
	"os"
	"strconv"

	"verifharness/internal/hx"
	"verifharness/internal/rng"
	"verifharness/internal/sexp"
)

func main() {
	hx.Main(func(h *hx.H) {
		// hand-written regression cases first
		for _, c := range corpus() {
			c := c
			h.Case(func(*rng.R) sexp.Node { return c.run() })
		}
		// exhaustive part: every type of nesting <= maxDepth over the base set x boundary values x spellings
		maxDepth, stride := 3, 3
		if h.Thorough() {
			stride = 1
		}
		if v := os.Getenv("C05_MAXDEPTH"); v != "" {
			maxDepth, _ = strconv.Atoi(v)
		}
		pair := 0
		for d := 0; d <= maxDepth; d++ {
			for _, name := range baseNames {
				for _, t := range typesUpTo(name, d) {
					if t.depth() != d {
						continue
					}
					for _, v := range candidates(t, true) {
						pair++
						// quick tier: all pairs up to nesting 2, every stride-th pair (rotating with the seed) at nesting 3
						if d >= 3 && stride > 1 && (pair+int(h.Seed))%stride != 0 {
							continue
						}
						site := "field"
						if pair%4 == 3 {
							site = "directive"
						}
						for _, c := range spellings(t, v, site) {
							c := c
							h.Case(func(*rng.R) sexp.Node { return c.run() })
						}
					}
				}
			}
		}
		// the built-in @skip / @include (if: Boolean!): every spelling that fits their one argument
		for _, site := range []string{"skip", "include"} {
			bt := NN(N("Boolean"))
			for _, v := range candidates(bt, true) {
				for _, c := range spellings(bt, v, site) {
					if len(c.ArgDefs) != 1 || c.ArgDefs[0].T.String() != "Boolean!" || c.ArgDefs[0].Def != nil {
						continue
					}
					c := c
					c.ArgDefs[0].Name = "if"
					for i := range c.Args {
						c.Args[i].Name = "if"
					}
					h.Case(func(*rng.R) sexp.Node { return c.run() })
				}
			}
		}
		// DateTime edges: what time.Time.UnmarshalText (time.Parse(RFC3339), strict re-check switched
		// off in go 1.23) accepts and refuses; every spelling of DateTime for each
		for i, str := range dateTimeEdges {
			site := "field"
			if i%4 == 3 {
				site = "directive"
			}
			for _, c := range spellings(N("DateTime"), lStr(str), site) {
				c := c
				h.Case(func(*rng.R) sexp.Node { return c.run() })
			}
		}
		// random part
		n := 6000
		if h.Thorough() {
			n = 500000
		}
		for i := 0; i < n; i++ {
			site := "field"
			if i%4 == 3 {
				site = "directive"
			}
			h.Case(func(r *rng.R) sexp.Node { return randomCase(r, site).run() })
		}
	})
}

// corpus: the defects of DESIGN section 6 that concern C05, as the minimal requests
func corpus() []*Case {
	reg := newRegistry()
	null := map[string]interface{}{"s": nil}
	return []*Case{
		// 5: nullable variable with a default, explicitly null, at a non-null position
		{Reg: reg, Site: "field", Tag: "corpus", ArgDefs: []InDef{{"x", NN(N("Boolean")), nil}},
			VarDefs: []VarDef{{"s", N("Boolean"), lBool(true)}}, Args: []LField{{"x", lVar("s")}}, Vars: null},
		{Reg: reg, Site: "directive", Tag: "corpus", ArgDefs: []InDef{{"x", NN(N("Boolean")), nil}},
			VarDefs: []VarDef{{"s", N("Boolean"), lBool(true)}}, Args: []LField{{"x", lVar("s")}}, Vars: null},
		{Reg: reg, Site: "field", Tag: "corpus", ArgDefs: []InDef{{"x", L(NN(N("Int"))), nil}},
			VarDefs: []VarDef{{"s", N("Int"), lInt(1)}}, Args: []LField{{"x", lList(lVar("s"))}}, Vars: null},
		{Reg: reg, Site: "field", Tag: "corpus", ArgDefs: []InDef{{"x", NN(N("Int")), 5}},
			VarDefs: []VarDef{{"s", N("Int"), nil}}, Args: []LField{{"x", lVar("s")}}, Vars: null},
		// 26: booleans are not numbers
		{Reg: reg, Site: "field", Tag: "corpus", ArgDefs: []InDef{{"x", N("Int"), nil}},
			VarDefs: []VarDef{{"s", N("Int"), nil}}, Args: []LField{{"x", lVar("s")}}, Vars: map[string]interface{}{"s": true}},
		{Reg: reg, Site: "field", Tag: "corpus", ArgDefs: []InDef{{"x", N("Float"), nil}},
			VarDefs: []VarDef{{"s", N("Float"), nil}}, Args: []LField{{"x", lVar("s")}}, Vars: map[string]interface{}{"s": false}},
		{Reg: reg, Site: "field", Tag: "corpus", ArgDefs: []InDef{{"x", N("LongInt"), nil}},
			VarDefs: []VarDef{{"s", N("LongInt"), nil}}, Args: []LField{{"x", lVar("s")}}, Vars: map[string]interface{}{"s": true}},
		// the non-null wrapper and the item-to-list rule
		{Reg: reg, Site: "field", Tag: "corpus", ArgDefs: []InDef{{"x", L(NN(L(N("Int")))), nil}},
			VarDefs: []VarDef{{"s", L(NN(L(N("Int")))), nil}}, Args: []LField{{"x", lVar("s")}},
			Vars: map[string]interface{}{"s": []interface{}{1.0}}},
	}
}

var dateTimeEdges = []string{
	"2020-01-02T3:04:05Z",       // one-digit hour: Parse's "15" takes one or two digits
	"2020-01-02T3:4:05Z",        // but minutes need two
	"2020-02-29T00:00:00Z", "2021-02-29T00:00:00Z", "1900-02-29T00:00:00Z", "2000-02-29T00:00:00Z",
	"2020-04-31T00:00:00Z", "2020-13-01T00:00:00Z", "2020-00-10T00:00:00Z", "2020-01-00T00:00:00Z",
	"2020-01-32T00:00:00Z", "2020-01-02T03:60:05Z", "2020-01-02T23:59:59Z", "2020-01-02T03:04:05+24:60",
	"2020-01-02T03:04:05+24:61", "2020-01-02T03:04:05+25:00", "2020-01-02T03:04:05+0800", "2020-01-02T03:04:05",
	"2020-01-02T03:04:05Zx", "2020-01-02T03:04:05.Z", "2020-01-02T03:04:05.5", "+020-01-02T03:04:05Z",
	"2020-01-02T03:04:05 Z", "2020-1-02T03:04:05Z", " 2020-01-02T03:04:05Z", "2020-01-02T03:04:05z",
	"2020-01-02T03:04:05*08:00", "2020-01-02T03:04:05+08-00", "2020-01-02T03:04:05.000000000000000000001Z",
	"20200-01-02T03:04:05Z", "2020-01-02", "",
}
