// c05: input coercion as resolvers, directive filters and cost functions observe it.
//
// For generated (type environment, argument definitions, variable definitions, argument literals,
// raw variable values) the harness builds a real schema with a field f(args) (or a directive
// @flt(args)), sends the document through graphql.ParseAndValidate + graphql.Execute, and records
// what the resolver / filter / cost function saw as typed values, or that nothing was called.
package main

import (
	"os"
	"strconv"

	"verifharness/internal/hx"
	"verifharness/internal/rng"
	"verifharness/internal/sexp"
)

func main() {
	hx.Main(func(h *hx.H) {
		// hand-written regression cases first
		for _, c := range corpus() {
			c := c
			h.Case(func(*rng.R) sexp.Node { return c.run() })
		}
		// exhaustive part: every type of nesting <= maxDepth over the base set x boundary values x spellings
		maxDepth, stride := 3, 3
		if h.Thorough() {
			stride = 1
		}
		if v := os.Getenv("C05_MAXDEPTH"); v != "" {
			maxDepth, _ = strconv.Atoi(v)
		}
		pair := 0
		for d := 0; d <= maxDepth; d++ {
			for _, name := range baseNames {
				for _, t := range typesUpTo(name, d) {
					if t.depth() != d {
						continue
					}
					for _, v := range candidates(t, true) {
						pair++
						// quick tier: all pairs up to nesting 2, every stride-th pair (rotating with the seed) at nesting 3
						if d >= 3 && stride > 1 && (pair+int(h.Seed))%stride != 0 {
							continue
						}
						site := "field"
						if pair%4 == 3 {
							site = "directive"
						}
						for _, c := range spellings(t, v, site) {
							c := c
							h.Case(func(*rng.R) sexp.Node { return c.run() })
						}
					}
				}
			}
		}
		// the built-in @skip / @include (if: Boolean!): every spelling that fits their one argument
		for _, site := range []string{"skip", "include"} {
			bt := NN(N("Boolean"))
			for _, v := range candidates(bt, true) {
				for _, c := range spellings(bt, v, site) {
					if len(c.ArgDefs) != 1 || c.ArgDefs[0].T.String() != "Boolean!" || c.ArgDefs[0].Def != nil {
						continue
					}
					c := c
					c.ArgDefs[0].Name = "if"
					for i := range c.Args {
						c.Args[i].Name = "if"
					}
					h.Case(func(*rng.R) sexp.Node { return c.run() })
				}
			}
		}
		// random part
		n := 6000
		if h.Thorough() {
			n = 500000
		}
		for i := 0; i < n; i++ {
			site := "field"
			if i%4 == 3 {
				site = "directive"
			}
			h.Case(func(r *rng.R) sexp.Node { return randomCase(r, site).run() })
		}
	})
}

// corpus: the defects of DESIGN section 6 that concern C05, as the minimal requests
func corpus() []*Case {
	reg := newRegistry()
	null := map[string]interface{}{"s": nil}
	return []*Case{
		// 5: nullable variable with a default, explicitly null, at a non-null position
		{Reg: reg, Site: "field", Tag: "corpus", ArgDefs: []InDef{{"x", NN(N("Boolean")), nil}},
			VarDefs: []VarDef{{"s", N("Boolean"), lBool(true)}}, Args: []LField{{"x", lVar("s")}}, Vars: null},
		{Reg: reg, Site: "directive", Tag: "corpus", ArgDefs: []InDef{{"x", NN(N("Boolean")), nil}},
			VarDefs: []VarDef{{"s", N("Boolean"), lBool(true)}}, Args: []LField{{"x", lVar("s")}}, Vars: null},
		{Reg: reg, Site: "field", Tag: "corpus", ArgDefs: []InDef{{"x", L(NN(N("Int"))), nil}},
			VarDefs: []VarDef{{"s", N("Int"), lInt(1)}}, Args: []LField{{"x", lList(lVar("s"))}}, Vars: null},
		{Reg: reg, Site: "field", Tag: "corpus", ArgDefs: []InDef{{"x", NN(N("Int")), 5}},
			VarDefs: []VarDef{{"s", N("Int"), nil}}, Args: []LField{{"x", lVar("s")}}, Vars: null},
		// 26: booleans are not numbers
		{Reg: reg, Site: "field", Tag: "corpus", ArgDefs: []InDef{{"x", N("Int"), nil}},
			VarDefs: []VarDef{{"s", N("Int"), nil}}, Args: []LField{{"x", lVar("s")}}, Vars: map[string]interface{}{"s": true}},
		{Reg: reg, Site: "field", Tag: "corpus", ArgDefs: []InDef{{"x", N("Float"), nil}},
			VarDefs: []VarDef{{"s", N("Float"), nil}}, Args: []LField{{"x", lVar("s")}}, Vars: map[string]interface{}{"s": false}},
		{Reg: reg, Site: "field", Tag: "corpus", ArgDefs: []InDef{{"x", N("LongInt"), nil}},
			VarDefs: []VarDef{{"s", N("LongInt"), nil}}, Args: []LField{{"x", lVar("s")}}, Vars: map[string]interface{}{"s": true}},
		// the non-null wrapper and the item-to-list rule
		{Reg: reg, Site: "field", Tag: "corpus", ArgDefs: []InDef{{"x", L(NN(L(N("Int")))), nil}},
			VarDefs: []VarDef{{"s", L(NN(L(N("Int")))), nil}}, Args: []LField{{"x", lVar("s")}},
			Vars: map[string]interface{}{"s": []interface{}{1.0}}},
	}
}
