package main

import (
	"fmt"
	"sort"
	"time"

	apifu "github.com/ccbrown/api-fu"
	"github.com/ccbrown/api-fu/graphql"
	"github.com/ccbrown/api-fu/graphql/ast"
	"github.com/ccbrown/api-fu/graphql/schema"

	"verifharness/internal/sexp"
)

// ---- input types as the generator sees them ----

// Ty is an input type expression: K = 'n' named, 'l' list, '!' non-null.
type Ty struct {
	K    byte
	Name string
	Elem *Ty
}

func N(name string) *Ty { return &Ty{K: 'n', Name: name} }
func L(t *Ty) *Ty       { return &Ty{K: 'l', Elem: t} }
func NN(t *Ty) *Ty      { return &Ty{K: '!', Elem: t} }

func (t *Ty) String() string {
	switch t.K {
	case 'n':
		return t.Name
	case 'l':
		return "[" + t.Elem.String() + "]"
	}
	return t.Elem.String() + "!"
}

func (t *Ty) sexp() sexp.Node {
	switch t.K {
	case 'n':
		return sexp.T("named", sexp.Str(t.Name))
	case 'l':
		return sexp.T("list", t.Elem.sexp())
	}
	return sexp.T("nn", t.Elem.sexp())
}

func (t *Ty) leaf() string {
	for t.K != 'n' {
		t = t.Elem
	}
	return t.Name
}

func (t *Ty) nullable() *Ty {
	for t.K == '!' {
		t = t.Elem
	}
	return t
}

func (t *Ty) isNN() bool { return t.K == '!' }

// InDef mirrors schema.InputValueDefinition: Def == nil means no default, schema.Null the explicit
// null default, anything else a Go value.
type InDef struct {
	Name string
	T    *Ty
	Def  interface{}
}

type EnumV struct {
	Name  string
	Value interface{}
}

// NamedDef is one entry of the type environment.
type NamedDef struct {
	Name   string
	Scalar string // "int" "float" "string" "boolean" "id" "datetime" "longint" "custom", or ""
	Enum   []EnumV
	Fields []InDef // input object (sorted by name)
	Hook   string  // "none" "wrap" "fail"
}

// ---- Go values the harness plants in schemas and recognises in observations ----

// Tok is the payload of the custom scalar.
type Tok struct{ S string }

// Wrapped is what the InputCoercion hook of a "wrap" input object returns.
type Wrapped struct {
	Tag string
	V   map[string]interface{}
}

// EnumTag is a non-primitive enum payload.
type EnumTag struct{ S string }

var TokType = &graphql.ScalarType{
	Name: "Tok",
	LiteralCoercion: func(v ast.Value) interface{} {
		if s, ok := v.(*ast.StringValue); ok {
			return Tok{s.Value}
		}
		return nil
	},
	VariableValueCoercion: func(v interface{}) interface{} {
		if s, ok := v.(string); ok {
			return Tok{s}
		}
		return nil
	},
	ResultCoercion: func(v interface{}) interface{} { return nil },
}

// Registry: the named types of one case (the fixed base set plus per-case wrapper types).
type Registry struct {
	defs map[string]*NamedDef
	gql  map[string]graphql.NamedType
}

func baseDefs() []*NamedDef {
	return []*NamedDef{
		{Name: "Int", Scalar: "int"}, {Name: "Float", Scalar: "float"}, {Name: "String", Scalar: "string"},
		{Name: "Boolean", Scalar: "boolean"}, {Name: "ID", Scalar: "id"}, {Name: "DateTime", Scalar: "datetime"},
		{Name: "LongInt", Scalar: "longint"}, {Name: "Tok", Scalar: "custom"},
		{Name: "Color", Enum: []EnumV{{"BLUE", EnumTag{"blue"}}, {"GREEN", 7}, {"RED", "r"}}},
		{Name: "Pt", Hook: "none", Fields: []InDef{
			{"x", NN(N("Int")), nil}, {"y", N("Int"), 7}, {"z", L(NN(N("Int"))), nil}}},
		{Name: "Box", Hook: "none", Fields: []InDef{
			{"c", N("Color"), "r"}, {"f", N("Float"), 1.5}, {"id", N("ID"), nil}, {"n", NN(N("Int")), 3},
			{"p", N("Pt"), nil}, {"pd", N("Pt"), map[string]interface{}{"x": 1, "y": 7}},
			{"ps", L(NN(N("Pt"))), schema.Null}, {"t", N("DateTime"), nil}}},
		{Name: "Rec", Hook: "none", Fields: []InDef{
			{"l", L(N("Rec")), nil}, {"next", N("Rec"), nil}, {"v", N("Float"), nil}}},
		{Name: "Hk", Hook: "wrap", Fields: []InDef{{"a", N("Int"), nil}, {"b", NN(N("String")), "d"}}},
		{Name: "HkF", Hook: "fail", Fields: []InDef{{"a", N("Int"), nil}}},
	}
}

func newRegistry(extra ...*NamedDef) *Registry {
	r := &Registry{defs: map[string]*NamedDef{}, gql: map[string]graphql.NamedType{}}
	all := append(baseDefs(), extra...)
	for _, d := range all {
		r.defs[d.Name] = d
	}
	// first pass: create the named types (input objects empty), second pass: fill fields
	for _, d := range all {
		switch {
		case d.Scalar != "":
			r.gql[d.Name] = map[string]graphql.NamedType{
				"int": graphql.IntType, "float": graphql.FloatType, "string": graphql.StringType,
				"boolean": graphql.BooleanType, "id": graphql.IDType, "datetime": apifu.DateTimeType,
				"longint": apifu.LongIntType, "custom": TokType,
			}[d.Scalar]
		case d.Enum != nil:
			vals := map[string]*graphql.EnumValueDefinition{}
			for _, v := range d.Enum {
				vals[v.Name] = &graphql.EnumValueDefinition{Value: v.Value}
			}
			r.gql[d.Name] = &graphql.EnumType{Name: d.Name, Values: vals}
		default:
			t := &graphql.InputObjectType{Name: d.Name, Fields: map[string]*graphql.InputValueDefinition{},
				ResultCoercion: func(interface{}) (map[string]interface{}, error) { return nil, fmt.Errorf("unused") }}
			tag := d.Name
			switch d.Hook {
			case "wrap":
				t.InputCoercion = func(m map[string]interface{}) (interface{}, error) { return Wrapped{tag, m}, nil }
			case "fail":
				t.InputCoercion = func(m map[string]interface{}) (interface{}, error) { return nil, fmt.Errorf("hook refuses") }
			}
			r.gql[d.Name] = t
		}
	}
	for _, d := range all {
		if d.Scalar == "" && d.Enum == nil {
			t := r.gql[d.Name].(*graphql.InputObjectType)
			for _, f := range d.Fields {
				t.Fields[f.Name] = &graphql.InputValueDefinition{Type: r.ty(f.T), DefaultValue: f.Def}
			}
		}
	}
	return r
}

func (r *Registry) ty(t *Ty) graphql.Type {
	switch t.K {
	case 'n':
		return r.gql[t.Name]
	case 'l':
		return graphql.NewListType(r.ty(t.Elem))
	}
	return graphql.NewNonNullType(r.ty(t.Elem))
}

// closure: names of all named types reachable from the given types through input fields.
func (r *Registry) closure(ts ...*Ty) []string {
	seen := map[string]bool{}
	var visit func(n string)
	visit = func(n string) {
		if seen[n] {
			return
		}
		d, ok := r.defs[n]
		if !ok {
			return
		}
		seen[n] = true
		for _, f := range d.Fields {
			visit(f.T.leaf())
		}
	}
	for _, t := range ts {
		visit(t.leaf())
	}
	var names []string
	for n := range seen {
		names = append(names, n)
	}
	sort.Strings(names)
	return names
}

func defSexp(d interface{}) sexp.Node {
	if d == nil {
		return sexp.None()
	}
	return sexp.Some(gv(d))
}

func (r *Registry) envSexp(names []string) sexp.Node {
	var out []sexp.Node
	for _, n := range names {
		d := r.defs[n]
		var body sexp.Node
		switch {
		case d.Scalar != "":
			body = sexp.T("scalar", sexp.Sym(d.Scalar))
		case d.Enum != nil:
			var vs []sexp.Node
			for _, v := range d.Enum {
				vs = append(vs, sexp.L(sexp.Str(v.Name), gv(v.Value)))
			}
			body = sexp.T("enum", vs...)
		default:
			hook := sexp.Sym(d.Hook)
			if d.Hook == "wrap" {
				hook = sexp.T("wrap", sexp.Str(d.Name))
			}
			fs := []sexp.Node{hook}
			for _, f := range d.Fields {
				fs = append(fs, sexp.L(sexp.Str(f.Name), f.T.sexp(), defSexp(f.Def)))
			}
			body = sexp.T("input", fs...)
		}
		out = append(out, sexp.L(sexp.Str(n), body))
	}
	return sexp.L(out...)
}

// ---- Go values -> gval s-expressions (the dynamic type matters) ----

func timeCanon(t time.Time) string { return t.Format(time.RFC3339Nano) }

func gv(x interface{}) sexp.Node {
	switch v := x.(type) {
	case nil:
		return sexp.Sym("nil")
	case int:
		return sexp.T("int", sexp.Int(v))
	case int64:
		return sexp.T("int64", sexp.Int64(v))
	case float64:
		return floatSexp("float", v)
	case string:
		return sexp.T("str", sexp.Str(v))
	case bool:
		return sexp.T("bool", sexp.Bool(v))
	case time.Time:
		return sexp.T("time", sexp.Str(timeCanon(v)))
	case []interface{}:
		items := make([]sexp.Node, len(v))
		for i, e := range v {
			items[i] = gv(e)
		}
		return sexp.T("list", items...)
	case map[string]interface{}:
		return sexp.T("map", mapEntries(v)...)
	case Tok:
		return sexp.T("tagged", sexp.Str("Tok"), gv(v.S))
	case Wrapped:
		return sexp.T("tagged", sexp.Str(v.Tag), gv(v.V))
	case EnumTag:
		return sexp.T("tagged", sexp.Str("E"), gv(v.S))
	}
	if x == schema.Null {
		return sexp.Sym("nullsentinel")
	}
	return sexp.Sym("other")
}

func mapEntries(m map[string]interface{}) []sexp.Node {
	keys := make([]string, 0, len(m))
	for k := range m {
		keys = append(keys, k)
	}
	sort.Strings(keys)
	out := make([]sexp.Node, len(keys))
	for i, k := range keys {
		out[i] = sexp.L(sexp.Str(k), gv(m[k]))
	}
	return out
}
