package main

import (
	"fmt"
	"math/big"

	"github.com/ccbrown/api-fu/graphql/parser"
	"github.com/ccbrown/api-fu/graphql/schema"

	"verifharness/internal/rng"
)

// ---- the enumerated type space: every wrapper shape of nesting <= depth over the base names ----

var baseNames = []string{"Int", "Float", "String", "Boolean", "ID", "DateTime", "LongInt", "Tok", "Color",
	"Pt", "Box", "Rec", "Hk", "HkF"}

func typesUpTo(name string, depth int) []*Ty {
	cur := []*Ty{N(name)}
	all := []*Ty{N(name)}
	for d := 0; d < depth; d++ {
		var next []*Ty
		for _, t := range cur {
			next = append(next, L(t))
			if !t.isNN() {
				next = append(next, NN(t))
			}
		}
		all = append(all, next...)
		cur = next
	}
	return all
}

func (t *Ty) depth() int {
	if t.K == 'n' {
		return 0
	}
	return 1 + t.Elem.depth()
}

// ---- boundary tables ----

// universe: every scalar/enum type is tried against every one of these
func universe() []*Lit {
	return []*Lit{
		lInt(0), lInt(1), lInt(-1), lInt(7),
		lInt(2147483647), lInt(2147483648), lInt(-2147483648), lInt(-2147483649),
		lBig("9007199254740991"), lBig("9007199254740992"), lBig("9007199254740993"),
		lBig("-9007199254740991"), lBig("-9007199254740992"),
		lBig("9223372036854775807"), lBig("9223372036854775808"),
		lBig("-9223372036854775808"), lBig("-9223372036854775809"),
		lBig("10000000000000000000000000"), lBig("100000000000000000000000"), // 1e25, 1e23 (rounding)
		lFloat(10, -1), lFloat(15, -1), lFloat(-25, -4), lFloat(1, -1), lFloat(5, 0),
		lFloat(21474836480, -1), lFloat(1, 308), lFloat(17976931348623157, 292), lFloat(17976931348623159, 292),
		lFloat(1, 400), lFloat(5, -324), lFloat(2, -324), lFloat(3, -324), lFloat(1, -400),
		lFloat(9007199254740993, 0), lFloat(90071992547409925, -1),
		lStr(""), lStr("a"), lStr("1"), lStr("RED"), lStr("true"), lStr("hé \"q\" \\ \n"),
		lStr("2020-01-02T03:04:05Z"), lStr("2020-01-02T03:04:05.123456789+07:00"),
		lStr("2020-01-02 03:04:05Z"), lStr("2020-02-30T00:00:00Z"), lStr("2020-01-02T03:04:05+00:00"),
		// RFC 3339 edges for DateTime (time.Time.UnmarshalText decides): leap second, years 0 and 9999,
		// year 10000, extreme / invalid zone offsets, lower-case separators, 10 fraction digits, comma
		lStr("2016-12-31T23:59:60Z"), lStr("0000-01-01T00:00:00Z"), lStr("9999-12-31T23:59:59.999999999Z"),
		lStr("10000-01-01T00:00:00Z"), lStr("2020-01-02T03:04:05+23:59"), lStr("2020-01-02T03:04:05-00:00"),
		lStr("2020-01-02T03:04:05+24:00"), lStr("2020-01-02t03:04:05z"), lStr("2020-01-02T03:04:05.1234567891Z"),
		lStr("2020-01-02T03:04:05,5Z"), lStr("2020-01-02T24:00:00Z"),
		lBool(true), lBool(false), lNull(),
		lEnum("RED"), lEnum("GREEN"), lEnum("BLUE"), lEnum("PURPLE"),
		lList(lInt(1)), lList(), lObj("a", lInt(1)),
	}
}

// few: what is placed inside lists / objects (fitting values first, then misfits)
var few = map[string][]*Lit{
	"Int":      {lInt(1), lInt(2147483647), lInt(-2147483648), lInt(2147483648), lStr("1"), lBool(true), lFloat(15, -1)},
	"Float":    {lFloat(15, -1), lInt(1), lBig("9007199254740993"), lStr("x"), lBool(false), lFloat(1, 400)},
	"String":   {lStr("a"), lStr(""), lStr("RED"), lInt(1), lEnum("RED")},
	"Boolean":  {lBool(true), lBool(false), lInt(1), lStr("true")},
	"ID":       {lStr("id1"), lInt(5), lBig("9223372036854775808"), lFloat(10, -1), lBool(true)},
	"DateTime": {lStr("2020-01-02T03:04:05Z"), lStr("2020-01-02T03:04:05.5-08:00"), lStr("9999-12-31T23:59:59.999999999Z"),
		lStr("2016-12-31T23:59:60Z"), lStr("yesterday"), lInt(1)},
	"LongInt": {lInt(1), lBig("9007199254740991"), lBig("-9007199254740991"), lBig("9007199254740992"),
		lBig("-9223372036854775808"), lStr("1"), lBool(true)},
	"Tok":      {lStr("t"), lStr(""), lInt(1)},
	"Color":    {lEnum("RED"), lEnum("GREEN"), lEnum("BLUE"), lEnum("PURPLE"), lStr("RED"), lInt(7)},
}

func objects(name string, full bool) []*Lit {
	var out []*Lit
	switch name {
	case "Pt":
		out = []*Lit{
			lObj("x", lInt(1)),
			lObj("x", lInt(1), "y", lInt(2), "z", lList(lInt(3), lInt(4))),
			lObj("x", lInt(1), "y", lNull()),
			lObj("y", lInt(2)),                      // required x missing
			lObj("x", lNull()),                      // required x null
			lObj("x", lInt(1), "w", lInt(1)),        // unknown field
			lObj("x", lInt(1), "z", lInt(3)),        // single item for list field
			lObj("x", lInt(1), "z", lList(lNull())), // null in [Int!]
			lObj("x", lStr("1")),
			lObj("x", lInt(2147483648)),
			lObj(),
			lObj("z", lList(), "x", lInt(0)),
			lObj("x", lInt(1), "x", lInt(2)), // duplicate (literal only)
		}
	case "Box":
		out = []*Lit{
			lObj(),
			lObj("p", lObj("x", lInt(1))),
			lObj("p", lObj("y", lInt(1))),
			lObj("p", lNull(), "ps", lList(lObj("x", lInt(1)), lObj("x", lInt(2), "y", lNull()))),
			lObj("ps", lObj("x", lInt(1))),
			lObj("ps", lList(lNull())),
			lObj("ps", lNull(), "pd", lNull()),
			lObj("c", lEnum("GREEN"), "f", lInt(2), "id", lInt(9), "n", lInt(4), "t", lStr("2020-01-02T03:04:05Z")),
			lObj("c", lStr("GREEN")),
			lObj("c", lNull(), "f", lNull()),
			lObj("n", lNull()),
			lObj("id", lStr("k"), "t", lStr("nope")),
			lObj("id", lFloat(15, -1)),
			lObj("pd", lObj("x", lInt(5))),
			lObj("q", lInt(1)),
		}
	case "Rec":
		out = []*Lit{
			lObj(),
			lObj("v", lFloat(15, -1)),
			lObj("next", lObj("next", lObj("v", lInt(1)))),
			lObj("l", lList(lObj(), lNull(), lObj("v", lInt(2)))),
			lObj("l", lObj("v", lInt(3))),
			lObj("next", lObj("next", lObj("v", lStr("x")))),
			lObj("next", lInt(1)),
			lObj("l", lList(lList(lObj()))),
		}
	case "Hk":
		out = []*Lit{
			lObj(), lObj("a", lInt(1)), lObj("a", lInt(1), "b", lStr("s")), lObj("b", lNull()), lObj("a", lStr("x")),
			lObj("c", lInt(1)),
		}
	case "HkF":
		out = []*Lit{lObj(), lObj("a", lInt(1)), lObj("a", lStr("x"))}
	}
	if !full && len(out) > 6 {
		out = out[:6]
	}
	return out
}

func isObject(name string) bool {
	switch name {
	case "Pt", "Box", "Rec", "Hk", "HkF":
		return true
	}
	return false
}

// candidates: the client values tried against type t (constant literals; the variable spellings
// derive their JSON counterpart)
func candidates(t *Ty, top bool) []*Lit {
	switch t.K {
	case 'n':
		if isObject(t.Name) {
			out := objects(t.Name, top)
			out = append(out, lNull())
			if top {
				out = append(out, lInt(1), lStr("x"), lList(lObj()), lEnum("RED"))
			} else {
				out = append(out, lInt(1))
			}
			return out
		}
		if top {
			return universe()
		}
		return append(append([]*Lit{}, few[t.Name]...), lNull())
	case '!':
		return candidates(t.Elem, top)
	}
	inner := candidates(t.Elem, false)
	if len(inner) > 8 {
		inner = inner[:8]
	}
	out := []*Lit{lNull(), lList()}
	for _, c := range inner {
		out = append(out, lList(c))
		if c.K != '0' {
			out = append(out, c) // the single item offered to the list type
		}
	}
	if len(inner) >= 2 {
		out = append(out, lList(inner[0], inner[1]), lList(inner[0], lNull()), lList(lNull(), inner[len(inner)-1]))
	}
	out = append(out, lList(lList(lList(lList()))), lInt(1), lStr("x"))
	return out
}

// ---- spellings ----

func constGo(reg *Registry, v *Lit, t *Ty) (interface{}, bool) {
	val, errs := parser.ParseValue([]byte(v.text()))
	if len(errs) > 0 {
		return nil, false
	}
	var out interface{}
	var err error
	if p, _ := guarded(func() { out, err = schema.CoerceLiteral(val, reg.ty(t), nil) }); p || err != nil {
		return nil, false
	}
	if out == nil {
		return schema.Null, true
	}
	return out, true
}

// spellings produces every way the harness says "argument x of type t has the client value v".
func spellings(t *Ty, v *Lit, site string) []*Case {
	wrap := &NamedDef{Name: "W", Hook: "none", Fields: []InDef{{"k", N("Int"), 1}, {"w", t, nil}}}
	reg := newRegistry(wrap)
	mk := func(tag string, argT *Ty, def interface{}, vds []VarDef, arg *Lit, vars map[string]interface{}) *Case {
		c := &Case{Reg: reg, Site: site, Tag: tag, ArgDefs: []InDef{{"x", argT, def}}, VarDefs: vds, Vars: vars}
		if arg != nil {
			c.Args = []LField{{"x", arg}}
		}
		return c
	}
	var out []*Case
	out = append(out, mk("lit", t, nil, nil, v, nil))
	out = append(out, mk("lit-in-list", L(t), nil, nil, lList(v), nil))
	out = append(out, mk("lit-in-obj", N("W"), nil, nil, lObj("w", v), nil))
	j, hasJSON := v.json()
	nt := t.nullable()
	if hasJSON {
		one := func(x interface{}) map[string]interface{} { return map[string]interface{}{"v": x} }
		out = append(out, mk("var", t, nil, []VarDef{{"v", t, nil}}, lVar("v"), one(j)))
		if !t.isNN() {
			out = append(out, mk("var-nn", t, nil, []VarDef{{"v", NN(t), nil}}, lVar("v"), one(j)))
		} else {
			out = append(out, mk("var-nullable-at-nn", t, nil, []VarDef{{"v", nt, nil}}, lVar("v"), one(j)))
		}
		out = append(out, mk("var-in-list", L(t), nil, []VarDef{{"v", t, nil}}, lList(lVar("v")), one(j)))
		out = append(out, mk("var-in-list2", L(t), nil, []VarDef{{"v", t, nil}}, lList(lVar("v"), v), one(j)))
		out = append(out, mk("var-in-obj", N("W"), nil, []VarDef{{"v", t, nil}}, lObj("w", lVar("v")), one(j)))
		out = append(out, mk("var-in-obj-as-item", L(N("W")), nil, []VarDef{{"v", t, nil}}, lObj("w", lVar("v")), one(j)))
		// a variable whose type is weaker than the location somewhere inside (e.g. [Int] for [Int!]):
		// its value is handed to the resolver as it is, so only the validator stands in the way
		if dn := deepNullable(t); dn.String() != nt.String() {
			out = append(out, mk("var-deep-nullable", t, nil, []VarDef{{"v", dn, nil}}, lVar("v"), one(j)))
			out = append(out, mk("var-deep-nullable-in-list", L(t), nil, []VarDef{{"v", dn, nil}}, lList(lVar("v")), one(j)))
			// ... and a default (of the variable, or of a non-null variable) excuses only the variable's
			// own nullability, never that of the items of its list type
			if !v.hasVar() {
				out = append(out, mk("vardef-deep-nullable", t, nil, []VarDef{{"v", dn, v}}, lVar("v"), one(j)))
				out = append(out, mk("vardef-nn-deep-nullable", t, nil, []VarDef{{"v", NN(dn), v}}, lVar("v"), one(j)))
			}
		}
		// CoerceVariableValues only looks at declared variables: a value for an undeclared one is ignored
		out = append(out, mk("var-extra-undeclared", t, nil, []VarDef{{"v", t, nil}}, lVar("v"), map[string]interface{}{"v": j, "undeclared": j}))
		out = append(out, mk("lit-extra-undeclared", t, nil, nil, v, map[string]interface{}{"v": j}))
		// a variable whose type is not an input type / does not exist never gets as far as coercion
		out = append(out, mk("var-output-type", t, nil, []VarDef{{"v", N("Query"), nil}}, lVar("v"), one(j)))
		out = append(out, mk("var-unknown-type", t, nil, []VarDef{{"v", L(N("Nowhere")), nil}}, lVar("v"), one(j)))
		if v.K == 'i' && v.Int.IsInt64() {
			out = append(out, mk("var-goint", t, nil, []VarDef{{"v", t, nil}}, lVar("v"), one(goInt(v.Int.Int64()))))
		}
	}
	if !v.hasVar() {
		// variable defaults
		out = append(out, mk("vardef-omitted", t, nil, []VarDef{{"v", t, v}}, lVar("v"), nil))
		out = append(out, mk("vardef-null", t, nil, []VarDef{{"v", nt, v}}, lVar("v"), map[string]interface{}{"v": nil}))
		out = append(out, mk("vardef-null-in-list", L(t), nil, []VarDef{{"v", nt, v}}, lList(lVar("v")), map[string]interface{}{"v": nil}))
		out = append(out, mk("vardef-null-in-obj", N("W"), nil, []VarDef{{"v", nt, v}}, lObj("w", lVar("v")), map[string]interface{}{"v": nil}))
		out = append(out, mk("vardef-omitted-in-list", L(t), nil, []VarDef{{"v", t, v}}, lList(lVar("v")), nil))
	}
	// argument defaults: the default is what the library itself coerces v to (a schema author
	// who writes down the value the resolver would get)
	if d, ok := constGo(reg, v, t); ok {
		out = append(out, mk("argdef-omitted", t, d, nil, nil, nil))
		out = append(out, mk("argdef-var-absent", t, d, []VarDef{{"u", nt, nil}}, lVar("u"), nil))
		out = append(out, mk("argdef-var-null", t, d, []VarDef{{"u", nt, nil}}, lVar("u"), map[string]interface{}{"u": nil}))
		out = append(out, mk("argdef-overridden", t, d, nil, v, nil))
		// a required variable without a value is an error even where a default would be at hand
		out = append(out, mk("argdef-var-nn-absent", t, d, []VarDef{{"u", NN(nt), nil}}, lVar("u"), nil))
		// the same with the location's default in play
		if hasJSON {
			if dn := deepNullable(t); dn.String() != nt.String() {
				out = append(out, mk("argdef-deep-nullable", t, d, []VarDef{{"v", dn, nil}}, lVar("v"), map[string]interface{}{"v": j}))
			}
		}
		if d != schema.Null {
			wd := &NamedDef{Name: "W", Hook: "none", Fields: []InDef{{"k", N("Int"), 1}, {"w", t, d}}}
			regd := newRegistry(wd)
			c := &Case{Reg: regd, Site: site, Tag: "fielddef-omitted", ArgDefs: []InDef{{"x", N("W"), nil}}, Args: []LField{{"x", lObj()}}}
			out = append(out, c)
			c = &Case{Reg: regd, Site: site, Tag: "fielddef-var-null", ArgDefs: []InDef{{"x", N("W"), nil}}, Args: []LField{{"x", lObj("w", lVar("u"))}},
				VarDefs: []VarDef{{"u", nt, nil}}, Vars: map[string]interface{}{"u": nil}}
			out = append(out, c)
			if hasJSON {
				c = &Case{Reg: regd, Site: site, Tag: "fielddef-var-obj", ArgDefs: []InDef{{"x", N("W"), nil}}, Args: []LField{{"x", lVar("o")}},
					VarDefs: []VarDef{{"o", N("W"), nil}}, Vars: map[string]interface{}{"o": map[string]interface{}{}}}
				out = append(out, c)
			}
		}
	}
	// no value at all
	out = append(out, mk("omitted", t, nil, nil, nil, nil))
	out = append(out, mk("var-absent", t, nil, []VarDef{{"u", t, nil}}, lVar("u"), nil))
	out = append(out, mk("var-absent-in-list", L(t), nil, []VarDef{{"u", t, nil}}, lList(lVar("u")), nil))
	out = append(out, mk("var-absent-in-obj", N("W"), nil, []VarDef{{"u", t, nil}}, lObj("w", lVar("u")), nil))
	out = append(out, mk("var-nn-absent-in-obj", N("W"), nil, []VarDef{{"u", NN(nt), nil}}, lObj("w", lVar("u")), nil))
	return out
}

// ---- random stream: several arguments, variables at random positions, perturbed types ----

type rgen struct {
	r    *rng.R
	reg  *Registry
	vds  []VarDef
	vars map[string]interface{}
	uni  []*Lit
}

func (g *rgen) pickNamed() string { return rng.Pick(g.r, baseNames) }

func (g *rgen) randType(depth int) *Ty {
	t := N(g.pickNamed())
	for i := 0; i < depth; i++ {
		switch g.r.Intn(3) {
		case 0:
			t = L(t)
		case 1:
			if !t.isNN() {
				t = NN(t)
			}
		}
	}
	return t
}

// fit generates a constant literal that mostly fits t.
func (g *rgen) fit(t *Ty, depth int) *Lit {
	r := g.r
	if r.Chance(1, 25) {
		return rng.Pick(r, g.uni)
	}
	switch t.K {
	case '!':
		if r.Chance(1, 30) {
			return lNull()
		}
		return g.fit(t.Elem, depth)
	case 'l':
		switch {
		case r.Chance(1, 12):
			return lNull()
		case r.Chance(1, 7):
			return g.fit(t.Elem, depth)
		}
		n := r.Intn(4)
		items := make([]*Lit, n)
		for i := range items {
			items[i] = g.fit(t.Elem, depth)
		}
		return lList(items...)
	}
	if r.Chance(1, 12) {
		return lNull()
	}
	d := g.reg.defs[t.Name]
	if d.Scalar != "" || d.Enum != nil {
		f := few[t.Name]
		if r.Chance(1, 3) {
			return rng.Pick(r, g.uni)
		}
		return f[r.Intn(len(f))]
	}
	if depth <= 0 {
		return lObj()
	}
	o := &Lit{K: 'o'}
	for _, f := range d.Fields {
		p := 6
		if f.T.isNN() {
			p = 9
		}
		if r.Chance(p, 10) {
			o.Fields = append(o.Fields, LField{f.Name, g.fit(f.T, depth-1)})
		}
	}
	if r.Chance(1, 25) {
		o.Fields = append(o.Fields, LField{"zz", lInt(1)})
	}
	if len(o.Fields) > 0 && r.Chance(1, 40) {
		o.Fields = append(o.Fields, o.Fields[0])
	}
	// literal field order is the client's business
	for i := len(o.Fields) - 1; i > 0; i-- {
		j := r.Intn(i + 1)
		o.Fields[i], o.Fields[j] = o.Fields[j], o.Fields[i]
	}
	return o
}

// deepNullable removes every non-null wrapper, at every level.
func deepNullable(t *Ty) *Ty {
	switch t.K {
	case '!':
		return deepNullable(t.Elem)
	case 'l':
		return L(deepNullable(t.Elem))
	}
	return t
}

func (g *rgen) perturb(t *Ty) *Ty {
	switch g.r.Intn(13) {
	case 12:
		return deepNullable(t)
	case 0:
		if !t.isNN() {
			return NN(t)
		}
	case 1, 2:
		return t.nullable()
	case 3:
		return L(t)
	case 4:
		if t.nullable().K == 'l' {
			return t.nullable().Elem
		}
	case 5:
		return g.randType(1)
	}
	return t
}

// plant walks a constant literal generated for type t and replaces sub-literals by variables.
func (g *rgen) plant(l *Lit, t *Ty, p int) *Lit {
	r := g.r
	if r.Chance(p, 100) && len(g.vds) < 4 {
		name := fmt.Sprintf("v%d", len(g.vds))
		vd := VarDef{Name: name, T: g.perturb(t)}
		if r.Chance(1, 3) {
			if r.Chance(1, 5) {
				vd.Def = lNull()
			} else {
				vd.Def = l
			}
		}
		g.vds = append(g.vds, vd)
		switch x := r.Intn(10); {
		case x < 6:
			if j, ok := l.json(); ok {
				g.vars[name] = j
			}
		case x < 8:
			g.vars[name] = nil
		case x < 9:
			if j, ok := rng.Pick(r, g.uni).json(); ok {
				g.vars[name] = j
			}
		}
		return lVar(name)
	}
	nt := t.nullable()
	switch l.K {
	case 'l':
		if nt.K == 'l' {
			out := &Lit{K: 'l'}
			for _, x := range l.Items {
				out.Items = append(out.Items, g.plant(x, nt.Elem, p))
			}
			return out
		}
	case 'o':
		for nt.K == 'l' { // an object offered as the single item of a list type
			nt = nt.Elem.nullable()
		}
		if nt.K == 'n' {
			if d := g.reg.defs[nt.Name]; d != nil && d.Fields != nil {
				out := &Lit{K: 'o'}
				for _, f := range l.Fields {
					ft := N("Int")
					for _, fd := range d.Fields {
						if fd.Name == f.Name {
							ft = fd.T
						}
					}
					out.Fields = append(out.Fields, LField{f.Name, g.plant(f.V, ft, p)})
				}
				return out
			}
		}
	}
	return l
}

func randomCase(r *rng.R, site string) *Case {
	g := &rgen{r: r, reg: newRegistry(), vars: map[string]interface{}{}, uni: universe()}
	c := &Case{Reg: g.reg, Site: site, Tag: "random"}
	nargs := 1 + r.Intn(3)
	names := []string{"x", "y", "z"}
	for i := 0; i < nargs; i++ {
		t := g.randType(r.Intn(4))
		ad := InDef{Name: names[i], T: t}
		if r.Chance(1, 4) {
			if d, ok := constGo(g.reg, g.fit(t, 2), t); ok {
				ad.Def = d
			}
		}
		c.ArgDefs = append(c.ArgDefs, ad)
		if r.Chance(5, 6) {
			l := g.fit(t, 3)
			c.Args = append(c.Args, LField{names[i], g.plant(l, t, 22)})
		}
	}
	c.VarDefs = g.vds
	c.Vars = g.vars
	if r.Chance(1, 6) { // a value for a variable the operation does not declare
		if j, ok := rng.Pick(r, g.uni).json(); ok {
			c.Vars["undeclared"] = j
		}
	}
	return c
}

var _ = big.NewInt
