// c07: drives the real graphql/scanner token by token (Token, Literal, StringValue, Position,
// Errors) in both modes and writes, per input, the bytes and what was observed.
//
// Streams, in this order (small cases first):
//
//	regress   hand-written inputs: every defect of checks/C07.findings.txt, the literals of
//	          scanner_test.go, spec corner cases
//	dense     every string over a 22-symbol lexically dense alphabet up to length 3 (quick) /
//	          4 (thorough), and over a 12-symbol core up to length 4 (quick) / 5 (thorough)
//	numbers   every string over {- 0 1 9 . e E + a} up to length 5 (alone and followed by " x") / 6
//	quoted    a quote followed by every string over a 14-symbol string alphabet up to length 4,
//	          unclosed and closed; thorough: a 10-symbol core at length 5, closed
//	block     three quotes, every body over {" \ space LF CR a} up to length 5 / 6 closed and
//	          unclosed; thorough: length 7 closed
//	indent    block strings from (indent, content, terminator) templates: exhaustive small family
//	          plus random larger ones
//	uescape   \uXXXX escapes: boundary and random values, truncated forms
//	text      random token sequences with random layout (valid UTF-8, mostly valid lexically)
//	hostile   byte-level mutations of such texts (invalid UTF-8, control characters, truncation)
//	lookalike non-ASCII look-alikes of every character class the scanner decides on (white space,
//	          line terminators, BOM, comma, digits, letters, quotes, punctuators: what
//	          unicode.IsSpace / strings.TrimSpace / unicode.IsDigit / unicode.IsLetter would accept
//	          and the grammar does not) in every lexical context; block strings whose first, last
//	          or inner lines, indentation or line ends consist of them
//	api       the same kinds of inputs, plus an arbitrary sequence of API calls (Scan, Token,
//	          Position, Literal, StringValue, Errors in any order, observers before the first
//	          Scan, repeated observers, Scan after the end) on a fresh scanner whose source slice
//	          has capacity == length; every answer (or panic) is recorded
package main

import (
	"fmt"
	"os"
	"strings"
	"sync/atomic"
	"time"

	"github.com/ccbrown/api-fu/graphql/scanner"

	"verifharness/internal/hx"
	"verifharness/internal/rng"
	"verifharness/internal/sexp"
)

// ---- observation ----

var current atomic.Value // the input being scanned (for the watchdog)
var progress int64

func observe(src []byte, mode scanner.Mode) sexp.Node {
	s := scanner.New(src, mode)
	var toks []sexp.Node
	// every successful Scan consumes at least one byte (that is what lex_progress proves of the
	// model); more rounds than bytes means the scanner no longer terminates
	for n := 0; s.Scan(); n++ {
		if n > len(src) {
			toks = append(toks, sexp.L(sexp.Int(-1), sexp.Str("no-progress"), sexp.Int(0), sexp.Int(0), sexp.Str("")))
			break
		}
		p := s.Position()
		toks = append(toks, sexp.L(sexp.Int(int(s.Token())), sexp.Str(s.Literal()), sexp.Int(p.Line), sexp.Int(p.Column), sexp.Str(s.StringValue())))
	}
	var errs []sexp.Node
	for _, e := range s.Errors() {
		errs = append(errs, sexp.L(sexp.Int(e.Line), sexp.Int(e.Column)))
	}
	return sexp.L(sexp.L(toks...), sexp.L(errs...))
}

func runCase(src string) sexp.Node {
	b := []byte(src)
	current.Store(src)
	atomic.AddInt64(&progress, 1)
	ign := observe(b, scanner.ScanIgnored)
	sig := observe(b, 0)
	return sexp.T("case",
		sexp.T("src", sexp.Bytes(b)),
		sexp.Node{Kind: 'l', List: append([]sexp.Node{sexp.Sym("ign")}, ign.List...)},
		sexp.Node{Kind: 'l', List: append([]sexp.Node{sexp.Sym("sig")}, sig.List...)})
}

// ---- arbitrary API call sequences ----

const (
	cScan = iota
	cToken
	cPosition
	cLiteral
	cStringValue
	cErrors
)

// one call; a panic of the call is an observation (the scanner is left as it was: the observers
// do not write)
func apiCall(s *scanner.Scanner, c int) (resp sexp.Node) {
	defer func() {
		if e := recover(); e != nil {
			resp = sexp.Sym("panic")
		}
	}()
	switch c {
	case cScan:
		if s.Scan() {
			return sexp.Int(1)
		}
		return sexp.Int(0)
	case cToken:
		return sexp.Int(int(s.Token()))
	case cPosition:
		p := s.Position()
		return sexp.L(sexp.Int(p.Line), sexp.Int(p.Column))
	case cLiteral:
		return sexp.Str(s.Literal())
	case cStringValue:
		return sexp.Str(s.StringValue())
	default:
		var errs []sexp.Node
		for _, e := range s.Errors() {
			errs = append(errs, sexp.L(sexp.Int(e.Line), sexp.Int(e.Column)))
		}
		return sexp.L(errs...)
	}
}

func runAPICase(src string, mode scanner.Mode, calls []int) sexp.Node {
	n := runCase(src)
	// capacity == length: slicing past the end of the source panics instead of reading whatever
	// lies behind it
	b := make([]byte, len(src))
	copy(b, src)
	b = b[:len(b):len(b)]
	s := scanner.New(b, mode)
	cs := make([]sexp.Node, len(calls))
	rs := make([]sexp.Node, len(calls))
	scans := 0
	for i, c := range calls {
		if c == cScan {
			// guard against a scanner that no longer terminates / keeps answering true
			if scans++; scans > 2*len(src)+64 {
				c = cToken
			}
		}
		cs[i] = sexp.Int(c)
		rs[i] = apiCall(s, c)
	}
	m := 0
	if mode != 0 {
		m = 1
	}
	// the canonical loop once more, recording how many errors have been reported after each Scan
	// (the last, false one included): Errors() at cursor j must be exactly that many
	var counts []sexp.Node
	s2 := scanner.New(b, mode)
	for k := 0; ; k++ {
		ok := s2.Scan()
		counts = append(counts, sexp.Int(len(s2.Errors())))
		if !ok || k > len(src) {
			break
		}
	}
	n.List = append(n.List, sexp.T("api", sexp.Int(m), sexp.L(cs...), sexp.L(rs...), sexp.L(counts...)))
	return n
}

var observers = []int{cToken, cPosition, cLiteral, cStringValue, cErrors}

// a random call sequence; long enough, for most inputs, to run past the end of the input
func randomCalls(r *rng.R) []int {
	var cs []int
	if r.Chance(1, 3) { // observers before the first Scan
		for k := r.Range(1, 4); k > 0; k-- {
			cs = append(cs, rng.Pick(r, observers))
		}
	}
	n := r.Range(1, 40)
	pScan := r.Range(2, 8) // out of 10
	for i := 0; i < n; i++ {
		if r.Intn(10) < pScan {
			cs = append(cs, cScan)
		} else {
			c := rng.Pick(r, observers)
			cs = append(cs, c)
			if r.Chance(1, 4) { // the same observer again
				cs = append(cs, c)
			}
		}
	}
	if r.Chance(1, 2) { // all observers at the end, twice
		cs = append(cs, observers...)
		cs = append(cs, observers...)
	}
	return cs
}

// the canonical loop with every observer after every Scan, then three more Scans with observers
func fullCalls(nbytes int) []int {
	cs := append([]int{}, observers...)
	for i := 0; i < nbytes+3; i++ {
		cs = append(cs, cScan)
		cs = append(cs, observers...)
	}
	return cs
}

func randomMode(r *rng.R) scanner.Mode {
	if r.Bool() {
		return scanner.ScanIgnored
	}
	return 0
}

func watchdog() {
	last := int64(-1)
	stuck := 0
	for {
		time.Sleep(time.Second)
		p := atomic.LoadInt64(&progress)
		if p == last {
			stuck++
		} else {
			stuck = 0
		}
		last = p
		if stuck >= 20 {
			src, _ := current.Load().(string)
			fmt.Fprintf(os.Stderr, "harness: the scanner does not terminate on input %q\n", src)
			os.Exit(3)
		}
	}
}

// ---- alphabets ----

const (
	bom   = "\xef\xbb\xbf"
	eAcc  = "\xc3\xa9"         // U+00E9
	fffd  = "\xef\xbf\xbd"     // U+FFFD, correctly encoded
	u1000 = "\xf0\x90\x80\x80" // U+10000
)

var dense = []string{`"`, `\`, "n", "u", "0", "1", "e", ".", "-", " ", "\n", "\r", "#", "a", "{", ",", bom, eAcc, fffd, u1000, "\x00", "\x80"}
var core = []string{`"`, `\`, "u", "1", "e", ".", "-", "\n", "\r", "#", "a", fffd}
var numberAlpha = []string{"-", "0", "1", "9", ".", "e", "E", "+", "a"}
var quotedAlpha = []string{`"`, `\`, "n", "u", "0", "F", "/", "\n", "\r", "a", eAcc, fffd, "\x00", "\x80"}
var quotedCore = []string{`"`, `\`, "n", "u", "0", "F", "\n", "a", fffd, "\x00"}
var blockAlpha = []string{`"`, `\`, " ", "\n", "\r", "a"}

// word i of length n over alphabet a (i in [0, len(a)^n))
func word(a []string, n, i int) string {
	var sb strings.Builder
	parts := make([]string, n)
	for k := n - 1; k >= 0; k-- {
		parts[k] = a[i%len(a)]
		i /= len(a)
	}
	for _, p := range parts {
		sb.WriteString(p)
	}
	return sb.String()
}

func pow(b, n int) int {
	r := 1
	for i := 0; i < n; i++ {
		r *= b
	}
	return r
}

func exhaustive(h *hx.H, a []string, from, upto int, wrap func(string) []string) {
	for n := from; n <= upto; n++ {
		total := pow(len(a), n)
		for i := 0; i < total; i++ {
			w := word(a, n, i)
			for _, src := range wrap(w) {
				src := src
				h.Case(func(r *rng.R) sexp.Node { return runCase(src) })
			}
		}
	}
}

func id(s string) []string { return []string{s} }

// ---- regression inputs ----

var regress = []string{
	"",
	// defects (checks/C07.findings.txt)
	`"""\\"""`, "\"a" + fffd + "b\" x", fffd + "a", "#\x00\n", "#" + u1000, "\"\"\"a\\\x00b\"\"\"", "1e", "123ex", "1.5e x", "1e+", "0e", "1.0E",
	"\"\"\"\n    a\n  \n    b\n\"\"\"", "\"\x80\"", "#\x80", "a" + bom + "b", bom + "a", bom + bom, "\"" + bom + "\"#" + bom,
	`"\uD800"`, `"\uDFFF\uD7FF\uE000"`, `"\uD83D\uDE00"`,
	// scanner_test.go
	"{\nnode(id: \"foo\") {\r\n...frag}\r}", "{\xf0\x9f\x98\x83}", "\xc3\x28", ".foo", "..foo", `"simple"`, `" white space "`, `"quote \""`,
	`"escaped \n\r\b\t\f"`, `"slashes \\ \/"`, `"unicode \u1234\u5678\u90AB\uCDEF"`, `"""simple"""`, `""" white space """`,
	`"""contains " quote"""`, `"""contains \""" triplequote"""`, "\"\"\"multi\nline\"\"\"", "\"\"\"multi\rline\r\nnormalized\"\"\"",
	`"""unescaped \n\r\b\t\f\u1234"""`, `"""slashes \\ \/"""`, "\"\"\"\n\n          spans\n            multiple\n              lines\n\n          \"\"\"",
	`"""trailing triplequote \""""""`, `"\x"`, `"\ufooo"`, "\"foo\n\"", "\"\xf0\x9f\x91\xbe\"", "4", "-4", "9", "0", "4.123", "-4.123", "0.123", "123e4", "123E4",
	"123e-4", "123e+4", "-123E4", "-123e-4", "-123e+4", "-123e4567", "foo" + bom, "{\n node {\n  #foo\n },\n}", "{ foo } # bar",
	// corners of the grammar
	`""`, `"""`, `""""`, `"""""`, `""""""`, `"""""""`, `""" "`, `"" ""`, `"\`, `"""\`, `"""\"`, `"""\""`, `"""\""""""`, `"\u`, `"\u12`, `"\u123"`, `"\u12345"`,
	"00", "01", "-", "-a", "--1", "-0", "-01", "0.", "0.e1", "1.2.3", "1..2", "1...2", "1e5e5", "1e5.5", "0x1", "1_000", "1a", "a1", "_", "__typename", "\xc3\xa9", "a\xc3\xa9",
	".", "..", "...", "....", "......", ".1", "\r\n", "\r\r\n", "\n\r", "\r", "a\r\nb\rc\nd", "#\r\n#", "#a\rb", "# \t,", "&", "%", "+1", "~", "\t", "\x0b", "\x7f", "\x1f",
	"\"\r\n\"", "\"\"\"\r\n\"\"\"", "\"\"\"a\r\"\"\"", "\"\"\"\\\r\n\"\"\"", "\"\"\" \n \"\"\"", "\"\"\"\n\"\"\"", "\"\"\"\t\n\ta\n \tb\"\"\"", "\"\"\"a\n  b\n c\"\"\"",
	"\"\"\"  a\n  b\"\"\"", "\"\"\"\n  a\n\n  b\n\"\"\"", "\"\"\"\n  a\n \n  b\n\"\"\"", "\"\"\"\n\ta\n \n\tb\"\"\"", "\"\"\"" + eAcc + "\n " + eAcc + "\"\"\"",
	"\xed\xa0\x80", "\xf4\x90\x80\x80", "\xc0\x80", "\xe0\x80\x80", "\xf0\x80\x80\x80", "\xef\xbf\xbe", "\xef\xbf\xbf", "\xf4\x8f\xbf\xbf", "\xe2\x80\xa8", "\xc2\x80", "\xc3", "\xe2\x82", "\xf0\x9f\x98",
	"\"\xef\xbf\xbf\"", "\"\xe2\x80\xa8\"", "\"\xc2\x85\"", "#\xc2\x85", "\"\xc3\"", "\"\xed\xa0\x80\"",
}

// ---- block strings from templates ----

var terms = []string{"\n", "\r", "\r\n"}

func indentFamily(h *hx.H) {
	indents := []string{"", " ", "  ", "\t "}
	contents := []string{"", "a"}
	type line struct{ ind, con string }
	var lines []line
	for _, i := range indents {
		for _, c := range contents {
			lines = append(lines, line{i, c})
		}
	}
	n := len(lines)
	for a := 0; a < n; a++ {
		for b := 0; b < n; b++ {
			for c := 0; c < n; c++ {
				for t := 0; t < 9; t++ {
					src := `"""` + lines[a].ind + lines[a].con + terms[t%3] + lines[b].ind + lines[b].con + terms[t/3] + lines[c].ind + lines[c].con + `"""`
					h.Case(func(r *rng.R) sexp.Node { return runCase(src) })
				}
			}
		}
	}
}

func randomIndent(r *rng.R) string {
	n := r.Intn(6)
	var sb strings.Builder
	for i := 0; i < n; i++ {
		if r.Chance(1, 5) {
			sb.WriteByte('\t')
		} else {
			sb.WriteByte(' ')
		}
	}
	return sb.String()
}

var blockContents = []string{"\u00a0", "\u2028", "\u3000 ", " \u0085", "", "", "a", "ab c", eAcc, `\"""`, `"`, `""`, `\`, `\\`, "x  y", "#", fffd, "\\n", "{}", "a\\\"\"\"b"}

func randomBlock(r *rng.R) string {
	var sb strings.Builder
	sb.WriteString(`"""`)
	n := r.Range(1, 7)
	for i := 0; i < n; i++ {
		if i > 0 {
			sb.WriteString(rng.Pick(r, terms))
		}
		if r.Chance(1, 4) { // blank or white-space-only line
			sb.WriteString(randomIndent(r))
			continue
		}
		if i > 0 || r.Bool() {
			sb.WriteString(randomIndent(r))
		}
		sb.WriteString(rng.Pick(r, blockContents))
		if r.Chance(1, 5) {
			sb.WriteString(randomIndent(r))
		}
	}
	if !r.Chance(1, 12) {
		sb.WriteString(`"""`)
	}
	return sb.String()
}

// ---- random texts ----

var nameChars = "_abcdefghijklmnopqrstuvwxyzABCDEFGHIJKLMNOPQRSTUVWXYZ0123456789"

func randomName(r *rng.R) string {
	if r.Chance(1, 4) {
		return rng.Pick(r, []string{"e", "E", "e1", "true", "null", "on", "_", "a", "x1", "query", "u0041"})
	}
	n := r.Range(1, 7)
	b := make([]byte, n)
	b[0] = nameChars[r.Intn(53)]
	for i := 1; i < n; i++ {
		b[i] = nameChars[r.Intn(len(nameChars))]
	}
	return string(b)
}

func randomDigits(r *rng.R, lo, hi int) string {
	n := r.Range(lo, hi)
	b := make([]byte, n)
	for i := range b {
		b[i] = byte('0' + r.Intn(10))
	}
	return string(b)
}

func randomNumber(r *rng.R) string {
	var sb strings.Builder
	if r.Chance(1, 3) {
		sb.WriteByte('-')
	}
	if r.Chance(1, 4) {
		sb.WriteByte('0')
	} else {
		sb.WriteByte(byte('1' + r.Intn(9)))
		sb.WriteString(randomDigits(r, 0, 4))
	}
	if r.Chance(1, 3) {
		sb.WriteByte('.')
		sb.WriteString(randomDigits(r, 1, 4))
	}
	if r.Chance(1, 3) {
		sb.WriteString(rng.Pick(r, []string{"e", "E"}))
		sb.WriteString(rng.Pick(r, []string{"", "+", "-"}))
		sb.WriteString(randomDigits(r, 1, 3))
	}
	return sb.String()
}

var stringPieces = []string{"\u00a0", "\u2028", "\u0085", "\u3000", "\uff11", "\u201c", "a", "b", " ", "x y", eAcc, fffd, "\xef\xbf\xbf", "\xe2\x80\xa8", bom, "#", ",", "{", "'", `\"`, `\\`, `\/`, `\b`, `\f`, `\n`, `\r`, `\t`,
	`\u0041`, `\u00E9`, `\uFFFD`, `\uFFFF`, `\u0000`, `\ud800`, `\uDBFF\uDFFF`, `\u12AB`, "1", "e", "...", "\t"}
var badStringPieces = []string{`\x`, `\u12`, `\uzzzz`, `\u 123`, "\n", "\r", "\x00", "\x1f", u1000, "\x80", `\`, "\x7f"}

func randomQuoted(r *rng.R, bad bool) string {
	var sb strings.Builder
	sb.WriteByte('"')
	n := r.Intn(7)
	for i := 0; i < n; i++ {
		if bad && r.Chance(1, 3) {
			sb.WriteString(rng.Pick(r, badStringPieces))
		} else {
			sb.WriteString(rng.Pick(r, stringPieces))
		}
	}
	if !bad || r.Bool() {
		sb.WriteByte('"')
	}
	return sb.String()
}

var commentPieces = []string{"\u00a0", "\u2028", "\u2029", "\u0085", "\u3000", "a", " ", "#", `"`, eAcc, fffd, bom, "\t", ",", "x y z", `\`, "\xef\xbf\xbf"}

func randomComment(r *rng.R, bad bool) string {
	var sb strings.Builder
	sb.WriteByte('#')
	n := r.Intn(6)
	for i := 0; i < n; i++ {
		if bad && r.Chance(1, 3) {
			sb.WriteString(rng.Pick(r, []string{"\x00", u1000, "\x80", "\x0c", "\x7f"}))
		} else {
			sb.WriteString(rng.Pick(r, commentPieces))
		}
	}
	return sb.String()
}

var puncts = []string{"!", "$", "(", ")", "...", ":", "=", "@", "[", "]", "{", "|", "}"}
var seps = []string{" ", " ", "\t", ",", "\n", "\r", "\r\n", "  ", "\n\n", " \n  ", ", "}

func randomText(r *rng.R, bad bool) string {
	var sb strings.Builder
	if r.Chance(1, 8) {
		sb.WriteString(bom)
	}
	n := r.Range(1, 14)
	for i := 0; i < n; i++ {
		switch k := r.Intn(20); {
		case k < 5:
			sb.WriteString(randomName(r))
		case k < 8:
			sb.WriteString(randomNumber(r))
		case k < 12:
			sb.WriteString(rng.Pick(r, puncts))
		case k < 15:
			sb.WriteString(randomQuoted(r, bad))
		case k < 17:
			sb.WriteString(randomBlock(r))
		case k < 19:
			sb.WriteString(randomComment(r, bad))
			if !r.Chance(1, 6) {
				sb.WriteString(rng.Pick(r, terms))
			}
		default:
			if bad && r.Chance(1, 3) {
				if r.Bool() {
					sb.WriteString(rng.Pick(r, spaceLike))
				} else {
					sb.WriteString(rng.Pick(r, otherLike))
				}
			} else if bad {
				sb.WriteString(rng.Pick(r, []string{".", "..", "-", "+", "&", "%", "\x00", u1000, fffd, bom, eAcc, "\x80", "~", "?", "'", "\x0b"}))
			} else {
				sb.WriteString(rng.Pick(r, puncts))
			}
		}
		// separator: often none, so that tokens meet (1a, a"b", 1.5.5, 0e, ..., )
		if !r.Chance(2, 5) {
			sb.WriteString(rng.Pick(r, seps))
		}
	}
	return sb.String()
}

var hostileBytes = []string{"\x00", "\x80", "\xbf", "\xc0\x80", "\xc3", "\xe2\x82", "\xed\xa0\x80", "\xf4\x90\x80\x80", "\xf0\x9f\x98", "\xff", "\xfe", u1000, fffd, bom, `"`, `"""`, `\`, "\r", "\n", "e", "."}

func mutate(r *rng.R, s string) string {
	b := []byte(s)
	k := r.Range(1, 3)
	for i := 0; i < k; i++ {
		switch r.Intn(5) {
		case 0: // delete a byte
			if len(b) > 0 {
				p := r.Intn(len(b))
				b = append(b[:p:p], b[p+1:]...)
			}
		case 1, 2: // insert a hostile piece
			p := r.Intn(len(b) + 1)
			ins := rng.Pick(r, hostileBytes)
			b = append(b[:p:p], append([]byte(ins), b[p:]...)...)
		case 3: // overwrite a byte
			if len(b) > 0 {
				b[r.Intn(len(b))] = byte(r.Intn(256))
			}
		case 4: // truncate
			if len(b) > 0 {
				b = b[:r.Intn(len(b))]
			}
		}
	}
	return string(b)
}

// ---- look-alikes ----

// everything unicode.IsSpace accepts beyond TAB LF CR SPACE, the BOM, and some characters that
// merely look like space; U+000B and U+000C are not source characters, the others are
var spaceLike = []string{"\x0b", "\x0c", "\u0085", "\u00a0", "\u1680", "\u2000", "\u2001", "\u2002", "\u2003", "\u2004", "\u2005", "\u2006",
	"\u2007", "\u2008", "\u2009", "\u200a", "\u2028", "\u2029", "\u202f", "\u205f", "\u3000", bom, "\u200b", "\u180e", "\x1c", "\x1f"}

// digits, letters, punctuation that Unicode-aware helpers would accept
var otherLike = []string{"\u0661", "\uff11", "\u00b2", "\u2160", // digits / numerals
	"\u00e9", "\u212a", "\u017f", "\uff21", "\u0430", "\uff3f", "\u203f", // letters (Kelvin sign, long s, fullwidth A, Cyrillic a), underscores
	"\uff0c", "\u201a", "\u060c", // commas
	"\u201c", "\u201d", "\uff02", "\u2033", // quotes
	"\uff01", "\uff5b", "\uff5d", "\u2026", "\uff0e", "\u2212", "\uff0d", "\uff03", "\uff3c"} // ! { } ellipsis . minus - # backslash

// every lexical context a look-alike can stand in
func lookalikeContexts(w string) []string {
	return []string{
		w, w + w, "a" + w + "b", "a" + w, w + "a", "1" + w + "2", "1" + w, w + "1", "-" + w + "1", "1." + w + "5", "1.5" + w, "1e" + w + "5", "1e5" + w,
		" " + w + " ", "a " + w + " b", "a," + w + ",b", "{" + w + "}", "..." + w, "." + w + "..", w + "...",
		"a" + w + "\nb", "a\n" + w + "\nb c", "a" + w + "\r\nb", w + "\n" + w + "a",
		"#c" + w + "d", "#c" + w + "d\ne", "#" + w + "\r" + w + "x", "#" + w,
		`"x` + w + `y"`, `"x` + w + `y" z`, `"` + w + `"`, `"x` + w, `"\` + w + `"`, `"\u00` + w + `41"`, `"\u` + w + `0041"`,
		`"""x` + w + `y"""`, `"""` + w + `"""`, `""` + w + `"`, `"` + w + `""`, `"""a\` + w + `"""`,
		bom + w + "a", w + bom, "a" + w + ",", "," + w + ",",
	}
}

// block strings with look-alikes where BlockStringValue looks at white space: on a first, last or
// inner line of their own, as indentation, at line ends, next to real white space
func hostileBlockFamily(w, t string) []string {
	q := `"""`
	return []string{
		q + w + t + "a" + q,                         // first line only w
		q + "a" + t + w + q,                         // last line only w
		q + w + t + "a" + t + w + q,                 // both
		q + t + w + t + "a" + t + w + t + q,         // w lines inside leading / trailing blank lines
		q + " " + w + t + " a" + t + w + " " + q,    // w with real white space around it
		q + w + " " + t + "  a" + t + "\t" + w + q,  // the other way round
		q + "a" + t + w + t + "b" + q,               // inner line only w
		q + "a" + t + "  b" + t + w + t + "  c" + q, // inner w line shorter than the common indent
		q + "a" + t + "  b" + t + "  " + w + t + "  c" + q,
		q + "a" + t + w + "b" + t + w + "c" + q,   // w as indentation
		q + "a" + t + w + " b" + t + w + " c" + q, // w then space as indentation
		q + "a" + t + " " + w + "b" + t + " " + w + "c" + q,
		q + "a" + t + "  b" + t + " " + w + "c" + q, // w inside what would be the common indent
		q + "a" + w + t + "b" + w + q,               // w at line ends
		q + "a" + w + t + " " + q,                   // w before a blank last line
		q + t + w + "a" + t + q,
		q + w + q, q + w + w + q, q + " " + w + q, q + w + " " + q, q + t + w + q, q + w + t + q, q + w + t + w + q,
		q + "a" + w + "b" + q, // w as a would-be line terminator
		q + "  a" + w + "  b" + t + "  c" + q,
		q + w + "  a" + t + "  b" + q,
	}
}

func randomHostileBlock(r *rng.R) string {
	var sb strings.Builder
	sb.WriteString(`"""`)
	ws := func() string {
		switch r.Intn(4) {
		case 0:
			return rng.Pick(r, spaceLike)
		case 1:
			return rng.Pick(r, []string{" ", "\t", "  "})
		case 2:
			return rng.Pick(r, []string{" ", "\t"}) + rng.Pick(r, spaceLike)
		default:
			return ""
		}
	}
	n := r.Range(1, 6)
	for i := 0; i < n; i++ {
		if i > 0 {
			sb.WriteString(rng.Pick(r, terms))
		}
		sb.WriteString(ws())
		if !r.Chance(1, 3) {
			sb.WriteString(rng.Pick(r, []string{"a", "b c", eAcc, `\"""`, `"`, rng.Pick(r, spaceLike) + "x"}))
			sb.WriteString(ws())
		} else if r.Bool() {
			sb.WriteString(ws())
		}
	}
	if !r.Chance(1, 15) {
		sb.WriteString(`"""`)
	}
	return sb.String()
}

func hex4(v int) string { return fmt.Sprintf("%04x", v) }

func main() {
	go watchdog()
	hx.Main(func(h *hx.H) {
		th := h.Thorough()
		pick := func(q, t int) int {
			if th {
				return t
			}
			return q
		}
		for _, src := range regress {
			src := src
			h.Case(func(r *rng.R) sexp.Node { return runCase(src) })
		}
		exhaustive(h, dense, 1, pick(3, 4), id)
		exhaustive(h, core, 4, pick(4, 5), id)
		exhaustive(h, numberAlpha, 1, 5, func(w string) []string { return []string{w, w + " x"} })
		if th {
			exhaustive(h, numberAlpha, 6, 6, id)
		}
		exhaustive(h, quotedAlpha, 0, 4, func(w string) []string { return []string{`"` + w, `"` + w + `" a`} })
		if th {
			exhaustive(h, quotedCore, 5, 5, func(w string) []string { return []string{`"` + w + `"`} })
		}
		exhaustive(h, blockAlpha, 0, pick(5, 6), func(w string) []string { return []string{`"""` + w + `"""`, `"""` + w} })
		if th {
			exhaustive(h, blockAlpha, 7, 7, func(w string) []string { return []string{`"""` + w + `"""`} })
		}
		indentFamily(h)
		// \uXXXX
		for _, v := range []int{0, 1, 9, 0x1f, 0x20, 0x22, 0x5c, 0x7f, 0x80, 0x7ff, 0x800, 0xd7ff, 0xd800, 0xdbff, 0xdc00, 0xdfff, 0xe000, 0xfeff, 0xfffd, 0xfffe, 0xffff} {
			for _, f := range []string{`"\u%s"`, `"a\u%sb"`, `"\u%s\u%s"`, `"""\u%s"""`} {
				src := fmt.Sprintf(f, hex4(v), strings.ToUpper(hex4(v)))
				if strings.Count(f, "%s") == 1 {
					src = fmt.Sprintf(f, hex4(v))
				}
				h.Case(func(r *rng.R) sexp.Node { return runCase(src) })
			}
		}
		for i := 0; i < pick(600, 6000); i++ {
			h.Case(func(r *rng.R) sexp.Node {
				hx := fmt.Sprintf("%04x", r.Intn(0x10000))
				if r.Bool() {
					hx = strings.ToUpper(hx)
				}
				switch r.Intn(7) {
				case 2: // a digit replaced by a look-alike digit / letter
					k := r.Intn(4)
					hx = hx[:k] + rng.Pick(r, []string{"\uff11", "\uff21", "\u0661", "\uff46", "\u00b2"}) + hx[k+1:]
				case 0:
					hx = hx[:r.Intn(4)]
				case 1:
					b := []byte(hx)
					b[r.Intn(4)] = "gG xz-\"\\"[r.Intn(8)]
					hx = string(b)
				}
				return runCase(`"` + rng.Pick(r, []string{"", "a", `\n`}) + `\u` + hx + rng.Pick(r, []string{"", "0", "z", `A`}) + `"`)
			})
		}
		for i := 0; i < pick(8000, 100000); i++ {
			h.Case(func(r *rng.R) sexp.Node { return runCase(randomBlock(r)) })
		}
		for i := 0; i < pick(20000, 250000); i++ {
			h.Case(func(r *rng.R) sexp.Node { return runCase(randomText(r, false)) })
		}
		for i := 0; i < pick(4000, 60000); i++ {
			h.Case(func(r *rng.R) sexp.Node { return runCase(randomText(r, true)) })
		}
		for i := 0; i < pick(6000, 100000); i++ {
			h.Case(func(r *rng.R) sexp.Node { return runCase(mutate(r, randomText(r, r.Chance(1, 4)))) })
		}
		// look-alikes of every character class, in every lexical context
		for _, w := range append(append([]string{}, spaceLike...), otherLike...) {
			for _, src := range lookalikeContexts(w) {
				src := src
				h.Case(func(r *rng.R) sexp.Node { return runCase(src) })
			}
		}
		for _, w := range spaceLike {
			for _, t := range terms {
				for _, src := range hostileBlockFamily(w, t) {
					src := src
					h.Case(func(r *rng.R) sexp.Node { return runCase(src) })
				}
			}
		}
		for i := 0; i < pick(4000, 60000); i++ {
			h.Case(func(r *rng.R) sexp.Node { return runCase(randomHostileBlock(r)) })
		}
		// API call sequences
		for _, src := range regress {
			src := src
			h.Case(func(r *rng.R) sexp.Node { return runAPICase(src, scanner.ScanIgnored, fullCalls(len(src))) })
			h.Case(func(r *rng.R) sexp.Node { return runAPICase(src, 0, fullCalls(len(src))) })
			h.Case(func(r *rng.R) sexp.Node { return runAPICase(src, randomMode(r), randomCalls(r)) })
		}
		for n := 1; n <= 2; n++ {
			for i := 0; i < pow(len(dense), n); i++ {
				src := word(dense, n, i)
				h.Case(func(r *rng.R) sexp.Node { return runAPICase(src, randomMode(r), fullCalls(len(src))) })
				h.Case(func(r *rng.R) sexp.Node { return runAPICase(src, randomMode(r), randomCalls(r)) })
			}
		}
		for i := 0; i < pick(6000, 80000); i++ {
			h.Case(func(r *rng.R) sexp.Node {
				var src string
				switch r.Intn(6) {
				case 0:
					src = randomBlock(r)
				case 1, 2:
					src = randomText(r, false)
				case 3:
					src = randomText(r, true)
				case 4:
					src = mutate(r, randomText(r, r.Chance(1, 4)))
				default:
					src = word(core, 3, r.Intn(pow(len(core), 3)))
				}
				return runAPICase(src, randomMode(r), randomCalls(r))
			})
		}
	})
}
