// c12: work (Go block counters) and outcome of graphql.ParseAndValidate on document families of
// linearly growing size, on random documents and on token soup, against the count models of
// coq/Cplx/.  Built by ./check with -cover -covermode=atomic -coverpkg=<checks/C12.json cover_pkgs>.
package main

import (
	"bytes"
	"context"
	"fmt"
	"os"
	"os/exec"
	"path/filepath"
	"runtime/debug"
	"strconv"
	"strings"
	"syscall"
	"time"

	"github.com/ccbrown/api-fu/graphql"
	"github.com/ccbrown/api-fu/graphql/ast"
	"github.com/ccbrown/api-fu/graphql/parser"
	"github.com/ccbrown/api-fu/graphql/schema"
	"github.com/ccbrown/api-fu/graphql/validator"

	"verifharness/internal/hx"
	"verifharness/internal/rng"
	"verifharness/internal/sexp"
)

const depthMessage = "maximum recursion depth exceeded"

var (
	theSchema *schema.Schema
	meas      *measure
	watchdog  = 20 * time.Second
)

type outcome struct {
	kind   string // accepted | invalid | syntax | depth | panic | timeout
	detail string
	dur    time.Duration
}

// guarded runs f on its own goroutine under the watchdog and classifies what came back.
func guarded(f func() []*graphql.Error) outcome {
	type res struct {
		errs  []*graphql.Error
		panic interface{}
	}
	ch := make(chan res, 1)
	t0 := time.Now()
	go func() {
		var r res
		defer func() {
			if e := recover(); e != nil {
				r.panic = e
			}
			ch <- r
		}()
		r.errs = f()
	}()
	select {
	case r := <-ch:
		d := time.Since(t0)
		if r.panic != nil {
			return outcome{"panic", fmt.Sprint(r.panic), d}
		}
		if len(r.errs) == 0 {
			return outcome{"accepted", "", d}
		}
		kind := "invalid"
		for _, e := range r.errs {
			if strings.Contains(e.Message, depthMessage) {
				return outcome{"depth", e.Message, d}
			}
			if strings.HasPrefix(e.Message, "Syntax error") {
				kind = "syntax"
			}
		}
		return outcome{kind, r.errs[0].Message, d}
	case <-time.After(watchdog):
		return outcome{"timeout", "", time.Since(t0)}
	}
}

func workNode(s sample) sexp.Node {
	var items []sexp.Node
	for c := 0; c < nComp; c++ {
		items = append(items, sexp.L(sexp.Sym(compNames[c]), sexp.Uint64(s.work[c])))
	}
	return sexp.T("work", items...)
}

func total(s sample) uint64 {
	var t uint64
	for c := 0; c < nComp; c++ {
		t += s.work[c]
	}
	return t
}

// estimate of the number of selections the cost walk visits (re-expanding every spread), capped
func costVisits(doc *ast.Document, cap uint64) uint64 {
	frags := map[string]*ast.FragmentDefinition{}
	var op *ast.OperationDefinition
	nops := 0
	for _, def := range doc.Definitions {
		switch def := def.(type) {
		case *ast.FragmentDefinition:
			frags[def.Name.Name] = def
		case *ast.OperationDefinition:
			op = def
			nops++
		}
	}
	if nops != 1 {
		return 0
	}
	memo := map[string]uint64{}
	onPath := map[string]bool{}
	var visit func(n ast.Node) uint64
	visit = func(n ast.Node) uint64 {
		var c uint64
		ast.Inspect(n, func(n ast.Node) bool {
			if n == nil || c > cap {
				return true
			}
			c++
			if sp, ok := n.(*ast.FragmentSpread); ok {
				name := sp.FragmentName.Name
				if def := frags[name]; def != nil && !onPath[name] {
					if v, ok := memo[name]; ok {
						c += v
					} else {
						onPath[name] = true
						v := visit(def)
						onPath[name] = false
						memo[name] = v
						c += v
					}
				}
			}
			return true
		})
		if c > cap {
			c = cap + 1
		}
		return c
	}
	return visit(op)
}

type caseOpts struct {
	family string
	n      int
	cost   bool
	// set by a full run when an earlier, smaller member of the family exceeded the work budget
	blown *bool
}

const workBudget = 1500 * 1000 * 1000 // statements; above this larger members of a family are skipped

func runCase(h *hx.H, o caseOpts, src string) sexp.Node {
	if o.blown != nil && *o.blown {
		return sexp.T("case", sexp.T("family", sexp.Sym(o.family)), sexp.T("n", sexp.Int(o.n)), sexp.T("skipped", sexp.Sym("family-over-budget")))
	}
	classes, lexErrs := tokenClasses([]byte(src))

	meas.clear()
	outA := guarded(func() []*graphql.Error {
		_, errs := graphql.ParseAndValidate(src, theSchema, schema.FeatureSet{})
		return errs
	})
	sA := meas.take()
	// the wall-clock clause (thorough tier) is about the time the work takes, not about what the
	// scheduler or the collector did to one run on a shared machine: a suspiciously slow run is
	// measured again and the fastest of up to five runs is reported
	if h.Thorough() && outA.kind != "timeout" && outA.kind != "panic" && outA.dur > 25*time.Millisecond {
		for i := 0; i < 4; i++ {
			again := guarded(func() []*graphql.Error {
				_, errs := graphql.ParseAndValidate(src, theSchema, schema.FeatureSet{})
				return errs
			})
			if again.kind == outA.kind && again.dur < outA.dur {
				outA.dur = again.dur
			}
		}
	}
	if outA.kind == "timeout" {
		// the runaway goroutine cannot be stopped and would pollute every later measurement:
		// report this case and end the run here
		fatalAfter = true
	}

	docNode := sexp.Sym("none")
	var doc *ast.Document
	if outA.kind != "timeout" && outA.kind != "panic" {
		func() {
			defer func() { recover() }()
			d, errs := parser.ParseDocument([]byte(src))
			if len(errs) == 0 && d != nil {
				doc = d
			}
		}()
	}
	if doc != nil {
		docNode = abstractDoc(doc, theSchema)
	}

	costNode := sexp.Sym("none")
	if o.cost && doc != nil && !fatalAfter && total(sA) < workBudget && costVisits(doc, 1<<21) <= 1<<21 {
		actual := -7
		meas.clear()
		outB := guarded(func() []*graphql.Error {
			_, errs := graphql.ParseAndValidate(src, theSchema, schema.FeatureSet{},
				validator.ValidateCost("", nil, -1, &actual, schema.FieldCost{Resolver: 1}))
			return errs
		})
		sB := meas.take()
		if outB.kind == "timeout" {
			fatalAfter = true
		}
		all := uint64(0)
		if total(sB) > total(sA) {
			all = total(sB) - total(sA)
		}
		costNode = sexp.L(sexp.T("outcome", sexp.Sym(outB.kind)), sexp.T("file", sexp.Uint64(sB.work[cCost])),
			sexp.T("all", sexp.Uint64(all)), sexp.T("actual", sexp.Int(actual)), sexp.T("ns", sexp.Int64(outB.dur.Nanoseconds())))
	}
	if o.blown != nil && total(sA) > workBudget {
		*o.blown = true
	}

	budget := int64(0)
	if h.Thorough() {
		budget = 1
	}
	calls := sexp.T("calls",
		sexp.L(sexp.Sym("prods"), sexp.Uint64(sA.prods)),
		sexp.L(sexp.Sym("enter"), sexp.Uint64(sA.calls["enter"])),
		sexp.L(sexp.Sym("exit"), sexp.Uint64(sA.calls["exit"])),
		sexp.L(sexp.Sym("consume"), sexp.Uint64(sA.calls["consumeToken"])),
		sexp.L(sexp.Sym("canmerge"), sexp.Uint64(sA.calls["validateFieldsInSetCanMerge"])),
		sexp.L(sexp.Sym("sameshape"), sexp.Uint64(sA.calls["validateSameResponseShape"])),
		sexp.L(sexp.Sym("addfs"), sexp.Uint64(sA.calls["addFieldSelections"])),
		sexp.L(sexp.Sym("addfscd"), sexp.Uint64(sA.calls["addFieldSelectionsWithCycleDetection"])),
		sexp.L(sexp.Sym("runes"), sexp.Uint64(sA.calls["scan.consumeRune"])),
		sexp.L(sexp.Sym("peeks"), sexp.Uint64(sA.calls["scan.peek"])),
		sexp.L(sexp.Sym("decodes"), sexp.Uint64(sA.calls["scan.readNextRune"])))
	text := sexp.Sym("none")
	if len(src) <= 400 {
		text = sexp.Str(src)
	}
	return sexp.T("case",
		sexp.T("family", sexp.Sym(o.family)), sexp.T("n", sexp.Int(o.n)), sexp.T("len", sexp.Int(len(src))),
		sexp.T("text", text),
		sexp.T("tokens", sexp.Bytes(classes)), sexp.T("lexerrs", sexp.Int(lexErrs)),
		docNode,
		sexp.T("obs", sexp.T("outcome", sexp.Sym(outA.kind)), workNode(sA), calls,
			sexp.T("cost", costNode),
			sexp.T("time", sexp.Int64(outA.dur.Nanoseconds()), sexp.Int64(budget))))
}

var fatalAfter bool

// ---------------------------------------------------------------------------------------------
// stack probe: "time AND STACK ... flat documents of any width ... error, not crash".  A goroutine
// stack overflow is a fatal error of the process, not a panic, so the document is validated in a
// child process (this binary, re-executed with C12_STACK_CHILD=family:n) whose stack limit is
// lowered to 32 MB; flat documents must pass there whatever their width.
// ---------------------------------------------------------------------------------------------

const stackLimit = 32 << 20

// a name, a run of n ignored tokens, a name
func ignoredRun(unit string) func(n int) string {
	return func(n int) string { return "{i" + rep(unit, n) + "j}" }
}

type stackFamily struct {
	name string
	gen  func(n int) string
	n    int
}

func stackFamilies(thorough bool) []stackFamily {
	m := 1
	if thorough {
		m = 2
	}
	out := []stackFamily{
		{"ignored-run-spaces", ignoredRun(" "), 2000000 * m},
		{"ignored-run-commas", ignoredRun(","), 2000000 * m},
		{"ignored-run-tabs", ignoredRun("\t"), 1000000 * m},
		{"ignored-run-blank-lines", ignoredRun("\n"), 1000000 * m},
		{"ignored-run-crlf", ignoredRun("\r\n"), 1000000 * m},
		{"ignored-run-comment-lines", ignoredRun("#c\n"), 500000 * m},
		{"ignored-run-mixed", ignoredRun(" ,\n\t#\n"), 400000 * m},
	}
	for _, f := range families() {
		if f.kind == "wide" {
			sizes := f.quick
			if thorough {
				sizes = f.thorough
			}
			out = append(out, stackFamily{f.name, f.gen, sizes[len(sizes)-1]})
		}
	}
	return out
}

func stackChild(spec string) {
	debug.SetMaxStack(stackLimit)
	i := strings.LastIndex(spec, ":")
	n, _ := strconv.Atoi(spec[i+1:])
	for _, f := range stackFamilies(true) {
		if f.name == spec[:i] {
			src := f.gen(n)
			_, errs := graphql.ParseAndValidate(src, buildSchema(), schema.FeatureSet{})
			fmt.Printf("child-done %d %d\n", len(src), len(errs))
			os.Exit(0)
		}
	}
	fmt.Println("child-unknown-family")
	os.Exit(3)
}

func probeStack(f stackFamily) sexp.Node {
	result, detail := "died", ""
	exe, err := os.Executable()
	if err == nil {
		ctx, cancel := context.WithTimeout(context.Background(), 120*time.Second)
		defer cancel()
		cmd := exec.CommandContext(ctx, exe)
		cmd.Env = append(os.Environ(), "C12_STACK_CHILD="+f.name+":"+strconv.Itoa(f.n))
		var buf bytes.Buffer
		cmd.Stdout, cmd.Stderr = &buf, &buf
		err = cmd.Run()
		out := buf.String()
		switch {
		case err == nil && strings.Contains(out, "child-done"):
			result = "ok"
		case strings.Contains(out, "stack overflow") || strings.Contains(out, "stack exceeds"):
			result = "overflow"
		case ctx.Err() != nil:
			result = "timeout"
		}
		if result != "ok" {
			if len(out) > 200 {
				out = out[:200]
			}
			detail = out
		}
	}
	return sexp.T("case", sexp.T("family", sexp.Sym("stack-"+f.name)), sexp.T("n", sexp.Int(f.n)),
		sexp.T("stackprobe", sexp.T("result", sexp.Sym(result)), sexp.T("limit", sexp.Int(stackLimit)), sexp.T("detail", sexp.Str(detail))))
}

func main() {
	if spec := os.Getenv("C12_STACK_CHILD"); spec != "" {
		stackChild(spec)
	}
	// Go prints a warning at exit when a -cover binary runs without GOCOVERDIR; give it one
	if os.Getenv("GOCOVERDIR") == "" {
		dir := filepath.Join(os.Getenv("VERIF_RUNDIR"), "gocover")
		if os.Getenv("VERIF_RUNDIR") == "" {
			dir = filepath.Join(os.TempDir(), "c12-gocover")
		}
		os.MkdirAll(dir, 0o755)
		os.Setenv("GOCOVERDIR", dir)
		if exe, err := os.Executable(); err == nil {
			syscall.Exec(exe, os.Args, os.Environ())
		}
	}
	repo := os.Getenv("VERIF_REPO")
	if repo == "" {
		repo = "/repo"
	}
	var err error
	meas, err = newMeasure(repo)
	if err != nil {
		fmt.Fprintln(os.Stderr, "c12:", err)
		os.Exit(2)
	}
	if len(meas.missing) > 0 {
		fmt.Fprintln(os.Stderr, "c12: named functions not found in the repository's source (reported as 0 calls):", meas.missing)
	}
	theSchema = buildSchema()

	hx.Main(func(h *hx.H) {
		emit := func(o caseOpts, gen func(r *rng.R) string) {
			if fatalAfter {
				return
			}
			h.Case(func(r *rng.R) sexp.Node { return runCase(h, o, gen(r)) })
		}
		fixed := func(s string) func(*rng.R) string { return func(*rng.R) string { return s } }

		// 1. hand-picked small documents (every production at least once, the defects of DESIGN 6)
		for i, s := range smallDocs {
			emit(caseOpts{family: "small", n: i, cost: true}, fixed(s))
		}

		// 2. exhaustive: every token sequence up to length k over the dense alphabet, after each prefix
		for pi, prefix := range exhaustivePrefixes {
			k := 3
			if pi >= 4 {
				k = 2
			}
			if h.Thorough() {
				k++
			}
			var rec func(cur []string, depth int)
			rec = func(cur []string, depth int) {
				emit(caseOpts{family: "exhaustive", n: len(cur)}, fixed(prefix+" "+strings.Join(cur, " ")))
				if depth == k {
					return
				}
				for _, t := range denseTokens {
					rec(append(cur[:len(cur):len(cur)], t), depth+1)
				}
			}
			rec(nil, 0)
		}

		// 2b. the same alphabet without the separating blanks (adjacent tokens: "a$", "1a", "...a", "on{"):
		// every sequence of length <= 2 (3 in the thorough tier) after each prefix
		for _, prefix := range exhaustivePrefixes {
			k := 2
			if h.Thorough() {
				k = 3
			}
			var rec func(cur []string, depth int)
			rec = func(cur []string, depth int) {
				if depth > 0 {
					emit(caseOpts{family: "compact", n: len(cur)}, fixed(prefix+strings.Join(cur, "")))
				}
				if depth == k {
					return
				}
				for _, t := range denseTokens {
					rec(append(cur[:len(cur):len(cur)], t), depth+1)
				}
			}
			rec(nil, 0)
		}

		// 3. the families, sizes ascending
		for _, f := range families() {
			sizes := f.quick
			if h.Thorough() {
				sizes = f.thorough
			}
			blown := false
			for _, n := range sizes {
				f, n := f, n
				emit(caseOpts{family: f.name, n: n, cost: true, blown: &blown}, func(*rng.R) string { return f.gen(n) })
			}
		}

		// 3b. stack probes: ignored-token runs and every breadth family at its largest size, in a child
		// process with a 32 MB stack limit
		for _, f := range stackFamilies(h.Thorough()) {
			f := f
			if !fatalAfter {
				h.Case(func(*rng.R) sexp.Node { return probeStack(f) })
			}
		}

		// 4. random documents, mutated documents, token soup
		nr, nm, ns := 2500, 800, 1500
		if h.Thorough() {
			nr, nm, ns = 60000, 20000, 30000
		}
		for i := 0; i < nr; i++ {
			emit(caseOpts{family: "random", n: i, cost: true}, randomDoc)
		}
		for i := 0; i < nm; i++ {
			emit(caseOpts{family: "mutated", n: i, cost: true}, func(r *rng.R) string { return mutate(r, randomDoc(r)) })
		}
		for i := 0; i < ns; i++ {
			emit(caseOpts{family: "soup", n: i}, soup)
		}
	})
	if fatalAfter {
		fmt.Fprintln(os.Stderr, "c12: a document exceeded the watchdog; the run was cut short after reporting it")
	}
}

var exhaustivePrefixes = []string{"", "{", "{a(", "query(", "{a(x:", "{...", "fragment a", "{a @", "query($a:", "{a(x:{"}

var smallDocs = []string{
	"{a{i}}",
	"{i}",
	"query{i}",
	"query Q{i}",
	"mutation{i}",
	"query Q($v:Int){k(x:$v)}",
	"query Q($v:Int=1,$w:[Int!]!){k(x:$v) l(xs:$w)}",
	"query Q @include(if:true){i}",
	"{x:i}",
	"{k(x:1)}",
	"{c(x:1,y:\"s\"){i}}",
	"{i @include(if:true) @skip(if:false)}",
	"{...F} fragment F on T{i}",
	"{...F @include(if:true)} fragment F on T @include(if:true){i}",
	"{... on T{i}}",
	"{...{i}}",
	"{... @include(if:true){i}}",
	"{l(xs:[1,2,3])}",
	"{ll(xs:[[1],[2,3],[]])}",
	"{o(in:{a:1,o:{b:2},l:[{a:1}]})}",
	"{k(x:1.5)}",
	"{k(x:null) j s}",
	"{k(x:true)}",
	"{k(x:E)}",
	"{a{i} a{j}}",
	"{a{i} a{i}}",
	"{x:i x:j}",
	"{x:i x:s}",
	"{x:a{i} x:i}",
	"{k(x:1) k(x:2)}",
	"{k(x:1) k(x:1)}",
	"{ts{i} ts{j}}",
	"{x:ts{i} x:a{j}}",
	"{x:nn{i} x:a{j}}",
	"{n{... on T{s} ... on V{s}}}",
	"{n{... on T{x:s} ... on V{x:w}}}",
	"{n{... on T{x:j} ... on V{x:i}}}",
	"{u{... on T{i} ... on V{i}}}",
	"{...F ...F} fragment F on T{i}",
	"{a{...F} a{...F}} fragment F on T{i}",
	"{a{...F} a{...F}} fragment F on T{a{...F}}",
	"fragment F on T{a{...F} a{...F}}",
	"{...F} fragment F on T{...G} fragment G on T{...F}",
	"{...G}",
	"{zz}",
	"{a}",
	"{i{i}}",
	"{a{zz} a{zz}}",
	"{x:zz x:i}",
	"{i} {j}",
	"query A{i} query A{j}",
	"query A{i} query B{j}",
	"fragment F on T{i} fragment F on T{j} {...F}",
	"{__typename a{__typename}}",
	"{x:__typename x:s}",
	"",
	"{",
	"}",
	"{a",
	"{a{",
	"{a(}",
	"{a(x)}",
	"{a(x:)}",
	"{...}",
	"{... on}",
	"fragment on on T{i}",
	"fragment F{i}",
	"query Q({i}",
	"query Q($v){i}",
	"query Q($v:){i}",
	"query Q($v:[Int){i}",
	"query Q($v:Int=$w){i}",
	"{k(x:[1,)}",
	"{k(x:{a})}",
	"{k(x:$)}",
	"{a @}",
	"{a:}",
	"{a:b:c}",
	"{i} garbage",
	"{i} ?",
	"{i \"unterminated}",
	"subscription{i j}",
	"subscription{i}",
}
