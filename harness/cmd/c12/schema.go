package main

import (
	"github.com/ccbrown/api-fu/graphql/schema"
)

// The fixed schema all documents are validated against.
//
//	interface N { id: ID  a: T  n: N  i: Int }
//	type T implements N { id a n i  b: T  c(x: Int, y: String): T  j: Int  s: String  k(x: Int): Int
//	                      l(xs: [Int]): Int  ll(xs: [[Int]]): Int  o(in: In): Int  ts: [T]  nn: T!
//	                      ns: [T!]!  u: U  v: V }
//	type V implements N { id a n  i: Int  w: String  v: V  s: Int   (s: Int here, String on T) }
//	union U = T | V
//	input In { a: Int  b: Int  o: In  l: [In] }
//	schema { query: T }
type fdesc struct {
	name string
	args []string
	sub  string // "" for leaves, else the name of the composite type selected into
}

var typeFields = map[string][]fdesc{}

func buildSchema() *schema.Schema {
	in := &schema.InputObjectType{Name: "In"}
	in.Fields = map[string]*schema.InputValueDefinition{
		"a": {Type: schema.IntType},
		"b": {Type: schema.IntType},
		"o": {Type: in},
		"l": {Type: schema.NewListType(in)},
	}
	n := &schema.InterfaceType{Name: "N"}
	t := &schema.ObjectType{Name: "T", ImplementedInterfaces: []*schema.InterfaceType{n}, IsTypeOf: func(interface{}) bool { return true }}
	v := &schema.ObjectType{Name: "V", ImplementedInterfaces: []*schema.InterfaceType{n}, IsTypeOf: func(interface{}) bool { return false }}
	u := &schema.UnionType{Name: "U", MemberTypes: []*schema.ObjectType{t, v}}
	intArg := func(names ...string) map[string]*schema.InputValueDefinition {
		m := map[string]*schema.InputValueDefinition{}
		for _, x := range names {
			m[x] = &schema.InputValueDefinition{Type: schema.IntType}
		}
		return m
	}
	n.Fields = map[string]*schema.FieldDefinition{
		"id": {Type: schema.IDType},
		"a":  {Type: t},
		"n":  {Type: n},
		"i":  {Type: schema.IntType},
	}
	t.Fields = map[string]*schema.FieldDefinition{
		"id": {Type: schema.IDType},
		"a":  {Type: t},
		"n":  {Type: n},
		"i":  {Type: schema.IntType},
		"b":  {Type: t},
		"c": {Type: t, Arguments: map[string]*schema.InputValueDefinition{
			"x": {Type: schema.IntType}, "y": {Type: schema.StringType}}},
		"j":  {Type: schema.IntType},
		"s":  {Type: schema.StringType},
		"k":  {Type: schema.IntType, Arguments: intArg("x")},
		"l":  {Type: schema.IntType, Arguments: map[string]*schema.InputValueDefinition{"xs": {Type: schema.NewListType(schema.IntType)}}},
		"ll": {Type: schema.IntType, Arguments: map[string]*schema.InputValueDefinition{"xs": {Type: schema.NewListType(schema.NewListType(schema.IntType))}}},
		"o":  {Type: schema.IntType, Arguments: map[string]*schema.InputValueDefinition{"in": {Type: in}}},
		"ts": {Type: schema.NewListType(t)},
		"nn": {Type: schema.NewNonNullType(t)},
		"ns": {Type: schema.NewNonNullType(schema.NewListType(schema.NewNonNullType(t)))},
		"u":  {Type: u},
		"v":  {Type: v},
	}
	v.Fields = map[string]*schema.FieldDefinition{
		"id": {Type: schema.IDType},
		"a":  {Type: t},
		"n":  {Type: n},
		"i":  {Type: schema.IntType},
		"w":  {Type: schema.StringType},
		"v":  {Type: v},
		"s":  {Type: schema.IntType},
	}
	s, err := schema.New(&schema.SchemaDefinition{
		Query:           t,
		AdditionalTypes: []schema.NamedType{v, u, n, in},
		Directives: map[string]*schema.DirectiveDefinition{
			"include": schema.IncludeDirective,
			"skip":    schema.SkipDirective,
		},
	})
	if err != nil {
		panic(err)
	}
	typeFields["T"] = []fdesc{
		{"id", nil, ""}, {"a", nil, "T"}, {"n", nil, "N"}, {"i", nil, ""}, {"b", nil, "T"},
		{"c", []string{"x", "y"}, "T"}, {"j", nil, ""}, {"s", nil, ""}, {"k", []string{"x"}, ""},
		{"ts", nil, "T"}, {"nn", nil, "T"}, {"ns", nil, "T"}, {"u", nil, "U"}, {"v", nil, "V"},
		{"__typename", nil, ""},
	}
	typeFields["V"] = []fdesc{
		{"id", nil, ""}, {"a", nil, "T"}, {"n", nil, "N"}, {"i", nil, ""}, {"w", nil, ""}, {"v", nil, "V"},
		{"s", nil, ""}, {"__typename", nil, ""},
	}
	typeFields["N"] = []fdesc{{"id", nil, ""}, {"a", nil, "T"}, {"n", nil, "N"}, {"i", nil, ""}, {"__typename", nil, ""}}
	typeFields["U"] = []fdesc{{"__typename", nil, ""}}
	return s
}

// fragment type conditions that are possible inside a selection set of the given type
var spreadable = map[string][]string{
	"T": {"T", "N", "U"},
	"V": {"V", "N", "U"},
	"N": {"T", "V", "N", "U"},
	"U": {"T", "V", "N", "U"},
}
