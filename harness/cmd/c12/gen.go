package main

import (
	"fmt"
	"strings"

	"verifharness/internal/rng"
)

// ---------------------------------------------------------------------------------------------
// families d_n with |d_n| = O(n)
// ---------------------------------------------------------------------------------------------

type family struct {
	name string
	kind string // "merge" (overlapping fields), "wide", "deep", "frag"
	gen  func(n int) string
	// sizes per tier
	quick, thorough []int
}

func rep(s string, n int) string { return strings.Repeat(s, n) }

func seq(from, to, step int) []int {
	var out []int
	for i := from; i <= to; i += step {
		out = append(out, i)
	}
	return out
}

// defect 15: fragment F_i on T { a{...F_{i+1}} a{...F_{i+1}} }
func chain15(n int) string {
	var b strings.Builder
	b.WriteString("{...F0}")
	for i := 0; i < n; i++ {
		fmt.Fprintf(&b, " fragment F%d on T{a{...F%d} a{...F%d}}", i, i+1, i+1)
	}
	fmt.Fprintf(&b, " fragment F%d on T{i}", n)
	return b.String()
}

// the same sharing without named fragments on one side
func chainOneSided(n int) string {
	var b strings.Builder
	b.WriteString("{x:a{...F0} x:a{")
	b.WriteString(rep("a{", n))
	b.WriteString("i")
	b.WriteString(rep("}", n))
	b.WriteString("}}")
	for i := 0; i < n; i++ {
		fmt.Fprintf(&b, " fragment F%d on T{a{...F%d} a{...F%d}}", i, i+1, i+1)
	}
	fmt.Fprintf(&b, " fragment F%d on T{i}", n)
	return b.String()
}

// two interleaved chains: four distinct fields meet at every level
func chainFG(n int) string {
	var b strings.Builder
	b.WriteString("{...F0 ...G0}")
	for i := 0; i < n; i++ {
		fmt.Fprintf(&b, " fragment F%d on T{a{...F%d} a{...G%d}}", i, i+1, i+1)
		fmt.Fprintf(&b, " fragment G%d on T{a{...G%d} a{...F%d}}", i, i+1, i+1)
	}
	fmt.Fprintf(&b, " fragment F%d on T{i} fragment G%d on T{i}", n, n)
	return b.String()
}

// no fragments at all: a{ <rec> } a{i} a{i}
func tree3(n int) string {
	var rec func(k int) string
	rec = func(k int) string {
		if k == 0 {
			return "i"
		}
		return "a{" + rec(k-1) + "} a{i} a{i}"
	}
	return "{" + rec(n) + "}"
}

// aliases and abstract parents: x: a / x: a through inline fragments on N and T
func chainAlias(n int) string {
	var b strings.Builder
	b.WriteString("{n{...F0}}")
	for i := 0; i < n; i++ {
		fmt.Fprintf(&b, " fragment F%d on N{x:n{...F%d} ... on T{x:n{...F%d}} ... on V{x:n{...F%d}}}", i, i+1, i+1, i+1)
	}
	fmt.Fprintf(&b, " fragment F%d on N{id}", n)
	return b.String()
}

// three spreads per level, through list and non-null wrappers
func chainWrapped(n int) string {
	var b strings.Builder
	b.WriteString("{...F0}")
	for i := 0; i < n; i++ {
		fmt.Fprintf(&b, " fragment F%d on T{ns{...F%d} ns{...F%d} ns{...F%d}}", i, i+1, i+1, i+1)
	}
	fmt.Fprintf(&b, " fragment F%d on T{j}", n)
	return b.String()
}

// a fragment cycle below overlapping fields
func cyclic(n int) string {
	var b strings.Builder
	b.WriteString("{a{...F0} a{...F0}}")
	for i := 0; i < n; i++ {
		fmt.Fprintf(&b, " fragment F%d on T{a{...F%d} b{...F%d}}", i, (i+1)%n, (i+1)%n)
	}
	return b.String()
}

// repeated spreads of one fragment below n sibling fields of the same name
func repeatedSpreads(n int) string {
	return "{" + rep("a{...F} ", n) + "} fragment F on T{i j a{i}}"
}

// the same fragment spread n times in one selection set (rejected on the pinned tree: defect 9)
func sameSpreadTwice(n int) string {
	return "{" + rep("...F ", n) + "} fragment F on T{i}"
}

// repeated-spread chain through *distinct* response keys: no merge work, 2^n cost-walk visits
func costChain(n int) string {
	var b strings.Builder
	b.WriteString("{...F0}")
	for i := 0; i < n; i++ {
		fmt.Fprintf(&b, " fragment F%d on T{a{...F%d} b{...F%d}}", i, i+1, i+1)
	}
	fmt.Fprintf(&b, " fragment F%d on T{i}", n)
	return b.String()
}

// mixed pairs: one response key selected k times with a sub-selection that spreads the next fragment and
// b times bare (invalid: the bare composite field needs a sub-selection - the merge pass runs all the
// same, and a pair of a field with and a field without sub-selection recurses into the merged set)
func chainMixed(k, b int) func(n int) string {
	return func(n int) string {
		var sb strings.Builder
		sb.WriteString("{...F0}")
		for i := 0; i < n; i++ {
			fmt.Fprintf(&sb, " fragment F%d on T{", i)
			for j := 0; j < k; j++ {
				fmt.Fprintf(&sb, "a{...F%d} ", i+1)
			}
			sb.WriteString(rep("a ", b))
			sb.WriteString("}")
		}
		fmt.Fprintf(&sb, " fragment F%d on T{i}", n)
		return sb.String()
	}
}

// the same through inline fragments: the occurrences sit in different selection sets
func chainMixedInline(n int) string {
	var sb strings.Builder
	sb.WriteString("{...F0}")
	for i := 0; i < n; i++ {
		fmt.Fprintf(&sb, " fragment F%d on T{... on T{a{...F%d}} ...{a{...F%d} a} a}", i, i+1, i+1)
	}
	fmt.Fprintf(&sb, " fragment F%d on T{i}", n)
	return sb.String()
}

// a leaf and composite fields under one response key: x:a{...} x:a{...} x:i
func chainLeafVsComposite(n int) string {
	var sb strings.Builder
	sb.WriteString("{...F0}")
	for i := 0; i < n; i++ {
		fmt.Fprintf(&sb, " fragment F%d on T{x:a{...F%d} x:a{...F%d} x:i}", i, i+1, i+1)
	}
	fmt.Fprintf(&sb, " fragment F%d on T{i}", n)
	return sb.String()
}

// no fragments: the bare occurrence next to nested ones, a{ <rec> } a{i} a
func treeMixed(n int) string {
	var rec func(k int) string
	rec = func(k int) string {
		if k == 0 {
			return "i"
		}
		return "a{" + rec(k-1) + "} a{i} a"
	}
	return "{" + rec(n) + "}"
}

// the family of Cplx/CostWalkProofs.v (cost_walk_exponential): both spreads in one selection set
func costChainFlat(n int) string {
	var b strings.Builder
	b.WriteString("{...F0}")
	for i := 0; i < n; i++ {
		fmt.Fprintf(&b, " fragment F%d on T{...F%d ...F%d}", i, i+1, i+1)
	}
	fmt.Fprintf(&b, " fragment F%d on T{i}", n)
	return b.String()
}

func wideSameField(n int) string  { return "{" + rep("i ", n) + "}" }
func wideSameObject(n int) string { return "{" + rep("a{i} ", n) + "}" }
func wideAliases(n int) string {
	var b strings.Builder
	b.WriteString("{")
	for i := 0; i < n; i++ {
		fmt.Fprintf(&b, "x%d:i ", i)
	}
	b.WriteString("}")
	return b.String()
}
func wideInline(n int) string { return "{" + rep("...{j} ", n) + "}" }
func wideArgs(n int) string {
	var b strings.Builder
	b.WriteString("{k(")
	for i := 0; i < n; i++ {
		fmt.Fprintf(&b, "x%d:%d,", i, i)
	}
	b.WriteString(")}")
	return b.String()
}
func wideList(n int) string { return "{l(xs:[" + rep("1,", n) + "])}" }
func wideObject(n int) string {
	var b strings.Builder
	b.WriteString("{o(in:{")
	for i := 0; i < n; i++ {
		fmt.Fprintf(&b, "a%d:%d,", i, i)
	}
	b.WriteString("})}")
	return b.String()
}
func wideVarDefs(n int) string {
	var b strings.Builder
	b.WriteString("query Q(")
	for i := 0; i < n; i++ {
		fmt.Fprintf(&b, "$v%d:Int ", i)
	}
	b.WriteString("){l(xs:[")
	for i := 0; i < n; i++ {
		fmt.Fprintf(&b, "$v%d ", i)
	}
	b.WriteString("])}")
	return b.String()
}
func wideDirectives(n int) string { return "{i " + rep("@include(if:true) ", n) + "}" }
func manyOperations(n int) string {
	var b strings.Builder
	for i := 0; i < n; i++ {
		fmt.Fprintf(&b, "query Q%d{i} ", i)
	}
	return b.String()
}
func manyFragments(n int) string {
	var b strings.Builder
	b.WriteString("{")
	for i := 0; i < n; i++ {
		fmt.Fprintf(&b, "...F%d ", i)
	}
	b.WriteString("}")
	for i := 0; i < n; i++ {
		fmt.Fprintf(&b, " fragment F%d on T{x%d:i}", i, i)
	}
	return b.String()
}

// a linear chain of fragments F0 -> F1 -> ... (cycle search: n fragments x n dependencies)
func fragmentPath(n int) string {
	var b strings.Builder
	b.WriteString("{...F0}")
	for i := 0; i < n; i++ {
		fmt.Fprintf(&b, " fragment F%d on T{x%d:i ...F%d}", i, i, i+1)
	}
	fmt.Fprintf(&b, " fragment F%d on T{j}", n)
	return b.String()
}

// many operations x many fragments (variable-usage walk per operation)
func opsTimesFragments(n int) string {
	var b strings.Builder
	for i := 0; i < n; i++ {
		fmt.Fprintf(&b, "query Q%d($v:Int){...F0} ", i)
	}
	for i := 0; i < n; i++ {
		fmt.Fprintf(&b, " fragment F%d on T{x%d:k(x:$v) ...F%d}", i, i, i+1)
	}
	fmt.Fprintf(&b, " fragment F%d on T{j}", n)
	return b.String()
}

func deepSelections(n int) string { return "{" + rep("a{", n) + "i" + rep("}", n) + "}" }
func deepInline(n int) string     { return "{" + rep("...{", n) + "i" + rep("}", n) + "}" }
func deepLists(n int) string      { return "{ll(xs:" + rep("[", n) + "1" + rep("]", n) + ")}" }
func deepObjects(n int) string    { return "{o(in:" + rep("{o:", n) + "{a:1}" + rep("}", n) + ")}" }
func deepTypes(n int) string {
	return "query Q($v:" + rep("[", n) + "Int" + rep("]", n) + "){i}"
}
func deepVarDefault(n int) string {
	return "query Q($v:Int=" + rep("[", n) + "1" + rep("]", n) + "){i}"
}
func deepDirectiveArg(n int) string {
	return "{i @include(if:" + rep("[", n) + "true" + rep("]", n) + ")}"
}
func deepFragmentBody(n int) string {
	return "{...F} fragment F on T{" + rep("a{", n) + "i" + rep("}", n) + "}"
}

// sizes around the parser's limit of 1000 nested productions: selections cost 4 productions per
// level, inline fragments 2, values and types 1
var around4 = []int{1, 2, 10, 100, 240, 245, 246, 247, 248, 249, 250, 251, 252, 253, 255, 260, 300, 1000, 2500}
var around2 = []int{1, 2, 10, 100, 480, 490, 494, 495, 496, 497, 498, 499, 500, 501, 502, 503, 510, 600, 2000, 5000}
var around1 = []int{1, 2, 10, 100, 900, 980, 985, 986, 987, 988, 989, 990, 991, 992, 993, 994, 995, 996, 997, 998, 999, 1000, 1001, 1002, 1010, 2000, 10000}

var expSmall = seq(1, 14, 1)

func families() []family {
	widths := []int{10, 30, 100, 300, 1000, 2000}
	widthsT := []int{10, 30, 100, 300, 1000, 2000, 5000}
	widthsLin := []int{10, 100, 1000, 3000, 5000}
	return []family{
		{"chain15", "merge", chain15, append(seq(1, 12, 1), 16, 24, 40, 80, 160), append(seq(1, 40, 1), 80, 160, 320, 640)},
		{"chain-one-sided", "merge", chainOneSided, append(seq(1, 12, 1), 20, 40, 80), append(seq(1, 40, 1), 80, 160, 240)},
		{"chain-fg", "merge", chainFG, append(seq(1, 12, 1), 20, 40, 80), append(seq(1, 40, 1), 80, 160, 320)},
		{"tree3", "merge", tree3, append(seq(1, 12, 1), 20, 40, 80, 160), append(seq(1, 40, 1), 80, 160, 240)},
		{"chain-alias", "merge", chainAlias, append(seq(1, 10, 1), 20, 40), append(seq(1, 30, 1), 60, 120)},
		{"chain-wrapped", "merge", chainWrapped, append(seq(1, 10, 1), 20, 40, 80), append(seq(1, 30, 1), 60, 120, 240)},
		{"chain-mixed-2+1", "merge", chainMixed(2, 1), append(seq(1, 12, 1), 16, 24, 48, 96), append(seq(1, 40, 1), 48, 96, 200)},
		{"chain-mixed-1+1", "merge", chainMixed(1, 1), append(seq(1, 12, 1), 24, 48, 96), append(seq(1, 40, 1), 96, 200)},
		{"chain-mixed-2+2", "merge", chainMixed(2, 2), append(seq(1, 12, 1), 24, 48), append(seq(1, 40, 1), 96)},
		{"chain-mixed-3+1", "merge", chainMixed(3, 1), append(seq(1, 12, 1), 24, 48), append(seq(1, 40, 1), 96)},
		{"chain-mixed-inline", "merge", chainMixedInline, append(seq(1, 12, 1), 24, 48), append(seq(1, 40, 1), 96)},
		{"chain-leaf-vs-composite", "merge", chainLeafVsComposite, append(seq(1, 12, 1), 24, 48), append(seq(1, 40, 1), 96)},
		{"tree-mixed", "merge", treeMixed, append(seq(1, 12, 1), 24, 48, 96), append(seq(1, 40, 1), 96, 200)},
		{"cyclic", "merge", cyclic, []int{1, 2, 3, 4, 5, 8, 16, 32}, append(seq(1, 20, 1), 40, 80, 160)},
		{"repeated-spreads", "merge", repeatedSpreads, []int{1, 2, 3, 5, 10, 30, 100, 300}, []int{1, 2, 3, 5, 10, 30, 100, 300, 1000}},
		{"same-spread-twice", "frag", sameSpreadTwice, []int{1, 2, 3, 10, 100, 1000}, []int{1, 2, 3, 10, 100, 1000, 5000}},
		{"cost-chain", "cost", costChain, seq(1, 18, 1), seq(1, 20, 1)},
		{"cost-chain-flat", "cost", costChainFlat, seq(0, 18, 1), seq(0, 20, 1)},
		{"wide-same-field", "wide", wideSameField, widths, widthsT},
		{"wide-same-object", "wide", wideSameObject, []int{10, 30, 100, 300, 600}, []int{10, 30, 100, 300, 1000, 2000}},
		{"wide-aliases", "wide", wideAliases, widthsLin, widthsLin},
		{"wide-inline", "wide", wideInline, widths, widthsT},
		{"wide-args", "wide", wideArgs, widthsLin, widthsLin},
		{"wide-list", "wide", wideList, widthsLin, widthsLin},
		{"wide-object", "wide", wideObject, widthsLin, widthsLin},
		{"wide-vardefs", "wide", wideVarDefs, widthsLin, widthsLin},
		{"wide-directives", "wide", wideDirectives, widthsLin, widthsLin},
		{"many-operations", "wide", manyOperations, widthsLin, widthsLin},
		{"many-fragments", "wide", manyFragments, []int{10, 100, 1000, 2000}, widthsLin},
		{"fragment-path", "frag", fragmentPath, []int{1, 2, 3, 10, 30, 100, 300, 900}, []int{1, 2, 3, 10, 30, 100, 300, 900}},
		{"ops-times-fragments", "frag", opsTimesFragments, []int{1, 2, 3, 10, 30, 100, 200}, []int{1, 2, 3, 10, 30, 100, 300, 900}},
		{"deep-selections", "deep", deepSelections, around4, around4},
		{"deep-inline", "deep", deepInline, around2, around2},
		{"deep-lists", "deep", deepLists, around1, around1},
		{"deep-objects", "deep", deepObjects, around1, around1},
		{"deep-types", "deep", deepTypes, around1, around1},
		{"deep-var-default", "deep", deepVarDefault, around1, around1},
		{"deep-directive-arg", "deep", deepDirectiveArg, around1, around1},
		{"deep-fragment-body", "deep", deepFragmentBody, around4, around4},
	}
}

// ---------------------------------------------------------------------------------------------
// random documents over the schema of schema.go (mostly valid, with overlapping response keys)
// ---------------------------------------------------------------------------------------------

type docGen struct {
	r       *rng.R
	nfrags  int
	fragOn  []string
	budget  int
	hasVars bool
	fixed   map[string]string // per document: the argument text a field name usually gets
}

func (g *docGen) randomArgs(fd fdesc) string {
	var parts []string
	for _, a := range fd.args {
		if g.r.Chance(2, 3) {
			if a == "y" {
				parts = append(parts, a+`:"`+rng.Pick(g.r, []string{"p", "q"})+`"`)
			} else if g.hasVars && g.r.Chance(1, 3) {
				parts = append(parts, a+":$v")
			} else {
				parts = append(parts, a+":"+rng.Pick(g.r, []string{"1", "2"}))
			}
		}
	}
	if len(parts) == 0 {
		return ""
	}
	return "(" + strings.Join(parts, ",") + ")"
}

func (g *docGen) args(fd fdesc) string {
	if len(fd.args) == 0 {
		return ""
	}
	if g.r.Chance(1, 12) {
		return g.randomArgs(fd) // occasionally differing arguments for the same field
	}
	a, ok := g.fixed[fd.name]
	if !ok {
		a = g.randomArgs(fd)
		g.fixed[fd.name] = a
	}
	if a != "" && strings.Contains(a, ",") && g.r.Bool() {
		// the same arguments in the other order
		inner := strings.Split(a[1:len(a)-1], ",")
		inner[0], inner[1] = inner[1], inner[0]
		return "(" + strings.Join(inner, ",") + ")"
	}
	return a
}

func (g *docGen) selset(b *strings.Builder, typ string, depth int, inFrag int, extra string) {
	b.WriteString("{")
	n := 1 + g.r.Intn(4)
	if g.r.Chance(1, 10) {
		n += g.r.Intn(6)
	}
	fds := typeFields[typ]
	for i := 0; i < n; i++ {
		g.budget--
		switch k := g.r.Intn(10); {
		case k < 6 || depth <= 0 || g.budget <= 0:
			fd := rng.Pick(g.r, fds)
			if depth <= 0 || g.budget <= 0 {
				for fd.sub != "" {
					fd = rng.Pick(g.r, fds)
				}
			}
			if g.r.Chance(1, 10) {
				// response keys from a small pool, so that different fields meet under one key
				b.WriteString(rng.Pick(g.r, []string{"x", "y", "a", "i"}) + ":")
			}
			b.WriteString(fd.name)
			b.WriteString(g.args(fd))
			if g.r.Chance(1, 12) {
				b.WriteString(" @include(if:true)")
			}
			if fd.sub != "" {
				g.selset(b, fd.sub, depth-1, inFrag, "")
			} else if g.r.Chance(1, 200) {
				b.WriteString("{i}") // subselection on a leaf: invalid
			}
		case k < 8:
			on := rng.Pick(g.r, spreadable[typ])
			if g.r.Chance(1, 4) {
				b.WriteString("...")
				on = typ
			} else {
				b.WriteString("... on " + on)
			}
			g.selset(b, on, depth-1, inFrag, "")
		default:
			// spread of a later fragment (acyclic), rarely any fragment (possibly cyclic)
			lo := inFrag + 1
			if g.r.Chance(1, 40) {
				lo = 0
			}
			var cands []int
			for f := lo; f < g.nfrags; f++ {
				for _, t := range spreadable[typ] {
					if g.fragOn[f] == t {
						cands = append(cands, f)
						break
					}
				}
			}
			if len(cands) == 0 {
				b.WriteString("id")
			} else {
				fmt.Fprintf(b, "...F%d", rng.Pick(g.r, cands))
			}
		}
		b.WriteString(" ")
	}
	b.WriteString(extra)
	b.WriteString("}")
}

func randomDoc(r *rng.R) string {
	g := &docGen{r: r, nfrags: r.Intn(5), budget: 25 + r.Intn(40), hasVars: r.Chance(1, 3), fixed: map[string]string{}}
	for i := 0; i < g.nfrags; i++ {
		g.fragOn = append(g.fragOn, rng.Pick(r, []string{"T", "T", "N", "V", "U"}))
	}
	var fb strings.Builder
	for i := 0; i < g.nfrags; i++ {
		fmt.Fprintf(&fb, " fragment F%d on %s", i, g.fragOn[i])
		g.selset(&fb, g.fragOn[i], 1+r.Intn(3), i, "")
	}
	var ob strings.Builder
	g.selset(&ob, "T", 1+r.Intn(4), -1, "")
	body := ob.String()
	// every fragment and the variable must be used somewhere (otherwise the document is invalid for a
	// reason that has nothing to do with its shape); a few documents keep the flaw
	extra := ""
	if !r.Chance(1, 25) {
		all := body + fb.String()
		for i := 0; i < g.nfrags; i++ {
			if !strings.Contains(all, fmt.Sprintf("...F%d ", i)) {
				if g.fragOn[i] == "V" {
					extra += fmt.Sprintf("n{...F%d } ", i)
				} else {
					extra += fmt.Sprintf("...F%d ", i)
				}
			}
		}
		if g.hasVars && !strings.Contains(all, "$v") {
			extra += "k(x:$v) "
		}
	}
	body = body[:len(body)-1] + extra + "}"
	var b strings.Builder
	if g.hasVars {
		b.WriteString("query Q($v:Int)")
	}
	b.WriteString(body)
	b.WriteString(fb.String())
	if r.Chance(1, 25) {
		b.WriteString(" query R{i}")
	}
	return b.String()
}

// ---------------------------------------------------------------------------------------------
// token soup: sequences over the token alphabet (exercises every production's error paths)
// ---------------------------------------------------------------------------------------------

var soupTokens = []string{"fragment", "on", "query", "a", "{", "}", "(", ")", "[", "]", ":", "$", "@", "=", "!", "...", "1", "1.5", `"s"`, "|", "mutation", "true", "null", "i"}

// the dense sub-alphabet enumerated exhaustively
var denseTokens = []string{"{", "}", "a", "...", "on", "(", ")", ":", "$", "[", "]", "@", "1", "fragment", "query", "=", "!"}

func soup(r *rng.R) string {
	n := 1 + r.Intn(14)
	var parts []string
	for i := 0; i < n; i++ {
		parts = append(parts, rng.Pick(r, soupTokens))
	}
	return strings.Join(parts, " ")
}

// mutation of a valid document: drop / duplicate / replace one token
func mutate(r *rng.R, doc string) string {
	toks := tokenize(doc)
	if len(toks) == 0 {
		return doc
	}
	i := r.Intn(len(toks))
	switch r.Intn(3) {
	case 0:
		toks = append(toks[:i], toks[i+1:]...)
	case 1:
		toks = append(toks[:i+1], toks[i:]...)
	default:
		toks[i] = rng.Pick(r, soupTokens)
	}
	return strings.Join(toks, " ")
}

func tokenize(doc string) []string {
	var out []string
	i := 0
	for i < len(doc) {
		c := doc[i]
		switch {
		case c == ' ' || c == ',':
			i++
		case c == '.':
			out = append(out, "...")
			i += 3
		case c == '"':
			j := i + 1
			for j < len(doc) && doc[j] != '"' {
				j++
			}
			out = append(out, doc[i:j+1])
			i = j + 1
		case strings.ContainsRune("{}()[]:$@=!|", rune(c)):
			out = append(out, string(c))
			i++
		default:
			j := i
			for j < len(doc) && !strings.ContainsRune(" ,{}()[]:$@=!|.\"", rune(doc[j])) {
				j++
			}
			out = append(out, doc[i:j])
			i = j
		}
	}
	return out
}
