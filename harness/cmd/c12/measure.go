package main

// Work measurement from Go's own block counters (see internal/covread).
//
// work of a component = sum over its basic blocks of (execution count x number of statements).
// The components are sets of source files of $VERIF_REPO; the call count of a named function is
// the count of the block that starts at the opening brace of its body, located by parsing the
// repository's current source with go/parser (so renaming or moving a function shows up as
// "function not found", never as a silently wrong count).

import (
	"fmt"
	"go/ast"
	"go/parser"
	"go/token"
	"os"
	"path/filepath"
	"strings"

	"verifharness/internal/covread"
)

const (
	cScan = iota
	cParse
	cAst
	cFields
	cFrags
	cVars
	cCost
	cVOther
	nComp
)

var compNames = [nComp]string{"scan", "parse", "ast", "fields", "frags", "vars", "cost", "vother"}

const apifuPrefix = "github.com/ccbrown/api-fu/graphql/"

type measure struct {
	meta    *covread.Meta
	comp    []int8   // per unit: component or -1
	stmts   []uint32 // per unit
	named   map[string]int
	missing []string
}

// the functions whose exact call counts are reported (file, receiver-less name)
var namedFuncs = []struct{ pkg, file, name, as string }{
	{"validator", "validate_fields.go", "validateFieldsInSetCanMerge", ""},
	{"validator", "validate_fields.go", "validateSameResponseShape", ""},
	{"validator", "validate_fields.go", "addFieldSelections", ""},
	{"validator", "validate_fields.go", "addFieldSelectionsWithCycleDetection", ""},
	{"parser", "parser.go", "enter", ""},
	{"parser", "parser.go", "exit", ""},
	{"parser", "parser.go", "consumeToken", ""},
	{"scanner", "scanner.go", "consumeRune", "scan.consumeRune"},
	{"scanner", "scanner.go", "peek", "scan.peek"},
	{"scanner", "scanner.go", "readNextRune", "scan.readNextRune"},
}

func componentOf(pkg, file string) int8 {
	if !strings.HasPrefix(pkg, apifuPrefix) {
		return -1
	}
	base := filepath.Base(file)
	switch strings.TrimPrefix(pkg, apifuPrefix) {
	case "scanner":
		return cScan
	case "parser":
		return cParse
	case "ast":
		return cAst
	case "validator":
		switch base {
		case "validate_fields.go":
			return cFields
		case "validate_fragments.go":
			return cFrags
		case "validate_variables.go":
			return cVars
		case "validate_cost.go":
			return cCost
		}
		return cVOther
	}
	return -1
}

func newMeasure(repo string) (*measure, error) {
	meta, err := covread.ReadMeta()
	if err != nil {
		return nil, err
	}
	m := &measure{meta: meta, comp: make([]int8, meta.NUnits), stmts: make([]uint32, meta.NUnits), named: map[string]int{}}
	seen := [nComp]bool{}
	for _, f := range meta.Funcs {
		c := componentOf(f.Pkg, f.File)
		for k, u := range f.Units {
			m.comp[f.Base()+k] = c
			m.stmts[f.Base()+k] = u.NStmts
		}
		if c >= 0 {
			seen[c] = true
		}
	}
	for c, ok := range seen {
		if !ok {
			return nil, fmt.Errorf("no instrumented block for component %s (is the package in cover_pkgs?)", compNames[c])
		}
	}
	// named functions: position of the body's opening brace, from the repository's source
	fset := token.NewFileSet()
	parsed := map[string]*ast.File{}
	for _, nf := range namedFuncs {
		path := filepath.Join(repo, "graphql", nf.pkg, nf.file)
		pf := parsed[path]
		if pf == nil {
			pf, err = parser.ParseFile(fset, path, nil, 0)
			if err != nil {
				return nil, err
			}
			parsed[path] = pf
		}
		found := false
		for _, d := range pf.Decls {
			fd, ok := d.(*ast.FuncDecl)
			if !ok || fd.Name.Name != nf.name || fd.Body == nil {
				continue
			}
			pos := fset.Position(fd.Body.Lbrace)
			for _, f := range meta.Funcs {
				if f.Pkg != apifuPrefix+nf.pkg || filepath.Base(f.File) != nf.file {
					continue
				}
				for k, u := range f.Units {
					if int(u.StLine) == pos.Line && int(u.StCol) == pos.Column {
						key := nf.as
						if key == "" {
							key = nf.name
						}
						m.named[key] = f.Base() + k
						found = true
					}
				}
			}
		}
		if !found {
			m.missing = append(m.missing, nf.name)
		}
	}
	// every parser production: the functions named parse* of parser.go
	if pf := parsed[filepath.Join(repo, "graphql", "parser", "parser.go")]; pf != nil {
		for _, d := range pf.Decls {
			fd, ok := d.(*ast.FuncDecl)
			if !ok || fd.Body == nil || fd.Recv == nil || !strings.HasPrefix(fd.Name.Name, "parse") {
				continue
			}
			pos := fset.Position(fd.Body.Lbrace)
			for _, f := range meta.Funcs {
				if f.Pkg != apifuPrefix+"parser" || filepath.Base(f.File) != "parser.go" {
					continue
				}
				for k, u := range f.Units {
					if int(u.StLine) == pos.Line && int(u.StCol) == pos.Column {
						m.named["prod:"+fd.Name.Name] = f.Base() + k
					}
				}
			}
		}
	}
	return m, nil
}

type sample struct {
	work  [nComp]uint64
	calls map[string]uint64
	prods uint64 // sum of the entry counts of all parse* productions
}

func (m *measure) clear() {
	if err := covread.Clear(); err != nil {
		fmt.Fprintln(os.Stderr, "c12: ", err)
		os.Exit(2)
	}
}

func (m *measure) take() sample {
	cs, err := m.meta.Snapshot()
	if err != nil {
		fmt.Fprintln(os.Stderr, "c12: ", err)
		os.Exit(2)
	}
	var s sample
	for i, c := range cs {
		if k := m.comp[i]; k >= 0 && c != 0 {
			s.work[k] += uint64(c) * uint64(m.stmts[i])
		}
	}
	s.calls = map[string]uint64{}
	for name, idx := range m.named {
		if strings.HasPrefix(name, "prod:") {
			s.prods += uint64(cs[idx])
		} else {
			s.calls[name] = uint64(cs[idx])
		}
	}
	return s
}
