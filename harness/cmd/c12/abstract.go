package main

// Abstraction of a document to what the count models of coq/Cplx/ run on:
//   - the token-class stream (one byte per significant token, from the real scanner);
//   - for documents the real parser accepts: tables of fields / selection sets / fragments /
//     operations with the type facts of validator.NewTypeInfo that steer the merge check.

import (
	"sort"
	"strings"

	"github.com/ccbrown/api-fu/graphql/ast"
	"github.com/ccbrown/api-fu/graphql/scanner"
	"github.com/ccbrown/api-fu/graphql/schema"
	"github.com/ccbrown/api-fu/graphql/token"
	"github.com/ccbrown/api-fu/graphql/validator"

	"verifharness/internal/sexp"
)

// token classes: f fragment, o on, q query|mutation|subscription, n other name, i int, d float,
// s string, punctuators as themselves, "." for "..."
func tokenClasses(src []byte) (classes []byte, lexErrors int) {
	s := scanner.New(src, 0)
	for s.Scan() {
		switch s.Token() {
		case token.NAME:
			switch s.StringValue() {
			case "fragment":
				classes = append(classes, 'f')
			case "on":
				classes = append(classes, 'o')
			case "query", "mutation", "subscription":
				classes = append(classes, 'q')
			default:
				classes = append(classes, 'n')
			}
		case token.INT_VALUE:
			classes = append(classes, 'i')
		case token.FLOAT_VALUE:
			classes = append(classes, 'd')
		case token.STRING_VALUE:
			classes = append(classes, 's')
		case token.PUNCTUATOR:
			v := s.StringValue()
			if v == "..." {
				classes = append(classes, '.')
			} else if len(v) == 1 {
				classes = append(classes, v[0])
			} else {
				classes = append(classes, '?')
			}
		default:
			classes = append(classes, '?')
		}
	}
	return classes, len(s.Errors())
}

type abstractor struct {
	ti     *validator.TypeInfo
	names  map[string]int
	types  map[string]int
	fields []sexp.Node
	sets   []sexp.Node
	order  [][2]int
}

func (a *abstractor) name(s string) int {
	if id, ok := a.names[s]; ok {
		return id
	}
	id := len(a.names) + 1
	a.names[s] = id
	return id
}

func (a *abstractor) typeID(s string) int {
	if id, ok := a.types[s]; ok {
		return id
	}
	id := len(a.types) + 1
	a.types[s] = id
	return id
}

func countNodes(n ast.Node) int {
	c := 0
	ast.Inspect(n, func(n ast.Node) bool {
		if n != nil {
			c++
		}
		return true
	})
	return c
}

// nodes the visitor of validateVariables sees: it does not look inside variable definitions
func countNodesOutsideVariableDefinitions(n ast.Node) int {
	c := 0
	ast.Inspect(n, func(n ast.Node) bool {
		if n != nil {
			c++
		}
		_, isDef := n.(*ast.VariableDefinition)
		return !isDef
	})
	return c
}

func printValue(v ast.Value, b *strings.Builder) {
	switch v := v.(type) {
	case *ast.Variable:
		b.WriteString("$" + v.Name.Name)
	case *ast.BooleanValue:
		if v.Value {
			b.WriteString("true")
		} else {
			b.WriteString("false")
		}
	case *ast.FloatValue:
		b.WriteString("F" + v.Value)
	case *ast.IntValue:
		b.WriteString("I" + v.Value)
	case *ast.StringValue:
		b.WriteString("S")
		b.WriteString(strings.ReplaceAll(v.Value, "\x00", "\x00\x00"))
		b.WriteString("\x00")
	case *ast.EnumValue:
		b.WriteString("E" + v.Value)
	case *ast.NullValue:
		b.WriteString("null")
	case *ast.ListValue:
		b.WriteString("[")
		for _, x := range v.Values {
			printValue(x, b)
			b.WriteString(",")
		}
		b.WriteString("]")
	case *ast.ObjectValue:
		b.WriteString("{")
		for _, f := range v.Fields {
			b.WriteString(f.Name.Name + ":")
			printValue(f.Value, b)
			b.WriteString(",")
		}
		b.WriteString("}")
	}
}

// canonical text of an argument list: equal texts <=> the merge check finds the arguments
// identical (argument order is irrelevant to it, so arguments are sorted by name)
func argsSignature(args []*ast.Argument) string {
	parts := make([]string, len(args))
	for i, arg := range args {
		var b strings.Builder
		b.WriteString(arg.Name.Name + "=")
		printValue(arg.Value, &b)
		parts[i] = b.String()
	}
	sort.Strings(parts)
	return strings.Join(parts, ";")
}

func (a *abstractor) typeDesc(t schema.Type) sexp.Node {
	var wraps []sexp.Node
	for {
		switch tt := t.(type) {
		case *schema.NonNullType:
			wraps = append(wraps, sexp.Int(1))
			t = tt.Type
			continue
		case *schema.ListType:
			wraps = append(wraps, sexp.Int(0))
			t = tt.Type
			continue
		}
		break
	}
	leaf := 0
	if schema.IsScalarType(t) || schema.IsEnumType(t) {
		leaf = 1
	}
	return sexp.L(sexp.L(wraps...), sexp.Int(a.typeID(t.String())), sexp.Int(leaf))
}

func (a *abstractor) set(ss *ast.SelectionSet) int {
	id := len(a.sets)
	a.sets = append(a.sets, sexp.Node{})
	oi := len(a.order)
	a.order = append(a.order, [2]int{id, 0})
	// typeInfo.SelectionSetTypes[parent] of the fields directly in this selection set
	ptype := sexp.Sym("none")
	if pt := a.ti.SelectionSetTypes[ss]; pt != nil {
		isObj := 0
		if schema.IsObjectType(pt) {
			isObj = 1
		}
		ptype = sexp.L(sexp.Int(a.typeID(pt.TypeName())), sexp.Int(isObj))
	}
	var items []sexp.Node
	for _, sel := range ss.Selections {
		switch sel := sel.(type) {
		case *ast.Field:
			fid := len(a.fields)
			a.fields = append(a.fields, sexp.Node{})
			key := sel.Name.Name
			if sel.Alias != nil {
				key = sel.Alias.Name
			}
			ty := sexp.Sym("none")
			if sel.Name.Name == "__typename" {
				ty = a.typeDesc(schema.NewNonNullType(schema.StringType))
			} else if def := a.ti.FieldDefinitions[sel]; def != nil {
				ty = a.typeDesc(def.Type)
			}
			weight := 1 + countNodes(sel.Name)
			if sel.Alias != nil {
				weight += countNodes(sel.Alias)
			}
			for _, x := range sel.Arguments {
				weight += countNodes(x)
			}
			for _, x := range sel.Directives {
				weight += countNodes(x)
			}
			sub := -1
			if sel.SelectionSet != nil {
				sub = a.set(sel.SelectionSet)
			}
			a.fields[fid] = sexp.L(sexp.Int(a.name("k:"+key)), sexp.Int(a.name("k:"+sel.Name.Name)),
				sexp.Int(a.name("a:"+argsSignature(sel.Arguments))), ty, ptype, sexp.Int(sub), sexp.Int(weight))
			items = append(items, sexp.L(sexp.Sym("f"), sexp.Int(fid)))
		case *ast.InlineFragment:
			items = append(items, sexp.L(sexp.Sym("i"), sexp.Int(a.set(sel.SelectionSet))))
		case *ast.FragmentSpread:
			items = append(items, sexp.L(sexp.Sym("s"), sexp.Int(a.name("f:"+sel.FragmentName.Name))))
		}
	}
	a.sets[id] = sexp.L(items...)
	a.order[oi][1] = len(a.order) - oi - 1
	return id
}

func abstractDoc(doc *ast.Document, s *schema.Schema) sexp.Node {
	a := &abstractor{ti: validator.NewTypeInfo(doc, s, schema.FeatureSet{}), names: map[string]int{}, types: map[string]int{}}
	var frags, ops []sexp.Node
	for _, def := range doc.Definitions {
		switch def := def.(type) {
		case *ast.OperationDefinition:
			ops = append(ops, sexp.L(sexp.Int(a.set(def.SelectionSet)), sexp.Int(countNodesOutsideVariableDefinitions(def)), sexp.Int(countNodes(def)-countNodes(def.SelectionSet))))
		case *ast.FragmentDefinition:
			frags = append(frags, sexp.L(sexp.Int(a.name("f:"+def.Name.Name)), sexp.Int(a.set(def.SelectionSet)), sexp.Int(countNodes(def)), sexp.Int(countNodes(def)-countNodes(def.SelectionSet))))
		}
	}
	order := make([]sexp.Node, len(a.order))
	for i, o := range a.order {
		order[i] = sexp.L(sexp.Int(o[0]), sexp.Int(o[1]))
	}
	return sexp.T("doc",
		sexp.T("fields", sexp.L(a.fields...)),
		sexp.T("sets", sexp.L(a.sets...)),
		sexp.T("order", sexp.L(order...)),
		sexp.T("frags", sexp.L(frags...)),
		sexp.T("ops", sexp.L(ops...)),
		sexp.T("nodes", sexp.Int(countNodes(doc))))
}
