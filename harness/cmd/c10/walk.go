package main

// absDef abstracts a real *schema.SchemaDefinition (a rebuilt one, a clone) back into the model's
// s-expression: every named type that can be reached through any pointer of the definition,
// sorted by name; maps sorted by key.

import (
	"fmt"
	"sort"

	"github.com/ccbrown/api-fu/graphql/schema"

	"verifharness/internal/sexp"
)

type walker struct {
	types map[string]schema.NamedType
	order []string
	dup   []string // names with two distinct objects
}

func (w *walker) visitType(t schema.Type) {
	switch t := t.(type) {
	case *schema.ListType:
		w.visitType(t.Type)
		return
	case *schema.NonNullType:
		w.visitType(t.Type)
		return
	case nil:
		return
	}
	nt := t.(schema.NamedType)
	if isNilPtr(nt) {
		return
	}
	name := nt.TypeName()
	if prev, ok := w.types[name]; ok {
		if prev != nt {
			w.dup = append(w.dup, name)
		}
		return
	}
	w.types[name] = nt
	w.order = append(w.order, name)
	switch t := nt.(type) {
	case *schema.ObjectType:
		w.visitFields(t.Fields)
		for _, i := range t.ImplementedInterfaces {
			w.visitType(i)
		}
	case *schema.InterfaceType:
		w.visitFields(t.Fields)
	case *schema.UnionType:
		for _, m := range t.MemberTypes {
			w.visitType(m)
		}
	case *schema.InputObjectType:
		w.visitIVs(t.Fields)
	}
}

func isNilPtr(t schema.NamedType) bool {
	switch t := t.(type) {
	case *schema.ObjectType:
		return t == nil
	case *schema.InterfaceType:
		return t == nil
	case *schema.UnionType:
		return t == nil
	case *schema.InputObjectType:
		return t == nil
	case *schema.EnumType:
		return t == nil
	case *schema.ScalarType:
		return t == nil
	}
	return t == nil
}

func (w *walker) visitFields(fs map[string]*schema.FieldDefinition) {
	for _, k := range sortedMapKeys(fs) {
		w.visitType(fs[k].Type)
		w.visitIVs(fs[k].Arguments)
	}
}

func (w *walker) visitIVs(ivs map[string]*schema.InputValueDefinition) {
	for _, k := range sortedMapKeys(ivs) {
		w.visitType(ivs[k].Type)
	}
}

func sortedMapKeys[V any](m map[string]V) []string {
	out := make([]string, 0, len(m))
	for k := range m {
		out = append(out, k)
	}
	sort.Strings(out)
	return out
}

func absTy(t schema.Type) sexp.Node {
	switch t := t.(type) {
	case *schema.ListType:
		return sexp.T("list", absTy(t.Type))
	case *schema.NonNullType:
		return sexp.T("nn", absTy(t.Type))
	}
	return sexp.Str(t.(schema.NamedType).TypeName())
}

// absValue abstracts a Go default / enum value.  Values of other Go types (the parsed literal a
// rebuilt definition keeps) become the placeholder (bool true).
func absValue(v interface{}) sexp.Node {
	switch v := v.(type) {
	case nil:
		return sexp.T("null")
	case int:
		return sexp.T("int", sexp.Int(v))
	case float64:
		return (&gVal{Kind: "float", Float: v}).sexp()
	case string:
		return sexp.T("str", codePoints(v)...)
	case bool:
		return sexp.T("bool", sexp.Bool(v))
	case []interface{}:
		xs := []sexp.Node{}
		for _, x := range v {
			xs = append(xs, absValue(x))
		}
		return sexp.T("list", xs...)
	case map[string]interface{}:
		xs := []sexp.Node{}
		for _, k := range sortedMapKeys(v) {
			xs = append(xs, sexp.L(sexp.Str(k), absValue(v[k])))
		}
		return sexp.T("map", xs...)
	}
	if v == interface{}(schema.Null) {
		return sexp.T("null")
	}
	return sexp.T("bool", sexp.Bool(true))
}

func absFeatures(fs schema.FeatureSet) sexp.Node {
	return names(sortedMapKeys(fs))
}

func absIVs(tag string, ivs map[string]*schema.InputValueDefinition) sexp.Node {
	out := []sexp.Node{}
	for _, k := range sortedMapKeys(ivs) {
		iv := ivs[k]
		d := sexp.None()
		if iv.DefaultValue != nil {
			d = sexp.Some(absValue(iv.DefaultValue))
		}
		out = append(out, sexp.T("iv", sexp.Str(k), absTy(iv.Type), sexp.Str(iv.Description), d, sexp.Sym("none")))
	}
	return sexp.T(tag, out...)
}

func absFields(fs map[string]*schema.FieldDefinition) sexp.Node {
	out := []sexp.Node{}
	for _, k := range sortedMapKeys(fs) {
		f := fs[k]
		out = append(out, sexp.T("fd", sexp.Str(k), absTy(f.Type), sexp.Str(f.Description), sexp.Str(f.DeprecationReason),
			absFeatures(f.RequiredFeatures), absIVs("args", f.Arguments)))
	}
	return sexp.T("fields", out...)
}

func absNamed(nt schema.NamedType) sexp.Node {
	switch t := nt.(type) {
	case *schema.ScalarType:
		builtin := schema.BuiltInTypes[t.Name] == t
		return sexp.T("scalar", sexp.Str(t.Name), sexp.Bool(builtin), sexp.Bool(!builtin && t.LiteralCoercion == nil),
			absFeatures(t.RequiredFeatures), sexp.Str(t.Description))
	case *schema.EnumType:
		vs := []sexp.Node{}
		for _, k := range sortedMapKeys(t.Values) {
			v := t.Values[k]
			vs = append(vs, sexp.T("val", sexp.Str(k), absValue(v.Value), sexp.Str(v.Description), sexp.Str(v.DeprecationReason)))
		}
		return sexp.T("enum", sexp.Str(t.Name), absFeatures(t.RequiredFeatures), sexp.Str(t.Description), sexp.T("vals", vs...))
	case *schema.InputObjectType:
		return sexp.T("input", sexp.Str(t.Name), absFeatures(t.RequiredFeatures), sexp.Bool(t.ResultCoercion != nil),
			sexp.Str(t.Description), absIVs("fields", t.Fields))
	case *schema.ObjectType:
		ifs := []string{}
		for _, i := range t.ImplementedInterfaces {
			ifs = append(ifs, i.Name)
		}
		return sexp.T("object", sexp.Str(t.Name), absFeatures(t.RequiredFeatures), sexp.Str(t.Description), tagged("ifaces", ifs), absFields(t.Fields))
	case *schema.InterfaceType:
		return sexp.T("interface", sexp.Str(t.Name), absFeatures(t.RequiredFeatures), sexp.Str(t.Description), absFields(t.Fields))
	case *schema.UnionType:
		ms := []string{}
		for _, m := range t.MemberTypes {
			ms = append(ms, m.Name)
		}
		return sexp.T("union", sexp.Str(t.Name), absFeatures(t.RequiredFeatures), sexp.Str(t.Description), tagged("members", ms))
	}
	panic(fmt.Sprintf("absNamed %T", nt))
}

func absDef(def *schema.SchemaDefinition) (sexp.Node, []string) {
	w := &walker{types: map[string]schema.NamedType{}}
	for _, k := range sortedMapKeys(def.Directives) {
		w.visitIVs(def.Directives[k].Arguments)
	}
	if def.Query != nil {
		w.visitType(def.Query)
	}
	if def.Mutation != nil {
		w.visitType(def.Mutation)
	}
	if def.Subscription != nil {
		w.visitType(def.Subscription)
	}
	for _, t := range def.AdditionalTypes {
		w.visitType(t)
	}
	sort.Strings(w.order)
	ts := []sexp.Node{}
	for _, n := range w.order {
		ts = append(ts, absNamed(w.types[n]))
	}
	ds := []sexp.Node{}
	for _, k := range sortedMapKeys(def.Directives) {
		d := def.Directives[k]
		locs := []string{}
		for _, l := range d.Locations {
			locs = append(locs, string(l))
		}
		ds = append(ds, sexp.T("dir", sexp.Str(k), sexp.Str(d.Description), tagged("locs", locs), absIVs("args", d.Arguments)))
	}
	add := []string{}
	for _, t := range def.AdditionalTypes {
		add = append(add, t.TypeName())
	}
	opt := func(o *schema.ObjectType) string {
		if o == nil {
			return ""
		}
		return o.Name
	}
	q := ""
	if def.Query != nil {
		q = def.Query.Name
	}
	return sexp.T("schema",
		sexp.T("types", ts...),
		sexp.T("query", sexp.Str(q)),
		sexp.T("mutation", optName(opt(def.Mutation))),
		sexp.T("subscription", optName(opt(def.Subscription))),
		sexp.T("additional", names(add)),
		sexp.T("directives", ds...)), w.dup
}
