package main

// Random schema definitions, valid by construction for schema.New (shallowValidate rules), with
// the shapes C10 is about: wrapper chains up to and beyond the depth introspection.Query asks
// for, defaults of every kind (scalars with hard strings, enums, lists, nested input objects,
// nulls), deprecated members, gated types and fields, directives with arguments, interfaces and
// unions, AdditionalTypes (built-ins and otherwise unreferenced types), and types that are not
// part of the definition at all.

import (
	"fmt"
	"strings"

	"github.com/ccbrown/api-fu/graphql/schema"

	"verifharness/internal/rng"
)

var featureUniverse = []string{"f1", "f2", "f3"}

var allLocations = []string{"QUERY", "MUTATION", "SUBSCRIPTION", "FIELD", "FRAGMENT_DEFINITION", "FRAGMENT_SPREAD",
	"INLINE_FRAGMENT", "SCHEMA", "SCALAR", "OBJECT", "FIELD_DEFINITION", "ARGUMENT_DEFINITION", "INTERFACE", "UNION",
	"ENUM", "ENUM_VALUE", "INPUT_OBJECT", "INPUT_FIELD_DEFINITION"}

type genOpt struct {
	Size     int  // 0 tiny .. 3 large
	Hostile  bool // ill-typed defaults allowed
	NoGating bool
	Applied  bool // clone cases: attach applied directives everywhere
	// NoBeyond: no wrapper chain deeper than the query depth (rebuild cases need that)
	NoBeyond bool
	// Plain: only defaults whose printed form the real lexer reads back (no astral, U+FFFD, invalid UTF-8)
	Plain bool
}

type gen struct {
	r    *rng.R
	opt  genOpt
	s    *gSchema
	used map[string]bool
}

const nameStart = "ABCDEFGHIJKLMNOPQRSTUVWXYZabcdefghijklmnopqrstuvwxyz_"
const nameRest = nameStart + "0123456789"

func (g *gen) rawName() string {
	n := g.r.Range(1, 5)
	b := []byte{nameStart[g.r.Intn(len(nameStart))]}
	for i := 1; i < n; i++ {
		b = append(b, nameRest[g.r.Intn(len(nameRest))])
	}
	return string(b)
}

func legalName(s string) bool { return !strings.HasPrefix(s, "__") }

// typeName returns a fresh type name (never a built-in's, never one starting with "__").
func (g *gen) typeName() string {
	for {
		n := g.rawName()
		if g.r.Chance(1, 4) && len(g.used) > 0 {
			// extend an existing name: prefixes sort next to each other
			ks := sortedKeys(g.used)
			n = ks[g.r.Intn(len(ks))] + string(nameRest[g.r.Intn(len(nameRest))])
		}
		if legalName(n) && !g.used[n] && builtinScalars[n] == nil {
			g.used[n] = true
			return n
		}
	}
}

func sortedKeys(m map[string]bool) []string {
	out := make([]string, 0, len(m))
	for k := range m {
		out = append(out, k)
	}
	sortStrings(out)
	return out
}

func sortStrings(a []string) {
	for i := 1; i < len(a); i++ {
		for j := i; j > 0 && a[j-1] > a[j]; j-- {
			a[j-1], a[j] = a[j], a[j-1]
		}
	}
}

// memberNames returns n distinct member (field / argument / enum value) names.
func (g *gen) memberNames(n int, enum bool) []string {
	seen := map[string]bool{}
	var out []string
	for len(out) < n {
		m := g.rawName()
		if g.r.Chance(1, 5) && len(out) > 0 {
			m = out[g.r.Intn(len(out))] + string(nameRest[g.r.Intn(len(nameRest))])
		}
		if !legalName(m) || seen[m] || (enum && (m == "true" || m == "false" || m == "null")) {
			continue
		}
		seen[m] = true
		out = append(out, m)
	}
	return out
}

var descPieces = []string{"", "", "plain", "with \"quotes\"", "back\\slash", "line\nbreak", "tab\there", "é ü ñ", "日本語", "<b>&amp;</b>",
	" sep", "emoji 😀", "x", "A longer description, with punctuation: yes; no?"}

func (g *gen) desc() string {
	if g.r.Chance(2, 5) {
		return ""
	}
	return rng.Pick(g.r, descPieces) + rng.Pick(g.r, descPieces)
}

func (g *gen) depr() string {
	if g.r.Chance(3, 4) {
		return ""
	}
	return rng.Pick(g.r, []string{"use other", "no longer supported", "x", "old \"api\"", "obsolète"})
}

func (g *gen) gate() []string {
	if g.opt.NoGating || g.r.Chance(4, 5) {
		return nil
	}
	var out []string
	for _, f := range featureUniverse {
		if g.r.Chance(1, 2) {
			out = append(out, f)
		}
	}
	if len(out) == 0 {
		out = []string{rng.Pick(g.r, featureUniverse)}
	}
	return out
}

// gateOften: one feature half of the time (for interface families gated member by member)
func (g *gen) gateOften() []string {
	if g.r.Chance(1, 2) {
		return nil
	}
	return []string{rng.Pick(g.r, featureUniverse)}
}

func subsetOf(a, b []string) bool {
	for _, x := range a {
		found := false
		for _, y := range b {
			if x == y {
				found = true
			}
		}
		if !found {
			return false
		}
	}
	return true
}

func union(a, b []string) []string {
	out := append([]string(nil), a...)
	for _, x := range b {
		if !subsetOf([]string{x}, out) {
			out = append(out, x)
		}
	}
	return out
}

// wrap puts a random list / non-null chain around a named type.
func (g *gen) wrap(base string) *gTy {
	t := named(base)
	var n int
	switch k := g.r.Intn(20); {
	case k < 7:
		n = 0
	case k < 12:
		n = 1
	case k < 15:
		n = g.r.Range(2, 3)
	case k < 18:
		n = g.r.Range(4, 7) // up to the 8 levels the query can see
	default:
		n = g.r.Range(8, 10) // beyond
	}
	if g.opt.NoBeyond && n > 7 {
		n = 7
	}
	for i := 0; i < n; i++ {
		if t.Kind != '!' && g.r.Chance(1, 2) {
			t = nonNull(t)
		} else {
			t = listOf(t)
		}
	}
	return t
}

// inputTypeNames: named types usable in an input position whose required features are within req.
func (g *gen) inputTypeNames(req []string) []string {
	var out []string
	for _, t := range g.s.Types {
		if (t.Kind == "scalar" || t.Kind == "enum" || t.Kind == "input") && subsetOf(t.Req, req) {
			out = append(out, t.Name)
		}
	}
	return out
}

func (g *gen) outputTypeNames() []string {
	var out []string
	for _, t := range g.s.Types {
		if t.Kind != "input" {
			out = append(out, t.Name)
		}
	}
	return out
}

// ---- default values ----

var hardStrings = []string{
	"", "a", "hello world", "with \"quotes\"", "back\\slash", "\\\"", "line\nbreak", "\r\n", "tab\t", "\x00", "\x01\x1f", "\b\f", "\x7f",
	"<script>&</script>", "/slash/", "\u00e9", "\u07ff\u0800", "\u65e5\u672c\u8a9e", "\u2028\u2029", "\ufeff", "\ud7ff\ue000", "\uffff", "{a: 1}", "[1, 2]", "null", "#c", ",",
	"\\u0041", "\"\"\"", "$x",
}
var astralStrings = []string{"😀", "a\U00010000b", "\U0010ffff"}
var ufffdStrings = []string{"\ufffd", "x\ufffdy"}
var invalidStrings = []string{"\xff", "a\xc0\x80", "\x80", "\xe2\x82", "\xed\xa0\x80"}

func (g *gen) str() string {
	k := g.r.Intn(100)
	switch {
	case k < 10 && !g.opt.Plain:
		return rng.Pick(g.r, hardStrings) + rng.Pick(g.r, astralStrings)
	case k < 20 && !g.opt.Plain:
		return rng.Pick(g.r, ufffdStrings) + rng.Pick(g.r, hardStrings)
	case k < 26 && g.opt.Hostile:
		return rng.Pick(g.r, hardStrings) + rng.Pick(g.r, invalidStrings)
	case k < 30:
		// random code points from interesting ranges
		var b strings.Builder
		for i, n := 0, g.r.Range(1, 6); i < n; i++ {
			switch g.r.Intn(6) {
			case 0:
				b.WriteRune(rune(g.r.Intn(0x20)))
			case 1:
				b.WriteRune(rune(g.r.Range(0x20, 0x7f)))
			case 2:
				b.WriteRune(rune(g.r.Range(0x80, 0x7ff)))
			case 3:
				b.WriteRune(rune(g.r.Range(0x800, 0xd7ff)))
			case 4:
				b.WriteRune(rune(g.r.Range(0xe000, 0xfffc)))
			default:
				b.WriteString(rng.Pick(g.r, []string{"\"", "\\", "<", ">", "&", " ", "\n"}))
			}
		}
		return b.String()
	}
	return rng.Pick(g.r, hardStrings) + rng.Pick(g.r, []string{"", "", "z", "\"", "\\"})
}

var floats = []float64{0, 1, -1, 5, 0.5, -2.25, 1e21, 1e-7, 123456789.125, 1e20, 9007199254740991, 9007199254740993, 3.141592653589793,
	1.7976931348623157e308, 5e-324, 2.2250738585072014e-308, 0.1, 0.30000000000000004, 1e-6, 999999999999999868928, 100, 4503599627370496, 1e22, 1e23}

func (g *gen) float() float64 {
	if g.r.Chance(1, 2) {
		return rng.Pick(g.r, floats)
	}
	f := float64(int64(g.r.Uint64())) / float64(uint64(1)<<uint(g.r.Intn(64)))
	if g.r.Chance(1, 4) {
		f *= 1e-300
	}
	if g.r.Chance(1, 4) {
		f *= 1e200
	}
	if f != f || f > 1.7e308 || f < -1.7e308 {
		return 1
	}
	return f
}

func (g *gen) int32() int {
	switch g.r.Intn(6) {
	case 0:
		return 0
	case 1:
		return 2147483647
	case 2:
		return -2147483648
	case 3:
		return -g.r.Intn(1000)
	}
	return g.r.Intn(100000)
}

func vNull(plain bool) *gVal { return &gVal{Kind: "null", PlainNil: plain} }

// value: a conforming value of type t.  top: schema.Null (not a plain nil) must be used for null.
func (g *gen) value(t *gTy, depth int, top bool) *gVal {
	if t.Kind == '!' {
		return g.valueNN(t.Of, depth)
	}
	// nullable
	if g.r.Chance(1, 8) || (depth > 3 && t.Kind == 'n' && g.s.get(t.Name).Kind == "input") {
		return vNull(!top && g.r.Bool())
	}
	return g.valueNN(t, depth)
}

func (g *gen) valueNN(t *gTy, depth int) *gVal {
	switch t.Kind {
	case '!':
		return g.valueNN(t.Of, depth)
	case 'l':
		n := g.r.Intn(4)
		if depth > 3 {
			n = 0
		}
		v := &gVal{Kind: "list", List: []*gVal{}}
		for i := 0; i < n; i++ {
			v.List = append(v.List, g.value(t.Of, depth+1, false))
		}
		return v
	}
	nt := g.s.get(t.Name)
	switch nt.Kind {
	case "scalar":
		kind := t.Name
		if !nt.Builtin {
			if !nt.AcceptAll {
				if g.r.Bool() {
					return &gVal{Kind: "str", Str: "ok" + g.str()}
				}
				return &gVal{Kind: "int", Int: g.int32()}
			}
			// (no floats: an integral float prints as an Int literal, and what a custom scalar
			// makes of that is the application's business)
			kind = rng.Pick(g.r, []string{"Int", "String", "Boolean"})
		}
		switch kind {
		case "Int":
			return &gVal{Kind: "int", Int: g.int32()}
		case "Float":
			return &gVal{Kind: "float", Float: g.float()}
		case "String":
			return &gVal{Kind: "str", Str: g.str()}
		case "Boolean":
			return &gVal{Kind: "bool", Bool: g.r.Bool()}
		case "ID":
			if g.r.Bool() {
				return &gVal{Kind: "int", Int: g.r.Intn(1 << 40)}
			}
			return &gVal{Kind: "str", Str: g.str()}
		}
	case "enum":
		return rng.Pick(g.r, nt.Vals).Value
	case "input":
		v := &gVal{Kind: "map", Map: map[string]*gVal{}}
		for _, f := range nt.InFields {
			must := f.Default != nil || f.Ty.Kind == '!'
			if must || (depth <= 3 && g.r.Bool()) {
				v.Keys = append(v.Keys, f.Name)
				v.Map[f.Name] = g.value(f.Ty, depth+1, false)
			}
		}
		// present the entries in a random order
		for i := len(v.Keys) - 1; i > 0; i-- {
			j := g.r.Intn(i + 1)
			v.Keys[i], v.Keys[j] = v.Keys[j], v.Keys[i]
		}
		return v
	}
	panic("valueNN: " + t.String())
}

// illTyped: a default the type does not admit (hostile stream); only kinds the model covers.
func (g *gen) illTyped(t *gTy) *gVal {
	u := t
	for u.Kind == '!' {
		u = u.Of
	}
	switch {
	case t.Kind == '!' && g.r.Chance(1, 3):
		return vNull(false) // null default on a non-null type
	case u.Kind == 'l':
		return &gVal{Kind: "int", Int: 7} // not a slice
	}
	nt := g.s.get(u.Name)
	switch nt.Kind {
	case "scalar":
		if !nt.Builtin {
			return g.value(t, 0, true) // what a custom scalar admits is its own business
		}
		// wrong kind of scalar: printed all the same
		return rng.Pick(g.r, []*gVal{{Kind: "str", Str: "wrong"}, {Kind: "int", Int: 1 << 40}, {Kind: "bool", Bool: true}, {Kind: "float", Float: 1.5}})
	case "enum":
		return &gVal{Kind: "int", Int: -12345} // not a value of the enum
	case "input":
		return &gVal{Kind: "str", Str: "not a map"}
	}
	return vNull(false)
}

func (g *gen) defaultFor(t *gTy) *gVal {
	if g.opt.Hostile && g.r.Chance(1, 5) {
		return g.illTyped(t)
	}
	return g.value(t, 0, true)
}

// canDefault: schema.New rejects a non-null default on a bare input object type without ResultCoercion.
func (g *gen) canDefault(t *gTy) bool {
	return true
}

func (g *gen) inputValues(n int, req []string, allowInputObjects bool) []*gIV {
	cands := g.inputTypeNames(req)
	var out []*gIV
	for _, nm := range g.memberNames(n, false) {
		base := rng.Pick(g.r, cands)
		for !allowInputObjects && g.s.get(base).Kind == "input" {
			base = rng.Pick(g.r, cands)
		}
		out = append(out, &gIV{Name: nm, Ty: g.wrap(base), Desc: g.desc()})
	}
	return out
}

// giveDefaults assigns defaults to some of the input values (after every input object's fields
// and their "has a default" flags are fixed, see genSchema).
func (g *gen) giveDefaults(l []*gIV) {
	for _, iv := range l {
		if iv.Default == nil && g.r.Chance(3, 5) {
			iv.Default = g.defaultFor(iv.Ty)
		}
	}
}

// usable: a default can be written for this type (every input object below it that must be
// printed has a ResultCoercion).  Types without one are only used without defaults.
func (g *gen) needsRC(t *gTy, seen map[string]bool) bool {
	nt := g.s.get(t.base())
	if nt.Kind != "input" {
		return false
	}
	if !nt.RC {
		return true
	}
	if seen[nt.Name] {
		return false
	}
	seen[nt.Name] = true
	for _, f := range nt.InFields {
		if g.needsRC(f.Ty, seen) {
			return true
		}
	}
	return false
}

func genSchema(r *rng.R, opt genOpt) *gSchema {
	g := &gen{r: r, opt: opt, s: &gSchema{}, used: map[string]bool{}}
	s := g.s
	sz := opt.Size
	pick := func(lo, hi int) int {
		if sz == 0 {
			return lo
		}
		if hi > lo+sz+1 {
			hi = lo + sz + 1
		}
		return r.Range(lo, hi)
	}

	for _, b := range []string{"Int", "Float", "String", "Boolean", "ID"} {
		s.add(&gType{Kind: "scalar", Name: b, Builtin: true})
	}
	for i, n := 0, pick(0, 2); i < n; i++ {
		s.add(&gType{Kind: "scalar", Name: g.typeName(), Desc: g.desc(), Req: g.gate(), AcceptAll: r.Bool()})
	}
	for i, n := 0, pick(0, 3); i < n; i++ {
		e := &gType{Kind: "enum", Name: g.typeName(), Desc: g.desc(), Req: g.gate()}
		strVals := r.Bool()
		for j, vn := range g.memberNames(r.Range(1, 4), true) {
			v := &gVal{Kind: "int", Int: 100*i + j}
			if strVals {
				v = &gVal{Kind: "str", Str: fmt.Sprintf("v%d_%d", i, j)}
			}
			e.Vals = append(e.Vals, &gEnumVal{Name: vn, Value: v, Desc: g.desc(), Depr: g.depr()})
		}
		s.add(e)
	}
	// input objects: shells, then fields (cyclic references allowed, but only through nullable
	// or list positions), then the decision which fields have defaults, then the defaults
	var inputs []*gType
	for i, n := 0, pick(0, 3); i < n; i++ {
		inputs = append(inputs, s.add(&gType{Kind: "input", Name: g.typeName(), Desc: g.desc(), Req: g.gate(), RC: r.Chance(5, 6)}))
	}
	for idx, in := range inputs {
		cands := g.inputTypeNames(in.Req)
		for _, nm := range g.memberNames(r.Range(1, 4), false) {
			base := rng.Pick(r, cands)
			t := g.wrap(base)
			if bt := s.get(base); bt.Kind == "input" {
				// a required reference (In!) is only made to input objects created earlier: no
				// unsatisfiable cycles; lists and nullable references may go anywhere
				earlier := false
				for _, e := range inputs[:idx] {
					if e == bt {
						earlier = true
					}
				}
				if !earlier && t.Kind == '!' && t.Of.Kind == 'n' {
					t = t.Of
				}
			}
			in.InFields = append(in.InFields, &gIV{Name: nm, Ty: t, Desc: g.desc()})
		}
	}
	// a required (non-null all the way) reference to a later input object could be unsatisfiable
	// in a cycle; the rule above makes the top nullable for those.  Now the defaults: first the
	// flags, so that conforming map values know which entries they must contain.
	for _, in := range inputs {
		for _, f := range in.InFields {
			if r.Chance(2, 5) && !g.needsRC(f.Ty, map[string]bool{}) {
				f.Default = vNull(false) // placeholder: "has a default"
			}
		}
	}
	for _, in := range inputs {
		for _, f := range in.InFields {
			if f.Default != nil {
				f.Default = g.defaultFor(f.Ty)
			}
		}
	}

	// interfaces and objects: shells first
	// gating across "implements": half of the definitions keep an interface family in one feature
	// set, the other half gate every interface and every implementing object on its own (then
	// "interfaces" / "possibleTypes" must leave out what the request cannot see)
	ifaceReq := g.gate()
	incoherent := !opt.NoGating && r.Chance(1, 2)
	var ifaces, objects []*gType
	for i, n := 0, pick(0, 2); i < n; i++ {
		req := ifaceReq
		if incoherent {
			req = g.gateOften()
		}
		ifaces = append(ifaces, s.add(&gType{Kind: "interface", Name: g.typeName(), Desc: g.desc(), Req: req}))
	}
	nObj := pick(1, 5)
	for i := 0; i < nObj; i++ {
		o := &gType{Kind: "object", Name: g.typeName(), Desc: g.desc()}
		if i > 0 && len(ifaces) > 0 && r.Chance(1, 2) {
			for _, f := range ifaces {
				if r.Chance(2, 3) {
					o.Ifaces = append(o.Ifaces, f.Name)
				}
			}
		}
		if len(o.Ifaces) > 0 && !incoherent {
			o.Req = ifaceReq
		} else if i > 0 && len(o.Ifaces) > 0 {
			o.Req = g.gateOften()
		} else if i > 0 {
			o.Req = g.gate()
		}
		objects = append(objects, s.add(o))
	}
	var unions []*gType
	for i, n := 0, pick(0, 2); i < n; i++ {
		u := &gType{Kind: "union", Name: g.typeName(), Desc: g.desc()}
		for _, o := range objects {
			if r.Chance(1, 2) {
				u.Members = append(u.Members, o.Name)
				u.Req = union(u.Req, o.Req)
			}
		}
		if len(u.Members) == 0 {
			u.Members = []string{objects[0].Name}
			u.Req = union(u.Req, objects[0].Req)
		}
		if !opt.NoGating && r.Chance(1, 6) {
			u.Req = union(u.Req, []string{rng.Pick(r, featureUniverse)})
		}
		// shuffle members: a slice, its order is observable
		for i := len(u.Members) - 1; i > 0; i-- {
			j := r.Intn(i + 1)
			u.Members[i], u.Members[j] = u.Members[j], u.Members[i]
		}
		unions = append(unions, s.add(u))
	}

	outs := g.outputTypeNames()
	// ctx: the features the owner's fields may rely on without requiring them themselves.  For an
	// object that is its own requirement; for an interface it is what the interface and all its
	// implementers require in common (an object's field may not require more than the interface's
	// field it implements, and its types no more than the field and the object together).
	mkFields := func(owner *gType, ctx []string, n int, taken map[string]bool) {
		for i, nm := range g.memberNames(n, false) {
			if taken[nm] {
				continue
			}
			f := &gField{Name: nm, Desc: g.desc(), Depr: g.depr()}
			base := rng.Pick(r, outs)
			if i == 0 && len(owner.Fields) == 0 {
				// the unconditional field every object / interface needs
				base = rng.Pick(r, []string{"Int", "String", "Boolean", "ID", "Float"})
			} else if !opt.NoGating && r.Chance(1, 8) {
				f.Req = []string{rng.Pick(r, featureUniverse)}
			}
			f.Ty = g.wrap(base)
			need := s.get(base).Req
			if i > 0 || len(owner.Fields) > 0 {
				f.Args = g.inputValues(r.Intn(4), union(union(ctx, f.Req), featureUniverse), true)
				for _, a := range f.Args {
					need = union(need, s.get(a.Ty.base()).Req)
				}
			} else {
				f.Args = g.inputValues(r.Intn(3), ctx, true)
			}
			for _, x := range need {
				if !subsetOf([]string{x}, union(ctx, f.Req)) {
					f.Req = append(f.Req, x)
				}
			}
			owner.Fields = append(owner.Fields, f)
		}
	}
	for _, i := range ifaces {
		ctx := i.Req
		for _, o := range objects {
			for _, in := range o.Ifaces {
				if in == i.Name {
					var both []string
					for _, x := range ctx {
						if subsetOf([]string{x}, o.Req) {
							both = append(both, x)
						}
					}
					ctx = both
				}
			}
		}
		mkFields(i, ctx, r.Range(1, 3), map[string]bool{})
	}
	for _, o := range objects {
		taken := map[string]bool{}
		for _, in := range o.Ifaces {
			for _, f := range s.get(in).Fields {
				if taken[f.Name] {
					continue // two interfaces with a field of the same name: keep the first (types may differ: then the object would be invalid)
				}
				taken[f.Name] = true
				cp := &gField{Name: f.Name, Ty: f.Ty, Desc: g.desc(), Depr: g.depr(), Req: f.Req}
				for _, a := range f.Args {
					cp.Args = append(cp.Args, &gIV{Name: a.Name, Ty: a.Ty, Desc: g.desc()})
				}
				o.Fields = append(o.Fields, cp)
			}
		}
		n := r.Range(1, 4)
		if len(o.Fields) > 0 {
			n = r.Intn(3)
		}
		mkFields(o, o.Req, n, taken)
	}
	// two interfaces declaring the same field name with different types make an implementing
	// object invalid: drop the second interface from such objects
	for _, o := range objects {
		var keep []string
		seen := map[string]*gField{}
		for _, in := range o.Ifaces {
			ok := true
			for _, f := range s.get(in).Fields {
				if prev, dup := seen[f.Name]; dup && prev != f {
					ok = false
				}
			}
			if ok {
				keep = append(keep, in)
				for _, f := range s.get(in).Fields {
					seen[f.Name] = f
				}
			}
		}
		o.Ifaces = keep
	}

	// defaults of arguments
	for _, t := range s.Types {
		for _, f := range t.Fields {
			for _, a := range f.Args {
				if !g.needsRC(a.Ty, map[string]bool{}) {
					g.giveDefaults([]*gIV{a})
				}
			}
		}
	}

	// roots
	s.Query = objects[0].Name
	if len(objects) > 1 && r.Chance(1, 2) {
		m := objects[r.Intn(len(objects))]
		if len(m.Req) == 0 {
			s.Mutation = m.Name
		}
	}
	if len(objects) > 1 && r.Chance(1, 3) {
		m := objects[r.Intn(len(objects))]
		if len(m.Req) == 0 {
			s.Subscription = m.Name
		}
	}

	// directives
	switch r.Intn(4) {
	case 0:
	case 1:
		s.Dirs = []*gDir{
			{Name: "skip", Builtin: schema.SkipDirective}, {Name: "include", Builtin: schema.IncludeDirective}}
	default:
		if r.Bool() {
			s.Dirs = append(s.Dirs, &gDir{Name: "skip", Builtin: schema.SkipDirective}, &gDir{Name: "include", Builtin: schema.IncludeDirective})
		}
		for _, dn := range g.memberNames(r.Range(1, 2), false) {
			if dn == "skip" || dn == "include" {
				continue
			}
			d := &gDir{Name: dn, Desc: g.desc()}
			for _, l := range allLocations {
				if r.Chance(1, 4) {
					d.Locs = append(d.Locs, l)
				}
			}
			if len(d.Locs) == 0 {
				d.Locs = []string{rng.Pick(r, allLocations)}
			}
			for i := len(d.Locs) - 1; i > 0; i-- {
				j := r.Intn(i + 1)
				d.Locs[i], d.Locs[j] = d.Locs[j], d.Locs[i]
			}
			// directive arguments are not gated: only types every request can see
			d.Args = g.inputValues(r.Intn(3), nil, true)
			for _, a := range d.Args {
				if !g.needsRC(a.Ty, map[string]bool{}) {
					g.giveDefaults([]*gIV{a})
				}
			}
			s.Dirs = append(s.Dirs, d)
		}
	}
	for _, d := range s.Dirs {
		if d.Builtin != nil {
			d.Desc = d.Builtin.Description
			for _, l := range d.Builtin.Locations {
				d.Locs = append(d.Locs, string(l))
			}
			d.Args = []*gIV{{Name: "if", Ty: nonNull(named("Boolean"))}}
		}
	}

	// AdditionalTypes: any types of the heap, built-ins and otherwise unreferenced ones included
	for _, t := range s.Types {
		if r.Chance(1, 5) {
			s.Additional = append(s.Additional, t.Name)
		}
	}
	return s
}
