package main

// Documents for the rebuild differential: mostly valid executable documents over a generated
// definition, each with at most a few deliberate faults, using exactly the things a rebuilt
// definition might get wrong: arguments and input fields that are only optional because they
// have a default, variables in positions that are only allowed because the location has a
// non-null default, enum values, input object literals, custom scalar literals, type conditions
// on every kind of named type (unreferenced ones included), directives with arguments.

import (
	"fmt"
	"strconv"
	"strings"

	"verifharness/internal/rng"
)

type docGen struct {
	r     *rng.R
	s     *gSchema
	F     []string
	mut   int  // faults still to be placed
	picky bool // a literal a picky custom scalar rejects was written
	vars  []string
	nvar  int
	frags []string
	nfrag int
	nalias int
}

func (d *docGen) fault() bool {
	if d.mut > 0 && d.r.Chance(1, 6) {
		d.mut--
		return true
	}
	return false
}

func (d *docGen) visT(t *gType) bool   { return subsetOf(t.Req, d.F) }
func (d *docGen) visF(f *gField) bool { return subsetOf(f.Req, d.F) }

func quote(s string) string {
	// a GraphQL string literal for a plain ASCII string
	return strconv.Quote(s)
}

func (d *docGen) scalarLit(nt *gType) string {
	kind := nt.Name
	if !nt.Builtin {
		if !nt.AcceptAll {
			switch d.r.Intn(5) {
			case 0:
				d.picky = true
				return quote("bad" + strconv.Itoa(d.r.Intn(9)))
			case 1:
				d.picky = true
				return rng.Pick(d.r, []string{"true", "1.5", "ENUMISH", "[1]", "{a: 1}"})
			case 2:
				return strconv.Itoa(d.r.Intn(100))
			}
			return quote("ok" + strconv.Itoa(d.r.Intn(9)))
		}
		kind = rng.Pick(d.r, []string{"Int", "Float", "String", "Boolean", "ID"})
	}
	if d.fault() {
		kind = rng.Pick(d.r, []string{"Int", "Float", "String", "Boolean", "Enum", "Obj"})
	}
	switch kind {
	case "Int":
		return strconv.Itoa(d.r.Intn(1000) - 500)
	case "Float":
		return rng.Pick(d.r, []string{"1.5", "-0.25", "1e3", "7"})
	case "String":
		return quote(rng.Pick(d.r, []string{"", "s", "hello world", "a b"}))
	case "Boolean":
		return rng.Pick(d.r, []string{"true", "false"})
	case "ID":
		return rng.Pick(d.r, []string{"\"id1\"", "42"})
	case "Enum":
		return "SOME_ENUM"
	}
	return "{x: 1}"
}

// literal writes a value for type t.  vars: variables may be used.
func (d *docGen) literal(t *gTy, depth int, vars bool, hasDefault bool) string {
	if vars && d.r.Chance(1, 5) {
		return d.variable(t, hasDefault)
	}
	if t.Kind == '!' {
		if d.fault() {
			return "null"
		}
		return d.literalNN(t.Of, depth, vars)
	}
	if d.r.Chance(1, 8) {
		return "null"
	}
	return d.literalNN(t, depth, vars)
}

func (d *docGen) literalNN(t *gTy, depth int, vars bool) string {
	switch t.Kind {
	case '!':
		return d.literalNN(t.Of, depth, vars)
	case 'l':
		if depth == 0 && d.r.Chance(1, 6) {
			return d.literalNN(t.Of, depth, vars) // a single item for a list (not inside a list literal)
		}
		n := d.r.Intn(3)
		if depth > 2 {
			n = 0
		}
		var xs []string
		for i := 0; i < n; i++ {
			xs = append(xs, d.literal(t.Of, depth+1, vars, false))
		}
		return "[" + strings.Join(xs, ", ") + "]"
	}
	nt := d.s.get(t.Name)
	switch nt.Kind {
	case "scalar":
		return d.scalarLit(nt)
	case "enum":
		if d.fault() {
			return rng.Pick(d.r, []string{"NOPE_X", "\"" + nt.Vals[0].Name + "\"", "1"})
		}
		return rng.Pick(d.r, nt.Vals).Name
	case "input":
		var xs []string
		for _, f := range nt.InFields {
			required := f.Ty.Kind == '!' && f.Default == nil
			include := required || d.r.Chance(1, 2)
			if depth > 2 {
				include = f.Ty.Kind == '!' // also those that have a default, to end the nesting
			}
			if required && d.fault() {
				include = false
			}
			if f.Ty.Kind == '!' && f.Default != nil && d.r.Chance(2, 3) && depth <= 2 {
				include = false // rely on the default
			}
			if include {
				xs = append(xs, f.Name+": "+d.literal(f.Ty, depth+1, vars, f.Default != nil && f.Default.Kind != "null"))
			}
		}
		if d.fault() {
			xs = append(xs, "noSuchField_: 1")
		}
		return "{" + strings.Join(xs, ", ") + "}"
	}
	return "null"
}

// variable declares a variable for a position of type t and returns its use.
func (d *docGen) variable(t *gTy, hasDefault bool) string {
	d.nvar++
	name := fmt.Sprintf("v%d", d.nvar)
	vt := t
	switch {
	case t.Kind == '!' && (hasDefault && d.r.Chance(2, 3) || d.r.Chance(1, 10)):
		// a nullable variable in a non-null position: allowed only if the position or the
		// variable has a (non-null) default
		vt = t.Of
	case t.Kind != '!' && d.r.Chance(1, 4):
		vt = nonNull(t)
	case d.fault():
		vt = rng.Pick(d.r, []*gTy{named("Int"), listOf(named("String")), nonNull(named("Boolean"))})
	}
	decl := "$" + name + ": " + vt.String()
	if d.r.Chance(1, 4) {
		decl += " = " + d.literal(vt, 2, false, false)
	}
	d.vars = append(d.vars, decl)
	return "$" + name
}

func (d *docGen) directives(loc string) string {
	if len(d.s.Dirs) == 0 || !d.r.Chance(1, 5) {
		if d.fault() {
			return " @noSuchDirective"
		}
		return ""
	}
	dir := rng.Pick(d.r, d.s.Dirs)
	if !d.r.Chance(1, 8) {
		// mostly one that is allowed here
		var ok []*gDir
		for _, x := range d.s.Dirs {
			for _, l := range x.Locs {
				if l == loc {
					ok = append(ok, x)
					break
				}
			}
		}
		if len(ok) == 0 {
			return ""
		}
		dir = rng.Pick(d.r, ok)
	}
	var args []string
	for _, a := range dir.Args {
		required := a.Ty.Kind == '!' && a.Default == nil
		if required || d.r.Bool() {
			args = append(args, a.Name+": "+d.literal(a.Ty, 1, true, a.Default != nil && a.Default.Kind != "null"))
		}
	}
	out := " @" + dir.Name
	if len(args) > 0 {
		out += "(" + strings.Join(args, ", ") + ")"
	}
	return out
}

// overlapping: composite types that share a possible (visible) object with t, t itself included
func (d *docGen) overlapping(t *gType) []string {
	possible := func(x *gType) map[string]bool {
		out := map[string]bool{}
		switch x.Kind {
		case "object":
			out[x.Name] = true
		case "union":
			for _, m := range x.Members {
				out[m] = true
			}
		case "interface":
			for _, o := range d.s.Types {
				if o.Kind == "object" {
					for _, i := range o.Ifaces {
						if i == x.Name {
							out[o.Name] = true
						}
					}
				}
			}
		}
		return out
	}
	mine := possible(t)
	out := []string{t.Name}
	for _, x := range d.s.Types {
		if x == t || !(x.Kind == "object" || x.Kind == "interface" || x.Kind == "union") || !d.visT(x) {
			continue
		}
		for o := range possible(x) {
			if mine[o] {
				out = append(out, x.Name)
				break
			}
		}
	}
	sortStrings(out)
	return out
}

func (d *docGen) compositeNames() []string {
	var out []string
	for _, t := range d.s.Types {
		if t.Kind == "object" || t.Kind == "interface" || t.Kind == "union" {
			out = append(out, t.Name)
		}
	}
	return out
}

// selection writes a selection set for a composite type.
func (d *docGen) selection(t *gType, depth int) string {
	var sel []string
	if t.Kind == "union" || d.r.Chance(1, 4) {
		sel = append(sel, "__typename")
	}
	if t.Kind != "union" {
		var vis []*gField
		for _, f := range t.Fields {
			if d.visF(f) || d.fault() {
				vis = append(vis, f)
			}
		}
		n := d.r.Range(1, 3)
		used := map[string]bool{}
		for i := 0; i < n && len(vis) > 0; i++ {
			f := rng.Pick(d.r, vis)
			if used[f.Name] {
				continue
			}
			used[f.Name] = true
			sel = append(sel, d.field(f, depth))
		}
		if d.fault() {
			sel = append(sel, "noSuchField_")
		}
	}
	// type conditions: members / implementers, but also anything else
	if depth < 3 && (t.Kind != "object" || d.r.Chance(1, 4)) {
		for i, n := 0, d.r.Intn(3); i < n; i++ {
			var target string
			switch k := d.r.Intn(20); {
			case k < 14:
				target = rng.Pick(d.r, d.overlapping(t))
			case k < 15:
				target = rng.Pick(d.r, []string{"NoSuchType_", "Int", "__Type"})
			default:
				target = rng.Pick(d.r, d.compositeNames())
			}
			tt := d.s.get(target)
			body := "__typename"
			if tt != nil && (tt.Kind == "object" || tt.Kind == "interface" || tt.Kind == "union") {
				body = d.selection(tt, depth+1)
			}
			if d.r.Chance(1, 3) && tt != nil {
				d.nfrag++
				fn := fmt.Sprintf("F%d", d.nfrag)
				d.frags = append(d.frags, "fragment "+fn+" on "+target+d.directives("FRAGMENT_DEFINITION")+" { "+body+" }")
				sel = append(sel, "..."+fn+d.directives("FRAGMENT_SPREAD"))
			} else {
				sel = append(sel, "... on "+target+d.directives("INLINE_FRAGMENT")+" { "+body+" }")
			}
		}
	}
	if len(sel) == 0 {
		sel = append(sel, "__typename")
	}
	return strings.Join(sel, " ")
}

func (d *docGen) field(f *gField, depth int) string {
	// every field gets its own response key: merging fields with different arguments is a
	// validation error of its own, not what this differential is about
	d.nalias++
	out := "k" + strconv.Itoa(d.nalias) + ": " + f.Name
	var args []string
	for _, a := range f.Args {
		required := a.Ty.Kind == '!' && a.Default == nil
		include := required || d.r.Chance(1, 2)
		if a.Ty.Kind == '!' && a.Default != nil && d.r.Chance(2, 3) {
			include = false // rely on the default
		}
		if required && d.fault() {
			include = false
		}
		if include {
			args = append(args, a.Name+": "+d.literal(a.Ty, 0, true, a.Default != nil && a.Default.Kind != "null"))
		}
	}
	if d.fault() {
		args = append(args, "noSuchArg_: 1")
	}
	if len(args) > 0 {
		out += "(" + strings.Join(args, ", ") + ")"
	}
	out += d.directives("FIELD")
	bt := d.s.get(f.Ty.base())
	if bt.Kind == "object" || bt.Kind == "interface" || bt.Kind == "union" {
		if d.fault() {
			return out // composite without a selection
		}
		if depth >= 3 {
			return out + " { __typename }"
		}
		return out + " { " + d.selection(bt, depth+1) + " }"
	}
	return out
}

// genDoc returns a document and whether it contains a literal a picky custom scalar rejects.
func genDoc(r *rng.R, s *gSchema, F []string) (string, bool) {
	d := &docGen{r: r, s: s, F: F}
	switch r.Intn(5) {
	case 0, 1:
		d.mut = 0
	case 2, 3:
		d.mut = 1
	default:
		d.mut = 3
	}
	op, root := "query", s.Query
	switch r.Intn(8) {
	case 0:
		op, root = "mutation", s.Mutation
	case 1:
		op, root = "subscription", s.Subscription
	}
	var body string
	if root == "" {
		body = "__typename"
	} else {
		body = d.selection(s.get(root), 0)
	}
	opDirs := d.directives(strings.ToUpper(op))
	head := op
	if len(d.vars) > 0 || r.Chance(1, 3) {
		head += " Op"
	}
	if len(d.vars) > 0 {
		head += "(" + strings.Join(d.vars, ", ") + ")"
	}
	head += opDirs
	if head == "query" && r.Bool() {
		head = ""
	}
	doc := head + " { " + body + " }"
	for _, f := range d.frags {
		doc += "\n" + f
	}
	return doc, d.picky
}
