// c10: random schema definitions against the real introspection (graphql.Execute with
// introspection.Query), the real parser + literal coercion on every printed default, the real
// SchemaData.GetSchemaDefinition + validator on generated documents, and SchemaDefinition.Clone.
package main

import (
	"context"
	"encoding/json"
	"fmt"
	"reflect"

	"github.com/ccbrown/api-fu/graphql"
	"github.com/ccbrown/api-fu/graphql/parser"
	"github.com/ccbrown/api-fu/graphql/schema"
	"github.com/ccbrown/api-fu/graphql/schema/introspection"

	"verifharness/internal/hx"
	"verifharness/internal/rng"
	"verifharness/internal/sexp"
)

func features(r *rng.R) []string {
	switch r.Intn(4) {
	case 0:
		return []string{}
	case 1:
		return append([]string(nil), featureUniverse...)
	}
	out := []string{}
	for _, f := range featureUniverse {
		if r.Bool() {
			out = append(out, f)
		}
	}
	return out
}

// introspectJSON runs the standard query and returns the decoded JSON of "data" and the number of errors.
func introspectJSON(s *schema.Schema, fs []string) (interface{}, int) {
	resp := graphql.Execute(&graphql.Request{Context: context.Background(), Schema: s, Query: string(introspection.Query),
		Features: schema.NewFeatureSet(fs...)})
	b, err := json.Marshal(resp.Data)
	if err != nil {
		panic(err)
	}
	var data interface{}
	if err := json.Unmarshal(b, &data); err != nil {
		panic(err)
	}
	return data, len(resp.Errors)
}

// ---- the end-to-end clause: real parser + real literal coercion on the printed default ----

func sameValue(a, b interface{}) bool {
	if a == nil || a == interface{}(schema.Null) {
		return b == nil || b == interface{}(schema.Null)
	}
	switch a := a.(type) {
	case []interface{}:
		bl, ok := b.([]interface{})
		if !ok || len(a) != len(bl) {
			return false
		}
		for i := range a {
			if !sameValue(a[i], bl[i]) {
				return false
			}
		}
		return true
	case map[string]interface{}:
		bm, ok := b.(map[string]interface{})
		if !ok || len(a) != len(bm) {
			return false
		}
		for k, x := range a {
			y, ok := bm[k]
			if !ok || !sameValue(x, y) {
				return false
			}
		}
		return true
	}
	return reflect.DeepEqual(a, b)
}

func e2eStatus(text string, t schema.Type, want interface{}) (status string) {
	defer func() {
		if e := recover(); e != nil {
			status = "panic"
		}
	}()
	v, errs := parser.ParseValue([]byte(text))
	if len(errs) > 0 {
		return "parse-error"
	}
	got, err := schema.CoerceLiteral(v, t, nil)
	if err != nil {
		return "coerce-error"
	}
	if !sameValue(want, got) {
		return "differs"
	}
	return "ok"
}

func jget(v interface{}, k string) interface{} {
	if m, ok := v.(map[string]interface{}); ok {
		return m[k]
	}
	return nil
}

func jfind(list interface{}, name string) interface{} {
	if l, ok := list.([]interface{}); ok {
		for _, x := range l {
			if jget(x, "name") == name {
				return x
			}
		}
	}
	return nil
}

// fillE2E looks every input value of the definition up in the response and, where a default was
// printed, re-reads it with the real parser and the real type.
func fillE2E(gs *gSchema, data interface{}) {
	sc := jget(data, "__schema")
	one := func(iv *gIV, printed interface{}) {
		iv.E2E = "none"
		if iv.Default == nil {
			return
		}
		iv.E2E = "hidden"
		if printed == nil {
			return
		}
		txt, ok := jget(printed, "defaultValue").(string)
		if !ok {
			iv.E2E = "not-printed"
			return
		}
		iv.E2E = e2eStatus(txt, gs.goType(iv.Ty), iv.Default.goValue())
	}
	for _, t := range gs.Types {
		jt := jfind(jget(sc, "types"), t.Name)
		for _, f := range t.InFields {
			one(f, jfind(jget(jt, "inputFields"), f.Name))
		}
		for _, f := range t.Fields {
			jf := jfind(jget(jt, "fields"), f.Name)
			for _, a := range f.Args {
				one(a, jfind(jget(jf, "args"), a.Name))
			}
		}
	}
	for _, d := range gs.Dirs {
		jd := jfind(jget(sc, "directives"), d.Name)
		for _, a := range d.Args {
			one(a, jfind(jget(jd, "args"), a.Name))
		}
	}
}

// otherFeatures: a feature set that differs from fs as much as possible in what it lets a request
// see (none <-> all), so that a history [fs, other, fs] on one schema value changes the visible
// types, fields and memberships between consecutive requests.
func otherFeatures(fs []string) []string {
	if len(fs) == len(featureUniverse) {
		return []string{}
	}
	if len(fs) == 0 {
		return append([]string(nil), featureUniverse...)
	}
	var out []string
	for _, f := range featureUniverse {
		if !subsetOf([]string{f}, fs) {
			out = append(out, f)
		}
	}
	return out
}

// history: further introspection requests on the SAME *schema.Schema value, after the request
// with fs: [other, fs again].  Each is reported like the first request.
func history(s *schema.Schema, fs []string) []sexp.Node {
	var out []sexp.Node
	for _, f := range [][]string{otherFeatures(fs), fs} {
		data, nerr := introspectJSON(s, f)
		out = append(out, sexp.T("then", sexp.T("features", names(f)), sexp.T("data", jsonSexp(data)), sexp.T("errors", sexp.Int(nerr))))
	}
	return out
}

func mustSchema(gs *gSchema) (*schema.SchemaDefinition, *schema.Schema) {
	def := gs.build()
	s, err := schema.New(def)
	if err != nil {
		panic(fmt.Sprintf("generator produced a definition schema.New rejects: %v\n%s", err, gs.sexp().String()))
	}
	return def, s
}

func introCase(r *rng.R, opt genOpt) sexp.Node {
	gs := genSchema(r, opt)
	fs := features(r)
	if opt.NoGating {
		fs = []string{}
	}
	_, s := mustSchema(gs)
	data, nerr := introspectJSON(s, fs)
	fillE2E(gs, data)
	fields := []sexp.Node{sexp.Sym("intro"),
		sexp.T("schema", gs.sexp()), sexp.T("features", names(fs)),
		sexp.T("data", jsonSexp(data)), sexp.T("errors", sexp.Int(nerr))}
	if !opt.NoGating {
		fields = append(fields, history(s, fs)...)
	}
	return sexp.T("case", fields...)
}

func verdict(doc string, s *schema.Schema, fs []string) (v string) {
	defer func() {
		if e := recover(); e != nil {
			v = "panic" // validator crashes are C03's subject; such documents are not compared
		}
	}()
	_, errs := graphql.ParseAndValidate(doc, s, schema.NewFeatureSet(fs...))
	if len(errs) == 0 {
		return "accepted"
	}
	return "rejected"
}

// rebuildCase: definition -> introspection JSON -> SchemaData -> GetSchemaDefinition ->
// schema.New, then generated documents validated against both schemas.
func rebuildCase(r *rng.R, opt genOpt, ndocs int) sexp.Node {
	gs := genSchema(r, opt)
	fs := features(r)
	if opt.NoGating {
		fs = []string{}
	}
	_, s := mustSchema(gs)
	resp := graphql.Execute(&graphql.Request{Context: context.Background(), Schema: s, Query: string(introspection.Query),
		Features: schema.NewFeatureSet(fs...)})
	raw, err := json.Marshal(resp)
	if err != nil {
		panic(err)
	}
	var generic struct {
		Data interface{} `json:"data"`
	}
	if err := json.Unmarshal(raw, &generic); err != nil {
		panic(err)
	}
	var typed struct {
		Data struct {
			Schema introspection.SchemaData `json:"__schema"`
		}
	}
	if err := json.Unmarshal(raw, &typed); err != nil {
		panic(err)
	}
	rebuilt := sexp.T("error")
	var s2 *schema.Schema
	if def2, err := typed.Data.Schema.GetSchemaDefinition(); err == nil {
		abs, dups := absDef(def2)
		if s2, err = schema.New(def2); err != nil {
			rebuilt = sexp.T("rejected", abs, sexp.Str(err.Error()))
			s2 = nil
		} else {
			rebuilt = sexp.T("ok", abs, names(dups))
		}
	}
	rhist := []sexp.Node{}
	if s2 != nil {
		for _, f := range [][]string{fs, otherFeatures(fs), fs} {
			d, _ := introspectJSON(s2, f)
			rhist = append(rhist, jsonSexp(d))
		}
	}
	docs := []sexp.Node{}
	if s2 != nil {
		for i := 0; i < ndocs; i++ {
			doc, picky := genDoc(r, gs, fs)
			docs = append(docs, sexp.T("doc", sexp.Str(doc), sexp.Sym(verdict(doc, s, fs)), sexp.Sym(verdict(doc, s2, fs)), sexp.Bool(picky)))
		}
	}
	return sexp.T("case", sexp.Sym("rebuild"),
		sexp.T("schema", gs.sexp()), sexp.T("features", names(fs)),
		sexp.T("data", jsonSexp(generic.Data)), sexp.T("errors", sexp.Int(len(resp.Errors))),
		sexp.T("rebuilt", rebuilt), sexp.T("rebuilt-history", rhist...), sexp.T("docs", docs...))
}

// cloneCase: Clone() of a definition, as pointer graphs, with the sharing walk and the
// mutation-isolation test.
func cloneCase(r *rng.R, opt genOpt) sexp.Node {
	gs := genSchema(r, opt)
	fs := features(r)
	gs.Applied = opt.Applied
	def, _ := mustSchema(gs)
	ids := &idTable{ids: map[uintptr]int{}}
	g0 := gabs(ids, def)
	clone := def.Clone()
	g1 := gabs(ids, clone)
	shared := sharedStructure(def, clone)
	cloneNew := "ok"
	var data interface{}
	nerr := 0
	var hist []sexp.Node
	if s2, err := schema.New(clone); err != nil {
		cloneNew = "rejected"
	} else {
		data, nerr = introspectJSON(s2, fs)
		hist = history(s2, fs)
	}
	fillE2E(gs, data)
	// everything mutable in the clone is changed; the original must still be what it was.  (If the
	// clone aliases the original the walk itself may hit the damage: that is reported as such.)
	g0after := func() (n sexp.Node) {
		defer func() {
			if e := recover(); e != nil {
				n = sexp.T("broken")
			}
		}()
		mutateEverything(clone)
		return gabs(ids, def)
	}()
	fields := []sexp.Node{sexp.Sym("clone"),
		sexp.T("schema", gs.sexp()), sexp.T("features", names(fs)),
		sexp.T("orig", g0), sexp.T("clone", g1), sexp.T("orig-after", g0after),
		sexp.T("shared", sharedSexp(shared)), sexp.T("clone-new", sexp.Sym(cloneNew)),
		sexp.T("data", jsonSexp(data)), sexp.T("errors", sexp.Int(nerr))}
	return sexp.T("case", append(fields, hist...)...)
}

// ---- exhaustive small domains (they come first) ----

// chains: every list / non-null wrapper chain of exactly k wrappers (no non-null directly around a
// non-null) around Int.
func chains(k int) []*gTy {
	if k == 0 {
		return []*gTy{named("Int")}
	}
	var out []*gTy
	for _, t := range chains(k - 1) {
		out = append(out, listOf(t))
		if t.Kind != '!' {
			out = append(out, nonNull(t))
		}
	}
	return out
}

// chainCase: one definition whose query type has a field and an argument of every chain of k
// wrappers (k up to 9: beyond the 8 levels the query sees).
func chainCase(k int) sexp.Node {
	gs := &gSchema{}
	for _, b := range []string{"Int", "Float", "String", "Boolean", "ID"} {
		gs.add(&gType{Kind: "scalar", Name: b, Builtin: true})
	}
	q := gs.add(&gType{Kind: "object", Name: "Query"})
	q.Fields = append(q.Fields, &gField{Name: "plain", Ty: named("Int")})
	for i, t := range chains(k) {
		q.Fields = append(q.Fields, &gField{Name: fmt.Sprintf("f%d", i), Ty: t,
			Args: []*gIV{{Name: "a", Ty: t}}})
	}
	gs.Query = "Query"
	_, s := mustSchema(gs)
	data, nerr := introspectJSON(s, nil)
	fillE2E(gs, data)
	return sexp.T("case", sexp.Sym("intro"),
		sexp.T("schema", gs.sexp()), sexp.T("features", names(nil)),
		sexp.T("data", jsonSexp(data)), sexp.T("errors", sexp.Int(nerr)))
}

// the alphabet of the exhaustive string defaults: one representative of every branch of
// encoding/json's string encoder and of the lexer's string reader
var stringAlphabet = []string{"a", "\"", "\\", "/", "\n", "\t", "\r", "\b", "\f", "\x00", "\x1f", "\x7f", "<", ">", "&", "u",
	"\u00e9", "\u07ff", "\u0800", "\u2028", "\u2029", "\ud7ff", "\ue000", "\uffff", "\ufeff"}

// stringCases: every string of length <= 2 over the alphabet as the default of a String argument,
// a few dozen arguments per definition.
func stringCases(h *hx.H) {
	all := []string{""}
	for _, a := range stringAlphabet {
		all = append(all, a)
	}
	for _, a := range stringAlphabet {
		for _, b := range stringAlphabet {
			all = append(all, a+b)
		}
	}
	const per = 40
	for start := 0; start < len(all); start += per {
		start := start
		h.Case(func(r *rng.R) sexp.Node {
			gs := &gSchema{}
			for _, b := range []string{"Int", "Float", "String", "Boolean", "ID"} {
				gs.add(&gType{Kind: "scalar", Name: b, Builtin: true})
			}
			q := gs.add(&gType{Kind: "object", Name: "Query"})
			f := &gField{Name: "f", Ty: named("String")}
			for i := start; i < start+per && i < len(all); i++ {
				f.Args = append(f.Args, &gIV{Name: fmt.Sprintf("a%d", i), Ty: named("String"), Default: &gVal{Kind: "str", Str: all[i]}},
					&gIV{Name: fmt.Sprintf("l%d", i), Ty: listOf(named("ID")), Default: &gVal{Kind: "list", List: []*gVal{{Kind: "str", Str: all[i]}, {Kind: "str", Str: all[len(all)-1-i]}}}})
			}
			q.Fields = []*gField{f}
			gs.Query = "Query"
			_, s := mustSchema(gs)
			data, nerr := introspectJSON(s, nil)
			fillE2E(gs, data)
			return sexp.T("case", sexp.Sym("intro"),
				sexp.T("schema", gs.sexp()), sexp.T("features", names(nil)),
				sexp.T("data", jsonSexp(data)), sexp.T("errors", sexp.Int(nerr)))
		})
	}
}

func main() {
	hx.Main(func(h *hx.H) {
		for k := 0; k <= 9; k++ {
			k := k
			h.Case(func(r *rng.R) sexp.Node { return chainCase(k) })
		}
		stringCases(h)
		n := 1500
		if h.Thorough() {
			n = 40000
		}
		// small definitions first
		for i := 0; i < n/10; i++ {
			i := i
			h.Case(func(r *rng.R) sexp.Node { return introCase(r, genOpt{Size: 0, NoBeyond: i%7 != 3, Plain: i%11 != 4}) })
		}
		for i := 0; i < n; i++ {
			i := i
			h.Case(func(r *rng.R) sexp.Node {
				// most definitions stay within the hypotheses of the description (wrapper chains the
				// query sees to the end, defaults the lexer can read back); every 7th goes beyond
				// the query depth, every 11th has astral / U+FFFD strings, every 6th ill-typed defaults
				return introCase(r, genOpt{Size: 1 + i%3, Hostile: i%6 == 5, NoBeyond: i%7 != 3, Plain: i%11 != 4})
			})
		}
		nc := 300
		if h.Thorough() {
			nc = 6000
		}
		for i := 0; i < nc; i++ {
			i := i
			h.Case(func(r *rng.R) sexp.Node {
				return cloneCase(r, genOpt{Size: i % 4, NoBeyond: i%9 != 5, Plain: true, Applied: i%2 == 1})
			})
		}
		nr := 400
		if h.Thorough() {
			nr = 8000
		}
		for i := 0; i < nr; i++ {
			i := i
			h.Case(func(r *rng.R) sexp.Node {
				return rebuildCase(r, genOpt{Size: i % 4, NoBeyond: i%9 != 5, Plain: i%11 != 4, NoGating: i%3 == 0}, 30)
			})
		}
	})
}
