package main

// The generator's own description of a schema definition (the "IR").  The Go definition handed to
// the real code and the s-expression handed to the Coq model are both produced from it.

import (
	"encoding/json"
	"fmt"
	"math"
	"sort"
	"unicode/utf8"

	"github.com/ccbrown/api-fu/graphql/ast"
	"github.com/ccbrown/api-fu/graphql/schema"

	"verifharness/internal/sexp"
)

type gTy struct {
	Kind byte // 'n' named, 'l' list, '!' non-null
	Name string
	Of   *gTy
}

func named(n string) *gTy  { return &gTy{Kind: 'n', Name: n} }
func listOf(t *gTy) *gTy   { return &gTy{Kind: 'l', Of: t} }
func nonNull(t *gTy) *gTy  { return &gTy{Kind: '!', Of: t} }
func (t *gTy) base() string {
	for t.Kind != 'n' {
		t = t.Of
	}
	return t.Name
}
func (t *gTy) levels() int {
	n := 1
	for t.Kind != 'n' {
		t = t.Of
		n++
	}
	return n
}
func (t *gTy) String() string {
	switch t.Kind {
	case 'n':
		return t.Name
	case 'l':
		return "[" + t.Of.String() + "]"
	}
	return t.Of.String() + "!"
}
func (t *gTy) sexp() sexp.Node {
	switch t.Kind {
	case 'n':
		return sexp.Str(t.Name)
	case 'l':
		return sexp.T("list", t.Of.sexp())
	}
	return sexp.T("nn", t.Of.sexp())
}

// gVal is a default value: Kind is one of null int float str bool list map.
type gVal struct {
	Kind  string
	Int   int
	Float float64
	Str   string
	Bool  bool
	List  []*gVal
	Keys  []string // map, in generation order
	Map   map[string]*gVal
	// NestedNil: a null that is a plain nil instead of schema.Null (only below the top level)
	PlainNil bool
}

func (v *gVal) goValue() interface{} {
	switch v.Kind {
	case "null":
		if v.PlainNil {
			return nil
		}
		return schema.Null
	case "int":
		return v.Int
	case "float":
		return v.Float
	case "str":
		return v.Str
	case "bool":
		return v.Bool
	case "list":
		out := make([]interface{}, len(v.List))
		for i, x := range v.List {
			out[i] = x.goValue()
		}
		return out
	case "map":
		out := map[string]interface{}{}
		for k, x := range v.Map {
			out[k] = x.goValue()
		}
		return out
	}
	panic("gVal kind " + v.Kind)
}

// codePoints abstracts a Go string for the model: runes, an invalid byte b as 0xDC00+b.
func codePoints(s string) []sexp.Node {
	var out []sexp.Node
	for i := 0; i < len(s); {
		r, size := utf8.DecodeRuneInString(s[i:])
		if r == utf8.RuneError && size == 1 {
			out = append(out, sexp.Int(0xDC00+int(s[i])))
		} else {
			out = append(out, sexp.Int(int(r)))
		}
		i += size
	}
	return out
}

// floatParts returns (m, e) with f == m * 2^e, 2^52 <= |m| < 2^53 or (e == -1074 and |m| < 2^52).
func floatParts(f float64) (int64, int) {
	if f == 0 {
		return 0, -1074
	}
	frac, exp := math.Frexp(f)
	m := int64(frac * (1 << 53))
	e := exp - 53
	if e < -1074 {
		m >>= uint(-1074 - e)
		e = -1074
	}
	return m, e
}

func (v *gVal) sexp() sexp.Node {
	switch v.Kind {
	case "null":
		return sexp.T("null")
	case "int":
		return sexp.T("int", sexp.Int(v.Int))
	case "float":
		m, e := floatParts(v.Float)
		txt, err := json.Marshal(v.Float) // float formatting is not modelled: the text crosses as data
		if err != nil {
			panic(err)
		}
		return sexp.T("float", sexp.Int64(m), sexp.Int(e), sexp.Bytes(txt))
	case "str":
		return sexp.T("str", codePoints(v.Str)...)
	case "bool":
		return sexp.T("bool", sexp.Bool(v.Bool))
	case "list":
		var xs []sexp.Node
		for _, x := range v.List {
			xs = append(xs, x.sexp())
		}
		return sexp.T("list", xs...)
	case "map":
		var xs []sexp.Node
		for _, k := range v.Keys {
			xs = append(xs, sexp.L(sexp.Str(k), v.Map[k].sexp()))
		}
		return sexp.T("map", xs...)
	}
	panic("gVal kind " + v.Kind)
}

type gIV struct {
	Name    string
	Ty      *gTy
	Desc    string
	Default *gVal
	E2E     string // filled after the run: none ok hidden parse-error coerce-error differs panic
}

type gField struct {
	Name string
	Ty   *gTy
	Desc string
	Depr string
	Req  []string
	Args []*gIV
}

type gEnumVal struct {
	Name  string
	Value *gVal
	Desc  string
	Depr  string
}

type gType struct {
	Kind      string // scalar enum input object interface union
	Name      string
	Desc      string
	Req       []string
	Builtin   bool
	AcceptAll bool // custom scalar whose literal coercion accepts every literal
	Vals      []*gEnumVal
	RC        bool // input object has a ResultCoercion
	InFields  []*gIV
	Fields    []*gField
	Ifaces    []string
	Members   []string

	built schema.NamedType
}

type gDir struct {
	Name string
	Desc string
	Locs []string
	Args []*gIV
	// Builtin: use schema.SkipDirective / schema.IncludeDirective themselves
	Builtin *schema.DirectiveDefinition
}

type gSchema struct {
	Types        []*gType // the heap: everything the generator created, reachable or not
	Query        string
	Mutation     string
	Subscription string
	Additional   []string
	Dirs         []*gDir
	Applied      bool // attach applied directives ([]*Directive) everywhere (not part of the model: introspection does not show them)
	byName       map[string]*gType
}

func (s *gSchema) get(n string) *gType { return s.byName[n] }
func (s *gSchema) add(t *gType) *gType {
	if s.byName == nil {
		s.byName = map[string]*gType{}
	}
	if _, dup := s.byName[t.Name]; dup {
		panic("duplicate type name " + t.Name)
	}
	s.byName[t.Name] = t
	s.Types = append(s.Types, t)
	return t
}

// ---- encoding for the model ----

func names(xs []string) sexp.Node {
	out := make([]sexp.Node, len(xs))
	for i, x := range xs {
		out[i] = sexp.Str(x)
	}
	return sexp.L(out...)
}

func (iv *gIV) sexp() sexp.Node {
	d := sexp.None()
	if iv.Default != nil {
		d = sexp.Some(iv.Default.sexp())
	}
	e := iv.E2E
	if e == "" {
		e = "none"
	}
	return sexp.T("iv", sexp.Str(iv.Name), iv.Ty.sexp(), sexp.Str(iv.Desc), d, sexp.Sym(e))
}

func ivs(tag string, l []*gIV) sexp.Node {
	out := []sexp.Node{}
	for _, x := range l {
		out = append(out, x.sexp())
	}
	return sexp.T(tag, out...)
}

func (f *gField) sexp() sexp.Node {
	return sexp.T("fd", sexp.Str(f.Name), f.Ty.sexp(), sexp.Str(f.Desc), sexp.Str(f.Depr), names(f.Req), ivs("args", f.Args))
}

func fds(l []*gField) sexp.Node {
	out := []sexp.Node{}
	for _, x := range l {
		out = append(out, x.sexp())
	}
	return sexp.T("fields", out...)
}

func tagged(tag string, xs []string) sexp.Node {
	out := []sexp.Node{}
	for _, x := range xs {
		out = append(out, sexp.Str(x))
	}
	return sexp.T(tag, out...)
}

func (t *gType) sexp() sexp.Node {
	switch t.Kind {
	case "scalar":
		return sexp.T("scalar", sexp.Str(t.Name), sexp.Bool(t.Builtin), sexp.Bool(t.AcceptAll), names(t.Req), sexp.Str(t.Desc))
	case "enum":
		vs := []sexp.Node{}
		for _, v := range t.Vals {
			vs = append(vs, sexp.T("val", sexp.Str(v.Name), v.Value.sexp(), sexp.Str(v.Desc), sexp.Str(v.Depr)))
		}
		return sexp.T("enum", sexp.Str(t.Name), names(t.Req), sexp.Str(t.Desc), sexp.T("vals", vs...))
	case "input":
		return sexp.T("input", sexp.Str(t.Name), names(t.Req), sexp.Bool(t.RC), sexp.Str(t.Desc), ivs("fields", t.InFields))
	case "object":
		return sexp.T("object", sexp.Str(t.Name), names(t.Req), sexp.Str(t.Desc), tagged("ifaces", t.Ifaces), fds(t.Fields))
	case "interface":
		return sexp.T("interface", sexp.Str(t.Name), names(t.Req), sexp.Str(t.Desc), fds(t.Fields))
	case "union":
		return sexp.T("union", sexp.Str(t.Name), names(t.Req), sexp.Str(t.Desc), tagged("members", t.Members))
	}
	panic("kind " + t.Kind)
}

func optName(s string) sexp.Node {
	if s == "" {
		return sexp.None()
	}
	return sexp.Some(sexp.Str(s))
}

func (s *gSchema) sexp() sexp.Node {
	ts := []sexp.Node{}
	for _, t := range s.Types {
		ts = append(ts, t.sexp())
	}
	ds := []sexp.Node{}
	for _, d := range s.Dirs {
		ds = append(ds, sexp.T("dir", sexp.Str(d.Name), sexp.Str(d.Desc), tagged("locs", d.Locs), ivs("args", d.Args)))
	}
	return sexp.T("schema",
		sexp.T("types", ts...),
		sexp.T("query", sexp.Str(s.Query)),
		sexp.T("mutation", optName(s.Mutation)),
		sexp.T("subscription", optName(s.Subscription)),
		sexp.T("additional", names(s.Additional)),
		sexp.T("directives", ds...))
}

// ---- building the real definition ----

var builtinScalars = map[string]*schema.ScalarType{
	"Int": schema.IntType, "Float": schema.FloatType, "String": schema.StringType,
	"Boolean": schema.BooleanType, "ID": schema.IDType,
}

func featureSet(req []string) schema.FeatureSet {
	if req == nil {
		return nil
	}
	return schema.NewFeatureSet(req...)
}

// natural Go value of a simple literal (what the harness' custom scalars coerce to)
func naturalLiteral(v ast.Value) interface{} {
	switch v := v.(type) {
	case *ast.IntValue:
		var n int
		if _, err := fmt.Sscanf(v.Value, "%d", &n); err == nil {
			return n
		}
	case *ast.FloatValue:
		var f float64
		if err := json.Unmarshal([]byte(v.Value), &f); err == nil {
			return f
		}
	case *ast.StringValue:
		return v.Value
	case *ast.BooleanValue:
		return v.Value
	}
	return nil
}

func (s *gSchema) goType(t *gTy) schema.Type {
	switch t.Kind {
	case 'n':
		return s.get(t.Name).built
	case 'l':
		return schema.NewListType(s.goType(t.Of))
	}
	return schema.NewNonNullType(s.goType(t.Of))
}

func (s *gSchema) goIVs(l []*gIV) map[string]*schema.InputValueDefinition {
	if l == nil {
		return nil
	}
	out := map[string]*schema.InputValueDefinition{}
	for _, iv := range l {
		d := &schema.InputValueDefinition{Description: iv.Desc, Type: s.goType(iv.Ty)}
		if iv.Default != nil {
			d.DefaultValue = iv.Default.goValue()
		}
		out[iv.Name] = d
	}
	return out
}

func (s *gSchema) goFields(l []*gField) map[string]*schema.FieldDefinition {
	out := map[string]*schema.FieldDefinition{}
	for _, f := range l {
		out[f.Name] = &schema.FieldDefinition{
			Description: f.Desc, Arguments: s.goIVs(f.Args), Type: s.goType(f.Ty), DeprecationReason: f.Depr,
			RequiredFeatures: featureSet(f.Req),
			Resolve:          func(schema.FieldContext) (interface{}, error) { return nil, nil },
		}
	}
	return out
}

// build creates the Go objects in two passes (shells first: the graph is cyclic).
func (s *gSchema) build() *schema.SchemaDefinition {
	for _, t := range s.Types {
		switch t.Kind {
		case "scalar":
			if t.Builtin {
				t.built = builtinScalars[t.Name]
			} else {
				acceptAll := t.AcceptAll
				t.built = &schema.ScalarType{Name: t.Name, Description: t.Desc, RequiredFeatures: featureSet(t.Req),
					LiteralCoercion: func(v ast.Value) interface{} {
						if acceptAll {
							if n := naturalLiteral(v); n != nil {
								return n
							}
							return v
						}
						// picky: only strings beginning with "ok", and integers
						switch v := v.(type) {
						case *ast.StringValue:
							if len(v.Value) >= 2 && v.Value[:2] == "ok" {
								return v.Value
							}
						case *ast.IntValue:
							return naturalLiteral(v)
						}
						return nil
					},
					VariableValueCoercion: func(v interface{}) interface{} { return v },
					ResultCoercion:        func(v interface{}) interface{} { return v },
				}
			}
		case "enum":
			t.built = &schema.EnumType{Name: t.Name, Description: t.Desc, RequiredFeatures: featureSet(t.Req)}
		case "input":
			t.built = &schema.InputObjectType{Name: t.Name, Description: t.Desc, RequiredFeatures: featureSet(t.Req)}
		case "object":
			t.built = &schema.ObjectType{Name: t.Name, Description: t.Desc, RequiredFeatures: featureSet(t.Req)}
		case "interface":
			t.built = &schema.InterfaceType{Name: t.Name, Description: t.Desc, RequiredFeatures: featureSet(t.Req)}
		case "union":
			t.built = &schema.UnionType{Name: t.Name, Description: t.Desc, RequiredFeatures: featureSet(t.Req)}
		}
	}
	for _, t := range s.Types {
		switch b := t.built.(type) {
		case *schema.EnumType:
			b.Values = map[string]*schema.EnumValueDefinition{}
			for _, v := range t.Vals {
				b.Values[v.Name] = &schema.EnumValueDefinition{Description: v.Desc, Value: v.Value.goValue(), DeprecationReason: v.Depr}
			}
		case *schema.InputObjectType:
			b.Fields = s.goIVs(t.InFields)
			if t.RC {
				b.ResultCoercion = func(v interface{}) (map[string]interface{}, error) {
					if m, ok := v.(map[string]interface{}); ok {
						return m, nil
					}
					return nil, fmt.Errorf("not a map")
				}
			}
		case *schema.ObjectType:
			b.Fields = s.goFields(t.Fields)
			for _, i := range t.Ifaces {
				b.ImplementedInterfaces = append(b.ImplementedInterfaces, s.get(i).built.(*schema.InterfaceType))
			}
			b.IsTypeOf = func(interface{}) bool { return false }
		case *schema.InterfaceType:
			b.Fields = s.goFields(t.Fields)
		case *schema.UnionType:
			for _, m := range t.Members {
				b.MemberTypes = append(b.MemberTypes, s.get(m).built.(*schema.ObjectType))
			}
		}
	}
	def := &schema.SchemaDefinition{}
	def.Query = s.get(s.Query).built.(*schema.ObjectType)
	if s.Mutation != "" {
		def.Mutation = s.get(s.Mutation).built.(*schema.ObjectType)
	}
	if s.Subscription != "" {
		def.Subscription = s.get(s.Subscription).built.(*schema.ObjectType)
	}
	for _, a := range s.Additional {
		def.AdditionalTypes = append(def.AdditionalTypes, s.get(a).built)
	}
	if s.Dirs != nil {
		def.Directives = map[string]*schema.DirectiveDefinition{}
		for _, d := range s.Dirs {
			if d.Builtin != nil {
				def.Directives[d.Name] = d.Builtin
				continue
			}
			dd := &schema.DirectiveDefinition{Description: d.Desc, Arguments: s.goIVs(d.Args)}
			for _, l := range d.Locs {
				dd.Locations = append(dd.Locations, schema.DirectiveLocation(l))
			}
			def.Directives[d.Name] = dd
		}
	}
	if s.Applied && len(s.Dirs) > 0 {
		// one applied directive, pointing at the definition's own DirectiveDefinition object, on every
		// named type, field, argument, input field and enum value; each application has its own
		// Directive and Argument objects
		dd := def.Directives[s.Dirs[0].Name]
		// Inspect follows the applied directives of scalars and enums into the definition's argument
		// types: a directive with arguments applied to a type its own arguments use is (rightly)
		// refused as self-referencing, so such a directive is not applied to scalars and enums
		leafOK := len(dd.Arguments) == 0
		mk := func(i int) []*schema.Directive {
			return []*schema.Directive{{Definition: dd, Arguments: []*schema.Argument{{Name: "n", Value: i}, {Name: "s", Value: "v"}}}}
		}
		n := 0
		next := func() []*schema.Directive { n++; return mk(n) }
		ivs := func(m map[string]*schema.InputValueDefinition) {
			for _, k := range sortedIVKeys(m) {
				m[k].Directives = next()
			}
		}
		fds := func(m map[string]*schema.FieldDefinition) {
			keys := make([]string, 0, len(m))
			for k := range m {
				keys = append(keys, k)
			}
			sort.Strings(keys)
			for _, k := range keys {
				m[k].Directives = next()
				ivs(m[k].Arguments)
			}
		}
		for _, t := range s.Types {
			switch b := t.built.(type) {
			case *schema.ScalarType:
				if !t.Builtin && leafOK {
					b.Directives = next()
				}
			case *schema.EnumType:
				if leafOK {
					b.Directives = next()
				}
				keys := make([]string, 0, len(b.Values))
				for k := range b.Values {
					keys = append(keys, k)
				}
				sort.Strings(keys)
				for _, k := range keys {
					b.Values[k].Directives = next()
				}
			case *schema.InputObjectType:
				b.Directives = next()
				ivs(b.Fields)
			case *schema.ObjectType:
				b.Directives = next()
				fds(b.Fields)
			case *schema.InterfaceType:
				b.Directives = next()
				fds(b.Fields)
			case *schema.UnionType:
				b.Directives = next()
			}
		}
	}
	return def
}

func sortedIVKeys(m map[string]*schema.InputValueDefinition) []string {
	keys := make([]string, 0, len(m))
	for k := range m {
		keys = append(keys, k)
	}
	sort.Strings(keys)
	return keys
}

// ---- generic JSON -> s-expression ----

func jsonSexp(v interface{}) sexp.Node {
	switch v := v.(type) {
	case nil:
		return sexp.Sym("null")
	case bool:
		return sexp.Bool(v)
	case string:
		return sexp.Str(v)
	case float64:
		return sexp.Int(int(v))
	case []interface{}:
		xs := []sexp.Node{}
		for _, x := range v {
			xs = append(xs, jsonSexp(x))
		}
		return sexp.T("arr", xs...)
	case map[string]interface{}:
		keys := make([]string, 0, len(v))
		for k := range v {
			keys = append(keys, k)
		}
		sort.Strings(keys)
		xs := []sexp.Node{}
		for _, k := range keys {
			xs = append(xs, sexp.L(sexp.Str(k), jsonSexp(v[k])))
		}
		return sexp.T("obj", xs...)
	}
	panic(fmt.Sprintf("jsonSexp: %T", v))
}
