package main

// Clone cases: the definition as a pointer graph (every struct, map and slice with an identity),
// SchemaDefinition.Clone(), the clone's graph, a generic reflect walk for anything reachable from
// both, and the original again after everything mutable in the clone has been changed.

import (
	"fmt"
	"reflect"
	"sort"
	"strings"

	"github.com/ccbrown/api-fu/graphql/schema"

	"verifharness/internal/sexp"
)

// ---- identities ----

type idTable struct {
	ids map[uintptr]int
}

func (t *idTable) of(p uintptr) sexp.Node {
	if p == 0 {
		return sexp.Int(0)
	}
	if id, ok := t.ids[p]; ok {
		return sexp.Int(id)
	}
	id := len(t.ids) + 1
	t.ids[p] = id
	return sexp.Int(id)
}

func (t *idTable) ptr(x interface{}) sexp.Node { return t.of(reflect.ValueOf(x).Pointer()) }

// slice identity: the backing array; an empty slice has no storage to share
func (t *idTable) slice(x interface{}) sexp.Node {
	v := reflect.ValueOf(x)
	if v.Len() == 0 {
		return sexp.Int(0)
	}
	return t.of(v.Pointer())
}

// ---- the graph abstraction ----

type gwalker struct {
	ids   *idTable
	seen  map[schema.NamedType]bool
	order []schema.NamedType
}

func (w *gwalker) visitType(t schema.Type) {
	switch t := t.(type) {
	case *schema.ListType:
		w.visitType(t.Type)
		return
	case *schema.NonNullType:
		w.visitType(t.Type)
		return
	case nil:
		return
	}
	nt := t.(schema.NamedType)
	if isNilPtr(nt) || w.seen[nt] {
		return
	}
	w.seen[nt] = true
	w.order = append(w.order, nt)
	switch t := nt.(type) {
	case *schema.ObjectType:
		for _, k := range sortedMapKeys(t.Fields) {
			w.visitField(t.Fields[k])
		}
		for _, i := range t.ImplementedInterfaces {
			w.visitType(i)
		}
	case *schema.InterfaceType:
		for _, k := range sortedMapKeys(t.Fields) {
			w.visitField(t.Fields[k])
		}
	case *schema.UnionType:
		for _, m := range t.MemberTypes {
			w.visitType(m)
		}
	case *schema.InputObjectType:
		for _, k := range sortedMapKeys(t.Fields) {
			w.visitType(t.Fields[k].Type)
		}
	}
}

func (w *gwalker) visitField(f *schema.FieldDefinition) {
	w.visitType(f.Type)
	for _, k := range sortedMapKeys(f.Arguments) {
		w.visitType(f.Arguments[k].Type)
	}
}

func (w *gwalker) ref(nt schema.NamedType) sexp.Node {
	return sexp.T("ref", sexp.Str(nt.TypeName()), w.ids.ptr(nt))
}

func (w *gwalker) gty(t schema.Type) sexp.Node {
	switch t := t.(type) {
	case *schema.ListType:
		return sexp.T("list", w.ids.ptr(t), w.gty(t.Type))
	case *schema.NonNullType:
		return sexp.T("nn", w.ids.ptr(t), w.gty(t.Type))
	}
	return w.ref(t.(schema.NamedType))
}

func (w *gwalker) set(fs schema.FeatureSet) sexp.Node {
	if fs == nil {
		return sexp.Sym("nil")
	}
	out := []sexp.Node{w.ids.ptr(fs)}
	for _, k := range sortedMapKeys(fs) {
		out = append(out, sexp.Str(k))
	}
	return sexp.T("set", out...)
}

func (w *gwalker) ivMap(m map[string]*schema.InputValueDefinition) sexp.Node {
	if m == nil {
		return sexp.Sym("nil")
	}
	out := []sexp.Node{w.ids.ptr(m)}
	for _, k := range sortedMapKeys(m) {
		iv := m[k]
		d := sexp.None()
		if iv.DefaultValue != nil {
			d = sexp.Some(absValue(iv.DefaultValue))
		}
		out = append(out, sexp.T("iv", sexp.Str(k), w.ids.ptr(iv), w.gty(iv.Type), sexp.Str(iv.Description), d))
	}
	return sexp.T("map", out...)
}

func (w *gwalker) fdMap(m map[string]*schema.FieldDefinition) sexp.Node {
	if m == nil {
		return sexp.Sym("nil")
	}
	out := []sexp.Node{w.ids.ptr(m)}
	for _, k := range sortedMapKeys(m) {
		f := m[k]
		out = append(out, sexp.T("fd", sexp.Str(k), w.ids.ptr(f), w.gty(f.Type), sexp.Str(f.Description), sexp.Str(f.DeprecationReason),
			w.set(f.RequiredFeatures), sexp.T("args", w.ivMap(f.Arguments))))
	}
	return sexp.T("map", out...)
}

func (w *gwalker) named(nt schema.NamedType) sexp.Node {
	self := w.ids.ptr(nt)
	switch t := nt.(type) {
	case *schema.ScalarType:
		builtin := schema.BuiltInTypes[t.Name] == t
		return sexp.T("scalar", self, sexp.Str(t.Name), sexp.Bool(builtin), sexp.Bool(!builtin && t.LiteralCoercion == nil),
			w.set(t.RequiredFeatures), sexp.Str(t.Description))
	case *schema.EnumType:
		vals := sexp.Sym("nil")
		if t.Values != nil {
			out := []sexp.Node{w.ids.ptr(t.Values)}
			for _, k := range sortedMapKeys(t.Values) {
				v := t.Values[k]
				out = append(out, sexp.T("val", sexp.Str(k), w.ids.ptr(v), absValue(v.Value), sexp.Str(v.Description), sexp.Str(v.DeprecationReason)))
			}
			vals = sexp.T("map", out...)
		}
		return sexp.T("enum", self, sexp.Str(t.Name), w.set(t.RequiredFeatures), sexp.Str(t.Description), sexp.T("vals", vals))
	case *schema.InputObjectType:
		return sexp.T("input", self, sexp.Str(t.Name), w.set(t.RequiredFeatures), sexp.Bool(t.ResultCoercion != nil),
			sexp.Str(t.Description), sexp.T("fields", w.ivMap(t.Fields)))
	case *schema.ObjectType:
		ifs := sexp.Sym("nil")
		if t.ImplementedInterfaces != nil {
			out := []sexp.Node{w.ids.slice(t.ImplementedInterfaces)}
			for _, i := range t.ImplementedInterfaces {
				out = append(out, w.ref(i))
			}
			ifs = sexp.T("slice", out...)
		}
		return sexp.T("object", self, sexp.Str(t.Name), w.set(t.RequiredFeatures), sexp.Str(t.Description), sexp.T("ifaces", ifs),
			sexp.T("fields", w.fdMap(t.Fields)))
	case *schema.InterfaceType:
		return sexp.T("interface", self, sexp.Str(t.Name), w.set(t.RequiredFeatures), sexp.Str(t.Description), sexp.T("fields", w.fdMap(t.Fields)))
	case *schema.UnionType:
		ms := sexp.Sym("nil")
		if t.MemberTypes != nil {
			out := []sexp.Node{w.ids.slice(t.MemberTypes)}
			for _, m := range t.MemberTypes {
				out = append(out, w.ref(m))
			}
			ms = sexp.T("slice", out...)
		}
		return sexp.T("union", self, sexp.Str(t.Name), w.set(t.RequiredFeatures), sexp.Str(t.Description), sexp.T("members", ms))
	}
	panic(fmt.Sprintf("gwalker.named %T", nt))
}

func gabs(ids *idTable, def *schema.SchemaDefinition) sexp.Node {
	w := &gwalker{ids: ids, seen: map[schema.NamedType]bool{}}
	for _, k := range sortedMapKeys(def.Directives) {
		for _, a := range sortedMapKeys(def.Directives[k].Arguments) {
			w.visitType(def.Directives[k].Arguments[a].Type)
		}
	}
	if def.Query != nil {
		w.visitType(def.Query)
	}
	if def.Mutation != nil {
		w.visitType(def.Mutation)
	}
	if def.Subscription != nil {
		w.visitType(def.Subscription)
	}
	for _, t := range def.AdditionalTypes {
		w.visitType(t)
	}
	sort.SliceStable(w.order, func(i, j int) bool { return w.order[i].TypeName() < w.order[j].TypeName() })
	ts := []sexp.Node{}
	for _, nt := range w.order {
		ts = append(ts, w.named(nt))
	}
	optRef := func(o *schema.ObjectType) sexp.Node {
		if o == nil {
			return sexp.None()
		}
		return sexp.Some(w.ref(o))
	}
	add := sexp.Sym("nil")
	if def.AdditionalTypes != nil {
		out := []sexp.Node{ids.slice(def.AdditionalTypes)}
		for _, t := range def.AdditionalTypes {
			out = append(out, w.ref(t))
		}
		add = sexp.T("slice", out...)
	}
	dirs := sexp.Sym("nil")
	if def.Directives != nil {
		out := []sexp.Node{ids.ptr(def.Directives)}
		for _, k := range sortedMapKeys(def.Directives) {
			d := def.Directives[k]
			locs := sexp.Sym("nil")
			if d.Locations != nil {
				l := []sexp.Node{ids.slice(d.Locations)}
				for _, x := range d.Locations {
					l = append(l, sexp.Str(string(x)))
				}
				locs = sexp.T("slice", l...)
			}
			out = append(out, sexp.T("dir", sexp.Str(k), ids.ptr(d), sexp.Str(d.Description), sexp.T("locs", locs), sexp.T("args", w.ivMap(d.Arguments))))
		}
		dirs = sexp.T("map", out...)
	}
	return sexp.T("gschema", sexp.T("self", ids.ptr(def)),
		sexp.T("types", ts...),
		sexp.T("query", optRef(def.Query)),
		sexp.T("mutation", optRef(def.Mutation)),
		sexp.T("subscription", optRef(def.Subscription)),
		sexp.T("additional", add),
		sexp.T("directives", dirs))
}

// ---- generic reflect walk: every struct / map / backing array reachable from a definition ----

// opaque: fields whose contents belong to the application (values, functions)
func opaqueField(structName, field string) bool {
	return (structName == "InputValueDefinition" && field == "DefaultValue") ||
		(structName == "EnumValueDefinition" && field == "Value") ||
		(structName == "Argument" && field == "Value")
}

type reach struct {
	at map[uintptr]string // address -> where it was first met ("ObjectType.Fields")
}

func (r *reach) walk(v reflect.Value, where string) {
	switch v.Kind() {
	case reflect.Ptr:
		if v.IsNil() {
			return
		}
		if v.Elem().Kind() != reflect.Struct {
			return
		}
		p := v.Pointer()
		if _, ok := r.at[p]; ok {
			return
		}
		r.at[p] = where
		r.walk(v.Elem(), where)
	case reflect.Interface:
		if !v.IsNil() {
			r.walk(v.Elem(), where)
		}
	case reflect.Struct:
		name := v.Type().Name()
		for i := 0; i < v.NumField(); i++ {
			f := v.Type().Field(i)
			if opaqueField(name, f.Name) || v.Field(i).Kind() == reflect.Func {
				continue
			}
			r.walk(v.Field(i), name+"."+f.Name)
		}
	case reflect.Map:
		if v.IsNil() {
			return
		}
		p := v.Pointer()
		if _, ok := r.at[p]; ok {
			return
		}
		r.at[p] = where
		for _, k := range v.MapKeys() {
			r.walk(v.MapIndex(k), where)
		}
	case reflect.Slice:
		if v.Len() == 0 {
			return
		}
		p := v.Pointer()
		if _, ok := r.at[p]; ok {
			return
		}
		r.at[p] = where
		for i := 0; i < v.Len(); i++ {
			r.walk(v.Index(i), where)
		}
	}
}

func reachable(x interface{}) map[uintptr]string {
	r := &reach{at: map[uintptr]string{}}
	r.walk(reflect.ValueOf(x), "root")
	return r.at
}

// sharedStructure: the places of the clone whose storage is also reachable from the original,
// built-in singletons (and what only they reach) excepted.
func sharedStructure(orig, clone *schema.SchemaDefinition) []string {
	builtins := map[uintptr]string{}
	for _, b := range schema.BuiltInTypes {
		for p, w := range reachable(b) {
			builtins[p] = w
		}
	}
	o := reachable(orig)
	seen := map[string]bool{}
	var out []string
	for p, where := range reachable(clone) {
		if _, ok := o[p]; ok {
			if _, b := builtins[p]; !b && !seen[where] {
				seen[where] = true
				out = append(out, where)
			}
		}
	}
	sort.Strings(out)
	return out
}

// ---- mutate everything mutable in a definition ----

type mutator struct {
	done     map[uintptr]bool
	builtins map[uintptr]string
}

func (m *mutator) mutate(v reflect.Value) {
	switch v.Kind() {
	case reflect.Ptr:
		if v.IsNil() || v.Elem().Kind() != reflect.Struct {
			return
		}
		p := v.Pointer()
		if m.done[p] {
			return
		}
		m.done[p] = true
		if _, b := m.builtins[p]; b {
			return
		}
		m.mutateStruct(v.Elem())
	case reflect.Interface:
		if !v.IsNil() {
			m.mutate(v.Elem())
		}
	case reflect.Map:
		if v.IsNil() {
			return
		}
		p := v.Pointer()
		if m.done[p] {
			return
		}
		m.done[p] = true
		keys := v.MapKeys()
		for _, k := range keys {
			m.mutate(v.MapIndex(k))
		}
		for i, k := range keys {
			if i%2 == 0 {
				v.SetMapIndex(k, reflect.Value{}) // delete
			}
		}
		v.SetMapIndex(reflect.ValueOf("zz_mutated").Convert(v.Type().Key()), reflect.Zero(v.Type().Elem()))
	case reflect.Slice:
		if v.Len() == 0 {
			return
		}
		p := v.Pointer()
		if m.done[p] {
			return
		}
		m.done[p] = true
		for i := 0; i < v.Len(); i++ {
			m.mutate(v.Index(i))
		}
		for i := 0; i < v.Len(); i++ {
			if v.Index(i).Kind() == reflect.String {
				v.Index(i).SetString("MUTATED")
			} else {
				v.Index(i).Set(reflect.Zero(v.Index(i).Type()))
			}
		}
	}
}

func (m *mutator) mutateStruct(s reflect.Value) {
	name := s.Type().Name()
	for i := 0; i < s.NumField(); i++ {
		f := s.Field(i)
		ft := s.Type().Field(i)
		if !f.CanSet() {
			continue
		}
		switch f.Kind() {
		case reflect.String:
			f.SetString(f.String() + "~mutated")
		case reflect.Func:
			// not structure
		case reflect.Interface, reflect.Ptr:
			if !opaqueField(name, ft.Name) {
				m.mutate(f)
			}
			f.Set(reflect.Zero(f.Type()))
		case reflect.Map, reflect.Slice:
			m.mutate(f)
		case reflect.Bool:
			f.SetBool(!f.Bool())
		}
	}
}

func mutateEverything(def *schema.SchemaDefinition) {
	m := &mutator{done: map[uintptr]bool{}, builtins: map[uintptr]string{}}
	for _, b := range schema.BuiltInTypes {
		for p, w := range reachable(b) {
			m.builtins[p] = w
		}
	}
	m.mutate(reflect.ValueOf(def))
}

func sharedSexp(xs []string) sexp.Node {
	out := []sexp.Node{}
	for _, x := range xs {
		out = append(out, sexp.Sym(strings.ReplaceAll(x, " ", "")))
	}
	return sexp.L(out...)
}
