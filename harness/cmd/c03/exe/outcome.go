package exe

// Outcome trees: the finite data the resolvers of one case are closures over.

import (
	"errors"
	"math"
	"math/big"

	"verifharness/internal/rng"
	"verifharness/internal/sexp"
)

// leaf is a Go leaf value together with its description for the model.
type leaf struct {
	kind string // bool int f32 f64 str other
	b    bool
	ik   string // i8 u8 i16 u16 i32 u32 i64 u64 int uint
	z    int64
	u    uint64 // used when ik is u64/uint/u32
	f    float64
	s    string
}

type other struct{ x int }

func (l leaf) goValue() interface{} {
	switch l.kind {
	case "bool":
		return l.b
	case "int":
		switch l.ik {
		case "i8":
			return int8(l.z)
		case "u8":
			return uint8(l.z)
		case "i16":
			return int16(l.z)
		case "u16":
			return uint16(l.z)
		case "i32":
			return int32(l.z)
		case "u32":
			return uint32(l.u)
		case "i64":
			return l.z
		case "u64":
			return l.u
		case "int":
			return int(l.z)
		case "uint":
			return uint(l.u)
		}
	case "f32":
		return float32(l.f)
	case "f64":
		return l.f
	case "str":
		return l.s
	}
	return &other{1}
}

func (l leaf) bigInt() *big.Int {
	switch l.ik {
	case "u32", "u64", "uint":
		return new(big.Int).SetUint64(l.u)
	}
	return big.NewInt(l.z)
}

// exact dyadic of a float64: (fin m e) with m odd (or 0), nan, pinf, ninf
func dyadicSexp(f float64) sexp.Node {
	switch {
	case math.IsNaN(f):
		return sexp.Sym("nan")
	case math.IsInf(f, 1):
		return sexp.Sym("pinf")
	case math.IsInf(f, -1):
		return sexp.Sym("ninf")
	case f == 0:
		return sexp.T("fin", sexp.Int(0), sexp.Int(0))
	}
	fr, exp := math.Frexp(f) // f = fr * 2^exp, 0.5 <= |fr| < 1
	m := int64(fr * (1 << 53))
	e := exp - 53
	for m%2 == 0 {
		m /= 2
		e++
	}
	return sexp.T("fin", sexp.Int64(m), sexp.Int(e))
}

// integers of 18 or more decimal digits cross as (big neg hi lo) = +-(hi*2^32 + lo): the model
// runner only reads shorter decimals
func bigSexp(z *big.Int) sexp.Node {
	abs := new(big.Int).Abs(z)
	if abs.Cmp(big.NewInt(100000000000000000)) < 0 {
		return sexp.Big(z)
	}
	hi := new(big.Int).Rsh(abs, 32)
	lo := new(big.Int).And(abs, big.NewInt(0xffffffff))
	return sexp.T("big", sexp.Bool(z.Sign() < 0), sexp.Big(hi), sexp.Big(lo))
}

func (l leaf) sexp() sexp.Node {
	switch l.kind {
	case "bool":
		return sexp.T("bool", sexp.Bool(l.b))
	case "int":
		return sexp.T("int", sexp.Sym(l.ik), bigSexp(l.bigInt()))
	case "f32":
		return sexp.T("f32", dyadicSexp(float64(float32(l.f))))
	case "f64":
		return sexp.T("f64", dyadicSexp(l.f))
	case "str":
		return sexp.T("str", sexp.Str(l.s))
	}
	return sexp.T("other")
}

// outcome node
type outcome struct {
	kind   string // nil tnil err leaf list obj
	leaf   leaf
	items  []*outcome
	tag    string
	names  []string // field order (for the s-expression)
	fields map[string]*outcome
	// materialisation choices (not visible to the model: they must not matter)
	nilSlice   bool // an empty list as a nil slice
	valWithErr bool // an error outcome returned together with a non-nil value
	nilErr     bool // a value returned together with a typed-nil error
}

type objVal struct {
	tag    string
	fields map[string]*outcome
}

type resolverError struct{ msg string }

func (e *resolverError) Error() string { return e.msg }

func (o *outcome) sexp() sexp.Node {
	switch o.kind {
	case "nil", "tnil", "err":
		return sexp.Sym(o.kind)
	case "leaf":
		return sexp.T("leaf", o.leaf.sexp())
	case "list":
		var l []sexp.Node
		for _, it := range o.items {
			l = append(l, it.sexp())
		}
		return sexp.T("list", l...)
	}
	l := []sexp.Node{sexp.Str(o.tag)}
	for _, n := range o.names {
		l = append(l, sexp.L(sexp.Str(n), o.fields[n].sexp()))
	}
	return sexp.T("obj", l...)
}

// value is the Go value a resolver returns for this outcome (or a slice holds for it).
func (o *outcome) value() interface{} {
	switch o.kind {
	case "nil":
		return nil
	case "tnil":
		return (*objVal)(nil)
	case "err":
		return errors.New("an error value used as a result")
	case "leaf":
		return o.leaf.goValue()
	case "list":
		if len(o.items) == 0 && o.nilSlice {
			return []interface{}(nil)
		}
		out := make([]interface{}, len(o.items))
		for i, it := range o.items {
			out[i] = it.value()
		}
		return out
	}
	return &objVal{tag: o.tag, fields: o.fields}
}

// resolve is what the field resolver returns.
func (o *outcome) resolve() (interface{}, error) {
	if o.kind == "err" {
		if o.valWithErr {
			return 7, &resolverError{"resolver failed"}
		}
		return nil, &resolverError{"resolver failed"}
	}
	if o.nilErr {
		return o.value(), (*resolverError)(nil)
	}
	return o.value(), nil
}

// ---- generation ----

type wGen struct {
	s     *schemaDef
	r     *rng.R
	pFail int // per-node failure probability in 1/100
	frags map[string]fragInfo
}

var interestingInts = []int64{0, 1, -1, 7, 127, -128, 255, 32767, 65535, 2147483647, -2147483648, 2147483648, -2147483649,
	4294967295, 9007199254740992, 9007199254740993, -9007199254740995, 9223372036854775807, -9223372036854775808, 1234567890123456789}

func (g *wGen) randomLeaf() leaf {
	r := g.r
	switch r.Intn(12) {
	case 0:
		return leaf{kind: "bool", b: r.Bool()}
	case 1, 2, 3:
		return g.randomInt()
	case 4, 5:
		fs := []float64{0, 1.5, -2.25, 3, 1e10, 2147483647, 2147483648, -2147483648, -2147483649, 0.1, 1e300, 5e-324, math.Copysign(0, -1),
			math.NaN(), math.Inf(1), math.Inf(-1), 123456789.125}
		return leaf{kind: "f64", f: rng.Pick(r, fs)}
	case 6:
		fs := []float64{0, 1.5, -7, 16777216, 3.4e38, float64(float32(0.1)), math.NaN(), math.Inf(1)}
		return leaf{kind: "f32", f: rng.Pick(r, fs)}
	case 7, 8, 9:
		ss := []string{"", "a", "hello", "v0", "v1", "E_V0", "with \"quotes\" and \\", "<tag>&", "café ☃ \U0001F600", "line\nbreak\ttab\x01", "10", "-5"}
		return leaf{kind: "str", s: rng.Pick(r, ss)}
	}
	return leaf{kind: "other"}
}

func (g *wGen) randomInt() leaf {
	r := g.r
	ik := rng.Pick(r, []string{"int", "int", "int", "i8", "u8", "i16", "u16", "i32", "u32", "i64", "u64", "uint"})
	v := rng.Pick(r, interestingInts)
	if r.Chance(1, 3) {
		v = int64(r.Intn(100)) - 20
	}
	l := leaf{kind: "int", ik: ik}
	switch ik {
	case "i8":
		l.z = int64(int8(v))
	case "u8":
		l.z = int64(uint8(v))
	case "i16":
		l.z = int64(int16(v))
	case "u16":
		l.z = int64(uint16(v))
	case "i32":
		l.z = int64(int32(v))
	case "u32":
		l.u = uint64(uint32(v))
	case "u64", "uint":
		l.u = uint64(v)
		if r.Chance(1, 4) {
			l.u = rng.Pick(r, []uint64{math.MaxUint64, 1 << 63, 1<<63 + 1025, 18446744073709549568, 18446744073709550591})
		}
	default:
		l.z = v
	}
	return l
}

// a value the declared leaf type accepts
func (g *wGen) goodLeaf(t *typeDef) leaf {
	r := g.r
	if t.kind == "enum" {
		return rng.Pick(r, t.enumVals).val
	}
	switch t.scalarKind {
	case "int":
		switch r.Intn(6) {
		case 0:
			return leaf{kind: "f64", f: float64(r.Intn(1000) - 500)}
		case 1:
			return leaf{kind: "bool", b: r.Bool()}
		case 2:
			l := g.randomInt()
			return l
		}
		return leaf{kind: "int", ik: "int", z: rng.Pick(r, []int64{0, 1, -1, 42, 2147483647, -2147483648, int64(r.Intn(1000))})}
	case "float":
		switch r.Intn(5) {
		case 0:
			return g.randomInt()
		case 1:
			return leaf{kind: "f32", f: rng.Pick(r, []float64{0.5, -3, 16777216, 1e-3})}
		}
		return leaf{kind: "f64", f: rng.Pick(r, []float64{0, 1.5, -2.25, 3, 1e21, 1e-7, 0.1, 123456789.125, 1e300, 5e-324, math.Copysign(0, -1)})}
	case "string":
		return leaf{kind: "str", s: rng.Pick(r, []string{"", "a", "hello", "with \"quotes\" and \\", "<tag>&", "café ☃ \U0001F600", "line\nbreak\ttab\x01"})}
	case "boolean":
		return leaf{kind: "bool", b: r.Bool()}
	}
	// id
	if r.Bool() {
		return g.randomInt()
	}
	return leaf{kind: "str", s: rng.Pick(r, []string{"id1", "", "42"})}
}

type fragInfo struct {
	cond string
	sels []selInfo
}

// selInfo is the generator's own light view of the parsed document (names and nesting only).
type selInfo struct {
	kind string // field spread inline
	name string // field name / fragment name
	sub  []selInfo
}

// fieldsIn: every field (name -> sub-selections) reachable in sels through any fragment,
// regardless of type conditions and directives (an over-approximation of what may be executed).
func (g *wGen) fieldsIn(sels []selInfo, seen map[string]bool, acc map[string][]selInfo, order *[]string) {
	for _, s := range sels {
		switch s.kind {
		case "field":
			if _, ok := acc[s.name]; !ok {
				*order = append(*order, s.name)
				acc[s.name] = nil
			}
			acc[s.name] = append(acc[s.name], s.sub...)
		case "inline":
			g.fieldsIn(s.sub, seen, acc, order)
		case "spread":
			if !seen[s.name] {
				seen[s.name] = true
				g.fieldsIn(g.frags[s.name].sels, seen, acc, order)
			}
		}
	}
}

func (g *wGen) fail() bool { return g.r.Intn(100) < g.pFail }

// object value of concrete type ot for the given selections
func (g *wGen) object(ot string, sels []selInfo, depth int) *outcome {
	t := g.s.byName[ot]
	o := &outcome{kind: "obj", tag: ot, fields: map[string]*outcome{}}
	acc := map[string][]selInfo{}
	var order []string
	g.fieldsIn(sels, map[string]bool{}, acc, &order)
	for _, n := range order {
		f := t.field(n)
		if f == nil {
			continue
		}
		c := g.forType(f.ty, acc[n], depth, true)
		o.names = append(o.names, n)
		o.fields[n] = c
	}
	// sometimes one selected field has no outcome at all (the resolver then fails)
	if len(o.names) > 1 && g.r.Intn(100) < g.pFail/2 {
		i := g.r.Intn(len(o.names))
		delete(o.fields, o.names[i])
		o.names = append(o.names[:i], o.names[i+1:]...)
	}
	return o
}

func (g *wGen) forType(t *tyRef, sels []selInfo, depth int, resolver bool) *outcome {
	r := g.r
	if g.fail() {
		// a failure or a null, whatever the type
		switch x := r.Intn(10); {
		case x < 3:
			return &outcome{kind: "nil"}
		case x < 4:
			return &outcome{kind: "tnil"}
		case x < 7 && (resolver || r.Chance(1, 4)):
			// (inside a slice: an error value as an element, which is just a value of the wrong kind)
			return &outcome{kind: "err", valWithErr: r.Chance(1, 4)}
		case x < 9:
			return g.wrongKind(t, sels, depth)
		default:
			return &outcome{kind: "leaf", leaf: g.randomLeaf()}
		}
	}
	var o *outcome
	switch t.kind {
	case '!':
		return g.forType(t.inner, sels, depth, resolver)
	case 'l':
		n := r.Intn(4)
		if depth <= 0 && n > 1 {
			n = 1
		}
		o = &outcome{kind: "list", nilSlice: r.Chance(1, 3)}
		for i := 0; i < n; i++ {
			o.items = append(o.items, g.forType(t.inner, sels, depth-1, false))
		}
	default:
		nt := g.s.byName[t.name]
		if !nt.composite() {
			o = &outcome{kind: "leaf", leaf: g.goodLeaf(nt)}
		} else {
			ps := g.s.possible(t.name)
			if len(ps) == 0 {
				return &outcome{kind: "nil"}
			}
			o = g.object(rng.Pick(r, ps), sels, depth-1)
		}
	}
	o.nilErr = resolver && r.Chance(1, 10)
	return o
}

// a value of the wrong kind for t
func (g *wGen) wrongKind(t *tyRef, sels []selInfo, depth int) *outcome {
	r := g.r
	for t.kind == '!' {
		t = t.inner
	}
	if t.kind == 'l' {
		// not a slice
		if r.Bool() {
			return &outcome{kind: "leaf", leaf: g.randomLeaf()}
		}
		return g.anyObject(sels, depth)
	}
	nt := g.s.byName[t.name]
	if !nt.composite() {
		switch r.Intn(4) {
		case 0:
			return &outcome{kind: "list", items: []*outcome{{kind: "leaf", leaf: g.goodLeaf(nt)}}}
		case 1:
			return g.anyObject(sels, depth)
		}
		return &outcome{kind: "leaf", leaf: g.randomLeaf()}
	}
	// composite: an object of another (possibly impossible or unknown) type, a leaf, a list
	switch r.Intn(4) {
	case 0:
		return &outcome{kind: "leaf", leaf: g.randomLeaf()}
	case 1:
		return &outcome{kind: "list"}
	case 2:
		o := g.anyObject(sels, depth)
		o.tag = "Nope"
		return o
	}
	return g.anyObject(sels, depth)
}

func (g *wGen) anyObject(sels []selInfo, depth int) *outcome {
	var objs []string
	for _, t := range g.s.types {
		if t.kind == "object" {
			objs = append(objs, t.name)
		}
	}
	return g.object(rng.Pick(g.r, objs), sels, depth-1)
}
