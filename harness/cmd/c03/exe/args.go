// Field arguments and typed variables (C01 x C05).
//
// A resolver's answer depends on its coerced arguments: the object value stores the outcome of
// field f called with the argument map A under the key f + "\x00" + encArgs(A) (f itself when
// there are no arguments).  encArgs is the canonical text the Coq model computes from ITS coerced
// argument map (ExeA/ArgArgs.v, enc_gval): a disagreement about a coerced value is a different key.
package exe

import (
	"fmt"
	"math"
	"math/big"
	"sort"
	"strconv"
	"strings"

	"github.com/ccbrown/api-fu/graphql"
	"github.com/ccbrown/api-fu/graphql/ast"

	"verifharness/internal/rng"
	"verifharness/internal/sexp"
)

type argDef struct {
	name string
	ty   *tyRef
	def  interface{} // nil: no default
}

func encValue(v interface{}) string {
	switch v := v.(type) {
	case nil:
		return "n"
	case bool:
		if v {
			return "t"
		}
		return "f"
	case int:
		return "i" + strconv.Itoa(v) + ";"
	case float64:
		m, e := dyadicOf(v)
		return "d" + m.String() + "e" + strconv.Itoa(e) + ";"
	case string:
		return "s" + strconv.Itoa(len(v)) + ":" + v
	case []interface{}:
		out := "["
		for _, x := range v {
			out += encValue(x)
		}
		return out + "]"
	case map[string]interface{}:
		return "{" + encArgs(v) + "}"
	}
	return "?"
}

func encArgs(m map[string]interface{}) string {
	var ks []string
	for k := range m {
		ks = append(ks, k)
	}
	sort.Strings(ks)
	out := ""
	for _, k := range ks {
		out += strconv.Itoa(len(k)) + ":" + k + "=" + encValue(m[k])
	}
	return out
}

func fieldKey(name string, args map[string]interface{}) string {
	if len(args) == 0 {
		return name
	}
	return name + "\x00" + encArgs(args)
}

// dyadicOf: f = m * 2^e with m odd (or 0, 0)
func dyadicOf(f float64) (*big.Int, int) {
	if f == 0 || math.IsNaN(f) || math.IsInf(f, 0) {
		return big.NewInt(0), 0
	}
	fr, exp := math.Frexp(f)
	m := int64(fr * (1 << 53))
	e := exp - 53
	for m%2 == 0 {
		m /= 2
		e++
	}
	return big.NewInt(m), e
}

// ---- AST -> C05's encodings ----

func astTypeSexp(t ast.Type) sexp.Node {
	switch t := t.(type) {
	case *ast.NamedType:
		return sexp.T("named", sexp.Str(t.Name.Name))
	case *ast.ListType:
		return sexp.T("list", astTypeSexp(t.Type))
	case *ast.NonNullType:
		return sexp.T("nn", astTypeSexp(t.Type))
	}
	panic("harness: unknown ast type")
}

func tyRefSexp(t *tyRef) sexp.Node {
	switch t.kind {
	case 'n':
		return sexp.T("named", sexp.Str(t.name))
	case 'l':
		return sexp.T("list", tyRefSexp(t.inner))
	}
	return sexp.T("nn", tyRefSexp(t.inner))
}

// decimal text -> m * 10^k
func decimalSexp(s string) sexp.Node {
	mant, exp := s, 0
	if i := strings.IndexAny(s, "eE"); i >= 0 {
		mant = s[:i]
		exp, _ = strconv.Atoi(s[i+1:])
	}
	if i := strings.Index(mant, "."); i >= 0 {
		exp -= len(mant) - i - 1
		mant = mant[:i] + mant[i+1:]
	}
	m, ok := new(big.Int).SetString(mant, 10)
	if !ok {
		panic("harness: bad decimal " + s)
	}
	return sexp.T("float", sexp.Big(m), sexp.Int(exp))
}

func astValueSexp(v ast.Value) sexp.Node {
	switch v := v.(type) {
	case *ast.Variable:
		return sexp.T("var", sexp.Str(v.Name.Name))
	case *ast.IntValue:
		m, _ := new(big.Int).SetString(v.Value, 10)
		return sexp.T("int", sexp.Big(m))
	case *ast.FloatValue:
		return decimalSexp(v.Value)
	case *ast.StringValue:
		return sexp.T("str", sexp.Str(v.Value))
	case *ast.BooleanValue:
		return sexp.T("bool", sexp.Bool(v.Value))
	case *ast.NullValue:
		return sexp.Sym("null")
	case *ast.EnumValue:
		return sexp.T("enum", sexp.Str(v.Value))
	case *ast.ListValue:
		var l []sexp.Node
		for _, x := range v.Values {
			l = append(l, astValueSexp(x))
		}
		return sexp.T("list", l...)
	case *ast.ObjectValue:
		var l []sexp.Node
		for _, f := range v.Fields {
			l = append(l, sexp.L(sexp.Str(f.Name.Name), astValueSexp(f.Value)))
		}
		return sexp.T("obj", l...)
	}
	panic("harness: unknown ast value")
}

// Go value of a schema default / a raw variable -> C05's gval / jval
func gvalSexp(v interface{}) sexp.Node {
	switch v := v.(type) {
	case nil:
		return sexp.Sym("nil")
	case bool:
		return sexp.T("bool", sexp.Bool(v))
	case int:
		return sexp.T("int", sexp.Int(v))
	case float64:
		m, e := dyadicOf(v)
		return sexp.T("float", sexp.Big(m), sexp.Int(e))
	case string:
		return sexp.T("str", sexp.Str(v))
	case []interface{}:
		var l []sexp.Node
		for _, x := range v {
			l = append(l, gvalSexp(x))
		}
		return sexp.T("list", l...)
	}
	panic(fmt.Sprintf("harness: default value %T", v))
}

func jvalSexp(v interface{}) sexp.Node {
	switch v := v.(type) {
	case nil:
		return sexp.Sym("null")
	case bool:
		return sexp.T("bool", sexp.Bool(v))
	case int:
		return sexp.T("int", sexp.Int(v))
	case float64:
		m, e := dyadicOf(v)
		return sexp.T("num", sexp.Big(m), sexp.Int(e))
	case string:
		return sexp.T("str", sexp.Str(v))
	case []interface{}:
		var l []sexp.Node
		for _, x := range v {
			l = append(l, jvalSexp(x))
		}
		return sexp.T("list", l...)
	}
	return sexp.Sym("other")
}

func varsSexp(vars map[string]interface{}) sexp.Node {
	var ks []string
	for k := range vars {
		ks = append(ks, k)
	}
	sort.Strings(ks)
	var l []sexp.Node
	for _, k := range ks {
		l = append(l, sexp.L(sexp.Str(k), jvalSexp(vars[k])))
	}
	return sexp.T("vars", l...)
}

// the input types of the schema in C05's encoding, and the argument definitions by object type
func inputsSexp(s *schemaDef) (sexp.Node, sexp.Node) {
	ins := []sexp.Node{}
	for _, k := range [][2]string{{"Boolean", "boolean"}, {"Float", "float"}, {"ID", "id"}, {"Int", "int"}, {"String", "string"}} {
		ins = append(ins, sexp.L(sexp.Str(k[0]), sexp.T("scalar", sexp.Sym(k[1]))))
	}
	ads := []sexp.Node{}
	for _, t := range s.types {
		if t.kind != "object" {
			continue
		}
		fs := []sexp.Node{sexp.Str(t.name)}
		for _, f := range t.fields {
			if len(t.fargs[f.name]) == 0 {
				continue
			}
			l := []sexp.Node{sexp.Str(f.name)}
			for _, a := range t.fargs[f.name] {
				d := sexp.None()
				if a.def != nil {
					d = sexp.Some(gvalSexp(a.def))
				}
				l = append(l, sexp.L(sexp.Str(a.name), tyRefSexp(a.ty), d))
			}
			fs = append(fs, sexp.L(l...))
		}
		if len(fs) > 1 {
			ads = append(ads, sexp.L(fs...))
		}
	}
	return sexp.T("inputs", ins...), sexp.T("argdefs", ads...)
}

func argumentDefinitions(args []argDef, mk func(*tyRef) graphql.Type) map[string]*graphql.InputValueDefinition {
	if len(args) == 0 {
		return nil
	}
	out := map[string]*graphql.InputValueDefinition{}
	for _, a := range args {
		out[a.name] = &graphql.InputValueDefinition{Type: mk(a.ty), DefaultValue: a.def}
	}
	return out
}

// ---- the argument family: a fixed schema whose fields take arguments, hand-written documents,
// every combination of a few raw variable values, and outcome tables that answer differently for
// different coerced arguments ----

type argDoc struct {
	text string
	vars []map[string]interface{}
}

func argSchema() *schemaDef {
	s := &schemaDef{byName: map[string]*typeDef{}, query: "Q"}
	for _, n := range [][2]string{{"Int", "int"}, {"Float", "float"}, {"String", "string"}, {"Boolean", "boolean"}, {"ID", "id"}} {
		s.add(&typeDef{name: n[0], kind: "scalar", scalarKind: n[1]})
	}
	q := &typeDef{name: "Q", kind: "object", fargs: map[string][]argDef{
		"f": {{"k", named("Int"), nil}},
		"g": {{"k", nonNull(named("Int")), nil}},
		"d": {{"s", named("String"), "dflt"}, {"b", named("Boolean"), nil}},
		"l": {{"xs", listOf(nonNull(named("Int"))), nil}, {"x", named("Float"), nil}},
		"o": {{"id", named("ID"), nil}},
	}}
	q.fields = []fieldDef{{"f", named("Int")}, {"g", nonNull(named("Int"))}, {"d", named("String")},
		{"l", listOf(named("Int"))}, {"o", named("O")}, {"plain", named("Int")}}
	s.add(q)
	s.add(&typeDef{name: "O", kind: "object", fields: []fieldDef{{"h", named("Int")}, {"plain", named("Int")}},
		fargs: map[string][]argDef{"h": {{"k", named("Int"), 5}}}})
	return s
}

// argFamilyParts: the schema, the documents (each with the raw variable values to try) and the
// outcome table of c01's argument family (copy of the body of argFamily without its runner)
func argFamilyParts() (*schemaDef, []argDoc, func(r *rng.R) *outcome) {
	s := argSchema()
	ints := []interface{}{1, 2, nil, 2147483648, 1.0, 1.5, "1", true}
	absent := struct{}{}
	var intVars []map[string]interface{}
	for _, v := range append(ints, interface{}(absent)) {
		m := map[string]interface{}{}
		if v != interface{}(absent) {
			m["n"] = v
		}
		intVars = append(intVars, m)
	}
	none := []map[string]interface{}{{}}
	docs := []argDoc{
		{`{a: f(k: 1) b: f(k: 2) c: f plain}`, none},
		{`{f(k: 1) f(k: 1)}`, none},
		{`{a: f(k: null) b: g(k: 2) c: g(k: 1)}`, none},
		{`query($n: Int) {f(k: $n) plain}`, intVars},
		{`query($n: Int = 2) {f(k: $n) g(k: $n) plain}`, intVars},
		{`query($n: Int!) {a: g(k: $n) b: f(k: $n)}`, intVars},
		{`query($n: Int = 1) {x: o(id: "a") {h(k: $n) plain} y: o(id: 7) {h} z: o {h(k: null)}}`, intVars},
		{`{a: d b: d(s: "x") c: d(s: null, b: true) e: d(b: false)}`, none},
		{`query($s: String = "x", $b: Boolean) {a: d(s: $s, b: $b) b: d(s: $s)}`,
			[]map[string]interface{}{{}, {"s": "y", "b": true}, {"s": nil}, {"b": nil}, {"s": 1}, {"b": "t"}}},
		{`{a: l(xs: [1, 2]) b: l(xs: 3) c: l(xs: [], x: 1.5) e: l(x: 2) g: l(x: 1e2)}`, none},
		{`query($xs: [Int!], $x: Float) {a: l(xs: $xs, x: $x) b: l(xs: [1, 2])}`,
			[]map[string]interface{}{{}, {"xs": []interface{}{1, 2}}, {"xs": 3}, {"xs": []interface{}{1, nil}}, {"x": 2}, {"x": 1.5}, {"x": "z"}, {"xs": nil, "x": nil}}},
	}
	// the outcome table: what the resolvers answer for the coerced argument maps the documents can produce
	tbl := func(r *rng.R) *outcome {
		root := &outcome{kind: "obj", tag: "Q", fields: map[string]*outcome{}}
		put := func(o *outcome, name string, args map[string]interface{}, v *outcome) {
			k := fieldKey(name, args)
			if _, ok := o.fields[k]; !ok {
				o.names = append(o.names, k)
			}
			o.fields[k] = v
		}
		pick := func(i int) *outcome {
			switch r.Intn(6) {
			case 0:
				return &outcome{kind: "nil"}
			case 1:
				return &outcome{kind: "err"}
			}
			return &outcome{kind: "leaf", leaf: leaf{kind: "int", ik: "int", z: int64(i)}}
		}
		for i, k := range []interface{}{1, 2, nil} {
			put(root, "f", map[string]interface{}{"k": k}, pick(10+i))
			put(root, "g", map[string]interface{}{"k": k}, pick(20+i))
		}
		put(root, "plain", nil, pick(1))
		for i, a := range []map[string]interface{}{{"s": "dflt"}, {"s": "x"}, {"s": nil, "b": true}, {"s": "dflt", "b": false}, {"s": "x", "b": nil},
			{"s": "y", "b": true}, {"s": "y"}, {"s": nil}, {"s": "dflt", "b": nil}} {
			put(root, "d", a, &outcome{kind: "leaf", leaf: leaf{kind: "str", s: fmt.Sprintf("d%d", i)}})
		}
		for i, a := range []map[string]interface{}{{"xs": []interface{}{1, 2}}, {"xs": []interface{}{3}}, {"xs": []interface{}{}, "x": 1.5},
			{"x": 2.0}, {"x": 100.0}, {"xs": []interface{}{1, 2}, "x": nil}, {"xs": nil, "x": nil}, {"x": 1.5}, {"xs": []interface{}{3}, "x": nil}} {
			put(root, "l", a, &outcome{kind: "list", items: []*outcome{pick(30 + i), pick(40 + i)}})
		}
		for _, a := range []map[string]interface{}{{"id": "a"}, {"id": "7"}, {"id": 7}} {
			o := &outcome{kind: "obj", tag: "O", fields: map[string]*outcome{}}
			for i, k := range []interface{}{1, 2, 5, nil} {
				put(o, "h", map[string]interface{}{"k": k}, pick(50+i))
			}
			put(o, "plain", nil, pick(2))
			put(root, "o", a, o)
		}
		return root
	}
	return s, docs, tbl
}
