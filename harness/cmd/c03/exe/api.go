package exe

// Exported entry points for harness/cmd/c03.  gen.go, outcome.go and encode.go are copies of
// harness/cmd/c01's generator, outcome trees and encoders (package renamed, runCase/main left
// out): the composed model of C03 is fed the same schema family, documents and resolver-outcome
// worlds, in the encodings Exe/ExecDecode.v reads.

import (

	"github.com/ccbrown/api-fu/graphql"
	"github.com/ccbrown/api-fu/graphql/ast"

	"verifharness/internal/rng"
	"verifharness/internal/sexp"
)

// Input is one generated request: schema description, document text, operation name, raw variable
// values; for the argument family the outcome table generator.
type Input struct {
	Schema *schemaDef
	Text   string
	OpName string
	Vars   map[string]interface{}
	PFail  int
	table  func(r *rng.R) *outcome
}

// Generate draws a schema, a document (valid by construction, or with selections validation
// refuses when hostile) and the failure rate of the outcome tree.
func Generate(r *rng.R, hostile bool) *Input {
	s := genSchema(r)
	d := genDocument(r, s, hostile)
	pFail := rng.Pick(r, []int{0, 3, 8, 8, 15, 15, 25, 40})
	return &Input{Schema: s, Text: d.text, OpName: d.opName, Vars: d.vars, PFail: pFail}
}

// GenerateArgs draws a request of c01's argument family: fields with arguments (defaults, required,
// lists), typed variables, raw variable values of the right and of the wrong kind.
// documents added to c01's argument family here: an argument given as a variable that has no
// value (and no default of its own) takes the ARGUMENT's default, or is left out when there is none
var extraArgDocs = []argDoc{
	{`query($s: String, $n: Int) {a: d(s: $s) b: o(id: "a") {h(k: $n)} c: f(k: $n) plain}`,
		[]map[string]interface{}{{}, {"s": "y"}, {"n": 2}, {"s": nil, "n": nil}, {"n": 1.0, "s": "x"}}},
	{`query($b: Boolean, $s: String) {a: d(b: $b) c: d(s: $s, b: $b) e: d(s: $s)}`,
		[]map[string]interface{}{{}, {"b": true}, {"b": nil}, {"s": "y", "b": true}, {"s": nil}}},
}

// several operations that share a fragment in which a variable is used and that declare the variable
// with different types (C03 round 8): every operation is asked for in turn, with values of each type
type opDoc struct {
	text string
	ops  []string
	vars []map[string]interface{}
}

var multiOpVals = []map[string]interface{}{{"v": true}, {"v": "yes"}, {"v": 1.0}, {"v": []interface{}{1.0}}, {}, {"v": nil}}

var multiOpDocs = []opDoc{
	{`query A($v: Boolean!) {...F} query B($v: String!) {d(s: $v) ...F} fragment F on Q {plain @skip(if: $v)}`, []string{"A", "B"}, multiOpVals},
	{`query B($v: String!) {d(s: $v) ...F} query A($v: Boolean!) {...F} fragment F on Q {plain @skip(if: $v)}`, []string{"A", "B"}, multiOpVals},
	{`query A($v: Int) {...F} query B($v: String) {...F} fragment F on Q {f(k: $v)}`, []string{"A", "B"}, multiOpVals},
	{`query A($v: String) {...F} query B($v: Boolean) {...F} fragment F on Q {a: d(s: $v)}`, []string{"A", "B"}, multiOpVals},
	{`query A($v: Boolean!) {...F} query B($v: Int!) {g(k: $v) ...F} query C($v: Boolean!) {...G} fragment F on Q {...G plain} fragment G on Q {a: plain @include(if: $v) f(k: 1)}`,
		[]string{"A", "B", "C"}, multiOpVals},
	{`query A($v: [Int!]) {...F} query B($v: Boolean) {...F} fragment F on Q {l(xs: $v)}`, []string{"A", "B"}, multiOpVals},
	{`query A($v: Boolean) {...F} query B($v: Int = 1) {...F} fragment F on Q {x: o(id: "a") {h(k: $v)}}`, []string{"A", "B"}, multiOpVals},
	// accepted: the same type in every operation; a fragment that only one operation reaches
	{`query A($v: Boolean!) {...F} query B($v: Boolean!) {plain ...F} fragment F on Q {a: plain @skip(if: $v)}`, []string{"A", "B"}, multiOpVals},
	{`query A($v: Boolean!) {...F} query B($v: String) {d(s: $v)} fragment F on Q {a: plain @include(if: $v)}`, []string{"A", "B"}, multiOpVals},
}

// subscription documents over the argument family's schema, with the query type also registered
// as the subscription root (C03 only: graphql.Subscribe = source resolver of the single root field;
// graphql.Execute on such a document = execution of one event)
var subscriptionDocs = []argDoc{
	{`subscription {f(k: 1)}`, []map[string]interface{}{{}}},
	{`subscription {a: plain}`, []map[string]interface{}{{}}},
	// aliased root fields whose resolver has no outcome for these arguments: the error's path is the alias
	{`subscription {a: f(k: 3)}`, []map[string]interface{}{{}}},
	{`subscription {z: g(k: 7)}`, []map[string]interface{}{{}}},
	{`subscription($n: Int) {b: o(id: "zz") {h(k: $n)}}`, []map[string]interface{}{{}, {"n": 1}}},
	{`subscription($n: Int) {f(k: $n)}`, []map[string]interface{}{{}, {"n": 1}, {"n": 2}, {"n": nil}, {"n": "1"}, {"n": 1.5}}},
	{`subscription($n: Int!) {g(k: $n)}`, []map[string]interface{}{{}, {"n": 1}, {"n": 2}, {"n": nil}}},
	{`subscription($n: Int = 2) {g(k: $n)}`, []map[string]interface{}{{}, {"n": 1}, {"n": nil}}},
	{`subscription {o(id: "a") {h plain}}`, []map[string]interface{}{{}}},
	{`subscription {d(s: "x")}`, []map[string]interface{}{{}}},
	{`subscription {l(xs: [1, 2])}`, []map[string]interface{}{{}}},
	{`subscription {plain @skip(if: true)}`, []map[string]interface{}{{}}},
	{`subscription {plain @include(if: true)}`, []map[string]interface{}{{}}},
	{`subscription($b: Boolean!) {plain @include(if: $b)}`, []map[string]interface{}{{"b": true}, {"b": false}, {}}},
	{`subscription($b: Boolean = true) {plain @skip(if: $b)}`, []map[string]interface{}{{}, {"b": false}, {"b": nil}}},
	{`subscription {...F} fragment F on Q {d(s: "x")}`, []map[string]interface{}{{}}},
	{`subscription {...F @skip(if: true)} fragment F on Q {plain}`, []map[string]interface{}{{}}},
	{`subscription {... on Q {plain}}`, []map[string]interface{}{{}}},
	{`subscription {... @include(if: false) {plain}}`, []map[string]interface{}{{}}},
	{`subscription {__typename}`, []map[string]interface{}{{}}},
	{`subscription {plain f(k: 1)}`, []map[string]interface{}{{}}},
	{`subscription {plain plain}`, []map[string]interface{}{{}}},
	{`subscription {plain b: plain @skip(if: true)}`, []map[string]interface{}{{}}},
	{`query {plain}`, []map[string]interface{}{{}}},
	{`{f(k: 2)}`, []map[string]interface{}{{}}},
	{`subscription A {plain} subscription B {f(k: 1)}`, []map[string]interface{}{{}}},
	{`subscription A {plain} query B {f(k: 1)}`, []map[string]interface{}{{}}},
	{`subscription {zz}`, []map[string]interface{}{{}}},
	{`subscription {plain {zz}}`, []map[string]interface{}{{}}},
}

// GenerateSubscription draws a subscription request over the argument family's schema.
func GenerateSubscription(r *rng.R) *Input {
	s, _, tbl := argFamilyParts()
	s.subscription = s.query
	d := subscriptionDocs[r.Intn(len(subscriptionDocs))]
	vars := d.vars[r.Intn(len(d.vars))]
	return &Input{Schema: s, Text: d.text, OpName: rng.Pick(r, []string{"", "", "", "", "", "", "A", "B", "C"}), Vars: vars, table: tbl}
}

func GenerateArgs(r *rng.R) *Input {
	s, docs, tbl := argFamilyParts()
	docs = append(docs, extraArgDocs...)
	if r.Chance(1, 5) {
		d := multiOpDocs[r.Intn(len(multiOpDocs))]
		return &Input{Schema: s, Text: d.text, OpName: d.ops[r.Intn(len(d.ops))], Vars: d.vars[r.Intn(len(d.vars))], table: tbl}
	}
	d := docs[r.Intn(len(docs))]
	vars := d.vars[r.Intn(len(d.vars))]
	return &Input{Schema: s, Text: d.text, Vars: vars, table: tbl}
}

// Build makes the real schema whose resolvers answer from the outcome tree handed to Execute as
// InitialValue.
func (in *Input) Build() (*graphql.Schema, error) {
	s, err := buildSchema(in.Schema)
	if err != nil {
		return nil, err
	}
	// cost functions, for the cost rule (Execute does not read them): a field whose type is a list
	// (under any non-null wrapper) costs 2 and multiplies the cost of what is selected beneath it
	// by 3; every other field has the default cost.  Pipe/CostCompose.v [list_cost] says the same.
	for _, t := range s.NamedTypes() {
		var fields map[string]*graphql.FieldDefinition
		switch t := t.(type) {
		case *graphql.ObjectType:
			fields = t.Fields
		case *graphql.InterfaceType:
			fields = t.Fields
		}
		for _, f := range fields {
			ft := f.Type
			if nn, ok := ft.(*graphql.NonNullType); ok {
				ft = nn.Type
			}
			if _, ok := ft.(*graphql.ListType); ok {
				f.Cost = func(graphql.FieldCostContext) graphql.FieldCost { return graphql.FieldCost{Resolver: 2, Multiplier: 3} }
			}
		}
	}
	return s, nil
}

// SchemaSexp is the schema in the encoding of Exe/ExecDecode.v.
func (in *Input) SchemaSexp() sexp.Node { return schemaSexp(in.Schema) }

// ScalarKinds: name -> built-in coercion ("int", "float", "string", "boolean", "id") of every
// scalar of the schema (the renamed copies S1, S2, ... included).
func (in *Input) ScalarKinds() map[string]string {
	out := map[string]string{}
	for _, t := range in.Schema.types {
		if t.kind == "scalar" {
			out[t.name] = t.scalarKind
		}
	}
	return out
}

// Vocabulary: the names of the schema (types, fields, enum values), for name-level mutations.
func (in *Input) Vocabulary() []string {
	seen := map[string]bool{}
	var out []string
	add := func(s string) {
		if !seen[s] {
			seen[s] = true
			out = append(out, s)
		}
	}
	for _, t := range in.Schema.types {
		add(t.name)
		for _, f := range t.fields {
			add(f.name)
		}
		for _, v := range t.enumVals {
			add(v.name)
		}
	}
	return out
}

// VarsSexp encodes raw variable values (Request.VariableValues) as Val/Values.v jval.
func VarsSexp(vars map[string]interface{}) sexp.Node { return varsSexp(vars) }

// World is a resolver-outcome tree.
type World struct{ o *outcome }

func (w *World) Sexp() sexp.Node    { return w.o.sexp() }
func (w *World) Value() interface{} { return w.o.value() }

// NewWorld draws the outcome tree for the operation of doc that opName selects (the first one
// when none does), the way c01 does after parsing.
func (in *Input) NewWorld(r *rng.R, doc *ast.Document) *World {
	if in.table != nil {
		return &World{in.table(r)}
	}
	p := docSexp(doc, in.OpName)
	g := &wGen{s: in.Schema, r: r, pFail: in.PFail, frags: p.frags}
	root := in.Schema.query
	if p.kind == "mutation" && in.Schema.mutation != "" {
		root = in.Schema.mutation
	}
	return &World{g.object(root, p.opSels, 3)}
}

// Observe encodes Response.Data (ordered JSON) and Errors[].Path/.Locations.
func Observe(resp *graphql.Response) sexp.Node { return observe(resp) }

// ---- asynchronous resolvers (C03 only) ----

// AsyncHook, when set, receives every resolver answer of the generated schemas and may hand it
// back wrapped in a promise.
var AsyncHook func(v interface{}, err error) (interface{}, error)

// Scheduler turns about half of the resolver answers into promises and is the request's idle
// handler: every idle round fulfils at least one outstanding promise (all of them in order, the
// newest one, or a random one — fixed per case).
type Scheduler struct {
	r       *rng.R
	mode    int
	pending []func()
	Rounds  int
}

func NewScheduler(r *rng.R) *Scheduler { return &Scheduler{r: r, mode: r.Intn(3)} }

func (s *Scheduler) Hook(v interface{}, err error) (interface{}, error) {
	if !s.r.Chance(1, 2) {
		return v, err
	}
	ch := make(graphql.ResolvePromise, 1)
	s.pending = append(s.pending, func() { ch <- graphql.ResolveResult{Value: v, Error: err} })
	return ch, nil
}

func (s *Scheduler) Idle() {
	s.Rounds++
	if len(s.pending) == 0 {
		panic("harness: idle handler called without outstanding promise")
	}
	switch s.mode {
	case 0:
		p := s.pending
		s.pending = nil
		for _, f := range p {
			f()
		}
	case 1:
		f := s.pending[len(s.pending)-1]
		s.pending = s.pending[:len(s.pending)-1]
		f()
	default:
		i := s.r.Intn(len(s.pending))
		f := s.pending[i]
		s.pending = append(s.pending[:i], s.pending[i+1:]...)
		f()
	}
}
