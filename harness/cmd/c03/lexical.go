// Lexical corner families (copies of the lists of harness/cmd/c07: regression inputs, look-alike
// white space and characters, \uXXXX boundaries, block strings whose lines are blank), placed at
// every kind of position a request text offers: C03 is the property that must see every crash,
// whichever stage it starts in.  Low volume in the quick tier (each item at one position, by
// rotation), everything at every position in the thorough tier.
package main

import (
	"fmt"
	"strings"
)

const (
	bom   = "\xef\xbb\xbf"
	eAcc  = "\xc3\xa9"         // U+00E9
	fffd  = "\xef\xbf\xbd"     // U+FFFD, correctly encoded
	u1000 = "\xf0\x90\x80\x80" // U+10000
)

// block strings all of whose lines are blank: empty, spaces, tabs, line terminators of every kind
var blankBlockContents = []string{"", " ", "   ", "\t", " \t ", "\n", "\n\n", "\n\n\n", "\r", "\r\r", "\r\n", "\r\n\r\n", "\n\r", " \n ", "\t\n\t", " \r\n ",
	"\n \n\t\n", "\r\r\n\n", "  \n\n  ", "\n  ", "  \n", " \n\t\r\n  \r "}

var lexRegress = []string{
	"",
	// defects (checks/C07.findings.txt)
	`"""\\"""`, "\"a" + fffd + "b\" x", fffd + "a", "#\x00\n", "#" + u1000, "\"\"\"a\\\x00b\"\"\"", "1e", "123ex", "1.5e x", "1e+", "0e", "1.0E",
	"\"\"\"\n    a\n  \n    b\n\"\"\"", "\"\x80\"", "#\x80", "a" + bom + "b", bom + "a", bom + bom, "\"" + bom + "\"#" + bom,
	`"\uD800"`, `"\uDFFF\uD7FF\uE000"`, `"\uD83D\uDE00"`,
	// scanner_test.go
	"{\nnode(id: \"foo\") {\r\n...frag}\r}", "{\xf0\x9f\x98\x83}", "\xc3\x28", ".foo", "..foo", `"simple"`, `" white space "`, `"quote \""`,
	`"escaped \n\r\b\t\f"`, `"slashes \\ \/"`, `"unicode \u1234\u5678\u90AB\uCDEF"`, `"""simple"""`, `""" white space """`,
	`"""contains " quote"""`, `"""contains \""" triplequote"""`, "\"\"\"multi\nline\"\"\"", "\"\"\"multi\rline\r\nnormalized\"\"\"",
	`"""unescaped \n\r\b\t\f\u1234"""`, `"""slashes \\ \/"""`, "\"\"\"\n\n          spans\n            multiple\n              lines\n\n          \"\"\"",
	`"""trailing triplequote \""""""`, `"\x"`, `"\ufooo"`, "\"foo\n\"", "\"\xf0\x9f\x91\xbe\"", "4", "-4", "9", "0", "4.123", "-4.123", "0.123", "123e4", "123E4",
	"123e-4", "123e+4", "-123E4", "-123e-4", "-123e+4", "-123e4567", "foo" + bom, "{\n node {\n  #foo\n },\n}", "{ foo } # bar",
	// corners of the grammar
	`""`, `"""`, `""""`, `"""""`, `""""""`, `"""""""`, `""" "`, `"" ""`, `"\`, `"""\`, `"""\"`, `"""\""`, `"""\""""""`, `"\u`, `"\u12`, `"\u123"`, `"\u12345"`,
	"00", "01", "-", "-a", "--1", "-0", "-01", "0.", "0.e1", "1.2.3", "1..2", "1...2", "1e5e5", "1e5.5", "0x1", "1_000", "1a", "a1", "_", "__typename", "\xc3\xa9", "a\xc3\xa9",
	".", "..", "...", "....", "......", ".1", "\r\n", "\r\r\n", "\n\r", "\r", "a\r\nb\rc\nd", "#\r\n#", "#a\rb", "# \t,", "&", "%", "+1", "~", "\t", "\x0b", "\x7f", "\x1f",
	"\"\r\n\"", "\"\"\"\r\n\"\"\"", "\"\"\"a\r\"\"\"", "\"\"\"\\\r\n\"\"\"", "\"\"\" \n \"\"\"", "\"\"\"\n\"\"\"", "\"\"\"\t\n\ta\n \tb\"\"\"", "\"\"\"a\n  b\n c\"\"\"",
	"\"\"\"  a\n  b\"\"\"", "\"\"\"\n  a\n\n  b\n\"\"\"", "\"\"\"\n  a\n \n  b\n\"\"\"", "\"\"\"\n\ta\n \n\tb\"\"\"", "\"\"\"" + eAcc + "\n " + eAcc + "\"\"\"",
	"\xed\xa0\x80", "\xf4\x90\x80\x80", "\xc0\x80", "\xe0\x80\x80", "\xf0\x80\x80\x80", "\xef\xbf\xbe", "\xef\xbf\xbf", "\xf4\x8f\xbf\xbf", "\xe2\x80\xa8", "\xc2\x80", "\xc3", "\xe2\x82", "\xf0\x9f\x98",
	"\"\xef\xbf\xbf\"", "\"\xe2\x80\xa8\"", "\"\xc2\x85\"", "#\xc2\x85", "\"\xc3\"", "\"\xed\xa0\x80\"",
}

var lexTerms = []string{"\n", "\r", "\r\n"}

var spaceLike = []string{"\x0b", "\x0c", "\u0085", "\u00a0", "\u1680", "\u2000", "\u2001", "\u2002", "\u2003", "\u2004", "\u2005", "\u2006",
	"\u2007", "\u2008", "\u2009", "\u200a", "\u2028", "\u2029", "\u202f", "\u205f", "\u3000", bom, "\u200b", "\u180e", "\x1c", "\x1f"}

var otherLike = []string{"\u0661", "\uff11", "\u00b2", "\u2160", // digits / numerals
	"\u00e9", "\u212a", "\u017f", "\uff21", "\u0430", "\uff3f", "\u203f", // letters (Kelvin sign, long s, fullwidth A, Cyrillic a), underscores
	"\uff0c", "\u201a", "\u060c", // commas
	"\u201c", "\u201d", "\uff02", "\u2033", // quotes
	"\uff01", "\uff5b", "\uff5d", "\u2026", "\uff0e", "\u2212", "\uff0d", "\uff03", "\uff3c"} // ! { } ellipsis . minus - # backslash

func lookalikeContexts(w string) []string {
	return []string{
		w, w + w, "a" + w + "b", "a" + w, w + "a", "1" + w + "2", "1" + w, w + "1", "-" + w + "1", "1." + w + "5", "1.5" + w, "1e" + w + "5", "1e5" + w,
		" " + w + " ", "a " + w + " b", "a," + w + ",b", "{" + w + "}", "..." + w, "." + w + "..", w + "...",
		"a" + w + "\nb", "a\n" + w + "\nb c", "a" + w + "\r\nb", w + "\n" + w + "a",
		"#c" + w + "d", "#c" + w + "d\ne", "#" + w + "\r" + w + "x", "#" + w,
		`"x` + w + `y"`, `"x` + w + `y" z`, `"` + w + `"`, `"x` + w, `"\` + w + `"`, `"\u00` + w + `41"`, `"\u` + w + `0041"`,
		`"""x` + w + `y"""`, `"""` + w + `"""`, `""` + w + `"`, `"` + w + `""`, `"""a\` + w + `"""`,
		bom + w + "a", w + bom, "a" + w + ",", "," + w + ",",
	}
}

func hostileBlockFamily(w, t string) []string {
	q := `"""`
	return []string{
		q + w + t + "a" + q,                         // first line only w
		q + "a" + t + w + q,                         // last line only w
		q + w + t + "a" + t + w + q,                 // both
		q + t + w + t + "a" + t + w + t + q,         // w lines inside leading / trailing blank lines
		q + " " + w + t + " a" + t + w + " " + q,    // w with real white space around it
		q + w + " " + t + "  a" + t + "\t" + w + q,  // the other way round
		q + "a" + t + w + t + "b" + q,               // inner line only w
		q + "a" + t + "  b" + t + w + t + "  c" + q, // inner w line shorter than the common indent
		q + "a" + t + "  b" + t + "  " + w + t + "  c" + q,
		q + "a" + t + w + "b" + t + w + "c" + q,   // w as indentation
		q + "a" + t + w + " b" + t + w + " c" + q, // w then space as indentation
		q + "a" + t + " " + w + "b" + t + " " + w + "c" + q,
		q + "a" + t + "  b" + t + " " + w + "c" + q, // w inside what would be the common indent
		q + "a" + w + t + "b" + w + q,               // w at line ends
		q + "a" + w + t + " " + q,                   // w before a blank last line
		q + t + w + "a" + t + q,
		q + w + q, q + w + w + q, q + " " + w + q, q + w + " " + q, q + t + w + q, q + w + t + q, q + w + t + w + q,
		q + "a" + w + "b" + q, // w as a would-be line terminator
		q + "  a" + w + "  b" + t + "  c" + q,
		q + w + "  a" + t + "  b" + q,
	}
}

// words over a small alphabet, for the exhaustive block-string family
func lexWords(a []string, upto int) []string {
	out := []string{""}
	level := []string{""}
	for n := 1; n <= upto; n++ {
		var next []string
		for _, w := range level {
			for _, c := range a {
				next = append(next, w+c)
			}
		}
		out = append(out, next...)
		level = next
	}
	return out
}

// the positions of a request text a lexical item can stand at
var lexPlaces = []string{"argument", "default", "directive", "description", "selection", "document", "objfield", "listitem"}

func lexPlace(place, item string) string {
	switch place {
	case "argument":
		return "{inp(s:" + item + ")}"
	case "default":
		return "query($x:String=" + item + "){inp(s:$x)}"
	case "directive":
		return "{i @custom(n:" + item + ")}"
	case "description": // where a type system document has descriptions: before a definition, a field
		return item + " query Q{" + item + " i}"
	case "selection":
		return "{i " + item + " s}"
	case "objfield":
		return "{inp(in:{b:" + item + " a:1})}"
	case "listitem":
		return "{inp(l:[[1 " + item + "]])}"
	}
	return item
}

type lexCase struct{ place, item, family string }

// lexicalCases: every family; in the quick tier each item stands at one position (rotating), and
// the two large look-alike families are sampled
func lexicalCases(thorough bool) []lexCase {
	var out []lexCase
	k := 0
	add := func(family, item string, everywhere bool) {
		if everywhere || thorough {
			for _, p := range lexPlaces {
				out = append(out, lexCase{p, item, family})
			}
			return
		}
		out = append(out, lexCase{lexPlaces[k%len(lexPlaces)], item, family})
		k++
	}
	// blank block strings, terminated and not: at every position in both tiers
	for _, c := range blankBlockContents {
		add("blank-block", `"""`+c+`"""`, true)
		add("blank-block", `"""`+c, false)
	}
	for _, w := range lexWords([]string{`"`, `\`, " ", "\n", "\r", "a"}, map[bool]int{false: 3, true: 4}[thorough]) {
		add("block-words", `"""`+w+`"""`, false)
		if thorough {
			add("block-words", `"""`+w, false)
		}
	}
	for _, s := range lexRegress {
		add("regress", s, false)
	}
	for _, v := range []int{0, 1, 9, 0x1f, 0x20, 0x22, 0x5c, 0x7f, 0x80, 0x7ff, 0x800, 0xd7ff, 0xd800, 0xdbff, 0xdc00, 0xdfff, 0xe000, 0xfeff, 0xfffd, 0xfffe, 0xffff} {
		h := fmt.Sprintf("%04x", v)
		for _, s := range []string{`"\u` + h + `"`, `"a\u` + h + `b"`, `"\u` + h + `\u` + strings.ToUpper(h) + `"`, `"""\u` + h + `"""`} {
			add("unicode-escape", s, false)
		}
	}
	for i, w := range append(append([]string{}, spaceLike...), otherLike...) {
		for j, s := range lookalikeContexts(w) {
			if thorough || (i+j)%7 == 0 {
				add("look-alike", s, false)
			}
		}
	}
	n := 0
	for _, w := range spaceLike {
		for _, t := range lexTerms {
			for _, s := range hostileBlockFamily(w, t) {
				if thorough || n%5 == 0 {
					add("look-alike-block", s, false)
				}
				n++
			}
		}
	}
	return out
}
