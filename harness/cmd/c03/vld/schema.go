// Package vld: the real *schema.Schema in the encoding Vld/Decode.v reads (copy of the encoder
// part of harness/cmd/c04/schema.go: [schemaSexp] and what it calls; the scalar table is handed in
// by the caller instead of being a package variable).
package vld

import (
	"sort"
	"strings"

	"github.com/ccbrown/api-fu/graphql/schema"
	"github.com/ccbrown/api-fu/graphql/schema/introspection"

	"verifharness/internal/sexp"
)

func sortedKeys[V any](m map[string]V) []string {
	ks := make([]string, 0, len(m))
	for k := range m {
		ks = append(ks, k)
	}
	sort.Strings(ks)
	return ks
}

func typeSexp(t schema.Type) sexp.Node {
	switch t := t.(type) {
	case *schema.ListType:
		return sexp.T("l", typeSexp(t.Type))
	case *schema.NonNullType:
		return sexp.T("nn", typeSexp(t.Type))
	case schema.NamedType:
		return sexp.T("n", sexp.Str(t.TypeName()))
	}
	panic("typeSexp")
}

func featSexp(f schema.FeatureSet) sexp.Node {
	var out []sexp.Node
	for _, k := range sortedKeys(f) {
		out = append(out, sexp.Str(k))
	}
	return sexp.L(out...)
}

func inputDefsSexp(m map[string]*schema.InputValueDefinition) sexp.Node {
	var out []sexp.Node
	for _, k := range sortedKeys(m) {
		d := m[k]
		df := "value"
		if d.DefaultValue == nil {
			df = "none"
		} else if d.DefaultValue == schema.Null {
			df = "null"
		}
		out = append(out, sexp.L(sexp.Str(k), typeSexp(d.Type), sexp.Sym(df)))
	}
	return sexp.L(out...)
}

func fieldDefSexp(name string, f *schema.FieldDefinition) sexp.Node {
	return sexp.L(sexp.Str(name), typeSexp(f.Type), inputDefsSexp(f.Arguments), featSexp(f.RequiredFeatures))
}

func fieldsSexp(m map[string]*schema.FieldDefinition) sexp.Node {
	var out []sexp.Node
	for _, k := range sortedKeys(m) {
		out = append(out, fieldDefSexp(k, m[k]))
	}
	return sexp.L(out...)
}

type encoder struct {
	// name -> "int" | "float" | "string" | "boolean" | "id": scalars that are renamed copies of a
	// built-in (same LiteralCoercion); "custom:<kind>": a scalar accepting literals of one kind
	scalarKinds map[string]string
}

func (e *encoder) scalarSexp(t *schema.ScalarType) sexp.Node {
	switch t {
	case schema.IntType:
		return sexp.Sym("int")
	case schema.FloatType:
		return sexp.Sym("float")
	case schema.StringType:
		return sexp.Sym("string")
	case schema.BooleanType:
		return sexp.Sym("boolean")
	case schema.IDType:
		return sexp.Sym("id")
	}
	if k, ok := e.scalarKinds[t.Name]; ok {
		if strings.HasPrefix(k, "custom:") {
			// LiteralCoercion accepts (at most) literals of this kind
			return sexp.T("custom", sexp.Sym(strings.TrimPrefix(k, "custom:")))
		}
		return sexp.Sym(k)
	}
	panic("unknown scalar " + t.Name)
}

func (e *encoder) namedTypeSexp(t schema.NamedType) sexp.Node {
	var body sexp.Node
	switch t := t.(type) {
	case *schema.ScalarType:
		body = sexp.T("scalar", e.scalarSexp(t))
	case *schema.EnumType:
		var vs []sexp.Node
		for _, k := range sortedKeys(t.Values) {
			vs = append(vs, sexp.Str(k))
		}
		body = sexp.T("enum", sexp.L(vs...))
	case *schema.InputObjectType:
		body = sexp.T("input", inputDefsSexp(t.Fields))
	case *schema.ObjectType:
		var is []sexp.Node
		for _, i := range t.ImplementedInterfaces {
			is = append(is, sexp.Str(i.Name))
		}
		body = sexp.T("object", fieldsSexp(t.Fields), sexp.L(is...))
	case *schema.InterfaceType:
		body = sexp.T("interface", fieldsSexp(t.Fields))
	case *schema.UnionType:
		var ms []sexp.Node
		for _, m := range t.MemberTypes {
			ms = append(ms, sexp.Str(m.Name))
		}
		body = sexp.T("union", sexp.L(ms...))
	default:
		panic("named type")
	}
	return sexp.L(sexp.Str(t.TypeName()), featSexp(t.TypeRequiredFeatures()), body)
}

func optName(t *schema.ObjectType) sexp.Node {
	if t == nil {
		return sexp.None()
	}
	return sexp.Some(sexp.Str(t.Name))
}

// SchemaSexp walks the real schema.  scalarKinds names the built-in whose coercions each
// non-built-in scalar of the schema copies.
func SchemaSexp(s *schema.Schema, scalarKinds map[string]string) sexp.Node {
	e := &encoder{scalarKinds: scalarKinds}
	var types []sexp.Node
	for _, n := range sortedKeys(s.NamedTypes()) {
		types = append(types, e.namedTypeSexp(s.NamedTypes()[n]))
	}
	for _, n := range sortedKeys(introspection.NamedTypes) {
		types = append(types, e.namedTypeSexp(introspection.NamedTypes[n]))
	}
	var dirs []sexp.Node
	for _, n := range sortedKeys(s.Directives()) {
		d := s.Directives()[n]
		var locs []sexp.Node
		for _, l := range d.Locations {
			locs = append(locs, sexp.Sym(string(l)))
		}
		dirs = append(dirs, sexp.L(sexp.Str(n), inputDefsSexp(d.Arguments), sexp.L(locs...)))
	}
	var meta []sexp.Node
	for _, n := range sortedKeys(introspection.MetaFields) {
		meta = append(meta, fieldDefSexp(n, introspection.MetaFields[n]))
	}
	var impls []sexp.Node
	for _, n := range sortedKeys(s.NamedTypes()) {
		if _, ok := s.NamedTypes()[n].(*schema.InterfaceType); ok {
			var os []sexp.Node
			for _, o := range s.InterfaceImplementations(n) {
				os = append(os, sexp.Str(o.Name))
			}
			impls = append(impls, sexp.L(sexp.Str(n), sexp.L(os...)))
		}
	}
	return sexp.T("schema",
		sexp.T("types", sexp.L(types...)),
		sexp.T("query", sexp.Str(s.QueryType().Name)),
		sexp.T("mutation", optName(s.MutationType())),
		sexp.T("subscription", optName(s.SubscriptionType())),
		sexp.T("directives", sexp.L(dirs...)),
		sexp.T("meta", sexp.L(meta...)),
		sexp.T("impls", sexp.L(impls...)))
}
