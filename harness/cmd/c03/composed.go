// The "composed" stream: requests that fit the common envelope of the stage models (C06/C07
// front end from bytes, C04 validator, C01 synchronous executor), so that the composed model
// Pipe/Compose.v can be run on the very bytes and compared with graphql.Execute.
//
// Envelope: schemas of c01's families (objects, interfaces, unions, enums, the five built-in scalars
// and renamed copies; the argument family: fields with arguments, defaults, required and list
// arguments, typed variables; no input objects, no subscriptions, no feature gates); resolvers that answer
// from a finite outcome tree handed in as Request.InitialValue; the request TEXT is anything (the
// generated document, with selections validation refuses, with names replaced, with token-level or
// byte-level damage); the raw variable values (Request.VariableValues) go to the model as they are:
// variable and argument coercion are inside the composed model (C05's model through C01's).
package main

import (
	"context"
	"fmt"
	"regexp"
	"sort"
	"strings"

	"github.com/ccbrown/api-fu/graphql"
	"github.com/ccbrown/api-fu/graphql/ast"
	"github.com/ccbrown/api-fu/graphql/parser"
	"github.com/ccbrown/api-fu/graphql/validator"

	"verifharness/cmd/c03/exe"
	"verifharness/cmd/c03/vld"
	"verifharness/internal/rng"
	"verifharness/internal/sexp"
)

var composedKinds = []string{"plain", "args", "hostile", "renamed", "args-renamed", "mutated", "raw", "vars", "args-vars", "args-lexical", "sub", "sub", "sub-renamed", "sub-vars", "async", "args-async", "async", "async"}

var quotedLiteral = regexp.MustCompile(`"[^"\n]*"`)

// the lexical items that are (meant as) string values
func lexStrings() []string {
	var out []string
	for _, c := range blankBlockContents {
		out = append(out, `"""`+c+`"""`)
	}
	for _, s := range lexRegress {
		if strings.HasPrefix(s, `"`) {
			out = append(out, s)
		}
	}
	for _, w := range []string{"\u00a0", "\u2028", bom, "\x0b", "\u0085"} {
		out = append(out, hostileBlockFamily(w, "\n")...)
	}
	return out
}

var lexStringItems = lexStrings()

var composedWords = []string{"__typename", "__schema", "__type", "name", "kind", "queryType", "query", "mutation", "subscription", "fragment", "on",
	"skip", "include", "if", "true", "false", "null", "Boolean", "Int", "String", "$v0", "$v1", "$v2", "Main", "X1", "F1", "F2", "CY", "y_f0", "zt", "m"}

// names and values replaced by other words of the schema's vocabulary
func mutateNamesWith(r *rng.R, src string, vocab []string) string {
	toks := tokens(src)
	n := r.Range(1, 2)
	for k := 0; k < n && len(toks) > 0; k++ {
		i := r.Intn(len(toks))
		c := toks[i][0]
		if c >= 'a' && c <= 'z' || c >= 'A' && c <= 'Z' || c == '_' || c >= '0' && c <= '9' || c == '"' || c == '-' {
			toks[i] = rng.Pick(r, vocab)
		} else if toks[i] == "$" && i+1 < len(toks) {
			toks[i+1] = rng.Pick(r, []string{"v0", "v1", "v2", "zz"})
		}
	}
	return strings.Join(toks, " ")
}

func locsNode(ls []graphql.Location) sexp.Node {
	var out []sexp.Node
	for _, l := range ls {
		out = append(out, sexp.L(sexp.Int(l.Line), sexp.Int(l.Column)))
	}
	return sexp.L(out...)
}

func composedCase(r *rng.R, kind string) sexp.Node {
	var in *exe.Input
	if strings.HasPrefix(kind, "args") {
		in = exe.GenerateArgs(r)
	} else if strings.HasPrefix(kind, "sub") {
		in = exe.GenerateSubscription(r)
	} else {
		in = exe.Generate(r, kind == "hostile")
	}
	text := in.Text
	vars := in.Vars
	switch kind {
	case "renamed", "args-renamed", "sub-renamed":
		text = mutateNamesWith(r, text, append(in.Vocabulary(), composedWords...))
	case "mutated":
		text = mutate(r, text)
	case "raw":
		junk := rawBytes(r)
		switch r.Intn(3) {
		case 0:
			text = junk + text
		case 1:
			text = text + junk
		default:
			i := r.Intn(len(text) + 1)
			text = text[:i] + junk + text[i:]
		}
	case "args-lexical":
		// a string value of the document replaced by a lexical corner (an empty / blank-only
		// block string, escapes, look-alike white space inside a block string, unterminated ...)
		item := rng.Pick(r, lexStringItems)
		if loc := quotedLiteral.FindStringIndex(text); loc != nil {
			text = text[:loc[0]] + item + text[loc[1]:]
		} else {
			text = item + " " + text
		}
	case "vars", "args-vars", "sub-vars":
		// raw variable values the declarations may not accept
		vars = map[string]interface{}{}
		for k, v := range in.Vars {
			vars[k] = v
		}
		for i, n := 0, r.Range(1, 2); i < n; i++ {
			vars[rng.Pick(r, []string{"v0", "v1", "v2", "zz", "n", "s", "b", "xs", "x"})] = rng.Pick(r, []interface{}{true, false, nil, 1.0, 2, 1.5, 2147483648.0, "true", "x",
				[]interface{}{true}, []interface{}{1.0, 2.0}, []interface{}{1.0, nil}, struct{}{}})
		}
	}
	s, err := in.Build()
	if err != nil {
		panic(fmt.Sprintf("harness: generated schema refused: %v", err))
	}
	// the stages on their own: is there a document, is it valid, which variables does the
	// selected operation get
	var doc *ast.Document
	syntax := true
	func() {
		defer func() { recover() }()
		d, errs := parser.ParseDocument([]byte(text))
		if len(errs) == 0 && d != nil {
			doc, syntax = d, false
		}
	}()
	world := sexp.Sym("nil")
	var initial interface{}
	valid := false
	if doc != nil {
		func() {
			defer func() { recover() }()
			valid = len(validator.ValidateDocument(doc, s, nil)) == 0
		}()
		if valid {
			w := in.NewWorld(r, doc)
			world, initial = w.Sexp(), w.Value()
		}
	}
	// kinds "async": about half of the resolvers answer through a promise, fulfilled by the idle
	// handler under one of three schedules; the data must be the synchronous model's
	var sched *exe.Scheduler
	if strings.HasSuffix(kind, "async") {
		sched = exe.NewScheduler(r)
	}
	o := guarded(func() outcome {
		req := &graphql.Request{Context: context.Background(), Query: text, Schema: s,
			OperationName: in.OpName, VariableValues: vars, InitialValue: initial}
		if sched != nil {
			exe.AsyncHook = sched.Hook
			defer func() { exe.AsyncHook = nil }()
			req.IdleHandler = sched.Idle
		}
		return judge(graphql.Execute(req))
	})
	exe.AsyncHook = nil
	var observed sexp.Node
	switch {
	case o.resp == nil:
		observed = sexp.T("none")
	case o.resp.Data == nil:
		// errors only: ParseAndValidate refused the text
		var es []sexp.Node
		for _, e := range o.resp.Errors {
			es = append(es, locsNode(e.Locations))
		}
		if syntax {
			observed = sexp.T("syntax", es...) // in the order reported
		} else {
			// independent validation errors: canonical order
			sort.Slice(es, func(i, j int) bool { return es[i].String() < es[j].String() })
			observed = sexp.T("invalid", es...)
		}
	default:
		observed = sexp.T("executed", exe.Observe(o.resp))
	}
	// the same request through ParseAndValidate with the cost rule (default cost per field, a limit)
	max := rng.Pick(r, []int{-1, 0, 2, 5, 12, 1000})
	res := rng.Pick(r, []int{1, 1, 1, 0, 2, 3})
	actual := -7
	costObs := sexp.T("panic")
	co := guarded(func() outcome {
		_, errs := graphql.ParseAndValidate(text, s, nil, graphql.ValidateCost(in.OpName, vars, max, &actual, graphql.FieldCost{Resolver: res}))
		switch {
		case len(errs) == 0:
			costObs = sexp.T("accepted", sexp.Int(actual))
		case syntax:
			costObs = sexp.T("syntax")
		default:
			costObs = sexp.T("invalid")
		}
		return outcome{class: "ok"}
	})
	if co.class != "ok" {
		costObs = sexp.T(co.class, sexp.Str(co.detail))
	}
	// subscription requests also go through graphql.Subscribe (the source resolver)
	subField := sexp.T("subscribe", sexp.T("obs", sexp.T("skipped")))
	if strings.HasPrefix(kind, "sub") {
		subObs := sexp.T("panic")
		so := guarded(func() outcome {
			_, errs := graphql.Subscribe(&graphql.Request{Context: context.Background(), Query: text, Schema: s,
				OperationName: in.OpName, VariableValues: vars, InitialValue: initial})
			switch {
			case len(errs) == 0:
				subObs = sexp.T("source")
			case syntax:
				subObs = sexp.T("syntax")
			case !valid:
				subObs = sexp.T("invalid")
			default:
				var path []sexp.Node
				for _, c := range errs[0].Path {
					if k, ok := c.(string); ok {
						path = append(path, sexp.Str(k))
					} else {
						path = append(path, sexp.Int(c.(int)))
					}
				}
				subObs = sexp.T("error", sexp.Int(len(errs)), sexp.L(path...))
			}
			return outcome{class: "ok"}
		})
		if so.class != "ok" {
			subObs = sexp.T(so.class, sexp.Str(so.detail))
		}
		subField = sexp.T("subscribe", sexp.T("obs", subObs))
	}
	return sexp.T("case", sexp.T("stream", sexp.Sym("composed")), sexp.T("api", sexp.Sym("execute")), sexp.T("kind", sexp.Sym(kind)),
		subField,
		sexp.T("cost", sexp.T("max", sexp.Int(max)), sexp.T("res", sexp.Int(res)), sexp.T("obs", costObs)),
		sexp.T("async", sexp.Bool(sched != nil)),
		sexp.T("query", sexp.Str(text)), sexp.T("op", sexp.Str(in.OpName)),
		sexp.T("features", sexp.L()),
		sexp.T("vschema", vld.SchemaSexp(s, in.ScalarKinds())),
		sexp.T("eschema", in.SchemaSexp()),
		sexp.T("rawvars", exe.VarsSexp(vars)),
		sexp.T("world", world),
		sexp.T("outcome", sexp.Sym(o.class), sexp.Str(o.detail)), respNode(o),
		sexp.T("observed", observed))
}
