// The "composed" stream: requests that fit the common envelope of the stage models (C06/C07
// front end from bytes, C04 validator, C01 synchronous executor), so that the composed model
// Pipe/Compose.v can be run on the very bytes and compared with graphql.Execute.
//
// Envelope: schemas of c01's family (objects, interfaces, unions, enums, the five built-in scalars
// and renamed copies, no field arguments, no subscriptions, no feature gates); resolvers that answer
// from a finite outcome tree handed in as Request.InitialValue; the request TEXT is anything (the
// generated document, with selections validation refuses, with names replaced, with token-level or
// byte-level damage).  The coerced variables (what @skip/@include see) are observed by calling
// the real validator.CoerceVariableValues on the selected operation.
package main

import (
	"context"
	"fmt"
	"sort"
	"strings"

	"github.com/ccbrown/api-fu/graphql"
	"github.com/ccbrown/api-fu/graphql/ast"
	"github.com/ccbrown/api-fu/graphql/executor"
	"github.com/ccbrown/api-fu/graphql/parser"
	"github.com/ccbrown/api-fu/graphql/validator"

	"verifharness/cmd/c03/exe"
	"verifharness/cmd/c03/vld"
	"verifharness/internal/rng"
	"verifharness/internal/sexp"
)

var composedKinds = []string{"plain", "plain", "hostile", "renamed", "renamed", "mutated", "raw", "vars"}

var composedWords = []string{"__typename", "__schema", "__type", "name", "kind", "queryType", "query", "mutation", "subscription", "fragment", "on",
	"skip", "include", "if", "true", "false", "null", "Boolean", "Int", "String", "$v0", "$v1", "$v2", "Main", "X1", "F1", "F2", "CY", "y_f0", "zt", "m"}

// names and values replaced by other words of the schema's vocabulary
func mutateNamesWith(r *rng.R, src string, vocab []string) string {
	toks := tokens(src)
	n := r.Range(1, 2)
	for k := 0; k < n && len(toks) > 0; k++ {
		i := r.Intn(len(toks))
		c := toks[i][0]
		if c >= 'a' && c <= 'z' || c >= 'A' && c <= 'Z' || c == '_' || c >= '0' && c <= '9' || c == '"' || c == '-' {
			toks[i] = rng.Pick(r, vocab)
		} else if toks[i] == "$" && i+1 < len(toks) {
			toks[i+1] = rng.Pick(r, []string{"v0", "v1", "v2", "zz"})
		}
	}
	return strings.Join(toks, " ")
}

func locsNode(ls []graphql.Location) sexp.Node {
	var out []sexp.Node
	for _, l := range ls {
		out = append(out, sexp.L(sexp.Int(l.Line), sexp.Int(l.Column)))
	}
	return sexp.L(out...)
}

// the coerced variables as far as @skip/@include look at them: booleans and explicit nulls
func envNode(coerced map[string]interface{}) sexp.Node {
	env := map[string]*bool{}
	for k, v := range coerced {
		switch v := v.(type) {
		case bool:
			b := v
			env[k] = &b
		case nil:
			env[k] = nil
		}
	}
	return exe.EnvSexp(env)
}

func composedCase(r *rng.R, kind string) sexp.Node {
	in := exe.Generate(r, kind == "hostile")
	text := in.Text
	vars := in.Vars
	switch kind {
	case "renamed":
		text = mutateNamesWith(r, text, append(in.Vocabulary(), composedWords...))
	case "mutated":
		text = mutate(r, text)
	case "raw":
		junk := rawBytes(r)
		switch r.Intn(3) {
		case 0:
			text = junk + text
		case 1:
			text = text + junk
		default:
			i := r.Intn(len(text) + 1)
			text = text[:i] + junk + text[i:]
		}
	case "vars":
		// raw variable values the declarations may not accept
		vars = map[string]interface{}{}
		for k, v := range in.Vars {
			vars[k] = v
		}
		for i, n := 0, r.Range(1, 2); i < n; i++ {
			vars[rng.Pick(r, []string{"v0", "v1", "v2", "zz"})] = rng.Pick(r, []interface{}{true, false, nil, 1.0, "true", []interface{}{true}, map[string]interface{}{}})
		}
	}
	s, err := in.Build()
	if err != nil {
		panic(fmt.Sprintf("harness: generated schema refused: %v", err))
	}
	// the stages on their own: is there a document, is it valid, which variables does the
	// selected operation get
	var doc *ast.Document
	syntax := true
	func() {
		defer func() { recover() }()
		d, errs := parser.ParseDocument([]byte(text))
		if len(errs) == 0 && d != nil {
			doc, syntax = d, false
		}
	}()
	world := sexp.Sym("nil")
	var initial interface{}
	coerced := sexp.Sym("none") // no operation selected, or not reached
	if doc != nil {
		valid := false
		func() {
			defer func() { recover() }()
			valid = len(validator.ValidateDocument(doc, s, nil)) == 0
		}()
		if valid {
			w := in.NewWorld(r, doc)
			world, initial = w.Sexp(), w.Value()
			func() {
				defer func() { recover() }()
				if op, err := executor.GetOperation(doc, in.OpName); err == nil {
					if cv, err := validator.CoerceVariableValues(s, nil, op, vars); err == nil {
						coerced = sexp.T("ok", envNode(cv))
					} else {
						coerced = sexp.Sym("rejected")
					}
				}
			}()
		}
	}
	o := guarded(func() outcome {
		return judge(graphql.Execute(&graphql.Request{Context: context.Background(), Query: text, Schema: s,
			OperationName: in.OpName, VariableValues: vars, InitialValue: initial}))
	})
	var observed sexp.Node
	switch {
	case o.resp == nil:
		observed = sexp.T("none")
	case o.resp.Data == nil:
		// errors only: ParseAndValidate refused the text
		var es []sexp.Node
		for _, e := range o.resp.Errors {
			es = append(es, locsNode(e.Locations))
		}
		if syntax {
			observed = sexp.T("syntax", es...) // in the order reported
		} else {
			// independent validation errors: canonical order
			sort.Slice(es, func(i, j int) bool { return es[i].String() < es[j].String() })
			observed = sexp.T("invalid", es...)
		}
	default:
		observed = sexp.T("executed", exe.Observe(o.resp))
	}
	return sexp.T("case", sexp.T("stream", sexp.Sym("composed")), sexp.T("api", sexp.Sym("execute")), sexp.T("kind", sexp.Sym(kind)),
		sexp.T("query", sexp.Str(text)), sexp.T("op", sexp.Str(in.OpName)),
		sexp.T("features", sexp.L()),
		sexp.T("vschema", vld.SchemaSexp(s, in.ScalarKinds())),
		sexp.T("eschema", in.SchemaSexp()),
		sexp.T("coerced", coerced),
		sexp.T("world", world),
		sexp.T("outcome", sexp.Sym(o.class), sexp.Str(o.detail)), respNode(o),
		sexp.T("observed", observed))
}
